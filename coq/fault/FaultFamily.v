(** * Layer F — several lists in one heap under panics (C18, the composite caches).

    [famw h F fl]: every list of the family is weakly well formed ([wfw]: FaultFacts.v), the footprints
    of the lists and the nodes in flight are pairwise disjoint.  Cells outside them are arbitrary:
    nodes lost by a panic stay allocated for ever (the allocator never hands out an address twice).
    Every action of [gstep] (FaultPrim.v), with any fuse, keeps the family or panics in a family; none
    makes a memory error.  So does every program over the primitives, and every history of such
    programs with panics in between. *)
From VF Require Import Base Lru BaseFacts LruFacts Heap HeapFacts HeapOps HeapRun HeapPrim HeapFrame HeapMulti
  Fault FaultFacts FaultPrim.
From Coq Require Import List Arith Lia Permutation.
Import ListNotations.
Local Open Scope nat_scope.

(** [ext] with nodes in flight handed to the operation: it may write them and link them *)
Definition extS (S : list addr) (h : heap) (q : hlru) (l : list (addr * entry))
                (h' : heap) (q' : hlru) (l' : list (addr * entry)) : Prop :=
  hhead q' = hhead q /\ htail q' = htail q /\ fresh h <= fresh h' /\
  (forall x, In x (addrs l') -> In x (addrs l) \/ In x S \/ fresh h <= x) /\
  (forall x, outside q l x -> ~ In x S -> x < fresh h -> cells h' x = cells h x) /\
  hcap q' = hcap q.

Lemma ext_extS S h q l h' q' l' : ext h q l h' q' l' -> extS S h q l h' q' l'.
Proof.
  intros (A1 & A2 & A3 & A4 & A5 & A6). split; [exact A1|]. split; [exact A2|]. split; [exact A3|]. split; [|split; [|exact A6]].
  - intros x Hx. destruct (A4 x Hx); auto.
  - intros x Ho _ Hlt. now apply A5.
Qed.

(** ... forgetting the capacity ([resize] changes it) *)
Definition extW (S : list addr) (h : heap) (q : hlru) (l : list (addr * entry))
                (h' : heap) (q' : hlru) (l' : list (addr * entry)) : Prop :=
  hhead q' = hhead q /\ htail q' = htail q /\ fresh h <= fresh h' /\
  (forall x, In x (addrs l') -> In x (addrs l) \/ In x S \/ fresh h <= x) /\
  (forall x, outside q l x -> ~ In x S -> x < fresh h -> cells h' x = cells h x).

Lemma extS_extW S h q l h' q' l' : extS S h q l h' q' l' -> extW S h q l h' q' l'.
Proof. intros (A1 & A2 & A3 & A4 & A5 & _). repeat split; auto. Qed.

Lemma extS_refl S h q l : extS S h q l h q l.
Proof. apply ext_extS, ext_refl. Qed.

Definition okxS (S : list addr) (h : heap) (q : hlru) (l : list (addr * entry)) (h' : heap) (q' : hlru) : Prop :=
  exists l', wfw h' q' l' /\ extS S h q l h' q' l'.

Definition fsafexS (S : list addr) (h : heap) (q : hlru) (l : list (addr * entry)) {A} (P : A -> Prop) (r : fres A) : Prop :=
  match r with FOk a => P a | FPanic h' q' => okxS S h q l h' q' | FErr _ => False end.

Lemma fsafexS_bind S h q l {A B} (P : A -> Prop) (Q : B -> Prop) (r : fres A) (f : A -> fres B) :
  fsafexS S h q l P r -> (forall a, P a -> fsafexS S h q l Q (f a)) -> fsafexS S h q l Q (fbind r f).
Proof. destruct r; cbn; auto. Qed.

Lemma fsafex_S S h q l {A} (P : A -> Prop) (r : fres A) : fsafex h q l P r -> fsafexS S h q l P r.
Proof. destruct r; cbn; auto. intros (l' & Hw & Hx). exists l'. split; [exact Hw|now apply ext_extS]. Qed.

Lemma tick_safexS S h0 q0 l0 c f h q : okxS S h0 q0 l0 h q -> fsafexS S h0 q0 l0 (fun _ => True) (tick c f h q).
Proof.
  intros H. unfold tick. destruct f as [[c' n]|]; [|exact I].
  destruct (tclass_eqb c c'); [destruct n; [exact H|exact I]|exact I].
Qed.

Lemma tick_insert_safexS S h0 q0 l0 f h q : okxS S h0 q0 l0 h q -> fsafexS S h0 q0 l0 (fun _ => True) (tick_insert f h q).
Proof. intros H. unfold tick_insert. destruct f as [[[] n]|]; cbn; auto. Qed.

(** ** the weak family *)
Record famw (h : heap) (F : list hlist) (fl : list (addr * entry)) : Prop := mkFamw {
  fw_wf : forall q l, In (q, l) F -> wfw h q l;
  fw_nd : NoDup (flat_map fp F ++ addrs fl);
  fw_fl : forall a k v, In (a, (k, v)) fl -> inflight h a k v
}.

Lemma famw_empty : famw heap0 [] [].
Proof. constructor; cbn; [intros ? ? []|constructor|intros ? ? ? []]. Qed.

Lemma wfw_below h q l x : wfw h q l -> In x (fp (q, l)) -> x < fresh h.
Proof. intros (Hc & _) Hx. now apply (ch_fresh _ _ _ Hc). Qed.

Lemma wfw_frame h h' q l :
  wfw h q l -> (forall x, In x (fp (q, l)) -> cells h' x = cells h x) -> fresh h <= fresh h' -> wfw h' q l.
Proof. intros (Hc & Hs) Hf Hle. split; [eapply chain_frame; eauto|exact Hs]. Qed.

Lemma inflight_frame h h' a k v : inflight h a k v -> cells h' a = cells h a -> fresh h <= fresh h' -> inflight h' a k v.
Proof. intros (Hlt & p & x & E) Ec Hle. split; [lia|]. exists p, x. congruence. Qed.

Lemma famw_below h F fl x : famw h F fl -> In x (flat_map fp F ++ addrs fl) -> x < fresh h.
Proof.
  intros [Hwf _ Hfl] Hx. apply in_app_or in Hx. destruct Hx as [Hx|Hx].
  - apply in_flat_map in Hx. destruct Hx as ([q l] & Hql & Hx). exact (wfw_below h q l x (Hwf q l Hql) Hx).
  - unfold addrs in Hx. apply in_map_iff in Hx. destruct Hx as ([a [k v]] & <- & Hin). destruct (Hfl a k v Hin) as [H _]. exact H.
Qed.

(** cells of the family untouched, nothing freed below the allocation pointer: the family stays *)
Lemma famw_frame h h' F fl :
  famw h F fl -> fresh h <= fresh h' ->
  (forall x, In x (flat_map fp F ++ addrs fl) -> cells h' x = cells h x) -> famw h' F fl.
Proof.
  intros [Hwf Hnd Hfl] Hle Hfr. constructor.
  - intros q l Hql. eapply wfw_frame; [exact (Hwf q l Hql)| |exact Hle].
    intros x Hx. apply Hfr. apply in_or_app. left. apply in_flat_map. exists (q, l). auto.
  - exact Hnd.
  - intros a k v Hin. eapply inflight_frame; [exact (Hfl a k v Hin)| |exact Hle].
    apply Hfr. apply in_or_app. right. unfold addrs. apply in_map_iff. exists (a, (k, v)). auto.
Qed.

Lemma perm_focus2 (F1 F2 : list hlist) (x : hlist) (flA flB : list (addr * entry)) :
  Permutation (flat_map fp (F1 ++ x :: F2) ++ addrs (flA ++ flB))
              ((fp x ++ addrs flA) ++ flat_map fp (F1 ++ F2) ++ addrs flB).
Proof.
  etransitivity; [apply perm_focus|]. rewrite addrs_app, <- !app_assoc.
  apply Permutation_app_head. apply Permutation_app_head. apply Permutation_app_comm.
Qed.

(** focusing on one list and some of the nodes in flight: the rest is a family, disjoint from them *)
Lemma famw_focus h F1 q l F2 flA flB :
  famw h (F1 ++ (q, l) :: F2) (flA ++ flB) ->
  famw h (F1 ++ F2) flB /\ wfw h q l /\ (forall a k v, In (a, (k, v)) flA -> inflight h a k v) /\
  NoDup (fp (q, l) ++ addrs flA) /\
  (forall x, In x (fp (q, l) ++ addrs flA) -> In x (flat_map fp (F1 ++ F2) ++ addrs flB) -> False).
Proof.
  intros [Hwf Hnd Hfl].
  assert (Hp : Permutation (flat_map fp (F1 ++ (q, l) :: F2) ++ addrs (flA ++ flB))
                           ((fp (q, l) ++ addrs flA) ++ flat_map fp (F1 ++ F2) ++ addrs flB)).
  { apply perm_focus2. }
  pose proof (Permutation_NoDup Hp Hnd) as Hnd1. destruct (nodup_app_elim _ _ Hnd1) as (HA & HB & Hd).
  split; [|split; [|split; [|split; [exact HA|exact Hd]]]].
  - constructor.
    + intros q2 l2 Hin. apply Hwf. apply in_app_or in Hin. apply in_or_app. destruct Hin; [now left|right; now right].
    + exact HB.
    + intros a k v Hin. apply Hfl. apply in_or_app. now right.
  - apply Hwf. apply in_or_app. right. now left.
  - intros a k v Hin. apply Hfl. apply in_or_app. now left.
Qed.

(** ... and putting a list and nodes in flight (back) into a family *)
Lemma famw_insert h F1 q l F2 flA flB :
  famw h (F1 ++ F2) flB -> wfw h q l -> (forall a k v, In (a, (k, v)) flA -> inflight h a k v) ->
  NoDup (fp (q, l) ++ addrs flA) ->
  (forall x, In x (fp (q, l) ++ addrs flA) -> In x (flat_map fp (F1 ++ F2) ++ addrs flB) -> False) ->
  famw h (F1 ++ (q, l) :: F2) (flA ++ flB).
Proof.
  intros [Hwf Hnd Hfl] Hw HflA HndA Hd.
  assert (Hp : Permutation (flat_map fp (F1 ++ (q, l) :: F2) ++ addrs (flA ++ flB))
                           ((fp (q, l) ++ addrs flA) ++ flat_map fp (F1 ++ F2) ++ addrs flB)).
  { apply perm_focus2. }
  constructor.
  - intros q2 l2 Hin. apply in_app_or in Hin. destruct Hin as [Hin|[Hin|Hin]].
    + apply Hwf. apply in_or_app. now left.
    + inversion Hin; subst. exact Hw.
    + apply Hwf. apply in_or_app. now right.
  - eapply Permutation_NoDup; [apply Permutation_sym; exact Hp|]. apply nodup_app_intro; assumption.
  - intros a k v Hin. apply in_app_or in Hin. destruct Hin; [now apply HflA|now apply Hfl].
Qed.

(** the separation step: an operation on one list that was handed the nodes in flight [flA] *)
Theorem famw_step h h' F1 q l F2 flA flB q' l' fl' :
  famw h (F1 ++ (q, l) :: F2) (flA ++ flB) ->
  wfw h' q' l' -> extW (addrs flA) h q l h' q' l' ->
  (forall a k v, In (a, (k, v)) fl' -> inflight h' a k v) ->
  NoDup (fp (q', l') ++ addrs fl') ->
  (forall x, In x (addrs fl') -> In x (addrs l) \/ In x (addrs flA) \/ fresh h <= x) ->
  famw h' (F1 ++ (q', l') :: F2) (fl' ++ flB).
Proof.
  intros Hf Hw' (E1 & E2 & Hle & Hsub & Hfr) Hfl' Hnd' Hsub'.
  destruct (famw_focus h F1 q l F2 flA flB Hf) as (Hrest & Hw & HflA & HndA & Hd).
  assert (Hb : forall x, In x (flat_map fp (F1 ++ F2) ++ addrs flB) -> x < fresh h) by (intros x; apply famw_below; exact Hrest).
  assert (Hout : forall x, In x (flat_map fp (F1 ++ F2) ++ addrs flB) -> outside q l x /\ ~ In x (addrs flA)).
  { intros x Hx. split; [split; [|split]|]; intros Hc; apply (Hd x); auto; apply in_or_app.
    - left. rewrite Hc. now left.
    - left. rewrite Hc. right. now left.
    - left. right. now right.
    - now right. }
  apply famw_insert; [| exact Hw' | exact Hfl' | exact Hnd' |].
  - eapply famw_frame; [exact Hrest|exact Hle|]. intros x Hx. destruct (Hout x Hx). apply Hfr; auto.
  - intros x Hx Hx2. pose proof (Hb x Hx2) as Hlt. destruct (Hout x Hx2) as ((O1 & O2 & O3) & O4).
    apply in_app_or in Hx. destruct Hx as [Hx|Hx].
    + unfold fp in Hx. cbn [fst snd] in Hx. rewrite E1, E2 in Hx. destruct Hx as [Hx|[Hx|Hx]]; [congruence|congruence|].
      destruct (Hsub x Hx) as [H|[H|H]]; [contradiction|contradiction|lia].
    + destruct (Hsub' x Hx) as [H|[H|H]]; [contradiction|contradiction|lia].
Qed.

(** ** the primitives, one list *)

(** unlinking an indexed node whose index entry is already gone: the node is in flight *)
Lemma unlink_w h q q1 l n k v :
  chain h q l -> hhead q1 = hhead q -> htail q1 = htail q -> hcap q1 = hcap q ->
  idx_sub q1 l -> ~ In n (map snd (hidx q1)) -> In (n, (k, v)) l ->
  exists h1 l', detach h n = HOk h1 /\ wfw h1 q1 l' /\ ext h q l h1 q1 l' /\ inflight h1 n k v /\
                In n (addrs l) /\ ~ In n (fp (q1, l')) /\ (forall x, In x (addrs l') -> In x (addrs l)) /\
                fresh h1 = fresh h /\ (forall x, outside q l x -> cells h1 x = cells h x).
Proof.
  intros Hc E1 E2 E3 Hs Hno Hin. destruct (in_split_entry l n k v Hin) as (l1 & l2 & ->).
  destruct (detach_chain h q l1 n (k, v) l2 Hc) as (h1 & Ed & Hc1 & Ea & Ef1 & Hfr1).
  pose proof (seg_mid _ _ _ _ _ _ _ _ (ch_seg _ _ _ Hc)) as Ecell. rewrite <- Ea in Ecell.
  pose proof (ch_nodup _ _ _ Hc) as Hnd0. rewrite addrs_app in Hnd0. cbn [addrs map fst] in Hnd0.
  destruct (nodup_split_facts _ _ _ _ _ Hnd0) as (Hht & Hha & Hta & Hh1 & Hh2 & Ht1 & Ht2 & Ha1 & Ha2 & _).
  assert (Hnotin : ~ In n (hhead q :: htail q :: addrs (l1 ++ l2))).
  { rewrite addrs_app. cbn [In]. rewrite in_app_iff. intros [E|[E|[H|H]]]; congruence || contradiction. }
  assert (Hsub : forall x, In x (addrs (l1 ++ l2)) -> In x (addrs (l1 ++ (n, (k, v)) :: l2))).
  { intros x. rewrite !addrs_app. cbn [addrs map fst]. rewrite !in_app_iff. cbn [In]. tauto. }
  assert (Hfr : forall x, outside q (l1 ++ (n, (k, v)) :: l2) x -> cells h1 x = cells h x).
  { intros x Ho. destruct (outside_split _ _ _ _ _ _ Ho) as (X1 & X2 & X3 & X4). now apply Hfr1. }
  exists h1, (l1 ++ l2). split; [exact Ed|]. split; [|split; [|split; [|split; [|split; [|split; [exact Hsub|split; [exact Ef1|exact Hfr]]]]]]].
  - split; [eapply chain_descr; [| |exact Hc1]; assumption|].
    destruct Hs as (A & B). split; [exact A|]. intros p Hp. destruct (B p Hp) as [Ep Hpin]. split; [exact Ep|].
    rewrite addrs_app in Hpin. cbn [addrs map fst] in Hpin. rewrite addrs_app.
    apply in_app_or in Hpin. apply in_or_app. destruct Hpin as [H|[H|H]]; [now left| |now right].
    exfalso. apply Hno. apply in_map_iff. exists p. split; [congruence|exact Hp].
  - apply ext_same; [exact E1|exact E2|exact E3|exact Ef1|exact Hsub|exact Hfr].
  - split; [|eauto]. rewrite Ef1. apply (ch_fresh _ _ _ Hc). right. right. rewrite addrs_app. apply in_or_app. right. now left.
  - rewrite addrs_app. apply in_or_app. right. now left.
  - unfold fp. cbn [fst snd]. rewrite E1, E2. exact Hnotin.
Qed.

(** what [remove_and_return_ent] / [remove_lru_in] hand back *)
Definition took (h : heap) (q : hlru) (l : list (addr * entry)) (h1 : heap) (q1 : hlru) (r : option addr) : Prop :=
  match r with
  | None => okx h q l h1 q1
  | Some n => exists k v l', wfw h1 q1 l' /\ ext h q l h1 q1 l' /\ inflight h1 n k v /\
                             In n (addrs l) /\ ~ In n (fp (q1, l'))
  end.

Theorem f_remove_ent_safe f h q l k :
  wfw h q l -> fsafex h q l (fun '(f1, h1, q1, r) => took h q l h1 q1 r) (f_remove_ent f h q k).
Proof.
  intros Hw. unfold f_remove_ent. eapply fsafex_bind; [apply tick_safex; now apply okx_refl|]. intros f1 _.
  destruct (idx_remove_w h q l k Hw) as (q1 & r & -> & E1 & E2 & E3 & Hr). cbn [lift fbind].
  destruct r as [n|]; [|subst q1; cbn; now apply okx_refl].
  destruct Hr as (Hs1 & Hno & (v & Hin) & _ & _). destruct Hw as (Hc & _).
  destruct (unlink_w h q q1 l n k v Hc E1 E2 E3 Hs1 Hno Hin) as (h1 & l' & -> & Hw1 & Hx & Hfl & Hin1 & Hnf & _).
  cbn. exists k, v, l'. auto.
Qed.

Theorem f_remove_lru_in_safe f h q l :
  wfw h q l -> fsafex h q l (fun '(f1, h1, q1, r) => took h q l h1 q1 r) (f_remove_lru_in f h q).
Proof.
  intros Hw. pose proof Hw as (Hc & Hs). unfold f_remove_lru_in.
  destruct (rev_ind_split l) as [El0|(l0 & [a [ek ev]] & El0)].
  - rewrite El0 in Hc. rewrite (tail_prev_empty h q Hc). cbn [lift fbind]. rewrite Nat.eqb_refl. cbn. now apply okx_refl.
  - rewrite El0 in Hc. rewrite (tail_prev_last h q l0 a (ek, ev) Hc). cbn [lift fbind].
    pose proof (ch_nodup _ _ _ Hc) as Hnd0. rewrite addrs_app in Hnd0. cbn [addrs map fst] in Hnd0.
    destruct (nodup_split_facts _ _ _ _ _ Hnd0) as (Hht & Hha & _).
    destruct (Nat.eqb_spec a (hhead q)); [congruence|].
    rewrite (key_at_chain h q _ a ek ev Hc) by (apply in_or_app; right; now left). cbn [lift fbind].
    rewrite <- El0 in Hc.
    eapply fsafex_bind; [apply tick_safex; now apply okx_refl|]. intros f1 _.
    destruct (idx_remove_w h q _ ek Hw) as (q1 & r & -> & E1 & E2 & E3 & Hr). cbn [lift fbind].
    destruct r as [b|]; [|subst q1; cbn; now apply okx_refl].
    destruct Hr as (Hs1 & Hno & (v & Hin) & _ & _).
    destruct (unlink_w h q q1 l b ek v Hc E1 E2 E3 Hs1 Hno Hin) as (h1 & l' & -> & Hw1 & Hx & Hfl & Hin1 & Hnf & _).
    cbn. exists ek, v, l'. auto.
Qed.

(** attaching a node in flight *)
Lemma attach_w h q l n k v :
  wfw h q l -> inflight h n k v -> ~ In n (fp (q, l)) ->
  exists h1, attach h q n = HOk h1 /\ wfw h1 q ((n, (k, v)) :: l) /\ fresh h1 = fresh h /\
             ~ In n (map snd (hidx q)) /\
             (forall x, outside q l x -> x <> n -> cells h1 x = cells h x).
Proof.
  intros (Hc & Hs) (Hlt & pa & na & Ecell) Hn. unfold fp in Hn. cbn [fst snd] in Hn.
  destruct (attach_chain h q l n k v pa na Hc Hn Hlt Ecell) as (h1 & E & Hc1 & Ef & Hfr).
  exists h1. split; [exact E|]. split; [|split; [exact Ef|split]].
  - split; [exact Hc1|]. eapply idx_sub_incl; [exact Hs|]. intros x Hx. now right.
  - intros Hin. apply in_map_iff in Hin. destruct Hin as (p & Ep & Hp). destruct Hs as (_ & Hall).
    destruct (Hall p Hp) as [_ Hpl]. apply Hn. right. right. congruence.
  - intros x (X1 & X2 & X3) X4. now apply Hfr.
Qed.

Definition gave (n : addr) (h : heap) (q : hlru) (l : list (addr * entry)) (h1 : heap) (q1 : hlru) (r : option addr) : Prop :=
  exists l', wfw h1 q1 l' /\ extS [n] h q l h1 q1 l' /\ hcap q1 = hcap q /\
    match r with
    | None => True
    | Some old => exists ek ev, inflight h1 old ek ev /\ In old (addrs l) /\ ~ In old (fp (q1, l'))
    end.

Lemma okxS_refl S h q l : wfw h q l -> okxS S h q l h q.
Proof. intros H. exists l. split; [exact H|apply extS_refl]. Qed.

Theorem f_put_or_evict_safe f h q l n k v :
  wfw h q l -> inflight h n k v -> ~ In n (fp (q, l)) -> 0 < hcap q ->
  fsafexS [n] h q l (fun '(f1, h1, q1, r) => gave n h q l h1 q1 r) (f_put_or_evict_nonnull f h q n).
Proof.
  intros Hw Hfl Hn Hcap. pose proof Hw as (Hc & Hs). unfold f_put_or_evict_nonnull.
  destruct (Nat.leb_spec (hcap q) (length (hidx q))) as [Hfull|Hroom].
  - (* full: the indexed node carrying the key of the last node is unlinked first *)
    assert (Hne : l <> []).
    { apply (idx_nonempty_list q l Hs). intros E. rewrite E in Hfull. cbn in Hfull. lia. }
    destruct (rev_ind_split l) as [El0|(l0 & [a [ek ev]] & El0)]; [congruence|].
    rewrite El0 in Hc. rewrite (tail_prev_last h q l0 a (ek, ev) Hc). cbn [lift fbind].
    rewrite (key_at_chain h q _ a ek ev Hc) by (apply in_or_app; right; now left). cbn [lift fbind].
    rewrite <- El0 in Hc.
    eapply fsafexS_bind; [apply tick_safexS; now apply okxS_refl|]. intros f1 _.
    destruct (idx_remove_w h q l ek Hw) as (q1 & r & -> & E1 & E2 & E3 & Hr). cbn [lift fbind].
    destruct r as [old|]; [|cbn; now apply okxS_refl].
    destruct Hr as (Hs1 & Hno & (v0 & Hin0) & _ & _).
    destruct (unlink_w h q q1 l old ek v0 Hc E1 E2 E3 Hs1 Hno Hin0)
      as (h1 & l' & -> & Hw1 & Hx1 & Hflo & Hino & Hnfo & Hsub & Ef1 & Hfr1).
    cbn [lift fbind].
    assert (Hno' : outside q l n).
    { unfold fp in Hn. cbn [fst snd In] in Hn. repeat split; intros X; apply Hn; auto. }
    assert (Hfl1 : inflight h1 n k v).
    { eapply inflight_frame; [exact Hfl|now apply Hfr1|lia]. }
    assert (Hn1 : ~ In n (fp (q1, l'))).
    { unfold fp in *. cbn [fst snd In] in *. rewrite E1, E2. intros [X|[X|X]]; apply Hn; auto. }
    destruct (attach_w h1 q1 l' n k v Hw1 Hfl1 Hn1) as (h2 & -> & Hw2 & Ef2 & Hni & Hfr2). cbn [lift fbind].
    assert (Hext : forall q2, hhead q2 = hhead q1 -> htail q2 = htail q1 -> hcap q2 = hcap q1 ->
                              extS [n] h q l h2 q2 ((n, (k, v)) :: l')).
    { intros q2 X1 X2 X3. split; [congruence|]. split; [congruence|]. split; [lia|]. split; [|split; [|congruence]].
      - cbn [addrs map fst In]. intros x [<-|Hx]; [right; left; now left|left; now apply Hsub].
      - intros x Ho Hx Hlt. rewrite Hfr2; [now apply Hfr1| |intros ->; apply Hx; now left].
        destruct Ho as (O1 & O2 & O3). split; [congruence|]. split; [congruence|]. intros X. apply O3. now apply Hsub. }
    eapply fsafexS_bind; [apply tick_insert_safexS; eexists; split; [exact Hw2|now apply Hext]|]. intros f2 _.
    cbn. exists ((n, (k, v)) :: l'). split; [|split; [now apply Hext|split; [exact E3|]]].
    + destruct Hw2 as (Hc2 & Hs2). split; [eapply chain_descr; [| |exact Hc2]; reflexivity|].
      apply idx_sub_insert; [exact Hs2|now left|exact Hni].
    + exists ek, v0. assert (Hon : old <> n) by (intros ->; destruct Hno' as (_ & _ & X); contradiction).
      split; [|split; [exact Hino|]].
      * eapply inflight_frame; [exact Hflo| |lia]. apply Hfr2; [|exact Hon].
        unfold fp in Hnfo. cbn [fst snd In] in Hnfo. repeat split; intros X; apply Hnfo; auto.
      * unfold fp in *. cbn [fst snd In addrs map idx_insert with_idx hhead htail] in *. intros [X|[X|[X|X]]]; [apply Hnfo; auto|apply Hnfo; auto|congruence|apply Hnfo; auto].
  - (* room *)
    destruct (attach_w h q l n k v Hw Hfl Hn) as (h1 & -> & Hw1 & Ef1 & Hni & Hfr1). cbn [lift fbind].
    assert (Hext : forall q2, hhead q2 = hhead q -> htail q2 = htail q -> hcap q2 = hcap q ->
                              extS [n] h q l h1 q2 ((n, (k, v)) :: l)).
    { intros q2 X1 X2 X3. split; [exact X1|]. split; [exact X2|]. split; [lia|]. split; [|split; [|exact X3]].
      - cbn [addrs map fst In]. intros x [<-|Hx]; [right; left; now left|now left].
      - intros x Ho Hx Hlt. apply Hfr1; [exact Ho|intros ->; apply Hx; now left]. }
    eapply fsafexS_bind; [apply tick_insert_safexS; eexists; split; [exact Hw1|now apply Hext]|]. intros f2 _.
    cbn. exists ((n, (k, v)) :: l). split; [|split; [now apply Hext|split; [reflexivity|exact I]]].
    destruct Hw1 as (Hc1 & Hs1). split; [eapply chain_descr; [| |exact Hc1]; reflexivity|].
    apply idx_sub_insert; [exact Hs1|now left|exact Hni].
Qed.

Theorem f_put_nonnull_safe f h q l n k v :
  wfw h q l -> inflight h n k v -> ~ In n (fp (q, l)) -> 0 < hcap q ->
  fsafexS [n] h q l (fun '(f1, h1, q1, r) => exists l', wfw h1 q1 l' /\ extS [n] h q l h1 q1 l' /\ hcap q1 = hcap q)
          (f_put_nonnull f h q n).
Proof.
  intros Hw Hfl Hn Hcap. unfold f_put_nonnull.
  eapply fsafexS_bind; [apply (f_put_or_evict_safe f h q l n k v Hw Hfl Hn Hcap)|].
  intros [[[f1 h1] q1] r] (l' & Hw1 & Hx & Ec & Hr). destruct r as [old|]; [|cbn; eauto].
  destruct Hr as (ek & ev & (Hlt & p & x & Ecell) & Hino & Hnfo).
  unfold take_kv, hfree. rewrite (hread_node _ _ _ _ _ _ Ecell). cbn [hbind lift fbind]. rewrite Ecell. cbn [lift fbind].
  exists l'. split; [|split; [|exact Ec]].
  - eapply wfw_frame; [exact Hw1| |rewrite fresh_hupd; lia]. intros y Hy. apply cells_hupd_other. intros ->. contradiction.
  - destruct Hx as (X1 & X2 & X3 & X4 & X5 & X6). split; [exact X1|]. split; [exact X2|]. split; [now rewrite fresh_hupd|].
    split; [exact X4|]. split; [|exact X6]. intros y Ho Hy Hlt'. rewrite cells_hupd_other; [now apply X5|].
    intros ->. destruct Ho as (_ & _ & O3). contradiction.
Qed.

Theorem f_update_key_safe f h q l k v :
  wfw h q l -> fsafex h q l (fun '(f1, h1, _) => okx h q l h1 q) (f_update_key f h q k v).
Proof.
  intros Hw. unfold f_update_key. eapply fsafex_bind; [apply (f_find_safe f h q l k Hw)|].
  intros [f1 r] Hr. destruct r as [n|]; [|cbn; now apply okx_refl].
  destruct Hr as [Hi (old & Hin)]. destruct (update_w h q l n k old v Hw Hin) as (h' & -> & Hok). cbn. exact Hok.
Qed.

(** ** Drop with its footprint: whether it ends or panics, nothing outside the list is touched *)
Lemma f_drop_nodes_frame (i : list (addr * addr)) : forall f h q,
  NoDup (map snd i) ->
  (forall a, In a (map snd i) -> exists k v p n, cells h a = Node (Some k) (Some v) p n) ->
  match f_drop_nodes f h q i with
  | FOk (_, h1) => fresh h1 = fresh h /\ forall x, ~ In x (map snd i) -> cells h1 x = cells h x
  | FPanic h1 _ => fresh h1 = fresh h /\ forall x, ~ In x (map snd i) -> cells h1 x = cells h x
  | FErr _ => False
  end.
Proof.
  induction i as [|[ka na] rest IH]; intros f h q Hnd Hall; [cbn; auto|].
  cbn [map snd] in Hnd, Hall. apply NoDup_cons_iff in Hnd. destruct Hnd as [Hnotin Hnd].
  destruct (Hall na (or_introl eq_refl)) as (k & v & p & n & E).
  cbn [f_drop_nodes]. unfold take_kv, hfree. rewrite (hread_node _ _ _ _ _ _ E). cbn [hbind lift fbind]. rewrite E.
  cbn [lift fbind].
  assert (Hfr0 : fresh (hupd h na Free) = fresh h /\
                 forall x, ~ In x (map snd ((ka, na) :: rest)) -> cells (hupd h na Free) x = cells h x).
  { split; [apply fresh_hupd|]. intros x Hx. apply cells_hupd_other. intros ->. apply Hx. now left. }
  assert (T : forall c f0, match tick c f0 (hupd h na Free) q with
                           | FOk _ => True | FPanic h1 _ => h1 = hupd h na Free | FErr _ => False end).
  { intros c f0. unfold tick. destruct f0 as [[c' m]|]; [|exact I]. destruct (tclass_eqb c c'); [destruct m|]; auto. }
  pose proof (T TDropK f) as T1.
  destruct (tick TDropK f (hupd h na Free) q) as [f1|h' q'|e]; cbn [fbind]; [|subst h'; exact Hfr0|exact T1].
  pose proof (T TDropV f1) as T2.
  destruct (tick TDropV f1 (hupd h na Free) q) as [f2|h' q'|e]; cbn [fbind]; [|subst h'; exact Hfr0|exact T2].
  specialize (IH f2 (hupd h na Free) q Hnd).
  assert (Hall' : forall a, In a (map snd rest) -> exists k v p n, cells (hupd h na Free) a = Node (Some k) (Some v) p n).
  { intros a Ha. rewrite cells_hupd_other by (intros ->; contradiction). apply Hall. now right. }
  specialize (IH Hall').
  destruct (f_drop_nodes f2 (hupd h na Free) q rest) as [[f3 h3]|h' q'|e]; [| |exact IH].
  - destruct IH as (A & B). split; [now rewrite A, fresh_hupd|].
    intros x Hx. cbn [map snd In] in Hx. rewrite B by tauto. apply cells_hupd_other. intros ->. tauto.
  - destruct IH as (A & B). split; [now rewrite A, fresh_hupd|].
    intros x Hx. cbn [map snd In] in Hx. rewrite B by tauto. apply cells_hupd_other. intros ->. tauto.
Qed.

Theorem f_drop_frame f h q l :
  wfw h q l ->
  match f_drop f h q with
  | FOk h1 => fresh h1 = fresh h /\ forall x, outside q l x -> cells h1 x = cells h x
  | FPanic h1 _ => fresh h1 = fresh h /\ forall x, outside q l x -> cells h1 x = cells h x
  | FErr _ => False
  end.
Proof.
  intros (Hc & Hnd & Hall). unfold f_drop.
  pose proof (ch_nodup _ _ _ Hc) as Hnd0. apply NoDup_cons_iff in Hnd0. destruct Hnd0 as [Hh Hnd0].
  apply NoDup_cons_iff in Hnd0. destruct Hnd0 as [Ht Hnd0].
  assert (Hin : forall a, In a (map snd (hidx q)) -> In a (addrs l)).
  { intros a Ha. apply in_map_iff in Ha. destruct Ha as (p & <- & Hp). now apply Hall. }
  assert (Hout : forall x, outside q l x -> ~ In x (map snd (hidx q))).
  { intros x (_ & _ & O3) X. apply O3. now apply Hin. }
  pose proof (f_drop_nodes_frame (hidx q) f h q Hnd) as H.
  assert (Hcells : forall a, In a (map snd (hidx q)) -> exists k v p n, cells h a = Node (Some k) (Some v) p n).
  { intros a Ha. eapply seg_cell; [exact (ch_seg _ _ _ Hc)|now apply Hin]. }
  specialize (H Hcells).
  destruct (f_drop_nodes f h q (hidx q)) as [[f1 h1]|h' q'|e]; cbn [fbind].
  - destruct H as (Ef & Hfr).
    destruct (ch_head _ _ _ Hc) as [hp Eh]. destruct (ch_tail _ _ _ Hc) as [tn Et].
    assert (Hh1 : ~ In (hhead q) (map snd (hidx q))) by (intros X; apply Hh; right; now apply Hin).
    assert (Ht1 : ~ In (htail q) (map snd (hidx q))) by (intros X; apply Ht; now apply Hin).
    unfold hfree. rewrite (Hfr _ Hh1), Eh. cbn [lift fbind].
    assert (Hne : htail q <> hhead q) by (intros E; apply Hh; left; now rewrite E).
    rewrite cells_hupd_other by assumption. rewrite (Hfr _ Ht1), Et. cbn [lift].
    split; [now rewrite !fresh_hupd|]. intros x Ho. pose proof Ho as (O1 & O2 & _).
    rewrite !cells_hupd_other by assumption. apply Hfr. now apply Hout.
  - destruct H as (Ef & Hfr). split; [exact Ef|]. intros x Ho. apply Hfr. now apply Hout.
  - exact H.
Qed.

(** ** bookkeeping on the nodes in flight *)
Lemma famw_sub_fl h F fl fl' :
  famw h F fl -> incl fl' fl -> NoDup (addrs fl') -> famw h F fl'.
Proof.
  intros [Hwf Hnd Hfl] Hincl Hnd'. constructor; [exact Hwf| |intros a k v Hin; apply Hfl; now apply Hincl].
  destruct (nodup_app_elim _ _ Hnd) as (HA & _ & Hd). apply nodup_app_intro; [exact HA|exact Hnd'|].
  intros x Hx Hx'. apply (Hd x Hx). unfold addrs in *. apply in_map_iff in Hx'. destruct Hx' as (e & <- & He).
  apply in_map. now apply Hincl.
Qed.

Lemma famw_nil_fl h F fl : famw h F fl -> famw h F [].
Proof. intros H. eapply famw_sub_fl; [exact H|intros ? []|constructor]. Qed.

Lemma famw_nodup_fl h F fl : famw h F fl -> NoDup (addrs fl).
Proof. intros [_ Hnd _]. now destruct (nodup_app_elim _ _ Hnd) as (_ & H & _). Qed.

Lemma famw_add_fl h F fl n k v :
  famw h F fl -> inflight h n k v -> ~ In n (flat_map fp F ++ addrs fl) -> famw h F ((n, (k, v)) :: fl).
Proof.
  intros [Hwf Hnd Hfl] Hn Hnot. constructor; [exact Hwf| |].
  - eapply Permutation_NoDup; [apply Permutation_middle|]. cbn [addrs map fst]. constructor; assumption.
  - intros a k' v' [E|Hin]; [inversion E; subst; exact Hn|now apply Hfl].
Qed.

Lemma addrs_mid (fl1 : list (addr * entry)) n e fl2 : addrs (fl1 ++ (n, e) :: fl2) = addrs fl1 ++ n :: addrs fl2.
Proof. now rewrite addrs_app. Qed.

Lemma famw_pick h F fl1 n e fl2 :
  famw h F (fl1 ++ (n, e) :: fl2) -> famw h F ([(n, e)] ++ (fl1 ++ fl2)).
Proof.
  intros H. eapply famw_sub_fl; [exact H| |].
  - intros x Hx. cbn [app In] in Hx. rewrite in_app_iff in *. cbn [In]. tauto.
  - pose proof (famw_nodup_fl _ _ _ H) as Hnd. rewrite addrs_mid in Hnd.
    cbn [app addrs map fst]. fold (addrs (fl1 ++ fl2)). rewrite addrs_app.
    eapply Permutation_NoDup; [apply Permutation_sym, Permutation_middle|exact Hnd].
Qed.

(** ** list plumbing for the machine *)
Lemma nth_split_fst (F : list hlist) i q :
  nth_error (map fst F) i = Some q -> exists F1 l F2, F = F1 ++ (q, l) :: F2 /\ length F1 = i.
Proof.
  revert i. induction F as [|[q0 l0] F IH]; intros [|i] H; cbn in H; try discriminate.
  - inversion H; subst. exists [], l0, F. auto.
  - destruct (IH i H) as (F1 & l & F2 & -> & Hlen). exists ((q0, l0) :: F1), l, F2. cbn. auto.
Qed.

Lemma nth_split_addrs (fl : list (addr * entry)) b n :
  nth_error (addrs fl) b = Some n -> exists fl1 e fl2, fl = fl1 ++ (n, e) :: fl2 /\ length fl1 = b.
Proof.
  revert b. induction fl as [|[a e0] fl IH]; intros [|b] H; cbn in H; try discriminate.
  - inversion H; subst. exists [], e0, fl. auto.
  - destruct (IH b H) as (fl1 & e & fl2 & -> & Hlen). exists ((a, e0) :: fl1), e, fl2. cbn. auto.
Qed.

Lemma set_nth_mid {A} (l1 : list A) x y l2 i : length l1 = i -> set_nth i y (l1 ++ x :: l2) = l1 ++ y :: l2.
Proof.
  intros <-. unfold set_nth. induction l1 as [|a t IH]; [reflexivity|].
  cbn [length app firstn skipn]. cbn [length app firstn skipn] in IH. now rewrite IH.
Qed.

Lemma del_nth_mid {A} (l1 : list A) x l2 i : length l1 = i -> del_nth i (l1 ++ x :: l2) = l1 ++ l2.
Proof.
  intros <-. unfold del_nth. induction l1 as [|a t IH]; [reflexivity|].
  cbn [length app firstn skipn]. cbn [length app firstn skipn] in IH. now rewrite IH.
Qed.

Lemma map_fst_mid (F1 : list hlist) q l F2 : map fst (F1 ++ (q, l) :: F2) = map fst F1 ++ q :: map fst F2.
Proof. now rewrite map_app. Qed.

(** ** the machine *)
Definition pos (q : hlru) : Prop := 0 < hcap q.

Definition ginv (s : gstate) : Prop :=
  exists F fl, famw (gh s) F fl /\ map fst F = gls s /\ addrs fl = gfl s /\ Forall pos (gls s).

(** the composite caches never build a list of capacity 0 (their constructors reject it) and never
    resize one; [put_nonnull] on an empty list of capacity 0 would read the sentinel's key *)
Definition gop_ok (o : gop) : Prop :=
  match o with GNew c => 0 < c | GPub _ (HResize c) => 0 < c | _ => True end.

Definition gsafe (r : gres) : Prop :=
  match r with GOk _ s => ginv s | GPanic s => ginv s | GErr _ => False end.

Lemma ginv_mk h F fl : famw h F fl -> Forall pos (map fst F) -> ginv (mkG h (map fst F) (addrs fl)).
Proof. intros H1 H2. exists F, fl. auto. Qed.

Lemma ginv_mk_nil h F fl : famw h F fl -> Forall pos (map fst F) -> ginv (mkG h (map fst F) []).
Proof. intros H1 H2. exists F, []. split; [eapply famw_nil_fl; eauto|auto]. Qed.

Lemma ginv_mk' h F fl gl gf :
  famw h F fl -> Forall pos (map fst F) -> gl = map fst F -> gf = addrs fl -> ginv (mkG h gl gf).
Proof. intros H1 H2 -> ->. now apply ginv_mk. Qed.

Lemma ginv_mk_nil' h F fl gl :
  famw h F fl -> Forall pos (map fst F) -> gl = map fst F -> ginv (mkG h gl []).
Proof. intros H1 H2 ->. eapply ginv_mk_nil; eauto. Qed.

Lemma pos_set (F1 : list hlist) q l F2 q' l' :
  Forall pos (map fst (F1 ++ (q, l) :: F2)) -> pos q' -> Forall pos (map fst (F1 ++ (q', l') :: F2)).
Proof.
  rewrite !map_fst_mid, !Forall_app. intros (A & B) Hp. split; [exact A|]. inversion B; subst. constructor; assumption.
Qed.

Lemma pos_del (F1 : list hlist) q l F2 :
  Forall pos (map fst (F1 ++ (q, l) :: F2)) -> Forall pos (map fst (F1 ++ F2)).
Proof.
  rewrite map_fst_mid, map_app, !Forall_app. intros (A & B). split; [exact A|]. now inversion B.
Qed.

Lemma set_nth_fst (F1 : list hlist) q l F2 q' l' :
  set_nth (length F1) q' (map fst (F1 ++ (q, l) :: F2)) = map fst (F1 ++ (q', l') :: F2).
Proof. rewrite !map_fst_mid. apply set_nth_mid. apply map_length. Qed.

Lemma del_nth_fst (F1 : list hlist) q l F2 :
  del_nth (length F1) (map fst (F1 ++ (q, l) :: F2)) = map fst (F1 ++ F2).
Proof. rewrite map_fst_mid, map_app. apply del_nth_mid. apply map_length. Qed.

Lemma del_nth_addrs (fl1 : list (addr * entry)) n e fl2 :
  del_nth (length fl1) (addrs (fl1 ++ (n, e) :: fl2)) = addrs (fl1 ++ fl2).
Proof. rewrite addrs_mid, addrs_app. apply del_nth_mid. unfold addrs. apply map_length. Qed.

Lemma ext_to_extW S h q l h1 qm q1 l' c :
  ext h q l h1 qm l' -> upto_cap qm q1 c -> extW S h q l h1 q1 l'.
Proof.
  intros Hx (U1 & U2 & _). pose proof (ext_extS S _ _ _ _ _ _ Hx) as (A1 & A2 & A3 & A4 & A5 & _).
  split; [congruence|]. split; [congruence|]. split; [exact A3|]. split; [exact A4|exact A5].
Qed.

Lemma ext_extW S h q l h' q' l' : ext h q l h' q' l' -> extW S h q l h' q' l'.
Proof. intros H. now apply extS_extW, ext_extS. Qed.

Lemma chain_fp_nodup h q l : wfw h q l -> NoDup (fp (q, l)).
Proof. intros (Hc & _). exact (ch_nodup _ _ _ Hc). Qed.

(** an operation of one list that takes no node in flight and hands none back *)
Lemma ginv_plain h F1 q l F2 fl h1 q1 l' :
  famw h (F1 ++ (q, l) :: F2) fl -> Forall pos (map fst (F1 ++ (q, l) :: F2)) ->
  wfw h1 q1 l' -> extW [] h q l h1 q1 l' -> pos q1 ->
  famw h1 (F1 ++ (q1, l') :: F2) fl /\ Forall pos (map fst (F1 ++ (q1, l') :: F2)).
Proof.
  intros Hf Hp Hw Hx Hq. split; [|eapply pos_set; eauto].
  apply (famw_step h h1 F1 q l F2 [] fl q1 l' []); auto.
  - intros ? ? ? [].
  - rewrite app_nil_r. now apply chain_fp_nodup with h1.
Qed.

Lemma pos_mid (F1 : list hlist) q l F2 : Forall pos (map fst (F1 ++ (q, l) :: F2)) -> pos q.
Proof. rewrite map_fst_mid, Forall_app. intros (_ & B). now inversion B. Qed.

Lemma gstep_pub f h F fl i o :
  famw h F fl -> Forall pos (map fst F) -> gop_ok (GPub i o) ->
  gsafe (gstep f (mkG h (map fst F) (addrs fl)) (GPub i o)).
Proof.
  intros Hf Hp Hok. cbn [gstep gh gls gfl].
  destruct (nth_error (map fst F) i) as [q|] eqn:En; [|cbn; now apply ginv_mk].
  destruct (nth_split_fst F i q En) as (F1 & l & F2 & -> & <-).
  destruct (famw_focus h F1 q l F2 [] fl Hf) as (_ & Hw & _).
  pose proof (pos_mid _ _ _ _ Hp) as Hq.
  pose proof (fstep_safex f h q l o Hw) as H.
  destruct (fstep f h q o) as [[[[f1 h1] q1] r]|h1 q1|e]; cbn [glift fsafex gh gls gfl] in *; [| |exact H].
  - destruct H as (qm & (l' & Hw' & Hx) & Hu).
    assert (Hq1 : pos q1).
    { unfold pos in *. destruct Hu as (_ & _ & _ & ->). destruct Hx as (_ & _ & _ & _ & _ & Ec). rewrite Ec.
      destruct o; cbn [hop_cap gop_ok] in *; assumption. }
    destruct (ginv_plain h F1 q l F2 fl h1 q1 l' Hf Hp (wfw_upto _ _ _ _ _ Hu Hw') (ext_to_extW _ _ _ _ _ _ _ _ _ Hx Hu) Hq1) as (A & B).
    cbn [gsafe]. eapply ginv_mk'; [exact A|exact B|apply set_nth_fst|reflexivity].
  - destruct H as (l' & Hw' & Hx).
    assert (Hq1 : pos q1) by (unfold pos in *; destruct Hx as (_ & _ & _ & _ & _ & ->); exact Hq).
    destruct (ginv_plain h F1 q l F2 fl h1 q1 l' Hf Hp Hw' (ext_extW _ _ _ _ _ _ _ Hx) Hq1) as (A & B).
    cbn [gsafe]. eapply ginv_mk_nil'; [exact A|exact B|apply set_nth_fst].
Qed.

(** a node leaves list [i] and goes in flight *)
Lemma gstep_take h F1 q l F2 fl h1 q1 r :
  famw h (F1 ++ (q, l) :: F2) fl -> Forall pos (map fst (F1 ++ (q, l) :: F2)) ->
  took h q l h1 q1 r ->
  ginv (mkG h1 (set_nth (length F1) q1 (map fst (F1 ++ (q, l) :: F2)))
            (match r with Some n => n :: addrs fl | None => addrs fl end)).
Proof.
  intros Hf Hp Ht. pose proof (pos_mid _ _ _ _ Hp) as Hq. destruct r as [n|]; cbn [took] in Ht.
  - destruct Ht as (k & v & l' & Hw' & Hx & Hfl & Hin & Hnf).
    assert (Hq1 : pos q1) by (unfold pos in *; destruct Hx as (_ & _ & _ & _ & _ & ->); exact Hq).
    eapply (ginv_mk' h1 (F1 ++ (q1, l') :: F2) ([(n, (k, v))] ++ fl)); [|eapply pos_set; eauto|apply set_nth_fst|reflexivity].
    apply (famw_step h h1 F1 q l F2 [] fl q1 l' [(n, (k, v))]); auto.
    + now apply ext_extW.
    + intros a k' v' [E|[]]. inversion E; subst. exact Hfl.
    + eapply Permutation_NoDup; [apply Permutation_cons_append|]. constructor; [exact Hnf|now apply chain_fp_nodup with h1].
    + intros x [<-|[]]. now left.
  - destruct Ht as (l' & Hw' & Hx).
    assert (Hq1 : pos q1) by (unfold pos in *; destruct Hx as (_ & _ & _ & _ & _ & ->); exact Hq).
    destruct (ginv_plain h F1 q l F2 fl h1 q1 l' Hf Hp Hw' (ext_extW _ _ _ _ _ _ _ Hx) Hq1) as (A & B).
    eapply ginv_mk'; [exact A|exact B|apply set_nth_fst|reflexivity].
Qed.

Lemma gstep_panic_plain h F1 q l F2 fl h1 q1 :
  famw h (F1 ++ (q, l) :: F2) fl -> Forall pos (map fst (F1 ++ (q, l) :: F2)) ->
  okx h q l h1 q1 ->
  ginv (mkG h1 (set_nth (length F1) q1 (map fst (F1 ++ (q, l) :: F2))) []).
Proof.
  intros Hf Hp (l' & Hw' & Hx). pose proof (pos_mid _ _ _ _ Hp) as Hq.
  assert (Hq1 : pos q1) by (unfold pos in *; destruct Hx as (_ & _ & _ & _ & _ & ->); exact Hq).
  destruct (ginv_plain h F1 q l F2 fl h1 q1 l' Hf Hp Hw' (ext_extW _ _ _ _ _ _ _ Hx) Hq1) as (A & B).
  eapply ginv_mk_nil'; [exact A|exact B|apply set_nth_fst].
Qed.

Lemma gstep_remove_ent f h F fl i k :
  famw h F fl -> Forall pos (map fst F) -> gsafe (gstep f (mkG h (map fst F) (addrs fl)) (GRemoveEnt i k)).
Proof.
  intros Hf Hp. cbn [gstep gh gls gfl].
  destruct (nth_error (map fst F) i) as [q|] eqn:En; [|cbn; now apply ginv_mk].
  destruct (nth_split_fst F i q En) as (F1 & l & F2 & -> & <-).
  destruct (famw_focus h F1 q l F2 [] fl Hf) as (_ & Hw & _).
  pose proof (f_remove_ent_safe f h q l k Hw) as H.
  destruct (f_remove_ent f h q k) as [[[[f1 h1] q1] r]|h1 q1|e]; cbn [glift fsafex gsafe gh gls gfl] in *; [| |exact H].
  - exact (gstep_take h F1 q l F2 fl h1 q1 r Hf Hp H).
  - exact (gstep_panic_plain h F1 q l F2 fl h1 q1 Hf Hp H).
Qed.

Lemma gstep_remove_lru_in f h F fl i :
  famw h F fl -> Forall pos (map fst F) -> gsafe (gstep f (mkG h (map fst F) (addrs fl)) (GRemoveLruIn i)).
Proof.
  intros Hf Hp. cbn [gstep gh gls gfl].
  destruct (nth_error (map fst F) i) as [q|] eqn:En; [|cbn; now apply ginv_mk].
  destruct (nth_split_fst F i q En) as (F1 & l & F2 & -> & <-).
  destruct (famw_focus h F1 q l F2 [] fl Hf) as (_ & Hw & _).
  pose proof (f_remove_lru_in_safe f h q l Hw) as H.
  destruct (f_remove_lru_in f h q) as [[[[f1 h1] q1] r]|h1 q1|e]; cbn [glift fsafex gsafe gh gls gfl] in *; [| |exact H].
  - exact (gstep_take h F1 q l F2 fl h1 q1 r Hf Hp H).
  - exact (gstep_panic_plain h F1 q l F2 fl h1 q1 Hf Hp H).
Qed.

Lemma gstep_update_key f h F fl i k v :
  famw h F fl -> Forall pos (map fst F) -> gsafe (gstep f (mkG h (map fst F) (addrs fl)) (GUpdateKey i k v)).
Proof.
  intros Hf Hp. cbn [gstep gh gls gfl].
  destruct (nth_error (map fst F) i) as [q|] eqn:En; [|cbn; now apply ginv_mk].
  destruct (nth_split_fst F i q En) as (F1 & l & F2 & -> & <-).
  destruct (famw_focus h F1 q l F2 [] fl Hf) as (_ & Hw & _).
  pose proof (f_update_key_safe f h q l k v Hw) as H.
  destruct (f_update_key f h q k v) as [[[f1 h1] r]|h1 q1|e]; cbn [glift fsafex gsafe gh gls gfl] in *; [| |exact H].
  - destruct H as (l' & Hw' & Hx). pose proof (pos_mid _ _ _ _ Hp) as Hq.
    destruct (ginv_plain h F1 q l F2 fl h1 q l' Hf Hp Hw' (ext_extW _ _ _ _ _ _ _ Hx) Hq) as (A & B).
    eapply ginv_mk'; [exact A|exact B|now rewrite !map_fst_mid|reflexivity].
  - exact (gstep_panic_plain h F1 q l F2 fl h1 q1 Hf Hp H).
Qed.

(** an in-flight node enters list [i] *)
Lemma give_setup h F1 q l F2 fl1 n k v fl2 :
  famw h (F1 ++ (q, l) :: F2) (fl1 ++ (n, (k, v)) :: fl2) ->
  famw h (F1 ++ (q, l) :: F2) ([(n, (k, v))] ++ (fl1 ++ fl2)) /\ wfw h q l /\ inflight h n k v /\ ~ In n (fp (q, l)).
Proof.
  intros Hf. pose proof (famw_pick _ _ _ _ _ _ Hf) as Hf'. split; [exact Hf'|].
  destruct (famw_focus h F1 q l F2 [(n, (k, v))] (fl1 ++ fl2) Hf') as (_ & Hw & HflA & HndA & _).
  split; [exact Hw|]. split; [apply HflA; now left|].
  destruct (nodup_app_elim _ _ HndA) as (_ & _ & Hd). intros Hin. apply (Hd n Hin). now left.
Qed.

Lemma gstep_put_or_evict f h F fl i b :
  famw h F fl -> Forall pos (map fst F) -> gsafe (gstep f (mkG h (map fst F) (addrs fl)) (GPutOrEvict i b)).
Proof.
  intros Hf Hp. cbn [gstep gh gls gfl].
  destruct (nth_error (map fst F) i) as [q|] eqn:En; [|cbn; now apply ginv_mk].
  destruct (nth_error (addrs fl) b) as [n|] eqn:Eb; [|cbn; now apply ginv_mk].
  destruct (nth_split_fst F i q En) as (F1 & l & F2 & -> & <-).
  destruct (nth_split_addrs fl b n Eb) as (fl1 & [k v] & fl2 & -> & <-).
  destruct (give_setup h F1 q l F2 fl1 n k v fl2 Hf) as (Hf' & Hw & Hfl & Hn).
  pose proof (pos_mid _ _ _ _ Hp) as Hq.
  pose proof (f_put_or_evict_safe f h q l n k v Hw Hfl Hn Hq) as H.
  destruct (f_put_or_evict_nonnull f h q n) as [[[[f1 h1] q1] r]|h1 q1|e]; cbn [glift fsafexS gsafe gh gls gfl] in *; [| |exact H].
  - destruct H as (l' & Hw' & Hx & Ec & Hr).
    assert (Hq1 : pos q1) by (unfold pos in *; now rewrite Ec).
    destruct r as [old|].
    + destruct Hr as (ek & ev & Hfo & Hino & Hnfo).
      eapply (ginv_mk' h1 (F1 ++ (q1, l') :: F2) ([(old, (ek, ev))] ++ (fl1 ++ fl2)));
        [|eapply pos_set; eauto|apply set_nth_fst|cbn [app addrs map fst]; f_equal; exact (del_nth_addrs fl1 n (k, v) fl2)].
      apply (famw_step h h1 F1 q l F2 [(n, (k, v))] (fl1 ++ fl2) q1 l' [(old, (ek, ev))]); auto.
      * now apply extS_extW.
      * intros a k' v' [E|[]]. inversion E; subst. exact Hfo.
      * eapply Permutation_NoDup; [apply Permutation_cons_append|]. constructor; [exact Hnfo|now apply chain_fp_nodup with h1].
      * intros x [<-|[]]. now left.
    + eapply (ginv_mk' h1 (F1 ++ (q1, l') :: F2) ([] ++ (fl1 ++ fl2)));
        [|eapply pos_set; eauto|apply set_nth_fst|exact (del_nth_addrs fl1 n (k, v) fl2)].
      apply (famw_step h h1 F1 q l F2 [(n, (k, v))] (fl1 ++ fl2) q1 l' []); auto.
      * now apply extS_extW.
      * intros ? ? ? [].
      * rewrite app_nil_r. now apply chain_fp_nodup with h1.
      * intros ? [].
  - destruct H as (l' & Hw' & Hx).
    assert (Hq1 : pos q1) by (unfold pos in *; destruct Hx as (_ & _ & _ & _ & _ & ->); exact Hq).
    eapply (ginv_mk_nil' h1 (F1 ++ (q1, l') :: F2) ([] ++ (fl1 ++ fl2))); [|eapply pos_set; eauto|apply set_nth_fst].
    apply (famw_step h h1 F1 q l F2 [(n, (k, v))] (fl1 ++ fl2) q1 l' []); auto.
    + now apply extS_extW.
    + intros ? ? ? [].
    + rewrite app_nil_r. now apply chain_fp_nodup with h1.
    + intros ? [].
Qed.

Lemma gstep_put_nonnull f h F fl i b :
  famw h F fl -> Forall pos (map fst F) -> gsafe (gstep f (mkG h (map fst F) (addrs fl)) (GPutNonnull i b)).
Proof.
  intros Hf Hp. cbn [gstep gh gls gfl].
  destruct (nth_error (map fst F) i) as [q|] eqn:En; [|cbn; now apply ginv_mk].
  destruct (nth_error (addrs fl) b) as [n|] eqn:Eb; [|cbn; now apply ginv_mk].
  destruct (nth_split_fst F i q En) as (F1 & l & F2 & -> & <-).
  destruct (nth_split_addrs fl b n Eb) as (fl1 & [k v] & fl2 & -> & <-).
  destruct (give_setup h F1 q l F2 fl1 n k v fl2 Hf) as (Hf' & Hw & Hfl & Hn).
  pose proof (pos_mid _ _ _ _ Hp) as Hq.
  pose proof (f_put_nonnull_safe f h q l n k v Hw Hfl Hn Hq) as H.
  destruct (f_put_nonnull f h q n) as [[[[f1 h1] q1] r]|h1 q1|e]; cbn [glift fsafexS gsafe gh gls gfl] in *; [| |exact H].
  - destruct H as (l' & Hw' & Hx & Ec).
    assert (Hq1 : pos q1) by (unfold pos in *; now rewrite Ec).
    eapply (ginv_mk' h1 (F1 ++ (q1, l') :: F2) ([] ++ (fl1 ++ fl2)));
      [|eapply pos_set; eauto|apply set_nth_fst|exact (del_nth_addrs fl1 n (k, v) fl2)].
    apply (famw_step h h1 F1 q l F2 [(n, (k, v))] (fl1 ++ fl2) q1 l' []); auto.
    + now apply extS_extW.
    + intros ? ? ? [].
    + rewrite app_nil_r. now apply chain_fp_nodup with h1.
    + intros ? [].
  - destruct H as (l' & Hw' & Hx).
    assert (Hq1 : pos q1) by (unfold pos in *; destruct Hx as (_ & _ & _ & _ & _ & ->); exact Hq).
    eapply (ginv_mk_nil' h1 (F1 ++ (q1, l') :: F2) ([] ++ (fl1 ++ fl2))); [|eapply pos_set; eauto|apply set_nth_fst].
    apply (famw_step h h1 F1 q l F2 [(n, (k, v))] (fl1 ++ fl2) q1 l' []); auto.
    + now apply extS_extW.
    + intros ? ? ? [].
    + rewrite app_nil_r. now apply chain_fp_nodup with h1.
    + intros ? [].
Qed.

(** the nodes in flight alone: swap a value, allocate, unbox *)
Lemma famw_not_in_lists h F fl1 n e fl2 :
  famw h F (fl1 ++ (n, e) :: fl2) -> ~ In n (flat_map fp F) /\ ~ In n (addrs (fl1 ++ fl2)).
Proof.
  intros [_ Hnd _]. rewrite addrs_mid in Hnd.
  assert (Hp : Permutation (flat_map fp F ++ addrs fl1 ++ n :: addrs fl2) (n :: flat_map fp F ++ addrs fl1 ++ addrs fl2)).
  { rewrite !app_assoc. apply Permutation_sym, Permutation_middle. }
  pose proof (Permutation_NoDup Hp Hnd) as H. apply NoDup_cons_iff in H. destruct H as [H _].
  rewrite addrs_app. split; intros X; apply H; apply in_or_app; [now left|now right].
Qed.

Lemma gstep_swap f h F fl b v :
  famw h F fl -> Forall pos (map fst F) -> gsafe (gstep f (mkG h (map fst F) (addrs fl)) (GSwap b v)).
Proof.
  intros Hf Hp. cbn [gstep gh gls gfl].
  destruct (nth_error (addrs fl) b) as [n|] eqn:Eb; [|cbn; now apply ginv_mk].
  destruct (nth_split_addrs fl b n Eb) as (fl1 & [k v0] & fl2 & -> & <-).
  destruct (famw_not_in_lists _ _ _ _ _ _ Hf) as (Hnl & Hnf).
  pose proof Hf as [Hwf Hnd Hfl]. destruct (Hfl n k v0 ltac:(apply in_or_app; right; now left)) as (Hlt & p & x & Ecell).
  unfold h_swap_value. rewrite (hread_node _ _ _ _ _ _ Ecell). cbn [hbind gsafe].
  eapply (ginv_mk' _ F (fl1 ++ (n, (k, v)) :: fl2)); [|exact Hp|reflexivity|now rewrite !addrs_mid].
  constructor.
  - intros q l Hql. eapply wfw_frame; [exact (Hwf q l Hql)| |rewrite fresh_hupd; lia].
    intros y Hy. apply cells_hupd_other. intros ->. apply Hnl. apply in_flat_map. exists (q, l). auto.
  - now rewrite addrs_mid in *.
  - intros a k' v' Hin. apply in_app_or in Hin. destruct Hin as [Hin|[E|Hin]].
    + eapply inflight_frame; [apply Hfl; apply in_or_app; now left| |rewrite fresh_hupd; lia].
      apply cells_hupd_other. intros ->. apply Hnf. rewrite addrs_app. apply in_or_app. left. unfold addrs. apply in_map_iff. exists (n, (k', v')). auto.
    + inversion E; subst. split; [now rewrite fresh_hupd|]. exists p, x. apply cells_hupd_same.
    + eapply inflight_frame; [apply Hfl; apply in_or_app; right; now right| |rewrite fresh_hupd; lia].
      apply cells_hupd_other. intros ->. apply Hnf. rewrite addrs_app. apply in_or_app. right. unfold addrs. apply in_map_iff. exists (n, (k', v')). auto.
Qed.

Lemma gstep_alloc f h F fl k v :
  famw h F fl -> Forall pos (map fst F) -> gsafe (gstep f (mkG h (map fst F) (addrs fl)) (GAlloc k v)).
Proof.
  intros Hf Hp. cbn [gstep gh gls gfl halloc gsafe].
  set (h1 := mkHeap (fun x => if x =? fresh h then Node (Some k) (Some v) 0 0 else cells h x) (S (fresh h))).
  eapply (ginv_mk' h1 F ((fresh h, (k, v)) :: fl)); [|exact Hp|reflexivity|reflexivity].
  apply famw_add_fl.
  - eapply famw_frame; [exact Hf|cbn; lia|]. intros x Hx. pose proof (famw_below _ _ _ _ Hf Hx).
    cbn. destruct (Nat.eqb_spec x (fresh h)); [lia|reflexivity].
  - split; [cbn; lia|]. exists 0, 0. cbn. now rewrite Nat.eqb_refl.
  - intros Hx. pose proof (famw_below _ _ _ _ Hf Hx). lia.
Qed.

Lemma gstep_free f h F fl b :
  famw h F fl -> Forall pos (map fst F) -> gsafe (gstep f (mkG h (map fst F) (addrs fl)) (GFree b)).
Proof.
  intros Hf Hp. cbn [gstep gh gls gfl].
  destruct (nth_error (addrs fl) b) as [n|] eqn:Eb; [|cbn; now apply ginv_mk].
  destruct (nth_split_addrs fl b n Eb) as (fl1 & [k v0] & fl2 & -> & <-).
  destruct (famw_not_in_lists _ _ _ _ _ _ Hf) as (Hnl & Hnf).
  pose proof Hf as [Hwf Hnd Hfl]. destruct (Hfl n k v0 ltac:(apply in_or_app; right; now left)) as (Hlt & p & x & Ecell).
  unfold take_kv, hfree. rewrite (hread_node _ _ _ _ _ _ Ecell). cbn [hbind]. rewrite Ecell. cbn [gsafe].
  eapply (ginv_mk' _ F (fl1 ++ fl2)); [|exact Hp|reflexivity|exact (del_nth_addrs fl1 n (k, v0) fl2)].
  eapply famw_frame; [eapply famw_sub_fl; [exact Hf| |]|rewrite fresh_hupd; lia|].
  - intros e He. apply in_app_or in He. apply in_or_app. destruct He; [now left|right; now right].
  - pose proof (famw_nodup_fl _ _ _ Hf) as H. rewrite addrs_mid in H. rewrite addrs_app. now apply NoDup_remove_1 in H.
  - intros y Hy. apply cells_hupd_other. intros ->. apply in_app_or in Hy. destruct Hy; contradiction.
Qed.

Lemma gstep_tick f h F fl c :
  famw h F fl -> Forall pos (map fst F) -> gsafe (gstep f (mkG h (map fst F) (addrs fl)) (GTick c)).
Proof.
  intros Hf Hp. cbn [gstep gh gls gfl]. destruct f as [[c' n]|]; [|cbn; now apply ginv_mk].
  destruct (tclass_eqb c c'); [|cbn; now apply ginv_mk].
  destruct n; cbn; [eapply ginv_mk_nil; eauto|now apply ginv_mk].
Qed.

Lemma gstep_drop f h F fl i :
  famw h F fl -> Forall pos (map fst F) -> gsafe (gstep f (mkG h (map fst F) (addrs fl)) (GDrop i)).
Proof.
  intros Hf Hp. cbn [gstep gh gls gfl].
  destruct (nth_error (map fst F) i) as [q|] eqn:En; [|cbn; now apply ginv_mk].
  destruct (nth_split_fst F i q En) as (F1 & l & F2 & -> & <-).
  destruct (famw_focus h F1 q l F2 [] fl Hf) as (Hrest & Hw & _ & _ & Hd).
  pose proof (f_drop_frame f h q l Hw) as H.
  assert (Hkeep : forall h1, fresh h1 = fresh h -> (forall x, outside q l x -> cells h1 x = cells h x) ->
                             famw h1 (F1 ++ F2) fl).
  { intros h1 Ef Hfr. eapply famw_frame; [exact Hrest|lia|]. intros x Hx. apply Hfr.
    repeat split; intros X; apply (Hd x); auto; rewrite app_nil_r; unfold fp; cbn [fst snd In]; auto. }
  destruct (f_drop f h q) as [h1|h1 q1|e]; cbn [gsafe]; [| |exact H].
  - destruct H as (Ef & Hfr). eapply ginv_mk'; [exact (Hkeep h1 Ef Hfr)|eapply pos_del; eauto|apply del_nth_fst|reflexivity].
  - destruct H as (Ef & Hfr). eapply ginv_mk_nil'; [exact (Hkeep h1 Ef Hfr)|eapply pos_del; eauto|apply del_nth_fst].
Qed.

Lemma gstep_new f h F fl c :
  famw h F fl -> Forall pos (map fst F) -> 0 < c -> gsafe (gstep f (mkG h (map fst F) (addrs fl)) (GNew c)).
Proof.
  intros Hf Hp Hc. cbn [gstep gh gls gfl].
  destruct (hnew_spec h c) as (Eh & Et & Ei & Ec & Ef & Ca & Cb & Co).
  destruct (hnew h c) as [h1 q] eqn:En. cbn [fst snd] in *. cbn [gsafe].
  assert (Hold : forall x, In x (flat_map fp F ++ addrs fl) -> x < fresh h) by (intros x; apply famw_below; exact Hf).
  eapply (ginv_mk' h1 (F ++ (q, []) :: []) ([] ++ fl)).
  - apply famw_insert.
    + rewrite app_nil_r. eapply famw_frame; [exact Hf|lia|]. intros x Hx. specialize (Hold x Hx). apply Co; lia.
    + split; [|split; [rewrite Ei; constructor|rewrite Ei; intros ? []]].
      constructor; cbn [addrs map first_addr last_addr seg]; rewrite ?Eh, ?Et.
      * repeat constructor; cbn; intuition lia.
      * eexists. exact Ca.
      * eexists. exact Cb.
      * exact I.
      * intros x [<-|[<-|[]]]; lia.
    + intros ? ? ? [].
    + rewrite app_nil_r. unfold fp. cbn [fst snd addrs map]. rewrite Eh, Et. repeat constructor; cbn; intuition lia.
    + intros x Hx Hx2. rewrite app_nil_r in Hx, Hx2. specialize (Hold x Hx2).
      unfold fp in Hx. cbn [fst snd addrs map In] in Hx. rewrite Eh, Et in Hx. destruct Hx as [<-|[<-|[]]]; lia.
  - rewrite map_app, Forall_app. split; [exact Hp|]. constructor; [unfold pos; cbn; lia|constructor].
  - now rewrite map_app.
  - reflexivity.
Qed.

Lemma gstep_write_node f h F fl i n w :
  famw h F fl -> Forall pos (map fst F) -> gsafe (gstep f (mkG h (map fst F) (addrs fl)) (GWriteNode i n w)).
Proof.
  intros Hf Hp. cbn [gstep gh gls gfl].
  destruct (nth_error (map fst F) i) as [q|] eqn:En; [|cbn; now apply ginv_mk].
  destruct (existsb (Nat.eqb n) (map snd (hidx q))) eqn:Ex; [|cbn; now apply ginv_mk].
  destruct (nth_split_fst F i q En) as (F1 & l & F2 & -> & <-).
  destruct (famw_focus h F1 q l F2 [] fl Hf) as (_ & Hw & _).
  apply existsb_exists in Ex. destruct Ex as (n' & Hin & En'). apply Nat.eqb_eq in En'. subst n'.
  apply in_map_iff in Hin. destruct Hin as (p & Ep & Hp').
  pose proof Hw as (Hc & _ & Hall). destruct (Hall p Hp') as (_ & Hpl). rewrite Ep in Hpl.
  destruct (in_addrs_entry l n Hpl) as (k & v & Hent).
  destruct (h_write_w h q l n k v w Hw Hent) as (h1 & e & -> & (l' & Hw' & Hx)). cbn [gsafe].
  pose proof (pos_mid _ _ _ _ Hp) as Hq.
  destruct (ginv_plain h F1 q l F2 fl h1 q l' Hf Hp Hw' (ext_extW _ _ _ _ _ _ _ Hx) Hq) as (A & B).
  eapply ginv_mk'; [exact A|exact B|now rewrite !map_fst_mid|reflexivity].
Qed.

Theorem gstep_safe f s o : ginv s -> gop_ok o -> gsafe (gstep f s o).
Proof.
  intros (F & fl & Hf & EF & Efl & Hp) Hok. destruct s as [h qs ns]. cbn [gh gls gfl] in *. subst qs ns.
  destruct o as [c|i o|i k|i|i b|i b|i k v|i n w|b v|k v|b|c|i].
  - now apply gstep_new.
  - now apply gstep_pub.
  - now apply gstep_remove_ent.
  - now apply gstep_remove_lru_in.
  - now apply gstep_put_or_evict.
  - now apply gstep_put_nonnull.
  - now apply gstep_update_key.
  - now apply gstep_write_node.
  - now apply gstep_swap.
  - now apply gstep_alloc.
  - now apply gstep_free.
  - now apply gstep_tick.
  - now apply gstep_drop.
Qed.

(** ** programs and histories *)
Theorem gprog_safe p : forall f s, ginv s -> Forall gop_ok p -> gsafe (gprog f s p).
Proof.
  induction p as [|o rest IH]; intros f s Hi Hok; [exact Hi|].
  inversion Hok as [|? ? Ho Hr]; subst. cbn [gprog].
  pose proof (gstep_safe f s o Hi Ho) as H.
  destruct (gstep f s o) as [f1 s1|s1|e]; [now apply IH|exact H|exact H].
Qed.

Lemma ginit_inv : ginv ginit.
Proof. exists [], []. split; [exact famw_empty|]. split; [reflexivity|]. split; [reflexivity|constructor]. Qed.

Theorem grun_safe ps : forall s,
  ginv s -> Forall (fun fp => Forall gop_ok (snd fp)) ps -> exists s', grun s ps = Some s' /\ ginv s'.
Proof.
  induction ps as [|[f p] rest IH]; intros s Hi Hok; [exists s; auto|].
  inversion Hok as [|? ? Ho Hr]; subst. cbn [grun]. cbn [snd] in Ho.
  pose proof (gprog_safe p f s Hi Ho) as H.
  destruct (gprog f s p) as [f1 s1|s1|e]; [now apply IH|now apply IH|destruct H].
Qed.

(** every history of programs over the primitives, from nothing, with any panics: no memory error *)
Corollary ghistory_safe ps :
  Forall (fun fp => Forall gop_ok (snd fp)) ps -> exists s', grun ginit ps = Some s' /\ ginv s'.
Proof. apply grun_safe. exact ginit_inv. Qed.

(** ** with no fuse the primitives are those of Heap.v (which the heap-level composite caches are made of) *)
Theorem f_remove_ent_erase h q k r : h_remove_ent h q k = HOk r -> f_remove_ent None h q k = FOk (None, fst (fst r), snd (fst r), snd r).
Proof.
  unfold h_remove_ent, f_remove_ent. cbn [tick fbind]. intros H.
  destruct (idx_remove h q k) as [[q1 o]|e]; cbn [hbind] in H; [|discriminate]. cbn [lift fbind].
  destruct o as [n|]; [|inversion H; reflexivity].
  destruct (detach h n) as [h1|e]; cbn [hbind] in H; [|discriminate]. cbn [lift fbind]. inversion H; reflexivity.
Qed.

Theorem f_remove_lru_in_erase h q r :
  h_remove_lru_in h q = HOk r -> f_remove_lru_in None h q = FOk (None, fst (fst r), snd (fst r), snd r).
Proof.
  unfold h_remove_lru_in, f_remove_lru_in. intros H.
  destruct (tail_prev h q) as [p|e]; cbn [hbind] in H; [|discriminate]. cbn [lift fbind].
  destruct (p =? hhead q); [inversion H; reflexivity|].
  destruct (key_at h p) as [k|e]; cbn [hbind] in H; [|discriminate]. cbn [lift fbind tick].
  destruct (idx_remove h q k) as [[q1 o]|e]; cbn [hbind] in H; [|discriminate]. cbn [lift fbind].
  destruct o as [n|]; [|inversion H; reflexivity].
  destruct (detach h n) as [h1|e]; cbn [hbind] in H; [|discriminate]. cbn [lift fbind]. inversion H; reflexivity.
Qed.

Theorem f_put_or_evict_erase h q n r :
  h_put_or_evict_nonnull h q n = HOk r -> f_put_or_evict_nonnull None h q n = FOk (None, fst (fst r), snd (fst r), snd r).
Proof.
  unfold h_put_or_evict_nonnull, f_put_or_evict_nonnull. intros H.
  destruct (hcap q <=? length (hidx q)).
  - destruct (tail_prev h q) as [p|e]; cbn [hbind] in H; [|discriminate]. cbn [lift fbind].
    destruct (key_at h p) as [k|e]; cbn [hbind] in H; [|discriminate]. cbn [lift fbind tick].
    destruct (idx_remove h q k) as [[q1 o]|e]; cbn [hbind] in H; [|discriminate]. cbn [lift fbind].
    destruct o as [old|]; [|discriminate].
    destruct (detach h old) as [h1|e]; cbn [hbind] in H; [|discriminate]. cbn [lift fbind].
    destruct (attach h1 q1 n) as [h2|e]; cbn [hbind] in H; [|discriminate]. cbn [lift fbind tick_insert]. inversion H; reflexivity.
  - destruct (attach h q n) as [h1|e]; cbn [hbind] in H; [|discriminate]. cbn [lift fbind tick_insert]. inversion H; reflexivity.
Qed.

Theorem f_put_nonnull_erase h q n r :
  h_put_nonnull h q n = HOk r -> f_put_nonnull None h q n = FOk (None, fst (fst r), snd (fst r), snd r).
Proof.
  unfold h_put_nonnull, f_put_nonnull. intros H.
  destruct (h_put_or_evict_nonnull h q n) as [[[h1 q1] ev]|e] eqn:E; cbn [hbind] in H; [|discriminate].
  rewrite (f_put_or_evict_erase h q n _ E). cbn [fst snd fbind].
  destruct ev as [old|]; [|inversion H; reflexivity].
  destruct (take_kv h1 old) as [e0|e]; cbn [hbind] in H; [|discriminate]. cbn [lift fbind].
  destruct (hfree h1 old) as [h2|e]; cbn [hbind] in H; [|discriminate]. cbn [lift fbind]. inversion H; reflexivity.
Qed.

(** ** non-vacuity: SegmentedCache::put promoting a probationary key into a full protected segment,
    as a program — lists 0 (probationary) and 1 (protected), both of capacity 1 and full; the key of
    the promoted node is hashed by [map.insert] after the node is linked and the protected segment's
    old node is in flight: a panic there leaks that node, both lists stay usable and can be dropped *)
Definition slru_setup : list gop :=
  [GNew 1; GNew 1; GPub 1 (HPut 1 10); GPub 0 (HPut 2 20)]%Z.
Definition slru_promote : list gop :=
  [GRemoveEnt 0 2%Z; GSwap 0 21%Z; GPutOrEvict 1 0; GPutNonnull 0 0].

Example promote_panics_and_goes_on :
  match grun ginit [(None, slru_setup); (Some (THash, 2), slru_promote);
                    (None, [GPub 1 (HPeek 2); GPub 0 (HPut 3 30); GPub 1 (HPut 4 40)]%Z);
                    (Some (TDropV, 0), [GDrop 0]); (None, [GDrop 0])] with
  | Some s => gls s = [] /\ gfl s = []
  | None => False
  end.
Proof. vm_compute. split; reflexivity. Qed.

Example promote_without_panic :
  match gprog None ginit (slru_setup ++ slru_promote) with
  | GOk _ s => length (gls s) = 2 /\ gfl s = []
  | _ => False
  end.
Proof. vm_compute. split; reflexivity. Qed.

Example promote_panic_state :
  match grun ginit [(None, slru_setup)] with
  | Some s => match gprog (Some (THash, 2)) s slru_promote with GPanic s' => length (gls s') = 2 /\ gfl s' = [] | _ => False end
  | None => False
  end.
Proof. vm_compute. split; reflexivity. Qed.

