(** * Layer F — the capacity bound in the states a panic leaves behind.

    [bnd q]: the index holds at most [hcap q] entries ([len() <= cap()]).  Every operation of RawLRU, started in
    such a state with any fuse, panics in such a state; it also ends in such a state, with one proviso: [resize]
    is a loop on [remove_lru] that the model bounds by the index length (Fault.v), and in the states a fault
    can leave (a linked node without an index entry at the tail) the real loop may spin instead of returning
    ([resize_may_spin], FaultFacts.v) - the bound is claimed for the resizes that finish.  In particular
    [resize] stores the new capacity only after its loop: interrupted by a panicking callback or destructor it
    leaves the old capacity with fewer entries, never the new capacity with more. *)
From VF Require Import Base Lru BaseFacts LruFacts Heap HeapFacts HeapOps HeapRun Fault FaultFacts.
From Coq Require Import List Arith Lia Permutation.
Import ListNotations.
Local Open Scope nat_scope.

Definition bnd (q : hlru) : Prop := length (hidx q) <= hcap q.

(** the postcondition of a computation that may panic: [P] on a result, [bnd] in a panic state *)
Definition fB {A} (P : A -> Prop) (r : fres A) : Prop :=
  match r with FOk a => P a | FPanic _ q => bnd q | FErr _ => True end.

Lemma fB_bind {A B} (P : A -> Prop) (Q : B -> Prop) (r : fres A) (f : A -> fres B) :
  fB P r -> (forall a, P a -> fB Q (f a)) -> fB Q (fbind r f).
Proof. destruct r as [a|h q|e]; cbn; intros H HQ; auto. Qed.

Lemma fB_weaken {A} (P Q : A -> Prop) (r : fres A) : fB P r -> (forall a, P a -> Q a) -> fB Q r.
Proof. destruct r; cbn; auto. Qed.

Lemma fB_lift {A} (P : A -> Prop) h q (r : hres A) :
  bnd q -> (forall a, r = HOk a -> P a) -> fB P (lift h q r).
Proof. intros Hb HP. destruct r as [a|[]]; cbn; auto. Qed.

Lemma fB_lift_any {A} h q (r : hres A) : bnd q -> fB (fun _ => True) (lift h q r).
Proof. intros Hb. apply fB_lift; auto. Qed.

Lemma fB_tick c f h q : bnd q -> fB (fun _ => True) (tick c f h q).
Proof.
  intros Hb. unfold tick. destruct f as [[c' n]|]; cbn; auto.
  destruct (tclass_eqb c c'); cbn; auto. destruct n; cbn; auto.
Qed.

Lemma fB_tick_insert f h q : bnd q -> fB (fun _ => True) (tick_insert f h q).
Proof. intros Hb. unfold tick_insert. destruct f as [[[] n]|]; cbn; auto. Qed.

Lemma fB_tick_find f h q : bnd q -> fB (fun _ => True) (tick_find f h q).
Proof. intros Hb. unfold tick_find. destruct (hidx q); cbn; auto. now apply fB_tick. Qed.

Lemma fB_find f h q k :
  bnd q -> fB (fun '(_, r) => forall n, r = Some n -> idx_find h (hidx q) k = HOk (Some n)) (f_find f h q k).
Proof.
  intros Hb. unfold f_find.
  eapply fB_bind; [apply fB_tick_find, Hb|]. intros f1 _.
  eapply fB_bind; [apply (fB_lift (fun r => idx_find h (hidx q) k = HOk r)); [exact Hb|auto]|].
  intros r Hr. cbn. intros n ->. exact Hr.
Qed.

(** ** the index *)
Lemma idx_remove_node_le i na : length (idx_remove_node i na) <= length i.
Proof. induction i as [|[ka a] rest IH]; cbn; [lia|]. destruct (Nat.eqb a na); cbn; lia. Qed.

Lemma idx_find_some_in h i k na : idx_find h i k = HOk (Some na) -> In na (map snd i).
Proof.
  induction i as [|[ka a] rest IH]; cbn; [discriminate|].
  destruct (key_at h ka) as [k'|e]; cbn; [|discriminate].
  destruct (Z.eqb k k'); [intros E; injection E as ->; now left | intros E; right; auto].
Qed.

Lemma idx_remove_node_lt i na : In na (map snd i) -> length (idx_remove_node i na) < length i.
Proof.
  induction i as [|[ka a] rest IH]; cbn; [tauto|]. intros [->|Hin].
  - rewrite Nat.eqb_refl. lia.
  - destruct (Nat.eqb a na); cbn; [lia|]. specialize (IH Hin). lia.
Qed.

Lemma idx_remove_spec h q k q1 r :
  idx_remove h q k = HOk (q1, r) ->
  hcap q1 = hcap q /\ length (hidx q1) <= length (hidx q) /\ (r <> None -> length (hidx q1) < length (hidx q)).
Proof.
  unfold idx_remove. destruct (idx_find h (hidx q) k) as [[na|]|e] eqn:E; cbn; intros H; inversion H; subst; clear H.
  - cbn. split; [reflexivity|]. split; [apply idx_remove_node_le|].
    intros _. apply idx_remove_node_lt. eapply idx_find_some_in; eauto.
  - split; [reflexivity|]. split; [lia|]. intros C; now contradiction C.
Qed.

Lemma bnd_idx_insert q n : length (hidx q) < hcap q -> bnd (idx_insert q n).
Proof. unfold bnd, idx_insert; cbn. lia. Qed.

(** ** the operations *)
Definition Bq4 {X} : fuse * heap * hlru * X -> Prop := fun '(_, _, q', _) => bnd q'.

Lemma put_bnd f h q k v : bnd q -> fB Bq4 (f_put f h q k v).
Proof.
  intros Hb. unfold f_put.
  eapply fB_bind; [apply fB_find, Hb|]. intros [f1 r] _.
  destruct r as [n|].
  - eapply fB_bind; [apply fB_lift_any, Hb|]. intros [h1 old] _.
    eapply fB_bind; [apply fB_tick, Hb|]. intros f2 _. exact Hb.
  - destruct (Nat.eqb (hcap q) 0); [exact Hb|].
    destruct (Nat.eqb (length (hidx q)) (hcap q)) eqn:Efull.
    + apply Nat.eqb_eq in Efull.
      eapply fB_bind; [apply fB_lift_any, Hb|]. intros p _.
      eapply fB_bind; [apply fB_lift_any, Hb|]. intros ok _.
      eapply fB_bind; [apply fB_tick, Hb|]. intros f2 _.
      eapply fB_bind; [apply (fB_lift (fun a => idx_remove h q ok = HOk a)); [exact Hb|auto]|].
      intros [q1 r1] Hrem. apply idx_remove_spec in Hrem. destruct Hrem as (Hcap & Hle & Hlt).
      destruct r1 as [old|]; [|exact Hb].
      assert (Hlt' : length (hidx q1) < hcap q1) by (rewrite Hcap; specialize (Hlt ltac:(discriminate)); lia).
      assert (Hb1 : bnd q1) by (unfold bnd; lia).
      eapply fB_bind; [apply fB_lift_any, Hb1|]. intros [ek ev] _.
      eapply fB_bind; [apply fB_lift_any, Hb1|]. intros [[[? ?] pp] nn] _.
      eapply fB_bind; [apply fB_lift_any, Hb1|]. intros h2 _.
      eapply fB_bind; [apply fB_lift_any, Hb1|]. intros h3 _.
      eapply fB_bind; [apply fB_tick_insert, Hb1|]. intros f3 _.
      assert (Hb2 : bnd (idx_insert q1 old)) by (apply bnd_idx_insert; unfold idx_insert; cbn; exact Hlt').
      eapply fB_bind; [apply fB_tick; exact Hb2|]. intros f4 _. exact Hb2.
    + apply Nat.eqb_neq in Efull.
      destruct (halloc h (Some k) (Some v)) as [h1 n].
      eapply fB_bind; [apply fB_lift_any, Hb|]. intros h2 _.
      eapply fB_bind; [apply fB_tick_insert, Hb|]. intros f2 _.
      apply bnd_idx_insert. unfold bnd in Hb. lia.
Qed.

Lemma remove_bnd f h q k : bnd q -> fB Bq4 (f_remove f h q k).
Proof.
  intros Hb. unfold f_remove.
  eapply fB_bind; [apply fB_tick, Hb|]. intros f1 _.
  eapply fB_bind; [apply (fB_lift (fun a => idx_remove h q k = HOk a)); [exact Hb|auto]|].
  intros [q1 r] Hrem. apply idx_remove_spec in Hrem. destruct Hrem as (Hcap & Hle & _).
  assert (Hb1 : bnd q1) by (unfold bnd in *; lia).
  destruct r as [n|]; [|exact Hb1].
  eapply fB_bind; [apply fB_lift_any, Hb1|]. intros h1 _.
  eapply fB_bind; [apply fB_lift_any, Hb1|]. intros [? v] _.
  eapply fB_bind; [apply fB_lift_any, Hb1|]. intros h2 _.
  eapply fB_bind; [apply fB_tick, Hb1|]. intros f2 _.
  eapply fB_bind; [apply fB_tick, Hb1|]. intros f3 _. exact Hb1.
Qed.

(** [remove_lru] never enlarges the index and keeps the capacity *)
Definition Brl (q : hlru) {X} : fuse * heap * hlru * X -> Prop :=
  fun '(_, _, q', _) => hcap q' = hcap q /\ length (hidx q') <= length (hidx q).

Definition fBq {A} (q : hlru) (P : A -> Prop) (r : fres A) : Prop :=
  match r with
  | FOk a => P a
  | FPanic _ q' => hcap q' = hcap q /\ length (hidx q') <= length (hidx q)
  | FErr _ => True
  end.

Lemma fBq_bind {A B} q (P : A -> Prop) (Q : B -> Prop) (r : fres A) (f : A -> fres B) :
  fBq q P r -> (forall a, P a -> fBq q Q (f a)) -> fBq q Q (fbind r f).
Proof. destruct r as [a|h q'|e]; cbn; intros H HQ; auto. Qed.

Definition sub (q q' : hlru) : Prop := hcap q' = hcap q /\ length (hidx q') <= length (hidx q).

Lemma sub_refl q : sub q q.
Proof. split; [reflexivity|lia]. Qed.

Lemma sub_trans q q1 q2 : sub q q1 -> sub q1 q2 -> sub q q2.
Proof. unfold sub. intros [] []. split; [congruence|lia]. Qed.

Lemma fBq_lift {A} q (P : A -> Prop) h q' (r : hres A) :
  sub q q' -> (forall a, r = HOk a -> P a) -> fBq q P (lift h q' r).
Proof. intros Hs HP. destruct r as [a|[]]; cbn; auto. Qed.

Lemma fBq_tick q c f h q' : sub q q' -> fBq q (fun _ => True) (tick c f h q').
Proof.
  intros Hs. unfold tick. destruct f as [[c' n]|]; cbn; auto.
  destruct (tclass_eqb c c'); cbn; auto. destruct n; cbn; auto.
Qed.

Lemma fBq_tick_insert q f h q' : sub q q' -> fBq q (fun _ => True) (tick_insert f h q').
Proof. intros Hs. unfold tick_insert. destruct f as [[[] n]|]; cbn; auto. Qed.

Lemma fBq_weaken {A} q (P Q : A -> Prop) (r : fres A) : fBq q P r -> (forall a, P a -> Q a) -> fBq q Q r.
Proof. destruct r; cbn; auto. Qed.

Lemma remove_lru_sub f h q : fBq q (fun '(_, _, q', _) => sub q q') (f_remove_lru f h q).
Proof.
  unfold f_remove_lru.
  eapply fBq_bind; [apply (fBq_lift q (fun _ => True)); [apply sub_refl|auto]|]. intros p _.
  destruct (Nat.eqb p (hhead q)); [apply sub_refl|].
  eapply fBq_bind; [apply (fBq_lift q (fun _ => True)); [apply sub_refl|auto]|]. intros k _.
  eapply fBq_bind; [apply fBq_tick, sub_refl|]. intros f1 _.
  eapply fBq_bind; [apply (fBq_lift q (fun a => idx_remove h q k = HOk a)); [apply sub_refl|auto]|].
  intros [q1 r] Hrem. apply idx_remove_spec in Hrem. destruct Hrem as (Hcap & Hle & _).
  assert (Hs : sub q q1) by (split; assumption).
  destruct r as [n|]; [|exact Hs].
  eapply fBq_bind; [apply (fBq_lift q (fun _ => True)); [exact Hs|auto]|]. intros h1 _.
  eapply fBq_bind; [apply (fBq_lift q (fun _ => True)); [exact Hs|auto]|]. intros e _.
  eapply fBq_bind; [apply (fBq_lift q (fun _ => True)); [exact Hs|auto]|]. intros h2 _.
  eapply fBq_bind; [apply fBq_tick, Hs|]. intros f2 _. exact Hs.
Qed.

Lemma fBq_fB {A} q (P : A -> Prop) (r : fres A) : bnd q -> fBq q P r -> fB P r.
Proof. intros Hb. destruct r as [a|h q'|e]; cbn; auto. intros [E L]. unfold bnd in *. lia. Qed.

Lemma sub_bnd q q' : bnd q -> sub q q' -> bnd q'.
Proof. unfold bnd, sub. intros Hb [E L]. lia. Qed.

Lemma remove_lru_bnd f h q : bnd q -> fB Bq4 (f_remove_lru f h q).
Proof.
  intros Hb. apply (fBq_fB q); [exact Hb|].
  eapply fBq_weaken; [apply remove_lru_sub|]. intros [[[? ?] q'] ?] Hs. eapply sub_bnd; eauto.
Qed.

Lemma purge_loop_sub fuel : forall f h q acc,
  fBq q (fun '(_, _, q', _) => sub q q') (f_purge_loop fuel f h q acc).
Proof.
  induction fuel as [|n IH]; intros f h q acc; cbn [f_purge_loop]; [exact I|].
  eapply fBq_bind; [apply remove_lru_sub|]. intros [[[f1 h1] q1] r] Hs.
  destruct r as [e|]; [|exact Hs].
  eapply fBq_bind; [apply fBq_tick, Hs|]. intros f2 _.
  eapply fBq_bind; [apply fBq_tick, Hs|]. intros f3 _.
  specialize (IH f3 h1 q1 (acc ++ [e])).
  destruct (f_purge_loop n f3 h1 q1 (acc ++ [e])) as [[[[? ?] q2] ?]|h' q'|e']; cbn in *; auto.
  - eapply sub_trans; eauto.
  - destruct IH as [E L]. destruct Hs as [E' L']. split; [congruence|lia].
Qed.

Lemma purge_bnd f h q : bnd q -> fB Bq4 (f_purge f h q).
Proof.
  intros Hb. apply (fBq_fB q); [exact Hb|]. unfold f_purge.
  eapply fBq_weaken; [apply purge_loop_sub|]. intros [[[? ?] q'] ?] Hs. eapply sub_bnd; eauto.
Qed.

(** the loop of [resize]: the capacity is untouched, the index only shrinks, and a loop that ended by its own test
    ended below the new capacity; [finished] is false only when the fuel ran out first (see the header) *)
Lemma resize_loop_sub fuel c : forall f h q acc,
  fBq q (fun '(_, _, q', _) => sub q q') (f_resize_loop fuel f h q c acc).
Proof.
  induction fuel as [|n IH]; intros f h q acc; cbn [f_resize_loop]; [apply sub_refl|].
  destruct (Nat.ltb c (length (hidx q))); [|apply sub_refl].
  eapply fBq_bind; [apply remove_lru_sub|]. intros [[[f1 h1] q1] r] Hs.
  eapply fBq_bind; [destruct r; [apply fBq_tick, Hs|exact I]|]. intros f2 _.
  eapply fBq_bind; [destruct r; [apply fBq_tick, Hs|exact I]|]. intros f3 _.
  specialize (IH f3 h1 q1 (acc ++ match r with Some e => [e] | None => [] end)).
  destruct (f_resize_loop n f3 h1 q1 c _) as [[[[? ?] q2] ?]|h' q'|e']; cbn in *; auto.
  - eapply sub_trans; eauto.
  - destruct IH as [E L]. destruct Hs as [E' L']. split; [congruence|lia].
Qed.

Lemma resize_bnd f h q c :
  bnd q ->
  fB (fun '(_, _, q', _) => hcap q' = c /\ (hcap q' = hcap q \/ length (hidx q') <= length (hidx q)))
     (f_resize f h q c).
Proof.
  intros Hb. unfold f_resize.
  destruct (Nat.eqb c (hcap q)) eqn:E; [apply Nat.eqb_eq in E; cbn; split; [auto|left; reflexivity]|].
  apply (fBq_fB q); [exact Hb|].
  eapply fBq_bind; [apply resize_loop_sub|]. intros [[[f1 h1] q1] acc] Hs.
  eapply fBq_bind; [apply fBq_tick_insert, Hs|].
  intros f2 _. cbn. split; [reflexivity|right]. apply Hs.
Qed.

(** ** one step *)
Definition finished (o : hop) (q' : hlru) : Prop :=
  match o with HResize c => length (hidx q') <= c | _ => True end.

Theorem fstep_bnd f h q o :
  bnd q ->
  match fstep f h q o with
  | FOk (_, _, q', _) => finished o q' -> bnd q'
  | FPanic _ q' => bnd q'
  | FErr _ => True
  end.
Proof.
  intros Hb.
  assert (Hany : forall A (r : fres A), fB (fun _ => True) r -> fB (fun _ : A => bnd q) r).
  { intros A r. destruct r; cbn; auto. }
  destruct o; cbn [fstep].
  - pose proof (put_bnd f h q k v Hb) as H. destruct (f_put f h q k v) as [[[[? ?] q1] ?]|? ?|?]; cbn in *; auto.
  - (* get_mut *)
    assert (H : fB (fun _ => True) (f_get_mut f h q k w)).
    { unfold f_get_mut.
      eapply fB_bind; [apply fB_find, Hb|]. intros [f1 r] _. destruct r; [|exact I].
      eapply fB_bind; [apply fB_lift_any, Hb|]. intros h1 _.
      eapply fB_bind; [apply fB_lift_any, Hb|]. intros h2 _.
      eapply fB_bind; [apply fB_lift_any, Hb|]. intros [[[kk ov] p] x] _.
      destruct ov; exact I. }
    destruct (f_get_mut f h q k w) as [[[? ?] ?]|? ?|?]; cbn in *; auto.
  - (* peek *)
    assert (H : fB (fun _ => True) (f_peek f h q k)).
    { unfold f_peek.
      eapply fB_bind; [apply fB_find, Hb|]. intros [f1 r] _. destruct r; [|exact I].
      eapply fB_bind; [apply fB_lift_any, Hb|]. intros [[[kk ov] p] x] _.
      destruct ov; exact I. }
    destruct (f_peek f h q k) as [[? ?]|? ?|?]; cbn in *; auto.
  - pose proof (remove_bnd f h q k Hb) as H. destruct (f_remove f h q k) as [[[[? ?] q1] ?]|? ?|?]; cbn in *; auto.
  - pose proof (remove_lru_bnd f h q Hb) as H. destruct (f_remove_lru f h q) as [[[[? ?] q1] ?]|? ?|?]; cbn in *; auto.
  - pose proof (purge_bnd f h q Hb) as H. destruct (f_purge f h q) as [[[[? ?] q1] ?]|? ?|?]; cbn in *; auto.
  - pose proof (resize_bnd f h q c Hb) as H. destruct (f_resize f h q c) as [[[[? ?] q1] ?]|? ?|?]; cbn in *; auto.
    destruct H as [Ec _]. intros Hfin. unfold bnd. lia.
  - (* peek_mut *)
    assert (H : fB (fun _ => True) (f_peek_mut f h q k w)).
    { unfold f_peek_mut.
      eapply fB_bind; [apply fB_find, Hb|]. intros [f1 r] _. destruct r; [|exact I].
      eapply fB_bind; [apply fB_lift_any, Hb|]. intros [? ?] _. exact I. }
    destruct (f_peek_mut f h q k w) as [[[? ?] ?]|? ?|?]; cbn in *; auto.
  - (* contains *)
    assert (H : fB (fun _ => True) (f_contains f h q k)).
    { unfold f_contains. eapply fB_bind; [apply fB_find, Hb|]. intros [f1 r] _. exact I. }
    destruct (f_contains f h q k) as [[? ?]|? ?|?]; cbn in *; auto.
  - unfold f_nouser. destruct (h_get_lru h q w) as [[? ?]|[]]; cbn; auto.
  - unfold f_nouser. destruct (h_peek_lru h q w) as [[? ?]|[]]; cbn; auto.
  - unfold f_nouser. destruct (h_peek_mru h q w) as [[? ?]|[]]; cbn; auto.
  - (* peek_mut_or_put *)
    assert (H : fB (fun '(_, _, q', _, _) => bnd q') (f_peek_mut_or_put f h q k v w)).
    { unfold f_peek_mut_or_put.
      eapply fB_bind; [apply fB_find, Hb|]. intros [f1 r] _. destruct r.
      + eapply fB_bind; [apply fB_tick, Hb|]. intros f2 _.
        eapply fB_bind; [apply fB_tick, Hb|]. intros f3 _.
        eapply fB_bind; [apply fB_lift_any, Hb|]. intros [h1 e] _. exact Hb.
      + eapply fB_bind; [apply put_bnd, Hb|]. intros [[[f2 h2] q2] pr] Hq. exact Hq. }
    destruct (f_peek_mut_or_put f h q k v w) as [[[[[? ?] ?] ?] ?]|? ?|?]; cbn in *; auto.
  - (* contains_or_put *)
    assert (H : fB (fun '(_, _, q', _, _) => bnd q') (f_contains_or_put f h q k v)).
    { unfold f_contains_or_put.
      eapply (fB_bind (fun _ => True)).
      + unfold f_contains. eapply fB_bind; [apply fB_find, Hb|]. intros [f1 r] _. exact I.
      + intros [f1 b] _. destruct b.
        * eapply fB_bind; [apply fB_tick, Hb|]. intros f2 _.
          eapply fB_bind; [apply fB_tick, Hb|]. intros f3 _. exact Hb.
        * eapply fB_bind; [apply put_bnd, Hb|]. intros [[[f2 h2] q2] pr] Hq. exact Hq. }
    destruct (f_contains_or_put f h q k v) as [[[[[? ?] ?] ?] ?]|? ?|?]; cbn in *; auto.
Qed.

(** ** every state reachable through operations, injected panics (with the loss of index entries an interrupted rehash
    can cause) and resizes that finish *)
Inductive freach_fin : heap -> hlru -> Prop :=
| ff_new c : freach_fin (fst (hnew heap0 c)) (snd (hnew heap0 c))
| ff_ok h q o f f' h' q' r :
    freach_fin h q -> fstep f h q o = FOk (f', h', q', r) -> finished o q' -> freach_fin h' q'
| ff_panic h q o f h' q' q'' :
    freach_fin h q -> fstep f h q o = FPanic h' q' -> lossy q'' q' -> hcap q'' = hcap q' -> freach_fin h' q''.

Lemma lossy_length q' q : lossy q' q -> length (hidx q') <= length (hidx q).
Proof.
  intros (_ & _ & Hnd & Hincl). apply NoDup_incl_length; [|exact Hincl].
  eapply NoDup_map_inv; exact Hnd.
Qed.

Theorem freach_fin_bnd h q : freach_fin h q -> bnd q.
Proof.
  induction 1 as [c|h q o f f' h' q' r _ IH E Hfin|h q o f h' q' q'' _ IH E Hl Hc].
  - unfold hnew. destruct (halloc heap0 None None) as [h1 hd]. destruct (halloc h1 None None) as [h2 tl].
    unfold bnd; cbn. lia.
  - pose proof (fstep_bnd f h q o IH) as H. rewrite E in H. auto.
  - pose proof (fstep_bnd f h q o IH) as H. rewrite E in H. unfold bnd in *.
    pose proof (lossy_length _ _ Hl). lia.
Qed.

(** the bound is about something: a panic in the callback of the second eviction of a [resize] from 3 to 0 leaves
    capacity 3 with one entry less, not capacity 0 with two entries *)
Example resize_interrupted :
  exists h q h' q',
    freach_fin h q /\ length (hidx q) = 3 /\ hcap q = 3 /\
    fstep (Some (TCb, 1)) h q (HResize 0) = FPanic h' q' /\ hcap q' = 3 /\ length (hidx q') = 1.
Proof.
  eexists _, _, _, _. split.
  - eapply ff_ok with (o := HPut 3%Z 30%Z) (f := None);
      [eapply ff_ok with (o := HPut 2%Z 20%Z) (f := None);
        [eapply ff_ok with (o := HPut 1%Z 10%Z) (f := None); [apply (ff_new 3)|compute; reflexivity|exact I]
        |compute; reflexivity|exact I]
      |compute; reflexivity|exact I].
  - split; [reflexivity|]. split; [reflexivity|]. split; [compute; reflexivity|]. split; reflexivity.
Qed.
