(** * Layer F — what survives a panic in user code.

    [wfw]: the list is a well-formed chain between the sentinels, every linked node is allocated and
    initialised, and every index entry points, through the key stored in the node itself, at a
    linked node; no node is indexed twice.  Linked nodes that are not indexed are allowed (they
    leak); keys need not be distinct.  Every operation, started in such a state with any fuse, ends
    in such a state, panics in such a state, and never makes a memory error. *)
From VF Require Import Base Lru BaseFacts LruFacts Heap HeapFacts HeapOps HeapRun Fault.
From Coq Require Import List Arith Lia Permutation.
Import ListNotations.
Local Open Scope nat_scope.

Definition idx_sub (q : hlru) (l : list (addr * entry)) : Prop :=
  NoDup (map snd (hidx q)) /\ forall p, In p (hidx q) -> fst p = snd p /\ In (snd p) (addrs l).

Definition wfw (h : heap) (q : hlru) (l : list (addr * entry)) : Prop := chain h q l /\ idx_sub q l.

Definition okp (h : heap) (q : hlru) : Prop := exists l, wfw h q l.

(** [ext h q l h' q' l']: what an operation started on the list [(q, l)] in heap [h] may have done when
    it has reached [(h', q', l')], normally or at a panic: the sentinels are the same, the list gained only
    freshly allocated nodes, no cell outside the list's own footprint that existed at the start was
    written, and the capacity is the same ([resize] stores the new one as its last step).  This is what lets several lists share one heap (FaultFamily.v). *)
Definition ext (h : heap) (q : hlru) (l : list (addr * entry)) (h' : heap) (q' : hlru) (l' : list (addr * entry)) : Prop :=
  hhead q' = hhead q /\ htail q' = htail q /\ fresh h <= fresh h' /\
  (forall x, In x (addrs l') -> In x (addrs l) \/ fresh h <= x) /\
  (forall x, outside q l x -> x < fresh h -> cells h' x = cells h x) /\
  hcap q' = hcap q.

Definition okx (h : heap) (q : hlru) (l : list (addr * entry)) (h' : heap) (q' : hlru) : Prop :=
  exists l', wfw h' q' l' /\ ext h q l h' q' l'.

Definition fsafex (h : heap) (q : hlru) (l : list (addr * entry)) {A} (P : A -> Prop) (r : fres A) : Prop :=
  match r with FOk a => P a | FPanic h' q' => okx h q l h' q' | FErr _ => False end.

Definition fsafe {A} (P : A -> Prop) (r : fres A) : Prop :=
  match r with FOk a => P a | FPanic h q => okp h q | FErr _ => False end.

Lemma ext_refl h q l : ext h q l h q l.
Proof. repeat split; auto. Qed.

Lemma ext_trans h0 q0 l0 h q l h' q' l' : ext h0 q0 l0 h q l -> ext h q l h' q' l' -> ext h0 q0 l0 h' q' l'.
Proof.
  intros (A1 & A2 & A3 & A4 & A5 & A6) (B1 & B2 & B3 & B4 & B5 & B6).
  split; [congruence|]. split; [congruence|]. split; [lia|]. split; [|split; [|congruence]].
  - intros x Hx. destruct (B4 x Hx) as [H|H]; [destruct (A4 x H); [now left|right; lia]|right; lia].
  - intros x (Ho1 & Ho2 & Ho3) Hlt. rewrite B5; [now apply A5| |lia].
    split; [congruence|]. split; [congruence|]. intros Hin. destruct (A4 x Hin); [contradiction|lia].
Qed.

Lemma ext_descr h q l h' q' q'' l' :
  hhead q'' = hhead q' -> htail q'' = htail q' -> hcap q'' = hcap q' -> ext h q l h' q' l' -> ext h q l h' q'' l'.
Proof.
  intros E1 E2 E3 (A1 & A2 & A3 & A4 & A5 & A6). split; [congruence|]. split; [congruence|].
  split; [exact A3|]. split; [exact A4|]. split; [exact A5|congruence].
Qed.

Lemma okx_refl h q l : wfw h q l -> okx h q l h q.
Proof. intros H. exists l. split; [exact H|apply ext_refl]. Qed.

Lemma okx_okp h q l h' q' : okx h q l h' q' -> okp h' q'.
Proof. intros (l' & H & _). now exists l'. Qed.

Lemma okx_trans h0 q0 l0 h q l h' q' : ext h0 q0 l0 h q l -> okx h q l h' q' -> okx h0 q0 l0 h' q'.
Proof. intros E (l' & Hw & E'). exists l'. split; [exact Hw|eapply ext_trans; eauto]. Qed.

Lemma fsafex_fsafe h q l {A} (P : A -> Prop) (r : fres A) : fsafex h q l P r -> fsafe P r.
Proof. destruct r; cbn; auto. apply okx_okp. Qed.

Lemma wf_wfw h q l : wf h q l -> wfw h q l.
Proof.
  intros (Hc & Hi & _). split; [exact Hc|]. split.
  - unfold idx_ok in Hi. eapply Permutation_NoDup; [apply Permutation_sym, Permutation_map; exact Hi|].
    rewrite map_map. cbn [snd]. pose proof (ch_nodup _ _ _ Hc) as H. inversion H as [|? ? _ H1]; subst.
    inversion H1; subst. assumption.
  - now apply idx_all.
Qed.

Lemma fsafe_bind {A B} (P : A -> Prop) (Q : B -> Prop) (r : fres A) (f : A -> fres B) :
  fsafe P r -> (forall a, P a -> fsafe Q (f a)) -> fsafe Q (fbind r f).
Proof. destruct r; cbn; auto. Qed.

Lemma fsafe_weaken {A} (P Q : A -> Prop) r : fsafe P r -> (forall a, P a -> Q a) -> fsafe Q r.
Proof. destruct r; cbn; auto. Qed.

Lemma fsafex_bind h q l {A B} (P : A -> Prop) (Q : B -> Prop) (r : fres A) (f : A -> fres B) :
  fsafex h q l P r -> (forall a, P a -> fsafex h q l Q (f a)) -> fsafex h q l Q (fbind r f).
Proof. destruct r; cbn; auto. Qed.

Lemma fsafex_weaken h q l {A} (P Q : A -> Prop) r : fsafex h q l P r -> (forall a, P a -> Q a) -> fsafex h q l Q r.
Proof. destruct r; cbn; auto. Qed.

(** an operation run from a later state of the same list: its footprint composes *)
Lemma fsafex_trans h0 q0 l0 h q l {A} (P Q : A -> Prop) r :
  ext h0 q0 l0 h q l -> fsafex h q l P r -> (forall a, P a -> Q a) -> fsafex h0 q0 l0 Q r.
Proof. intros E. destruct r; cbn; auto. intros H _. eapply okx_trans; eauto. Qed.

Lemma tick_safe c f h q : okp h q -> fsafe (fun _ => True) (tick c f h q).
Proof.
  intros H. unfold tick. destruct f as [[c' n]|]; [|exact I].
  destruct (tclass_eqb c c'); [destruct n; [exact H|exact I]|exact I].
Qed.

Lemma tick_safex h0 q0 l0 c f h q : okx h0 q0 l0 h q -> fsafex h0 q0 l0 (fun _ => True) (tick c f h q).
Proof.
  intros H. unfold tick. destruct f as [[c' n]|]; [|exact I].
  destruct (tclass_eqb c c'); [destruct n; [exact H|exact I]|exact I].
Qed.

Lemma tick_find_safex h0 q0 l0 f h q : okx h0 q0 l0 h q -> fsafex h0 q0 l0 (fun _ => True) (tick_find f h q).
Proof. intros H. unfold tick_find. destruct (hidx q); [exact I|now apply tick_safex]. Qed.

Lemma tick_insert_safex h0 q0 l0 f h q : okx h0 q0 l0 h q -> fsafex h0 q0 l0 (fun _ => True) (tick_insert f h q).
Proof. intros H. unfold tick_insert. destruct f as [[[] n]|]; cbn; auto. Qed.

(** the index may lose entries when a rehash is interrupted: any sub-index is still fine *)
Definition lossy (q' q : hlru) : Prop :=
  hhead q' = hhead q /\ htail q' = htail q /\ NoDup (map snd (hidx q')) /\ incl (hidx q') (hidx q).

Lemma wfw_lossy h q q' l : wfw h q l -> lossy q' q -> wfw h q' l.
Proof.
  intros (Hc & Hnd & Hall) (E1 & E2 & Hnd' & Hincl). split.
  - eapply chain_descr; [| |exact Hc]; assumption.
  - split; [exact Hnd'|]. intros p Hp. apply Hall. now apply Hincl.
Qed.

Lemma idx_sub_incl q l l' : idx_sub q l -> (forall x, In x (addrs l) -> In x (addrs l')) -> idx_sub q l'.
Proof. intros (A & B) H. split; [exact A|]. intros p Hp. destruct (B p Hp). auto. Qed.

Lemma idx_sub_descr q q' l : hidx q' = hidx q -> idx_sub q l -> idx_sub q' l.
Proof. unfold idx_sub. now intros ->. Qed.


(** ** the index under [wfw] *)
Lemma find_w h q l k : forall i,
  chain h q l -> (forall p, In p i -> fst p = snd p /\ In (snd p) (addrs l)) ->
  exists r, idx_find h i k = HOk r /\
            match r with Some a => In (a, a) i /\ exists v, In (a, (k, v)) l | None => True end.
Proof.
  intros i Hc. induction i as [|[ka na] rest IH]; intros Hall.
  - exists None. split; [reflexivity|exact I].
  - destruct (Hall (ka, na) (or_introl eq_refl)) as [E Hin]. cbn in E, Hin. subst na.
    destruct (in_addrs_entry l ka Hin) as (k' & v' & Hent).
    cbn [idx_find]. rewrite (key_at_chain _ _ _ _ _ _ Hc Hent). cbn [hbind].
    destruct (Z.eqb_spec k k') as [->|Hne].
    + exists (Some ka). split; [reflexivity|]. split; [now left|eauto].
    + destruct (IH (fun p Hp => Hall p (or_intror Hp))) as (r & E & Hr). exists r. split; [exact E|].
      destruct r as [a|]; [|exact I]. destruct Hr as [Hi Hv]. split; [now right|exact Hv].
Qed.

Lemma idx_remove_node_sub (i : list (addr * addr)) a :
  NoDup (map snd i) -> In (a, a) i ->
  NoDup (map snd (idx_remove_node i a)) /\ incl (idx_remove_node i a) i /\ ~ In a (map snd (idx_remove_node i a)).
Proof.
  intros Hnd Hin. pose proof (idx_remove_node_perm i a Hnd Hin) as Hp.
  assert (Hnd' : NoDup (map snd ((a, a) :: idx_remove_node i a))).
  { eapply Permutation_NoDup; [apply Permutation_map; exact Hp|exact Hnd]. }
  cbn [map snd] in Hnd'. apply NoDup_cons_iff in Hnd'. destruct Hnd' as [Hn Hnd'].
  split; [exact Hnd'|]. split; [|exact Hn].
  intros p Hp'. eapply Permutation_in; [apply Permutation_sym; exact Hp|]. now right.
Qed.

Lemma idx_remove_w h q l k :
  wfw h q l ->
  exists q1 r, idx_remove h q k = HOk (q1, r) /\ hhead q1 = hhead q /\ htail q1 = htail q /\ hcap q1 = hcap q /\
    match r with
    | Some a => idx_sub q1 l /\ ~ In a (map snd (hidx q1)) /\ (exists v, In (a, (k, v)) l) /\
                length (hidx q) = S (length (hidx q1)) /\ incl (hidx q1) (hidx q)
    | None => q1 = q
    end.
Proof.
  intros (Hc & Hnd & Hall). unfold idx_remove.
  destruct (find_w h q l k (hidx q) Hc Hall) as (r & -> & Hr). cbn [hbind].
  destruct r as [a|].
  - destruct Hr as [Hi Hv]. destruct (idx_remove_node_sub (hidx q) a Hnd Hi) as (A & B & C).
    do 2 eexists. split; [reflexivity|]. cbn [hhead htail hcap with_idx hidx].
    split; [reflexivity|split; [reflexivity|split; [reflexivity|]]].
    split; [|split; [exact C|split; [exact Hv|split; [|exact B]]]].
    + split; [exact A|]. intros p Hp. apply Hall. now apply B.
    + pose proof (idx_remove_node_perm (hidx q) a Hnd Hi) as Hp. rewrite (Permutation_length Hp). reflexivity.
  - do 2 eexists. split; [reflexivity|]. auto.
Qed.

Lemma in_split_entry (l : list (addr * entry)) a k v :
  In (a, (k, v)) l -> exists l1 l2, l = l1 ++ (a, (k, v)) :: l2.
Proof. intros H. apply in_split in H. destruct H as (l1 & l2 & ->). eauto. Qed.

Lemma idx_sub_insert q l a :
  idx_sub q l -> In a (addrs l) -> ~ In a (map snd (hidx q)) -> idx_sub (idx_insert q a) l.
Proof.
  intros (A & B) Ha Hn. split; cbn [idx_insert with_idx hidx map snd].
  - constructor; assumption.
  - intros p [<-|Hp]; [cbn; auto|now apply B].
Qed.

(** ** moving a linked node to the front: detach + attach *)
Lemma touch_w h q l1 a k v l2 :
  chain h q (l1 ++ (a, (k, v)) :: l2) ->
  exists h1 h2, detach h a = HOk h1 /\ attach h1 q a = HOk h2 /\ chain h2 q ((a, (k, v)) :: l1 ++ l2) /\
                fresh h2 = fresh h /\
                (forall x, outside q (l1 ++ (a, (k, v)) :: l2) x -> cells h2 x = cells h x).
Proof.
  intros Hc. destruct (detach_chain h q l1 a (k, v) l2 Hc) as (h1 & E1 & Hc1 & Ea & Ef1 & Hfr1).
  pose proof (seg_mid _ _ _ _ _ _ _ _ (ch_seg _ _ _ Hc)) as Ecell. rewrite <- Ea in Ecell.
  pose proof (ch_nodup _ _ _ Hc) as Hnd0. rewrite addrs_app in Hnd0. cbn [addrs map fst] in Hnd0.
  destruct (nodup_split_facts _ _ _ _ _ Hnd0) as (Hht & Hha & Hta & Hh1 & Hh2 & Ht1 & Ht2 & Ha1 & Ha2 & _).
  assert (Hnotin : ~ In a (hhead q :: htail q :: addrs (l1 ++ l2))).
  { rewrite addrs_app. cbn [In]. rewrite in_app_iff. intros [E|[E|[H|H]]]; congruence || contradiction. }
  assert (Hlt : a < fresh h1).
  { rewrite Ef1. apply (ch_fresh _ _ _ Hc). right. right. rewrite addrs_app. apply in_or_app. right. now left. }
  destruct (attach_chain h1 q (l1 ++ l2) a k v _ _ Hc1 Hnotin Hlt Ecell) as (h2 & E2 & Hc2 & Ef2 & Hfr2).
  exists h1, h2. split; [exact E1|split; [exact E2|split; [exact Hc2|split; [congruence|]]]].
  intros x Ho. destruct (outside_split _ _ _ _ _ _ Ho) as (X1 & X2 & X3 & X4).
  rewrite Hfr2 by assumption. now apply Hfr1.
Qed.

Lemma addrs_front (l1 : list (addr * entry)) a e e' l2 x :
  In x (addrs (l1 ++ (a, e) :: l2)) -> In x (addrs ((a, e') :: l1 ++ l2)).
Proof. intros H. now apply (addrs_front_incl l1 a e e' l2 x). Qed.

Lemma addrs_front_back (l1 : list (addr * entry)) a e e' l2 x :
  In x (addrs ((a, e') :: l1 ++ l2)) -> In x (addrs (l1 ++ (a, e) :: l2)).
Proof. intros H. now apply (addrs_front_incl l1 a e e' l2 x). Qed.

(** building [ext] for a step that keeps the sentinels and the allocation pointer *)
Lemma ext_same h q l h' q' l' :
  hhead q' = hhead q -> htail q' = htail q -> hcap q' = hcap q -> fresh h' = fresh h ->
  (forall x, In x (addrs l') -> In x (addrs l)) ->
  (forall x, outside q l x -> cells h' x = cells h x) -> ext h q l h' q' l'.
Proof.
  intros E1 E2 E3 Ef Hin Hfr. split; [exact E1|]. split; [exact E2|]. split; [lia|]. split; [|split; [|exact E3]].
  - intros x Hx. left. now apply Hin.
  - intros x Ho _. now apply Hfr.
Qed.

(** ** find, get, peek, contains *)
Lemma f_find_safe f h q l k :
  wfw h q l ->
  fsafex h q l (fun '(f1, r) => match r with Some a => In (a, a) (hidx q) /\ exists v, In (a, (k, v)) l | None => True end)
        (f_find f h q k).
Proof.
  intros Hw. unfold f_find. eapply fsafex_bind; [apply tick_find_safex; now apply okx_refl|]. intros f1 _.
  destruct Hw as (Hc & Hnd & Hall). destruct (find_w h q l k (hidx q) Hc Hall) as (r & -> & Hr). cbn. exact Hr.
Qed.

Theorem f_get_mut_safe f h q l k w :
  wfw h q l -> fsafex h q l (fun '(f1, h1, r) => okx h q l h1 q) (f_get_mut f h q k w).
Proof.
  intros Hw. unfold f_get_mut. eapply fsafex_bind; [apply (f_find_safe f h q l k Hw)|].
  intros [f1 r] Hr. destruct r as [a|]; [|cbn; now apply okx_refl].
  destruct Hr as [Hi (v & Hin)]. destruct (in_split_entry l a k v Hin) as (l1 & l2 & ->).
  destruct Hw as (Hc & Hs).
  destruct (touch_w h q l1 a k v l2 Hc) as (h1 & h2 & -> & E2 & Hc2 & Ef & Hfr). cbn [lift fbind]. rewrite E2. cbn [lift fbind].
  pose proof (ch_seg _ _ _ Hc2) as Hs2. cbn [seg] in Hs2. destruct Hs2 as [Ec2 _].
  rewrite (hread_node _ _ _ _ _ _ Ec2). cbn [lift fbind fsafex].
  assert (Hs' : idx_sub q ((a, (k, v)) :: l1 ++ l2)) by (eapply idx_sub_incl; [exact Hs|apply addrs_front]).
  destruct w as [w|].
  - exists ((a, (k, w)) :: l1 ++ l2). split; [split|].
    + apply (chain_set_entry h2 q [] a (k, v) (k, w) (l1 ++ l2) _ _ Hc2 Ec2).
    + exact Hs'.
    + apply ext_same; [reflexivity|reflexivity|reflexivity|now rewrite fresh_hupd| |].
      * intros x. apply addrs_front_back.
      * intros x Ho. destruct (outside_split _ _ _ _ _ _ Ho) as (_ & _ & X3 & _).
        rewrite cells_hupd_other by exact X3. now apply Hfr.
  - exists ((a, (k, v)) :: l1 ++ l2). split; [split; assumption|].
    apply ext_same; [reflexivity|reflexivity|reflexivity|exact Ef| |exact Hfr]. intros x. apply addrs_front_back.
Qed.

Lemma h_write_w h q l a k v w :
  wfw h q l -> In (a, (k, v)) l ->
  exists h1 e, h_write h a w = HOk (h1, e) /\ okx h q l h1 q.
Proof.
  intros (Hc & Hs) Hin. destruct (in_split_entry l a k v Hin) as (l1 & l2 & ->).
  pose proof (seg_mid _ _ _ _ _ _ _ _ (ch_seg _ _ _ Hc)) as Ecell.
  unfold h_write. rewrite (hread_node _ _ _ _ _ _ Ecell). cbn [hbind].
  destruct w as [w|]; do 2 eexists; (split; [reflexivity|]).
  - exists (l1 ++ (a, (k, w)) :: l2). split; [split; [apply (chain_set_entry h q l1 a (k, v) (k, w) l2 _ _ Hc Ecell)|]|].
    + eapply idx_sub_incl; [exact Hs|]. intros x. rewrite !addrs_app. cbn [addrs map fst]. auto.
    + apply ext_same; [reflexivity|reflexivity|reflexivity|now rewrite fresh_hupd| |].
      * intros x. rewrite !addrs_app. cbn [addrs map fst]. auto.
      * intros x Ho. destruct (outside_split _ _ _ _ _ _ Ho) as (_ & _ & X3 & _). now apply cells_hupd_other.
  - apply okx_refl. split; assumption.
Qed.

Theorem f_peek_mut_safe f h q l k w :
  wfw h q l -> fsafex h q l (fun '(f1, h1, r) => okx h q l h1 q) (f_peek_mut f h q k w).
Proof.
  intros Hw. unfold f_peek_mut. eapply fsafex_bind; [apply (f_find_safe f h q l k Hw)|].
  intros [f1 r] Hr. destruct r as [a|]; [|cbn; now apply okx_refl].
  destruct Hr as [Hi (v & Hin)]. destruct (h_write_w h q l a k v w Hw Hin) as (h1 & e & -> & Hok). cbn. exact Hok.
Qed.

Theorem f_peek_safe f h q l k :
  wfw h q l -> fsafex h q l (fun _ => True) (f_peek f h q k).
Proof.
  intros Hw. unfold f_peek. eapply fsafex_bind; [apply (f_find_safe f h q l k Hw)|].
  intros [f1 r] Hr. destruct r as [a|]; [|exact I].
  destruct Hr as [Hi (v & Hin)]. destruct Hw as (Hc & _).
  destruct (seg_lookup _ _ _ _ _ _ _ (ch_seg _ _ _ Hc) Hin) as (pp & nn & E).
  rewrite (hread_node _ _ _ _ _ _ E). cbn. exact I.
Qed.

Theorem f_contains_safe f h q l k :
  wfw h q l -> fsafex h q l (fun _ => True) (f_contains f h q k).
Proof.
  intros Hw. unfold f_contains. eapply fsafex_bind; [apply (f_find_safe f h q l k Hw)|]. intros [f1 r] _. exact I.
Qed.

(** ** put *)
Lemma update_w h q l n k old v :
  wfw h q l -> In (n, (k, old)) l -> exists h', h_update h q n v = HOk (h', old) /\ okx h q l h' q.
Proof.
  intros (Hc & Hs) Hin. destruct (in_split_entry l n k old Hin) as (l1 & l2 & ->).
  pose proof (seg_mid _ _ _ _ _ _ _ _ (ch_seg _ _ _ Hc)) as Ecell.
  unfold h_update. rewrite (hread_node _ _ _ _ _ _ Ecell). cbn [hbind].
  pose proof (chain_set_entry h q l1 n (k, old) (k, v) l2 _ _ Hc Ecell) as Hc0. cbn [fst snd] in Hc0.
  destruct (touch_w _ q l1 n k v l2 Hc0) as (h1 & h2 & E1 & E2 & Hc2 & Ef & Hfr). cbv zeta.
  rewrite E1. cbn [hbind]. rewrite E2. cbn [hbind].
  eexists. split; [reflexivity|]. exists ((n, (k, v)) :: l1 ++ l2). split; [split; [exact Hc2|]|].
  - eapply idx_sub_incl; [exact Hs|apply addrs_front].
  - apply ext_same; [reflexivity|reflexivity|reflexivity|now rewrite Ef, fresh_hupd| |].
    + intros x. apply addrs_front_back.
    + intros x Ho. pose proof Ho as (Y1 & Y2 & Y3). destruct (outside_split _ _ _ _ _ _ Ho) as (_ & _ & X3 & _).
      rewrite Hfr; [now apply cells_hupd_other|].
      split; [exact Y1|]. split; [exact Y2|]. rewrite addrs_app in *. exact Y3.
Qed.

Lemma idx_nonempty_list q l : idx_sub q l -> hidx q <> [] -> l <> [].
Proof.
  intros (_ & Hall) Hne. destruct (hidx q) as [|p t]; [congruence|].
  destruct (Hall p (or_introl eq_refl)) as [_ Hin]. intros ->. destruct Hin.
Qed.

Lemma not_in_idx_fresh h q l : wfw h q l -> ~ In (fresh h) (map snd (hidx q)).
Proof.
  intros (Hc & _ & Hall) Hin. apply in_map_iff in Hin. destruct Hin as (p & E & Hp).
  destruct (Hall p Hp) as [_ Ha]. rewrite E in Ha.
  pose proof (ch_fresh _ _ _ Hc (fresh h)) as Hlt. assert (fresh h < fresh h); [|lia].
  apply Hlt. right. right. exact Ha.
Qed.

Theorem f_put_safe f h q l k v :
  wfw h q l -> fsafex h q l (fun '(f1, h1, q1, r) => okx h q l h1 q1) (f_put f h q k v).
Proof.
  intros Hw. unfold f_put. eapply fsafex_bind; [apply (f_find_safe f h q l k Hw)|].
  intros [f1 r] Hr. destruct r as [n|].
  - destruct Hr as [Hi (old & Hin)]. destruct (update_w h q l n k old v Hw Hin) as (h' & -> & Hok).
    cbn [lift fbind]. eapply fsafex_bind; [apply tick_safex; exact Hok|]. intros f2 _. exact Hok.
  - destruct (Nat.eqb_spec (hcap q) 0) as [E0|N0]; [cbn; now apply okx_refl|].
    destruct (Nat.eqb_spec (length (hidx q)) (hcap q)) as [Efull|Nfull].
    + (* recycle *)
      pose proof Hw as (Hc & Hs).
      assert (Hne : l <> []).
      { apply (idx_nonempty_list q l Hs). intros E. rewrite E in Efull. cbn in Efull. congruence. }
      destruct (rev_ind_split l) as [->|(l' & [a [ek ev]] & El0)]; [congruence|].
      rewrite El0 in Hc.
      rewrite (tail_prev_last h q l' a (ek, ev) Hc). cbn [lift fbind].
      rewrite (key_at_chain h q _ a ek ev Hc) by (apply in_or_app; right; now left). cbn [lift fbind].
      rewrite <- El0 in Hc.
      eapply fsafex_bind; [apply tick_safex; now apply okx_refl|]. intros f2 _.
      destruct (idx_remove_w h q _ ek Hw) as (q1 & r1 & -> & E1 & E2 & E3 & Hr1). cbn [lift fbind].
      destruct r1 as [old|]; [|cbn; now apply okx_refl].
      destruct Hr1 as (Hs1 & Hno & (v0 & Hin0) & _ & _).
      destruct (in_split_entry _ old ek v0 Hin0) as (l1 & l2 & El). rewrite El in *.
      pose proof (seg_mid _ _ _ _ _ _ _ _ (ch_seg _ _ _ Hc)) as Ecell.
      unfold take_kv. rewrite (hread_node _ _ _ _ _ _ Ecell). cbn [lift fbind hbind].
      pose proof (chain_set_entry h q l1 old (ek, v0) (k, v) l2 _ _ Hc Ecell) as Hc0. cbn [fst snd] in Hc0.
      assert (Hc0' : chain (hupd h old (Node (Some k) (Some v) (last_addr (hhead q) l1) (first_addr l2 (htail q))))
                           q1 (l1 ++ (old, (k, v)) :: l2)) by (eapply chain_descr; [| |exact Hc0]; assumption).
      rewrite <- E1, <- E2 in Hc0'.
      destruct (touch_w _ q1 l1 old k v l2 Hc0') as (h2 & h3 & Ed & Ea & Hc3 & Ef3 & Hfr3).
      rewrite E1, E2 in Ed. rewrite Ed. cbn [lift fbind]. rewrite Ea. cbn [lift fbind].
      assert (Hs3 : idx_sub q1 ((old, (k, v)) :: l1 ++ l2)).
      { eapply idx_sub_incl; [exact Hs1|]. intros x. apply addrs_front. }
      assert (Hext : forall q2, hhead q2 = hhead q -> htail q2 = htail q -> hcap q2 = hcap q ->
                ext h q (l1 ++ (old, (ek, v0)) :: l2) h3 q2 ((old, (k, v)) :: l1 ++ l2)).
      { intros q2 X1 X2 X3c. apply ext_same; [exact X1|exact X2|exact X3c|now rewrite Ef3, fresh_hupd| |].
        - intros x. apply addrs_front_back.
        - intros x Ho. pose proof Ho as (Y1 & Y2 & Y3). destruct (outside_split _ _ _ _ _ _ Ho) as (_ & _ & X3 & _).
          rewrite Hfr3; [now apply cells_hupd_other|].
          split; [congruence|]. split; [congruence|]. rewrite addrs_app in *. exact Y3. }
      eapply fsafex_bind; [apply tick_insert_safex; eexists; split; [split; eassumption|now apply Hext]|]. intros f3 _.
      assert (Hok : okx h q (l1 ++ (old, (ek, v0)) :: l2) h3 (idx_insert q1 old)).
      { eexists. split; [split; [eapply chain_descr; [| |exact Hc3]; reflexivity|]|now apply Hext].
        apply idx_sub_insert; [exact Hs3|now left|exact Hno]. }
      eapply fsafex_bind; [apply tick_safex; exact Hok|]. intros f4 _. exact Hok.
    + (* room *)
      pose proof Hw as (Hc & Hs).
      pose proof (chain_alloc h q l (Some k) (Some v) Hc) as Ha.
      pose proof (not_in_idx_fresh h q l Hw) as Hnf.
      destruct (halloc h (Some k) (Some v)) as [h1 nn] eqn:Eal. destruct Ha as (Hc1 & -> & Ef1 & Ecell & Hnotin).
      assert (Hlt : fresh h < fresh h1) by lia.
      destruct (attach_chain h1 q l (fresh h) k v _ _ Hc1 Hnotin Hlt Ecell) as (h2 & -> & Hc2 & Ef2 & Hfr2).
      cbn [lift fbind].
      assert (Hs2 : idx_sub q ((fresh h, (k, v)) :: l)).
      { eapply idx_sub_incl; [exact Hs|]. intros x Hx. now right. }
      assert (Hext : forall q2, hhead q2 = hhead q -> htail q2 = htail q -> hcap q2 = hcap q ->
                                ext h q l h2 q2 ((fresh h, (k, v)) :: l)).
      { intros q2 X1 X2 X3c. split; [exact X1|]. split; [exact X2|]. split; [lia|]. split; [|split; [|exact X3c]].
        - cbn [addrs map fst In]. intros x [<-|Hx]; [right; lia|now left].
        - intros x (Y1 & Y2 & Y3) Hx. rewrite Hfr2; [|assumption|assumption|lia|assumption].
          unfold halloc in Eal. inversion Eal; subst h1. cbn. destruct (Nat.eqb_spec x (fresh h)); [lia|reflexivity]. }
      eapply fsafex_bind; [apply tick_insert_safex; eexists; split; [split; eassumption|now apply Hext]|]. intros f2 _.
      cbn. eexists. split; [split; [eapply chain_descr; [| |exact Hc2]; reflexivity|]|now apply Hext].
      apply idx_sub_insert; [exact Hs2|now left|exact Hnf].
Qed.

(** ** remove, remove_lru *)
Lemma unlink_free_w h q q1 l n k v :
  chain h q l -> hhead q1 = hhead q -> htail q1 = htail q -> hcap q1 = hcap q ->
  idx_sub q1 l -> ~ In n (map snd (hidx q1)) -> In (n, (k, v)) l ->
  exists h1 h2, detach h n = HOk h1 /\ take_kv h1 n = HOk (k, v) /\ hfree h1 n = HOk h2 /\ okx h q l h2 q1.
Proof.
  intros Hc E1 E2 E3 Hs Hno Hin. destruct (in_split_entry l n k v Hin) as (l1 & l2 & ->).
  destruct (detach_chain h q l1 n (k, v) l2 Hc) as (h1 & Ed & Hc1 & Ea & Ef1 & Hfr1).
  pose proof (seg_mid _ _ _ _ _ _ _ _ (ch_seg _ _ _ Hc)) as Ecell. rewrite <- Ea in Ecell.
  pose proof (ch_nodup _ _ _ Hc) as Hnd0. rewrite addrs_app in Hnd0. cbn [addrs map fst] in Hnd0.
  destruct (nodup_split_facts _ _ _ _ _ Hnd0) as (Hht & Hha & Hta & Hh1 & Hh2 & Ht1 & Ht2 & Ha1 & Ha2 & _).
  assert (Hnotin : ~ In n (hhead q :: htail q :: addrs (l1 ++ l2))).
  { rewrite addrs_app. cbn [In]. rewrite in_app_iff. intros [E|[E|[H|H]]]; congruence || contradiction. }
  destruct (chain_free h1 q (l1 ++ l2) n Hc1 Hnotin ltac:(eauto)) as (h2 & Ef & Hc2 & _ & Ef2 & Hfr2).
  exists h1, h2. split; [exact Ed|]. split; [unfold take_kv; now rewrite (hread_node _ _ _ _ _ _ Ecell)|].
  split; [exact Ef|]. exists (l1 ++ l2). split; [split; [eapply chain_descr; [| |exact Hc2]; assumption|]|].
  - destruct Hs as (A & B). split; [exact A|]. intros p Hp. destruct (B p Hp) as [Ep Hpin]. split; [exact Ep|].
    rewrite addrs_app in Hpin. cbn [addrs map fst] in Hpin. rewrite addrs_app.
    apply in_app_or in Hpin. apply in_or_app. destruct Hpin as [H|[H|H]]; [now left| |now right].
    exfalso. apply Hno. apply in_map_iff. exists p. split; [congruence|exact Hp].
  - apply ext_same; [exact E1|exact E2|exact E3|congruence| |].
    + intros x. rewrite !addrs_app. cbn [addrs map fst]. rewrite !in_app_iff. cbn [In]. tauto.
    + intros x Ho. destruct (outside_split _ _ _ _ _ _ Ho) as (X1 & X2 & X3 & X4).
      rewrite Hfr2 by exact X3. now apply Hfr1.
Qed.

Theorem f_remove_safe f h q l k :
  wfw h q l ->
  fsafex h q l (fun '(f1, h1, q1, r) => okx h q l h1 q1) (f_remove f h q k).
Proof.
  intros Hw. unfold f_remove. eapply fsafex_bind; [apply tick_safex; now apply okx_refl|]. intros f1 _.
  destruct (idx_remove_w h q l k Hw) as (q1 & r & -> & E1 & E2 & E3 & Hr). cbn [lift fbind].
  destruct r as [n|]; [|subst q1; cbn; now apply okx_refl].
  destruct Hr as (Hs1 & Hno & (v & Hin) & _ & _). destruct Hw as (Hc & _).
  destruct (unlink_free_w h q q1 l n k v Hc E1 E2 E3 Hs1 Hno Hin) as (h1 & h2 & Ed & Et & Ef & Hok).
  rewrite Ed. cbn [lift fbind]. rewrite Et. cbn [lift fbind]. rewrite Ef.
  cbn [lift fbind]. eapply fsafex_bind; [apply tick_safex; exact Hok|]. intros f2 _.
  eapply fsafex_bind; [apply tick_safex; exact Hok|]. intros f3 _. cbn. exact Hok.
Qed.

Theorem f_remove_lru_safe f h q l :
  wfw h q l ->
  fsafex h q l (fun '(f1, h1, q1, r) => okx h q l h1 q1 /\
                                match r with Some _ => S (length (hidx q1)) = length (hidx q)
                                           | None => hidx q1 = hidx q end)
        (f_remove_lru f h q).
Proof.
  intros Hw. pose proof Hw as (Hc & Hs). unfold f_remove_lru.
  destruct (rev_ind_split l) as [El0|(l' & [a [ek ev]] & El0)].
  - rewrite El0 in Hc. rewrite (tail_prev_empty h q Hc). cbn [lift fbind]. rewrite Nat.eqb_refl. cbn.
    split; [now apply okx_refl|auto].
  - rewrite El0 in Hc. rewrite (tail_prev_last h q l' a (ek, ev) Hc). cbn [lift fbind].
    pose proof (ch_nodup _ _ _ Hc) as Hnd0. rewrite addrs_app in Hnd0. cbn [addrs map fst] in Hnd0.
    destruct (nodup_split_facts _ _ _ _ _ Hnd0) as (Hht & Hha & _).
    destruct (Nat.eqb_spec a (hhead q)); [congruence|].
    rewrite (key_at_chain h q _ a ek ev Hc) by (apply in_or_app; right; now left). cbn [lift fbind].
    rewrite <- El0 in Hc.
    eapply fsafex_bind; [apply tick_safex; now apply okx_refl|]. intros f1 _.
    destruct (idx_remove_w h q _ ek Hw) as (q1 & r & -> & E1 & E2 & E3 & Hr). cbn [lift fbind].
    destruct r as [b|]; [|subst q1; cbn; split; [now apply okx_refl|auto]].
    destruct Hr as (Hs1 & Hno & (v & Hin) & Hlen & _).
    destruct (unlink_free_w h q q1 _ b ek v Hc E1 E2 E3 Hs1 Hno Hin) as (h1 & h2 & Ed & Et & Ef & Hok).
    rewrite Ed. cbn [lift fbind]. rewrite Et. cbn [lift fbind]. rewrite Ef.
    cbn [lift fbind]. eapply fsafex_bind; [apply tick_safex; exact Hok|]. intros f2 _. cbn. auto.
Qed.

(** ** purge and resize *)
Lemma f_purge_loop_safe h0 q0 l0 : forall fuel f h q acc,
  okx h0 q0 l0 h q -> length (hidx q) < fuel ->
  fsafex h0 q0 l0 (fun '(f1, h1, q1, _) => okx h0 q0 l0 h1 q1) (f_purge_loop fuel f h q acc).
Proof.
  induction fuel as [|fuel IH]; intros f h q acc (l & Hw & Hx) Hlt; [lia|].
  cbn [f_purge_loop]. eapply fsafex_bind.
  { eapply fsafex_trans; [exact Hx|apply (f_remove_lru_safe f h q l Hw)|]. intros a Ha. exact Ha. }
  intros [[[f1 h1] q1] r] (Hok & Hr).
  assert (Hok0 : okx h0 q0 l0 h1 q1) by (eapply okx_trans; eauto).
  destruct r as [e|]; [|cbn; exact Hok0].
  eapply fsafex_bind; [apply tick_safex; exact Hok0|]. intros f2 _.
  eapply fsafex_bind; [apply tick_safex; exact Hok0|]. intros f2' _.
  apply IH; [exact Hok0|lia].
Qed.

Theorem f_purge_safe f h q l :
  wfw h q l -> fsafex h q l (fun '(f1, h1, q1, _) => okx h q l h1 q1) (f_purge f h q).
Proof. intros H. unfold f_purge. apply f_purge_loop_safe; [now apply okx_refl|lia]. Qed.

Lemma f_resize_loop_safe h0 q0 l0 c : forall fuel f h q acc,
  okx h0 q0 l0 h q ->
  fsafex h0 q0 l0 (fun '(f1, h1, q1, _) => okx h0 q0 l0 h1 q1) (f_resize_loop fuel f h q c acc).
Proof.
  induction fuel as [|fuel IH]; intros f h q acc Hok; [cbn; auto|].
  cbn [f_resize_loop]. destruct (Nat.ltb c (length (hidx q))); [|cbn; auto].
  destruct Hok as (l & Hw & Hx).
  eapply fsafex_bind.
  { eapply fsafex_trans; [exact Hx|apply (f_remove_lru_safe f h q l Hw)|]. intros a Ha. exact Ha. }
  intros [[[f1 h1] q1] r] (Hok & Hr).
  assert (Hok0 : okx h0 q0 l0 h1 q1) by (eapply okx_trans; eauto).
  eapply fsafex_bind with (P := fun _ => True).
  { destruct r; [apply tick_safex; exact Hok0|exact I]. }
  intros f2 _. eapply fsafex_bind with (P := fun _ => True).
  { destruct r; [apply tick_safex; exact Hok0|exact I]. }
  intros f2' _. apply IH; exact Hok0.
Qed.

Lemma okp_descr h q q' : hhead q' = hhead q -> htail q' = htail q -> hidx q' = hidx q -> okp h q -> okp h q'.
Proof.
  intros E1 E2 E3 (l & Hc & Hs). exists l. split; [eapply chain_descr; eauto|eapply idx_sub_descr; eauto].
Qed.

(** [resize] stores the new capacity last: up to there the list is the old one with fewer entries *)
Definition upto_cap (qm q1 : hlru) (c : nat) : Prop :=
  hhead q1 = hhead qm /\ htail q1 = htail qm /\ hidx q1 = hidx qm /\ hcap q1 = c.

Lemma upto_cap_refl q : upto_cap q q (hcap q).
Proof. repeat split. Qed.

Lemma wfw_upto h qm q1 c l : upto_cap qm q1 c -> wfw h qm l -> wfw h q1 l.
Proof.
  intros (E1 & E2 & E3 & _) (Hc & Hs). split; [eapply chain_descr; eauto|eapply idx_sub_descr; eauto].
Qed.

Theorem f_resize_safe f h q l c :
  wfw h q l -> fsafex h q l (fun '(f1, h1, q1, _) => exists qm, okx h q l h1 qm /\ upto_cap qm q1 c) (f_resize f h q c).
Proof.
  intros Hw. unfold f_resize. destruct (Nat.eqb_spec c (hcap q)) as [->|Hne].
  { cbn. exists q. split; [now apply okx_refl|apply upto_cap_refl]. }
  eapply fsafex_bind; [apply f_resize_loop_safe; now apply okx_refl|].
  intros [[[f1 h1] q1] a1] A. eapply fsafex_bind; [apply tick_insert_safex; exact A|]. intros f2 _.
  cbn. exists q1. split; [exact A|]. repeat split.
Qed.

(** ** the operations that call no user code *)
Lemma idx_len0_w q l : idx_sub q l -> (length (hidx q) =? 0) = false -> l <> [].
Proof.
  intros Hs E. apply (idx_nonempty_list q l Hs). intros E0. rewrite E0 in E. discriminate.
Qed.

Theorem h_get_lru_w h q l w :
  wfw h q l -> exists h1 r, h_get_lru h q w = HOk (h1, r) /\ okx h q l h1 q.
Proof.
  intros Hw. pose proof Hw as (Hc & Hs). unfold h_get_lru.
  destruct (length (hidx q) =? 0) eqn:E0; [do 2 eexists; split; [reflexivity|now apply okx_refl]|].
  pose proof (idx_len0_w q l Hs E0) as Hne.
  destruct (rev_ind_split l) as [->|(l' & [a [k v]] & ->)]; [congruence|].
  rewrite (tail_prev_last h q l' a (k, v) Hc). cbn [hbind].
  destruct (touch_w h q l' a k v [] Hc) as (h1 & h2 & -> & E2 & Hc2 & Ef2 & Hfr2). cbn [hbind]. rewrite E2. cbn [hbind].
  rewrite app_nil_r in Hc2.
  assert (Hw2 : wfw h2 q ((a, (k, v)) :: l')).
  { split; [exact Hc2|]. eapply idx_sub_incl; [exact Hs|]. intros x Hx.
    pose proof (addrs_front l' a (k, v) (k, v) [] x Hx) as H. now rewrite app_nil_r in H. }
  destruct (h_write_w h2 q _ a k v w Hw2 (or_introl eq_refl)) as (h3 & e & -> & Hok). cbn [hbind].
  do 2 eexists. split; [reflexivity|]. eapply okx_trans; [|exact Hok].
  apply ext_same; [reflexivity|reflexivity|reflexivity|exact Ef2| |exact Hfr2].
  intros x Hx. pose proof (addrs_front_back l' a (k, v) (k, v) [] x) as H. rewrite app_nil_r in H. now apply H.
Qed.

Theorem h_peek_lru_w h q l w :
  wfw h q l -> exists h1 r, h_peek_lru h q w = HOk (h1, r) /\ okx h q l h1 q.
Proof.
  intros Hw. pose proof Hw as (Hc & Hs). unfold h_peek_lru.
  destruct (length (hidx q) =? 0) eqn:E0; [do 2 eexists; split; [reflexivity|now apply okx_refl]|].
  pose proof (idx_len0_w q l Hs E0) as Hne.
  destruct (rev_ind_split l) as [El0|(l' & [a [k v]] & El0)]; [congruence|].
  rewrite El0 in Hc. rewrite (tail_prev_last h q l' a (k, v) Hc). cbn [hbind].
  destruct (h_write_w h q _ a k v w Hw ltac:(rewrite El0; apply in_or_app; right; now left)) as (h3 & e & -> & Hok). cbn [hbind].
  do 2 eexists. split; [reflexivity|exact Hok].
Qed.

Theorem h_peek_mru_w h q l w :
  wfw h q l -> exists h1 r, h_peek_mru h q w = HOk (h1, r) /\ okx h q l h1 q.
Proof.
  intros Hw. pose proof Hw as (Hc & Hs). unfold h_peek_mru.
  destruct (length (hidx q) =? 0) eqn:E0; [do 2 eexists; split; [reflexivity|now apply okx_refl]|].
  pose proof (idx_len0_w q l Hs E0) as Hne.
  destruct l as [|[a [k v]] l']; [congruence|].
  destruct (ch_head _ _ _ Hc) as [hp Eh]. cbn [first_addr] in Eh.
  rewrite (hread_node _ _ _ _ _ _ Eh). cbn [hbind].
  destruct (h_write_w h q _ a k v w Hw (or_introl eq_refl)) as (h3 & e & -> & Hok). cbn [hbind].
  do 2 eexists. split; [reflexivity|exact Hok].
Qed.

(** ** peek_or_put, contains_or_put *)
Theorem f_peek_mut_or_put_safe f h q l k v w :
  wfw h q l -> fsafex h q l (fun '(f1, h1, q1, a, b) => okx h q l h1 q1) (f_peek_mut_or_put f h q k v w).
Proof.
  intros Hw. unfold f_peek_mut_or_put. eapply fsafex_bind; [apply (f_find_safe f h q l k Hw)|].
  intros [f1 r] Hr. destruct r as [a|].
  - destruct Hr as [Hi (v0 & Hin)].
    eapply fsafex_bind; [apply tick_safex; now apply okx_refl|]. intros f2 _.
    eapply fsafex_bind; [apply tick_safex; now apply okx_refl|]. intros f3 _.
    destruct (h_write_w h q l a k v0 w Hw Hin) as (h1 & e & -> & Hok). cbn. exact Hok.
  - eapply fsafex_bind; [apply (f_put_safe f1 h q l k v Hw)|].
    intros [[[f2 h2] q2] pr] Hok2. exact Hok2.
Qed.

Theorem f_contains_or_put_safe f h q l k v :
  wfw h q l -> fsafex h q l (fun '(f1, h1, q1, a, b) => okx h q l h1 q1) (f_contains_or_put f h q k v).
Proof.
  intros Hw. unfold f_contains_or_put. eapply fsafex_bind; [apply (f_contains_safe f h q l k Hw)|].
  intros [f1 b] _. destruct b.
  - eapply fsafex_bind; [apply tick_safex; now apply okx_refl|]. intros f2 _.
    eapply fsafex_bind; [apply tick_safex; now apply okx_refl|]. intros f3 _. cbn. now apply okx_refl.
  - eapply fsafex_bind; [apply (f_put_safe f1 h q l k v Hw)|]. intros [[[f2 h2] q2] pr] Hok2. exact Hok2.
Qed.

(** ** one step of the fault machine, with its footprint *)
Definition hop_cap (o : hop) (c : nat) : nat := match o with HResize c' => c' | _ => c end.

Theorem fstep_safex f h q l o :
  wfw h q l ->
  fsafex h q l (fun '(f1, h1, q1, r) => exists qm, okx h q l h1 qm /\ upto_cap qm q1 (hop_cap o (hcap qm))) (fstep f h q o).
Proof.
  intros Hw.
  assert (Hsame : forall h1 q1, okx h q l h1 q1 -> exists qm, okx h q l h1 qm /\ upto_cap qm q1 (hcap qm)).
  { intros h1 q1 H. exists q1. split; [exact H|apply upto_cap_refl]. }
  destruct o as [k v|k w|k|k| | |c|k w|k|w|w|w|k v w|k v]; cbn [fstep hop_cap].
  - eapply fsafex_bind; [apply (f_put_safe f h q l k v Hw)|]. intros [[[f1 h1] q1] r] H. cbn. now apply Hsame.
  - eapply fsafex_bind; [apply (f_get_mut_safe f h q l k w Hw)|]. intros [[f1 h1] r] H. cbn. now apply Hsame.
  - eapply fsafex_bind; [apply (f_peek_safe f h q l k Hw)|]. intros [f1 r] _. cbn. apply Hsame. now apply okx_refl.
  - eapply fsafex_bind; [apply (f_remove_safe f h q l k Hw)|]. intros [[[f1 h1] q1] r] H. cbn. now apply Hsame.
  - eapply fsafex_bind; [apply (f_remove_lru_safe f h q l Hw)|]. intros [[[f1 h1] q1] r] (H & _). cbn. now apply Hsame.
  - eapply fsafex_bind; [apply (f_purge_safe f h q l Hw)|]. intros [[[f1 h1] q1] a1] H. cbn. now apply Hsame.
  - eapply fsafex_bind; [apply (f_resize_safe f h q l c Hw)|]. intros [[[f1 h1] q1] a1] H. exact H.
  - eapply fsafex_bind; [apply (f_peek_mut_safe f h q l k w Hw)|]. intros [[f1 h1] r] H. cbn. now apply Hsame.
  - eapply fsafex_bind; [apply (f_contains_safe f h q l k Hw)|]. intros [f1 b] _. cbn. apply Hsame. now apply okx_refl.
  - destruct (h_get_lru_w h q l w Hw) as (h1 & r & -> & Hok). cbn. now apply Hsame.
  - destruct (h_peek_lru_w h q l w Hw) as (h1 & r & -> & Hok). cbn. now apply Hsame.
  - destruct (h_peek_mru_w h q l w Hw) as (h1 & r & -> & Hok). cbn. now apply Hsame.
  - eapply fsafex_bind; [apply (f_peek_mut_or_put_safe f h q l k v w Hw)|]. intros [[[[f1 h1] q1] a] b] H. cbn. now apply Hsame.
  - eapply fsafex_bind; [apply (f_contains_or_put_safe f h q l k v Hw)|]. intros [[[[f1 h1] q1] a] b] H. cbn. now apply Hsame.
Qed.

Theorem fstep_safe f h q o :
  okp h q -> fsafe (fun '(f1, h1, q1, r) => okp h1 q1) (fstep f h q o).
Proof.
  intros (l & Hw). eapply fsafe_weaken; [eapply fsafex_fsafe; apply (fstep_safex f h q l o Hw)|].
  intros [[[f1 h1] q1] r] (qm & (l' & Hw' & _) & Hu). exists l'. eapply wfw_upto; eauto.
Qed.


(** ** Drop: no memory error whatever the state and the fuse; a panic while dropping leaks the rest *)
Definition noerr {A} (r : fres A) : Prop := match r with FErr _ => False | _ => True end.

Lemma tick_noerr c f h q : match tick c f h q with FErr _ => False | _ => True end.
Proof. unfold tick. destruct f as [[c' m]|]; [|exact I]. destruct (tclass_eqb c c'); [destruct m|]; exact I. Qed.

Lemma f_drop_nodes_noerr (i : list (addr * addr)) : forall f h q,
  NoDup (map snd i) ->
  (forall a, In a (map snd i) -> exists k v p n, cells h a = Node (Some k) (Some v) p n) ->
  match f_drop_nodes f h q i with
  | FOk (f1, h1) => forall x, ~ In x (map snd i) -> cells h1 x = cells h x
  | FPanic _ _ => True
  | FErr _ => False
  end.
Proof.
  induction i as [|[ka na] rest IH]; intros f h q Hnd Hall; [cbn; auto|].
  cbn [map snd] in Hnd, Hall. apply NoDup_cons_iff in Hnd. destruct Hnd as [Hnotin Hnd].
  destruct (Hall na (or_introl eq_refl)) as (k & v & p & n & E).
  cbn [f_drop_nodes]. unfold take_kv, hfree. rewrite (hread_node _ _ _ _ _ _ E). cbn [hbind lift fbind]. rewrite E.
  cbn [lift fbind].
  pose proof (tick_noerr TDropK f (hupd h na Free) q) as T1.
  destruct (tick TDropK f (hupd h na Free) q) as [f1|h' q'|e]; cbn [fbind]; [|exact I|exact T1].
  pose proof (tick_noerr TDropV f1 (hupd h na Free) q) as T2.
  destruct (tick TDropV f1 (hupd h na Free) q) as [f2|h' q'|e]; cbn [fbind]; [|exact I|exact T2].
  specialize (IH f2 (hupd h na Free) q Hnd).
  assert (Hall' : forall a, In a (map snd rest) -> exists k v p n, cells (hupd h na Free) a = Node (Some k) (Some v) p n).
  { intros a Ha. rewrite cells_hupd_other by (intros ->; contradiction). apply Hall. now right. }
  specialize (IH Hall').
  destruct (f_drop_nodes f2 (hupd h na Free) q rest) as [[f3 h3]|h' q'|e]; [|exact I|exact IH].
  intros x Hx. cbn [map snd In] in Hx. rewrite IH by tauto. apply cells_hupd_other. intros ->. tauto.
Qed.

Theorem f_drop_noerr f h q : okp h q -> noerr (f_drop f h q).
Proof.
  intros (l & Hc & Hnd & Hall). unfold f_drop.
  pose proof (ch_nodup _ _ _ Hc) as Hnd0. apply NoDup_cons_iff in Hnd0. destruct Hnd0 as [Hh Hnd0].
  apply NoDup_cons_iff in Hnd0. destruct Hnd0 as [Ht Hnd0].
  assert (Hin : forall a, In a (map snd (hidx q)) -> In a (addrs l)).
  { intros a Ha. apply in_map_iff in Ha. destruct Ha as (p & <- & Hp). now apply Hall. }
  pose proof (f_drop_nodes_noerr (hidx q) f h q Hnd) as H.
  destruct (f_drop_nodes f h q (hidx q)) as [[f1 h1]|h' q'|e]; cbn [fbind noerr].
  - assert (Hfr : forall x, ~ In x (map snd (hidx q)) -> cells h1 x = cells h x).
    { apply H. intros a Ha. eapply seg_cell; [exact (ch_seg _ _ _ Hc)|now apply Hin]. }
    destruct (ch_head _ _ _ Hc) as [hp Eh]. destruct (ch_tail _ _ _ Hc) as [tn Et].
    assert (Hh1 : ~ In (hhead q) (map snd (hidx q))) by (intros X; apply Hh; right; now apply Hin).
    assert (Ht1 : ~ In (htail q) (map snd (hidx q))) by (intros X; apply Ht; now apply Hin).
    unfold hfree. rewrite (Hfr _ Hh1), Eh. cbn [lift fbind].
    assert (Hne : htail q <> hhead q) by (intros E; apply Hh; left; now rewrite E).
    rewrite cells_hupd_other by assumption. rewrite (Hfr _ Ht1), Et. exact I.
  - exact I.
  - apply H. intros a Ha. eapply seg_cell; [exact (ch_seg _ _ _ Hc)|now apply Hin].
Qed.

(** ** every state a history with faults can reach *)
Inductive freach : heap -> hlru -> Prop :=
| fr_new c : freach (fst (hnew heap0 c)) (snd (hnew heap0 c))
| fr_ok h q o f f' h' q' r : freach h q -> fstep f h q o = FOk (f', h', q', r) -> freach h' q'
| fr_panic h q o f h' q' q'' : freach h q -> fstep f h q o = FPanic h' q' -> lossy q'' q' -> freach h' q''.

Theorem freach_ok h q : freach h q -> okp h q.
Proof.
  induction 1 as [c|h q o f f' h' q' r Hr IH E|h q o f h' q' q'' Hr IH E Hl].
  - destruct (new_refines c true) as (l & Hwf & _). exists l. now apply wf_wfw.
  - pose proof (fstep_safe f h q o IH) as H. rewrite E in H. exact H.
  - pose proof (fstep_safe f h q o IH) as H. rewrite E in H. destruct H as (l & Hw). exists l.
    eapply wfw_lossy; eauto.
Qed.

Theorem freach_noerr h q : freach h q ->
  (forall f o, noerr (fstep f h q o)) /\ (forall f, noerr (f_drop f h q)).
Proof.
  intros Hr. pose proof (freach_ok h q Hr) as Hok. split.
  - intros f o. pose proof (fstep_safe f h q o Hok) as H. destruct (fstep f h q o); cbn in *; auto.
  - intros f. now apply f_drop_noerr.
Qed.

(** ** with no fuse the fault machine is the heap machine *)
Lemma lift_ok {A} h q (r : hres A) a : r = HOk a -> lift h q r = FOk a.
Proof. now intros ->. Qed.

Ltac hstepx :=
  match goal with
  | H : context [hbind ?r _] |- _ =>
    let E := fresh "E" in destruct r as [?|?] eqn:E; cbn [hbind] in H; [|discriminate H]
  end.

Ltac fin H := inversion H; subst; reflexivity.

Lemma tick_find_none h q : tick_find None h q = FOk None.
Proof. unfold tick_find. now destruct (hidx q). Qed.

Theorem f_put_erase h q k v h' q' r : h_put h q k v = HOk (h', q', r) -> f_put None h q k v = FOk (None, h', q', r).
Proof.
  unfold h_put, f_put, f_find. rewrite tick_find_none. cbn [tick fbind]. intros H.
  destruct (idx_find h (hidx q) k) as [o|e] eqn:Ef; cbn [hbind] in H; [|discriminate].
  cbn [lift fbind]. destruct o as [n|].
  - destruct (h_update h q n v) as [[h1 old]|e]; cbn [hbind] in H; [|discriminate]. cbn [lift fbind tick]. fin H.
  - destruct (hcap q =? 0); [fin H|]. destruct (length (hidx q) =? hcap q).
    + destruct (tail_prev h q) as [p|e]; cbn [hbind] in H; [|discriminate]. cbn [lift fbind].
      destruct (key_at h p) as [ok|e]; cbn [hbind] in H; [|discriminate]. cbn [lift fbind tick].
      destruct (idx_remove h q ok) as [[q1 r1]|e]; cbn [hbind] in H; [|discriminate]. cbn [lift fbind].
      destruct r1 as [old|]; [|discriminate].
      destruct (take_kv h old) as [[ek ev]|e]; cbn [hbind] in H; [|discriminate]. cbn [lift fbind].
      destruct (hread h old) as [[[[kk vv] pp] nn]|e]; cbn [hbind] in H; [|discriminate]. cbn [lift fbind]. cbv zeta.
      destruct (detach _ old) as [h2|e]; cbn [hbind] in H; [|discriminate]. cbn [lift fbind].
      destruct (attach h2 q1 old) as [h3|e]; cbn [hbind] in H; [|discriminate]. cbn [lift fbind tick_insert tick]. fin H.
    + destruct (halloc h (Some k) (Some v)) as [h1 n].
      destruct (attach h1 q n) as [h2|e]; cbn [hbind] in H; [|discriminate]. cbn [lift fbind tick_insert]. fin H.
Qed.

Theorem f_remove_erase h q k h' q' r : h_remove h q k = HOk (h', q', r) -> f_remove None h q k = FOk (None, h', q', r).
Proof.
  unfold h_remove, h_remove_ent, f_remove. cbn [tick fbind]. intros H.
  destruct (idx_remove h q k) as [[q1 o]|e]; cbn [hbind] in H; [|discriminate]. cbn [lift fbind].
  destruct o as [n|]; [|cbn [hbind] in H; fin H].
  destruct (detach h n) as [h1|e]; cbn [hbind] in H; [|discriminate]. cbn [lift fbind].
  destruct (take_kv h1 n) as [[kk vv]|e]; cbn [hbind] in H; [|discriminate]. cbn [lift fbind].
  destruct (hfree h1 n) as [h2|e]; cbn [hbind] in H; [|discriminate]. cbn [lift fbind tick]. fin H.
Qed.

Theorem f_get_mut_erase h q k w h' r : h_get_mut h q k w = HOk (h', r) -> f_get_mut None h q k w = FOk (None, h', r).
Proof.
  unfold h_get_mut, f_get_mut, f_find. rewrite tick_find_none. cbn [tick fbind]. intros H.
  destruct (idx_find h (hidx q) k) as [o|e]; cbn [hbind] in H; [|discriminate]. cbn [lift fbind].
  destruct o as [n|]; [|fin H].
  destruct (detach h n) as [h1|e]; cbn [hbind] in H; [|discriminate]. cbn [lift fbind].
  destruct (attach h1 q n) as [h2|e]; cbn [hbind] in H; [|discriminate]. cbn [lift fbind].
  destruct (hread h2 n) as [[[[kk ov] p] x]|e]; cbn [hbind] in H; [|discriminate]. cbn [lift fbind].
  destruct ov; [fin H|discriminate].
Qed.

Theorem f_remove_lru_erase h q h' q' r : h_remove_lru h q = HOk (h', q', r) -> f_remove_lru None h q = FOk (None, h', q', r).
Proof.
  unfold h_remove_lru, h_remove_lru_in, f_remove_lru. intros H.
  destruct (tail_prev h q) as [p|e]; cbn [hbind] in H; [|discriminate]. cbn [lift fbind].
  destruct (p =? hhead q); [cbn [hbind] in H; fin H|].
  destruct (key_at h p) as [k|e]; cbn [hbind] in H; [|discriminate]. cbn [lift fbind tick].
  destruct (idx_remove h q k) as [[q1 o]|e]; cbn [hbind] in H; [|discriminate]. cbn [lift fbind].
  destruct o as [n|]; [|cbn [hbind] in H; fin H].
  destruct (detach h n) as [h1|e]; cbn [hbind] in H; [|discriminate]. cbn [lift fbind].
  destruct (take_kv h1 n) as [e0|e]; cbn [hbind] in H; [|discriminate]. cbn [lift fbind].
  destruct (hfree h1 n) as [h2|e]; cbn [hbind] in H; [|discriminate]. cbn [lift fbind tick]. fin H.
Qed.

(** ** what the fuel of [resize] hides: after a fault the loop of the real code need not terminate.
    A list of two linked nodes of which only the first is indexed, shrunk to capacity 0:
    [remove_lru] finds the last node's key in no index entry, returns [None], and the index is as
    long as before.  (Liveness, not memory safety: outside C18; the harness does not call resize
    after an injected panic.) *)
Definition spin_heap : heap :=
  mkHeap (fun a => match a with
                   | 0 => Node None None 0 2 | 1 => Node None None 3 0
                   | 2 => Node (Some 7%Z) (Some 70%Z) 0 3 | 3 => Node (Some 8%Z) (Some 80%Z) 2 1
                   | _ => Free end) 4.
Definition spin_q : hlru := mkHlru 0 1 [(2, 2)] 2.

Example resize_may_spin :
  wfw spin_heap spin_q [(2, (7%Z, 70%Z)); (3, (8%Z, 80%Z))] /\
  f_remove_lru None spin_heap spin_q = FOk (None, spin_heap, spin_q, None) /\
  length (hidx spin_q) > 0.
Proof.
  split; [|split; [reflexivity|cbn; lia]].
  split.
  - constructor; cbn.
    + repeat constructor; cbn; intuition discriminate.
    + eexists; reflexivity.
    + eexists; reflexivity.
    + repeat split.
    + intros a [<-|[<-|[<-|[<-|[]]]]]; lia.
  - split; cbn.
    + repeat constructor. intros [].
    + intros p [<-|[]]. cbn. auto.
Qed.

(** non-vacuity: a put into a full list whose [map.insert] hashing panics leaves the recycled node
    linked but not indexed; the state is [wfw], later operations and the drop run without error *)
Example fault_then_go_on :
  let '(h0, q0) := hnew heap0 2 in
  match hrun h0 q0 [HPut 1 10; HPut 2 20]%Z with
  | HOk (h, q, _) =>
    match fstep (Some (THash, 2)) h q (HPut 3%Z 30%Z) with
    | FPanic h' q' =>
      length (hidx q') = 1 /\ walk 5 h' (match cells h' (hhead q') with Node _ _ _ n => n | Free => 0 end) (htail q')
        = HOk [(2, (3%Z, 30%Z)); (3, (2%Z, 20%Z))] /\
      match fstep None h' q' (HPut 4%Z 40%Z) with
      | FOk (_, h2, q2, _) => match f_drop None h2 q2 with FOk _ => True | _ => False end
      | _ => False
      end
    | _ => False
    end
  | HErr _ => False
  end.
Proof. vm_compute. repeat split. Qed.
