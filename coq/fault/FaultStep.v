(** * Layer F as a state machine the runner can drive (kind 10).

    Ordinary operations are those of kind 9 (same codes), run with no fuse; the cache has a callback, so
    the callback log is produced.  A faulted operation is written
    [97; kind; c0; c1; c2; c3; c4; c5; c6; nidx; idx...; op...]: the harness reports the kind of
    the call into user code it made panic (0 BuildHasher, 1 Hash, 2 Eq, 4 Drop of a key, 5 Drop of a
    value, 6 callback), how many calls of each kind had completed in that operation, and the
    node names the index still holds afterwards (an interrupted rehash may have lost some).  The
    model maps kind and counts to a tick of layer F, runs the operation with that fuse, and
    adopts the reported index after checking that it is a sub-index of its own. *)
From VF Require Import Base Enc Heap HeapStep Fault.
From Coq Require Import List Arith.
Import ListNotations.
Open Scope Z_scope.

Record fstate := mkFstate { fs_h : heap; fs_q : hlru; fs_leak : nat }.

Definition finit (cfg : list Z) : option fstate :=
  match cfg with
  | [c] => if Z.leb c 0 then None
           else let '(h, q) := hnew heap0 (Z.to_nat c) in Some (mkFstate h q 0)
  | _ => None
  end.

Definition fuse_of (kind c1 c4 c5 c6 : Z) : fuse :=
  match kind with
  | 0 | 1 => Some (THash, Z.to_nat c1)
  | 2 => Some (THash, Z.to_nat (c1 - 1))
  | 4 => Some (TDropK, Z.to_nat c4)
  | 5 => Some (TDropV, Z.to_nat c5)
  | 6 => Some (TCb, Z.to_nat c6)
  | _ => None
  end.

Definition cb_of_put (q : hlru) (r : option put_result) : list entry :=
  match r with
  | Some (PEvicted ek ev) => if Nat.eqb (hcap q) 0 then [] else [(ek, ev)]
  | _ => []
  end.

(** run one operation with a fuse: result, callback log *)
Definition frun_op (f : fuse) (h : heap) (q : hlru) (o : hop) : fres (fuse * heap * hlru * list Z * list entry) :=
  match o with
  | HPurge => fdo (f1, h1, q1, acc) <- f_purge f h q; FOk (f1, h1, q1, [], acc)
  | HResize c => fdo (f1, h1, q1, acc) <- f_resize f h q c; FOk (f1, h1, q1, [zn (length acc)], acc)
  | _ =>
    fdo (f1, h1, q1, r) <- fstep f h q o;
    let cb := match o, r with
              | HPut _ _, OPut pr => cb_of_put q (Some pr)
              | HRemove k, OVal (Some v) => [(k, v)]
              | HRemoveLru, OEnt (Some e) => [e]
              | HPeekMutOrPut _ _ _, OValPut _ pr => cb_of_put q pr
              | HContainsOrPut _ _, OBoolPut _ pr => cb_of_put q pr
              | _, _ => []
              end in
    FOk (f1, h1, q1, enc_hout r, cb)
  end.

Fixpoint take_n (n : nat) (l : list Z) : list Z * list Z :=
  match n, l with
  | O, _ => ([], l)
  | S m, x :: t => let '(a, b) := take_n m t in (x :: a, b)
  | S _, [] => ([], [])
  end.

Definition mem_nat (x : nat) (l : list nat) : bool := existsb (Nat.eqb x) l.

(** what is lost when a call panics inside the library (everything else is either still in a node or a
    local that unwinding drops): in [remove] the callback runs after the node was unboxed and before
    the key is dropped in place, so the key object is lost; in [put] on a resident key the key passed in
    is dropped when the result [Update(old)] is already in the return slot, and a return value is
    not dropped when a local's destructor panics, so [old] is lost *)
Definition leak_of (o : hop) (f : fuse) : nat :=
  match o, f with
  | HRemove _, Some (TCb, _) => 1
  | HPut _ _, Some (TDropK, _) => 1
  | _, _ => 0
  end.

Definition fstep_enc (s : fstate) (o : list Z) : option (fstate * list Z * list Z) :=
  match o with
  | 97 :: kind :: c0 :: c1 :: c2 :: c3 :: c4 :: c5 :: c6 :: nidx :: rest =>
    let '(obs, opz) := take_n (Z.to_nat nidx) rest in
    match dec_hop opz with
    | None => None
    | Some op =>
      let f := fuse_of kind c1 c4 c5 c6 in
      match frun_op f (fs_h s) (fs_q s) op with
      | FPanic h' q' =>
        let obsn := map Z.to_nat obs in
        let kept := filter (fun p => mem_nat (snd p) obsn) (hidx q') in
        if Nat.eqb (length kept) (length obsn)
        then Some (mkFstate h' (with_idx q' kept) (fs_leak s + leak_of op f), [-1000], [0])
        else Some (s, [-3000; zn (length kept); zn (length obsn)], [0])
      | FOk (_, h1, q1, _, _) =>
        (* the panic came after the operation had completed (a value handed back was being dropped) *)
        Some (mkFstate h1 q1 (fs_leak s), [-1000], [0])
      | FErr e => Some (s, [-2000; herr_code e], [0])
      end
    end
  | _ =>
    match dec_hop o with
    | None =>
      match o with
      | [8] => Some (s, [zn (length (hidx (fs_q s)))], [0])
      | [9] => Some (s, [zn (hcap (fs_q s))], [0])
      | [10] => Some (s, [zb (Nat.eqb (length (hidx (fs_q s))) 0)], [0])
      | _ => None
      end
    | Some op =>
      match frun_op None (fs_h s) (fs_q s) op with
      | FOk (_, h1, q1, out, cb) => Some (mkFstate h1 q1 (fs_leak s), out, enc_entries cb)
      | FPanic _ _ => Some (s, [-1000], [0])           (* unwrap on None *)
      | FErr e => Some (s, [-2000; herr_code e], [0])
      end
    end
  end.

Definition fchain (s : fstate) : hres (list (addr * entry)) :=
  hdo (_, _, _, first) <- hread (fs_h s) (hhead (fs_q s));
  walk (S (fresh (fs_h s))) (fs_h s) first (htail (fs_q s)).

(** [cap; n; (k v addr)*; index addresses in increasing order...; 0] *)
Definition fsnap (s : fstate) : list Z :=
  match fchain s with
  | HOk l => zn (hcap (fs_q s)) :: zn (length l) :: enc_nodes l
               ++ map zn (sort_nat (map snd (hidx (fs_q s)))) ++ [0]
  | HErr e => [-2000; herr_code e]
  end.

Definition fretained (s : fstate) : nat :=
  match fchain s with HOk l => length l | HErr _ => 0%nat end.
Definition fleaked (s : fstate) : nat := fs_leak s.

(** the final drop: keys and values of the indexed nodes are dropped; linked nodes without an index
    entry stay allocated with their key and value *)
Definition fdrop_out (s : fstate) : list Z :=
  match f_drop None (fs_h s) (fs_q s) with
  | FOk _ =>
    let n := length (hidx (fs_q s)) in
    let c := fretained s in
    [zn n; zn n; 0; zn (2 * (c - n) + fs_leak s); zn (c - n); 0]
  | FPanic _ _ => [-1000]
  | FErr e => [-2000; herr_code e]
  end.
