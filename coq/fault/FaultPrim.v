(** * Layer F — the crate-internal primitives of RawLRU with their calls into user code, and a machine
    that runs any program over them on a family of lists sharing one heap (C18, composite caches).

    The composite caches (SegmentedCache, TwoQueueCache, AdaptiveCache, WTinyLFUCache) own several
    RawLRUs and move nodes between them as raw [NonNull] pointers: a node leaves a list with
    [remove_and_return_ent] / [remove_lru_in] (or as the node pushed out by [put_or_evict_nonnull]),
    is in flight — owned by a local variable that has no destructor — and enters another list with
    [put_nonnull] / [put_or_evict_nonnull], or is unboxed ([Box::from_raw]).  The primitives are the
    code of Heap.v between the same ticks as in Fault.v.

    [gstep] is one action of a program over these primitives: the program is arbitrary (which
    action comes next may depend on anything), only the ownership discipline is fixed — an in-flight
    node is named by its position in the list of nodes in flight, so a program can neither invent a
    pointer nor use one twice.  When a panic unwinds, every node in flight is lost (it leaks). *)
From VF Require Import Base Heap Fault.
From Coq Require Import List Arith.
Import ListNotations.
Local Open Scope nat_scope.

(** [remove_and_return_ent]: [map.remove(k)], then [detach] *)
Definition f_remove_ent (f : fuse) (h : heap) (q : hlru) (k : key) : fres (fuse * heap * hlru * option addr) :=
  fdo f1 <- tick THash f h q;
  fdo (q1, r) <- lift h q (idx_remove h q k);
  match r with
  | None => FOk (f1, h, q1, None)
  | Some n => fdo h1 <- lift h q1 (detach h n); FOk (f1, h1, q1, Some n)
  end.

(** [remove_lru_in] *)
Definition f_remove_lru_in (f : fuse) (h : heap) (q : hlru) : fres (fuse * heap * hlru * option addr) :=
  fdo p <- lift h q (tail_prev h q);
  if Nat.eqb p (hhead q) then FOk (f, h, q, None)
  else
    fdo k <- lift h q (key_at h p);
    fdo f1 <- tick THash f h q;
    fdo (q1, r) <- lift h q (idx_remove h q k);
    match r with
    | None => FOk (f1, h, q1, None)
    | Some n => fdo h1 <- lift h q1 (detach h n); FOk (f1, h1, q1, Some n)
    end.

(** [put_or_evict_nonnull]: when full, [map.remove(&old_key).unwrap()], [detach(old)]; then
    [attach(n)], [map.insert] — the node is linked before its key is hashed *)
Definition f_put_or_evict_nonnull (f : fuse) (h : heap) (q : hlru) (n : addr)
  : fres (fuse * heap * hlru * option addr) :=
  if Nat.leb (hcap q) (length (hidx q)) then
    fdo p <- lift h q (tail_prev h q);
    fdo k <- lift h q (key_at h p);
    fdo f1 <- tick THash f h q;
    fdo (q1, r) <- lift h q (idx_remove h q k);
    match r with
    | None => FPanic h q
    | Some old =>
      fdo h1 <- lift h q1 (detach h old);
      fdo h2 <- lift h1 q1 (attach h1 q1 n);
      fdo f2 <- tick_insert f1 h2 q1;
      FOk (f2, h2, idx_insert q1 n, Some old)
    end
  else
    fdo h1 <- lift h q (attach h q n);
    fdo f1 <- tick_insert f h1 q;
    FOk (f1, h1, idx_insert q n, None).

(** [put_nonnull]: the same, then the node pushed out is unboxed and its pair handed to the caller *)
Definition f_put_nonnull (f : fuse) (h : heap) (q : hlru) (n : addr) : fres (fuse * heap * hlru * option entry) :=
  fdo (f1, h1, q1, ev) <- f_put_or_evict_nonnull f h q n;
  match ev with
  | None => FOk (f1, h1, q1, None)
  | Some old =>
    fdo e <- lift h1 q1 (take_kv h1 old);
    fdo h2 <- lift h1 q1 (hfree h1 old);
    FOk (f1, h2, q1, Some e)
  end.

(** [map.get_mut(k)] followed by [update(v, ptr)] on a hit (no user code after the lookup) *)
Definition f_update_key (f : fuse) (h : heap) (q : hlru) (k : key) (v : val) : fres (fuse * heap * option val) :=
  fdo (f1, r) <- f_find f h q k;
  match r with
  | None => FOk (f1, h, None)
  | Some n => fdo (h1, old) <- lift h q (h_update h q n v); FOk (f1, h1, Some old)
  end.

(** ** programs over the primitives *)
Inductive gop :=
| GNew (c : nat)                          (* RawLRU::new(c) *)
| GPub (i : nat) (o : hop)                (* a public operation of list i *)
| GRemoveEnt (i : nat) (k : key)          (* the node goes in flight *)
| GRemoveLruIn (i : nat)
| GPutOrEvict (i b : nat)                 (* in-flight node b enters list i; a node pushed out goes in flight *)
| GPutNonnull (i b : nat)                 (* ... or is unboxed *)
| GUpdateKey (i : nat) (k : key) (v : val)
| GWriteNode (i : nat) (n : addr) (w : option val)  (* a write through the reference a lookup returned: the node is in the index of list i *)
| GSwap (b : nat) (v : val)               (* [swap_value] on a node in flight *)
| GAlloc (k : key) (v : val)              (* Box::new(EntryNode::new(k, v)) *)
| GFree (b : nat)                         (* Box::from_raw: the pair is moved out *)
| GTick (c : tclass)                      (* user code called by the composite cache itself *)
| GDrop (i : nat).                        (* the list is dropped *)

Record gstate := mkG { gh : heap; gls : list hlru; gfl : list addr }.

Inductive gres :=
| GOk (f : fuse) (s : gstate)
| GPanic (s : gstate)
| GErr (e : herr).

Definition set_nth {A} (i : nat) (x : A) (l : list A) : list A := firstn i l ++ x :: skipn (S i) l.
Definition del_nth {A} (i : nat) (l : list A) : list A := firstn i l ++ skipn (S i) l.

(** a step on list [i]; a panic inside it loses the nodes in flight *)
Definition glift {A} (s : gstate) (i : nat) (r : fres A) (k : A -> gres) : gres :=
  match r with
  | FOk a => k a
  | FPanic h q => GPanic (mkG h (set_nth i q (gls s)) [])
  | FErr e => GErr e
  end.

Definition gstep (f : fuse) (s : gstate) (o : gop) : gres :=
  let h := gh s in
  match o with
  | GNew c => let '(h1, q) := hnew h c in GOk f (mkG h1 (gls s ++ [q]) (gfl s))
  | GPub i o =>
    match nth_error (gls s) i with
    | None => GOk f s
    | Some q => glift s i (fstep f h q o) (fun '(f1, h1, q1, _) => GOk f1 (mkG h1 (set_nth i q1 (gls s)) (gfl s)))
    end
  | GRemoveEnt i k =>
    match nth_error (gls s) i with
    | None => GOk f s
    | Some q => glift s i (f_remove_ent f h q k)
                  (fun '(f1, h1, q1, r) => GOk f1 (mkG h1 (set_nth i q1 (gls s))
                                                     (match r with Some n => n :: gfl s | None => gfl s end)))
    end
  | GRemoveLruIn i =>
    match nth_error (gls s) i with
    | None => GOk f s
    | Some q => glift s i (f_remove_lru_in f h q)
                  (fun '(f1, h1, q1, r) => GOk f1 (mkG h1 (set_nth i q1 (gls s))
                                                     (match r with Some n => n :: gfl s | None => gfl s end)))
    end
  | GPutOrEvict i b =>
    match nth_error (gls s) i, nth_error (gfl s) b with
    | Some q, Some n =>
      glift s i (f_put_or_evict_nonnull f h q n)
        (fun '(f1, h1, q1, r) => GOk f1 (mkG h1 (set_nth i q1 (gls s))
                                           (match r with Some old => old :: del_nth b (gfl s) | None => del_nth b (gfl s) end)))
    | _, _ => GOk f s
    end
  | GPutNonnull i b =>
    match nth_error (gls s) i, nth_error (gfl s) b with
    | Some q, Some n =>
      glift s i (f_put_nonnull f h q n)
        (fun '(f1, h1, q1, _) => GOk f1 (mkG h1 (set_nth i q1 (gls s)) (del_nth b (gfl s))))
    | _, _ => GOk f s
    end
  | GUpdateKey i k v =>
    match nth_error (gls s) i with
    | None => GOk f s
    | Some q => glift s i (f_update_key f h q k v) (fun '(f1, h1, _) => GOk f1 (mkG h1 (gls s) (gfl s)))
    end
  | GWriteNode i n w =>
    match nth_error (gls s) i with
    | None => GOk f s
    | Some q =>
      if existsb (Nat.eqb n) (map snd (hidx q)) then
        match h_write h n w with
        | HOk (h1, _) => GOk f (mkG h1 (gls s) (gfl s))
        | HErr e => GErr e
        end
      else GOk f s
    end
  | GSwap b v =>
    match nth_error (gfl s) b with
    | None => GOk f s
    | Some n => match h_swap_value h n v with
                | HOk (h1, _) => GOk f (mkG h1 (gls s) (gfl s))
                | HErr e => GErr e
                end
    end
  | GAlloc k v => let '(h1, n) := halloc h (Some k) (Some v) in GOk f (mkG h1 (gls s) (n :: gfl s))
  | GFree b =>
    match nth_error (gfl s) b with
    | None => GOk f s
    | Some n => match take_kv h n with
                | HErr e => GErr e
                | HOk _ => match hfree h n with
                           | HOk h1 => GOk f (mkG h1 (gls s) (del_nth b (gfl s)))
                           | HErr e => GErr e
                           end
                end
    end
  | GTick c =>
    match f with
    | Some (c', n) => if tclass_eqb c c' then match n with O => GPanic (mkG h (gls s) []) | S m => GOk (Some (c', m)) s end
                      else GOk f s
    | None => GOk f s
    end
  | GDrop i =>
    match nth_error (gls s) i with
    | None => GOk f s
    | Some q => match f_drop f h q with
                | FOk h1 => GOk f (mkG h1 (del_nth i (gls s)) (gfl s))
                | FPanic h1 _ => GPanic (mkG h1 (del_nth i (gls s)) [])
                | FErr e => GErr e
                end
    end
  end.

(** a program: actions one after the other, the fuse running through them; a panic ends it (it
    unwinds out of the composite cache's operation) *)
Fixpoint gprog (f : fuse) (s : gstate) (p : list gop) : gres :=
  match p with
  | [] => GOk f s
  | o :: rest => match gstep f s o with GOk f1 s1 => gprog f1 s1 rest | r => r end
  end.

(** a history: programs with their fuses, the next one starting where the last one ended or panicked *)
Fixpoint grun (s : gstate) (ps : list (fuse * list gop)) : option gstate :=
  match ps with
  | [] => Some s
  | (f, p) :: rest =>
    match gprog f s p with
    | GOk _ s1 => grun s1 rest
    | GPanic s1 => grun s1 rest
    | GErr _ => None
    end
  end.

Definition ginit : gstate := mkG heap0 [] [].
