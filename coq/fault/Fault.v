(** * Layer F — RawLRU on the heap with calls into user code made explicit (C18).

    Every place where src/lru/raw.rs calls user code is a [tick]: hashing and comparing keys inside
    the hash map ([THash]: BuildHasher, Hash and Eq; consecutive calls with no store in between
    are one tick), the eviction callback ([TCb]), dropping a key ([TDropK]) or a value ([TDropV]); [TClone] is
    [Clone] of a key or a value (used by the programs of FaultProg.v; no RawLRU operation of this file calls it).  A fuse
    selects one tick; when it is reached the operation stops with [FPanic h q], the heap and the
    list descriptor at that moment — what unwinding leaves behind, since nothing the library holds
    by raw pointer has a destructor.  [unwrap()] on [None] is a panic too.  [FErr] is a memory error
    (use after free, uninitialised read, double free).  The code between the ticks is the code of
    Heap.v, statement by statement. *)
From VF Require Import Base Heap.
From Coq Require Import List Arith.
Import ListNotations.
Local Open Scope nat_scope.

Inductive fres (A : Type) :=
| FOk (a : A)
| FPanic (h : heap) (q : hlru)
| FErr (e : herr).
Arguments FOk {A} a.
Arguments FPanic {A} h q.
Arguments FErr {A} e.

Definition fbind {A B} (r : fres A) (f : A -> fres B) : fres B :=
  match r with FOk a => f a | FPanic h q => FPanic h q | FErr e => FErr e end.
Notation "'fdo' x <- r ; f" := (fbind r (fun x => f)) (at level 200, x pattern, r at level 100, f at level 200).

(** a step of Heap.v inside an operation whose current state is [(h, q)]: a failed [unwrap] panics there *)
Definition lift {A} (h : heap) (q : hlru) (r : hres A) : fres A :=
  match r with
  | HOk a => FOk a
  | HErr EUnwrap => FPanic h q
  | HErr e => FErr e
  end.

Inductive tclass := THash | TCb | TDropK | TDropV | TClone.
Definition tclass_eqb (a b : tclass) : bool :=
  match a, b with THash, THash | TCb, TCb | TDropK, TDropK | TDropV, TDropV | TClone, TClone => true | _, _ => false end.

(** [Some (c, n)]: the n-th tick of class [c] from now on panics *)
Definition fuse := option (tclass * nat).

Definition tick (c : tclass) (f : fuse) (h : heap) (q : hlru) : fres fuse :=
  match f with
  | None => FOk None
  | Some (c', n) =>
    if tclass_eqb c c' then match n with O => FPanic h q | S m => FOk (Some (c', m)) end
    else FOk f
  end.

(** the hashing done by [map.insert], including whatever rehashing it triggers: it is the last
    hash-class tick of every RawLRU operation, so any pending hash fuse fires here *)
Definition tick_insert (f : fuse) (h : heap) (q : hlru) : fres fuse :=
  match f with
  | Some (THash, _) => FPanic h q
  | _ => FOk f
  end.

(** [map.get] / [get_mut] / [contains_key]: an empty table is answered without hashing *)
Definition tick_find (f : fuse) (h : heap) (q : hlru) : fres fuse :=
  match hidx q with [] => FOk f | _ :: _ => tick THash f h q end.

Definition f_find (f : fuse) (h : heap) (q : hlru) (k : key) : fres (fuse * option addr) :=
  fdo f1 <- tick_find f h q;
  fdo r <- lift h q (idx_find h (hidx q) k);
  FOk (f1, r).

(** [put] *)
Definition f_put (f : fuse) (h : heap) (q : hlru) (k : key) (v : val) : fres (fuse * heap * hlru * put_result) :=
  fdo (f1, r) <- f_find f h q k;
  match r with
  | Some n =>
    fdo (h1, old) <- lift h q (h_update h q n v);
    fdo f2 <- tick TDropK f1 h1 q;                      (* the key passed in is dropped on return *)
    FOk (f2, h1, q, PUpdate old)
  | None =>
    if Nat.eqb (hcap q) 0 then FOk (f1, h, q, PEvicted k v)
    else if Nat.eqb (length (hidx q)) (hcap q) then
      fdo p <- lift h q (tail_prev h q);
      fdo ok <- lift h q (key_at h p);
      fdo f2 <- tick THash f1 h q;                      (* map.remove(&old_key) *)
      fdo (q1, r1) <- lift h q (idx_remove h q ok);
      match r1 with
      | None => FPanic h q                              (* .unwrap() *)
      | Some old =>
        fdo (ek, ev) <- lift h q1 (take_kv h old);
        fdo (_, _, pp, nn) <- lift h q1 (hread h old);
        let h1 := hupd h old (Node (Some k) (Some v) pp nn) in
        fdo h2 <- lift h1 q1 (detach h1 old);
        fdo h3 <- lift h2 q1 (attach h2 q1 old);
        fdo f3 <- tick_insert f2 h3 q1;                 (* map.insert: the node is linked, not yet indexed *)
        let q2 := idx_insert q1 old in
        fdo f4 <- tick TCb f3 h3 q2;
        FOk (f4, h3, q2, PEvicted ek ev)
      end
    else
      let '(h1, n) := halloc h (Some k) (Some v) in
      fdo h2 <- lift h1 q (attach h1 q n);
      fdo f2 <- tick_insert f1 h2 q;
      FOk (f2, h2, idx_insert q n, PPut)
  end.

(** [get] / [get_mut] *)
Definition f_get_mut (f : fuse) (h : heap) (q : hlru) (k : key) (w : option val) : fres (fuse * heap * option val) :=
  fdo (f1, r) <- f_find f h q k;
  match r with
  | None => FOk (f1, h, None)
  | Some n =>
    fdo h1 <- lift h q (detach h n);
    fdo h2 <- lift h1 q (attach h1 q n);
    fdo (kk, ov, p, x) <- lift h2 q (hread h2 n);
    match ov with
    | None => FErr EUninit
    | Some old =>
      FOk (f1, match w with Some w => hupd h2 n (Node kk (Some w) p x) | None => h2 end, Some old)
    end
  end.

Definition f_peek (f : fuse) (h : heap) (q : hlru) (k : key) : fres (fuse * option val) :=
  fdo (f1, r) <- f_find f h q k;
  match r with
  | None => FOk (f1, None)
  | Some n => fdo (_, ov, _, _) <- lift h q (hread h n);
              match ov with Some v => FOk (f1, Some v) | None => FErr EUninit end
  end.

Definition f_peek_mut (f : fuse) (h : heap) (q : hlru) (k : key) (w : option val) : fres (fuse * heap * option val) :=
  fdo (f1, r) <- f_find f h q k;
  match r with
  | None => FOk (f1, h, None)
  | Some n => fdo (h1, e) <- lift h q (h_write h n w); FOk (f1, h1, Some (snd e))
  end.

Definition f_contains (f : fuse) (h : heap) (q : hlru) (k : key) : fres (fuse * bool) :=
  fdo (f1, r) <- f_find f h q k; FOk (f1, match r with Some _ => true | None => false end).

(** [remove]: [map.remove], detach, unbox (the block is freed), callback, drop the key in place *)
Definition f_remove (f : fuse) (h : heap) (q : hlru) (k : key) : fres (fuse * heap * hlru * option val) :=
  fdo f1 <- tick THash f h q;
  fdo (q1, r) <- lift h q (idx_remove h q k);
  match r with
  | None => FOk (f1, h, q1, None)
  | Some n =>
    fdo h1 <- lift h q1 (detach h n);
    fdo (_, v) <- lift h1 q1 (take_kv h1 n);
    fdo h2 <- lift h1 q1 (hfree h1 n);
    fdo f2 <- tick TCb f1 h2 q1;
    fdo f3 <- tick TDropK f2 h2 q1;
    FOk (f3, h2, q1, Some v)
  end.

(** [remove_lru] *)
Definition f_remove_lru (f : fuse) (h : heap) (q : hlru) : fres (fuse * heap * hlru * option entry) :=
  fdo p <- lift h q (tail_prev h q);
  if Nat.eqb p (hhead q) then FOk (f, h, q, None)
  else
    fdo k <- lift h q (key_at h p);
    fdo f1 <- tick THash f h q;
    fdo (q1, r) <- lift h q (idx_remove h q k);
    match r with
    | None => FOk (f1, h, q1, None)
    | Some n =>
      fdo h1 <- lift h q1 (detach h n);
      fdo e <- lift h1 q1 (take_kv h1 n);
      fdo h2 <- lift h1 q1 (hfree h1 n);
      fdo f2 <- tick TCb f1 h2 q1;
      FOk (f2, h2, q1, Some e)
    end.

(** [purge]: [while self.remove_lru().is_some() {}]; each pair handed back is dropped at once.
    The entries removed are returned in order (the callback log of the call). *)
Fixpoint f_purge_loop (fuel : nat) (f : fuse) (h : heap) (q : hlru) (acc : list entry)
  : fres (fuse * heap * hlru * list entry) :=
  match fuel with
  | O => FErr EUnwrap                 (* out of fuel: excluded by the theorems *)
  | S n =>
    fdo (f1, h1, q1, r) <- f_remove_lru f h q;
    match r with
    | None => FOk (f1, h1, q1, acc)
    | Some e => fdo f2 <- tick TDropK f1 h1 q1; fdo f3 <- tick TDropV f2 h1 q1; f_purge_loop n f3 h1 q1 (acc ++ [e])
    end
  end.
Definition f_purge (f : fuse) (h : heap) (q : hlru) : fres (fuse * heap * hlru * list entry) :=
  f_purge_loop (S (length (hidx q))) f h q [].

(** [resize]: [while self.map.len() > cap { self.remove_lru(); }] — bounded here by the index length;
    see [resize_may_spin] in FaultFacts.v for what the bound hides after a fault *)
Fixpoint f_resize_loop (fuel : nat) (f : fuse) (h : heap) (q : hlru) (c : nat) (acc : list entry)
  : fres (fuse * heap * hlru * list entry) :=
  match fuel with
  | O => FOk (f, h, q, acc)
  | S n =>
    if Nat.ltb c (length (hidx q)) then
      fdo (f1, h1, q1, r) <- f_remove_lru f h q;
      fdo f2 <- (match r with Some _ => tick TDropK f1 h1 q1 | None => FOk f1 end);
      fdo f3 <- (match r with Some _ => tick TDropV f2 h1 q1 | None => FOk f2 end);
      f_resize_loop n f3 h1 q1 c (acc ++ match r with Some e => [e] | None => [] end)
    else FOk (f, h, q, acc)
  end.
Definition f_resize (f : fuse) (h : heap) (q : hlru) (c : nat) : fres (fuse * heap * hlru * list entry) :=
  if Nat.eqb c (hcap q) then FOk (f, h, q, [])
  else
    fdo (f1, h1, q1, acc) <- f_resize_loop (length (hidx q)) f h q c [];
    fdo f2 <- tick_insert f1 h1 q1;        (* map.shrink_to_fit() may rehash; self.cap is set afterwards *)
    FOk (f2, h1, mkHlru (hhead q1) (htail q1) (hidx q1) c, acc).

(** the operations that reach a node through [head] / [tail] call no user code *)
Definition f_nouser {A} (h : heap) (q : hlru) (r : hres A) : fres A := lift h q r.

(** [peek_or_put] / [peek_mut_or_put] / [contains_or_put] *)
Definition f_peek_mut_or_put (f : fuse) (h : heap) (q : hlru) (k : key) (v : val) (w : option val)
  : fres (fuse * heap * hlru * option val * option put_result) :=
  fdo (f1, r) <- f_find f h q k;
  match r with
  | Some n =>
    fdo f2 <- tick TDropV f1 h q; fdo f3 <- tick TDropK f2 h q;      (* v and k are dropped on return *)
    fdo (h1, e) <- lift h q (h_write h n w);                         (* the caller writes through the reference *)
    FOk (f3, h1, q, Some (snd e), None)
  | None => fdo (f2, h2, q2, pr) <- f_put f1 h q k v; FOk (f2, h2, q2, None, Some pr)
  end.

Definition f_contains_or_put (f : fuse) (h : heap) (q : hlru) (k : key) (v : val)
  : fres (fuse * heap * hlru * bool * option put_result) :=
  fdo (f1, b) <- f_contains f h q k;
  if b then fdo f2 <- tick TDropV f1 h q; fdo f3 <- tick TDropK f2 h q; FOk (f3, h, q, true, None)
  else fdo (f2, h2, q2, pr) <- f_put f1 h q k v; FOk (f2, h2, q2, false, Some pr).

(** one step, same operations and outputs as [hstep] *)
Definition fstep (f : fuse) (h : heap) (q : hlru) (o : hop) : fres (fuse * heap * hlru * hout) :=
  match o with
  | HPut k v => fdo (f1, h1, q1, r) <- f_put f h q k v; FOk (f1, h1, q1, OPut r)
  | HGetMut k w => fdo (f1, h1, r) <- f_get_mut f h q k w; FOk (f1, h1, q, OVal r)
  | HPeek k => fdo (f1, r) <- f_peek f h q k; FOk (f1, h, q, OVal r)
  | HRemove k => fdo (f1, h1, q1, r) <- f_remove f h q k; FOk (f1, h1, q1, OVal r)
  | HRemoveLru => fdo (f1, h1, q1, r) <- f_remove_lru f h q; FOk (f1, h1, q1, OEnt r)
  | HPurge => fdo (f1, h1, q1, _) <- f_purge f h q; FOk (f1, h1, q1, OUnit)
  | HResize c => fdo (f1, h1, q1, _) <- f_resize f h q c; FOk (f1, h1, q1, OUnit)
  | HPeekMut k w => fdo (f1, h1, r) <- f_peek_mut f h q k w; FOk (f1, h1, q, OVal r)
  | HContains k => fdo (f1, b) <- f_contains f h q k; FOk (f1, h, q, OBool b)
  | HGetLru w => fdo (h1, r) <- f_nouser h q (h_get_lru h q w); FOk (f, h1, q, OEnt r)
  | HPeekLru w => fdo (h1, r) <- f_nouser h q (h_peek_lru h q w); FOk (f, h1, q, OEnt r)
  | HPeekMru w => fdo (h1, r) <- f_nouser h q (h_peek_mru h q w); FOk (f, h1, q, OEnt r)
  | HPeekMutOrPut k v w => fdo (f1, h1, q1, a, b) <- f_peek_mut_or_put f h q k v w; FOk (f1, h1, q1, OValPut a b)
  | HContainsOrPut k v => fdo (f1, h1, q1, a, b) <- f_contains_or_put f h q k v; FOk (f1, h1, q1, OBoolPut a b)
  end.

(** [Drop]: every indexed node is unboxed (freed), then its key and its value are dropped in place;
    finally the sentinels are freed.  A panic while dropping abandons the rest (it leaks). *)
Fixpoint f_drop_nodes (f : fuse) (h : heap) (q : hlru) (i : list (addr * addr)) : fres (fuse * heap) :=
  match i with
  | [] => FOk (f, h)
  | (_, n) :: rest =>
    fdo _ <- lift h q (take_kv h n);
    fdo h1 <- lift h q (hfree h n);
    fdo f1 <- tick TDropK f h1 q;
    fdo f2 <- tick TDropV f1 h1 q;
    f_drop_nodes f2 h1 q rest
  end.
Definition f_drop (f : fuse) (h : heap) (q : hlru) : fres heap :=
  fdo (f1, h1) <- f_drop_nodes f h q (hidx q);
  fdo h2 <- lift h1 q (hfree h1 (hhead q));
  lift h2 q (hfree h2 (htail q)).
