(** * Layer F — a run that starts with no fuse never has one (the fuse is only ever counted down). *)
From VF Require Import Base Lru BaseFacts LruFacts Heap HeapFacts HeapOps HeapRun HeapPrim Fault FaultFacts FaultPrim.
From Coq Require Import List Arith Lia.
Import ListNotations.
Local Open Scope nat_scope.

Ltac brk :=
  repeat match goal with
    | |- context [match ?x with _ => _ end] =>
      lazymatch x with
      | context [match _ with _ => _ end] => fail
      | _ => destruct x
      end
    end; try exact I; try reflexivity.

Definition nf4 {A B C} (r : fres (fuse * A * B * C)) : Prop := match r with FOk (f1, _, _, _) => f1 = None | _ => True end.
Definition nf3 {A B} (r : fres (fuse * A * B)) : Prop := match r with FOk (f1, _, _) => f1 = None | _ => True end.
Definition nf2 {A} (r : fres (fuse * A)) : Prop := match r with FOk (f1, _) => f1 = None | _ => True end.
Definition nf5 {A B C D} (r : fres (fuse * A * B * C * D)) : Prop := match r with FOk (f1, _, _, _, _) => f1 = None | _ => True end.

Lemma f_put_none h q k v : nf4 (f_put None h q k v).
Proof. unfold nf4, f_put, f_find, tick_find, tick, tick_insert, fbind, lift. brk. Qed.

Lemma f_get_mut_none h q k w : nf3 (f_get_mut None h q k w).
Proof. unfold nf3, f_get_mut, f_find, tick_find, tick, fbind, lift. brk. Qed.

Lemma f_peek_none h q k : nf2 (f_peek None h q k).
Proof. unfold nf2, f_peek, f_find, tick_find, tick, fbind, lift. brk. Qed.

Lemma f_peek_mut_none h q k w : nf3 (f_peek_mut None h q k w).
Proof. unfold nf3, f_peek_mut, f_find, tick_find, tick, fbind, lift. brk. Qed.

Lemma f_contains_none h q k : nf2 (f_contains None h q k).
Proof. unfold nf2, f_contains, f_find, tick_find, tick, fbind, lift. brk. Qed.

Lemma f_remove_none h q k : nf4 (f_remove None h q k).
Proof. unfold nf4, f_remove, tick, fbind, lift. brk. Qed.

Lemma f_remove_lru_none h q : nf4 (f_remove_lru None h q).
Proof. unfold nf4, f_remove_lru, tick, fbind, lift. brk. Qed.

Lemma f_purge_loop_none : forall fuel h q acc, nf4 (f_purge_loop fuel None h q acc).
Proof.
  induction fuel as [|fuel IH]; intros h q acc; cbn [f_purge_loop]; [exact I|].
  pose proof (f_remove_lru_none h q) as H. destruct (f_remove_lru None h q) as [[[[f1 h1] q1] r]|h1 q1|e]; cbn [fbind nf4] in *; try exact I.
  subst f1. destruct r; [|reflexivity]. cbn [tick fbind]. apply IH.
Qed.

Lemma f_resize_loop_none c : forall fuel h q acc, nf4 (f_resize_loop fuel None h q c acc).
Proof.
  induction fuel as [|fuel IH]; intros h q acc; cbn [f_resize_loop]; [reflexivity|].
  destruct (c <? length (hidx q)); [|reflexivity].
  pose proof (f_remove_lru_none h q) as H. destruct (f_remove_lru None h q) as [[[[f1 h1] q1] r]|h1 q1|e]; cbn [fbind nf4] in *; try exact I.
  subst f1. destruct r; cbn [tick fbind]; apply IH.
Qed.

Lemma f_find_none h q k : nf2 (f_find None h q k).
Proof. unfold nf2, f_find, tick_find, tick, fbind, lift. brk. Qed.

Lemma f_peek_mut_or_put_none h q k v w : nf5 (f_peek_mut_or_put None h q k v w).
Proof.
  unfold f_peek_mut_or_put. pose proof (f_find_none h q k) as H0.
  destruct (f_find None h q k) as [[f1 r]|h1 q1|e]; cbn [fbind nf2 nf5] in *; try exact I. subst f1.
  destruct r.
  - cbn [tick fbind]. unfold lift, fbind. brk. all: cbn; auto.
  - pose proof (f_put_none h q k v) as H. destruct (f_put None h q k v) as [[[[f1 h1] q1] r]|h1 q1|e]; cbn [fbind nf4 nf5] in *; auto.
Qed.

Lemma f_contains_or_put_none h q k v : nf5 (f_contains_or_put None h q k v).
Proof.
  unfold f_contains_or_put. pose proof (f_contains_none h q k) as H.
  destruct (f_contains None h q k) as [[f1 b]|h1 q1|e]; cbn [fbind nf2 nf5] in *; try exact I. subst f1.
  destruct b; [cbn [tick fbind]; reflexivity|].
  pose proof (f_put_none h q k v) as H. destruct (f_put None h q k v) as [[[[f1 h1] q1] r]|h1 q1|e]; cbn [fbind nf4 nf5] in *; auto.
Qed.

Lemma fstep_none h q o : nf4 (fstep None h q o).
Proof.
  destruct o as [k v|k w|k|k| | |c|k w|k|w|w|w|k v w|k v]; cbn [fstep].
  - pose proof (f_put_none h q k v) as H. destruct (f_put None h q k v) as [[[[f1 h1] q1] r]|?|?]; cbn in *; auto.
  - pose proof (f_get_mut_none h q k w) as H. destruct (f_get_mut None h q k w) as [[[f1 h1] r]|?|?]; cbn in *; auto.
  - pose proof (f_peek_none h q k) as H. destruct (f_peek None h q k) as [[f1 r]|?|?]; cbn in *; auto.
  - pose proof (f_remove_none h q k) as H. destruct (f_remove None h q k) as [[[[f1 h1] q1] r]|?|?]; cbn in *; auto.
  - pose proof (f_remove_lru_none h q) as H. destruct (f_remove_lru None h q) as [[[[f1 h1] q1] r]|?|?]; cbn in *; auto.
  - unfold f_purge. pose proof (f_purge_loop_none (S (length (hidx q))) h q []) as H.
    destruct (f_purge_loop _ None h q []) as [[[[f1 h1] q1] r]|?|?]; cbn in *; auto.
  - unfold f_resize. destruct (c =? hcap q); [reflexivity|].
    pose proof (f_resize_loop_none c (length (hidx q)) h q []) as H.
    destruct (f_resize_loop _ None h q c []) as [[[[f1 h1] q1] r]|?|?]; cbn in *; auto. subst f1. reflexivity.
  - pose proof (f_peek_mut_none h q k w) as H. destruct (f_peek_mut None h q k w) as [[[f1 h1] r]|?|?]; cbn in *; auto.
  - pose proof (f_contains_none h q k) as H. destruct (f_contains None h q k) as [[f1 r]|?|?]; cbn in *; auto.
  - unfold nf4, fbind, f_nouser, lift. brk.
  - unfold nf4, fbind, f_nouser, lift. brk.
  - unfold nf4, fbind, f_nouser, lift. brk.
  - pose proof (f_peek_mut_or_put_none h q k v w) as H. destruct (f_peek_mut_or_put None h q k v w) as [[[[[f1 h1] q1] a] b]|?|?]; cbn in *; auto.
  - pose proof (f_contains_or_put_none h q k v) as H. destruct (f_contains_or_put None h q k v) as [[[[[f1 h1] q1] a] b]|?|?]; cbn in *; auto.
Qed.

Lemma f_remove_ent_none h q k : nf4 (f_remove_ent None h q k).
Proof. unfold nf4, f_remove_ent, tick, fbind, lift. brk. Qed.

Lemma f_remove_lru_in_none h q : nf4 (f_remove_lru_in None h q).
Proof. unfold nf4, f_remove_lru_in, tick, fbind, lift. brk. Qed.

Lemma f_put_or_evict_none h q n : nf4 (f_put_or_evict_nonnull None h q n).
Proof. unfold nf4, f_put_or_evict_nonnull, tick, tick_insert, fbind, lift. brk. Qed.

Lemma f_put_nonnull_none h q n : nf4 (f_put_nonnull None h q n).
Proof.
  unfold f_put_nonnull. pose proof (f_put_or_evict_none h q n) as H.
  destruct (f_put_or_evict_nonnull None h q n) as [[[[f1 h1] q1] r]|?|?]; cbn [fbind nf4] in *; try exact I. subst f1.
  destruct r; [unfold lift, fbind; brk|reflexivity].
Qed.

Lemma f_update_key_none h q k v : nf3 (f_update_key None h q k v).
Proof. unfold nf3, f_update_key, f_find, tick_find, tick, fbind, lift. brk. Qed.

Theorem gstep_none s o f1 s1 : gstep None s o = GOk f1 s1 -> f1 = None.
Proof.
  destruct o as [c|i o|i k|i|i b|i b|i k v|i n w|b v|k v|b|c|i]; cbn [gstep]; intros H.
  - destruct (hnew (gh s) c). now inversion H.
  - destruct (nth_error (gls s) i) as [q|]; [|now inversion H].
    pose proof (fstep_none (gh s) q o) as X. destruct (fstep None (gh s) q o) as [[[[f2 h2] q2] r]|?|?]; cbn [glift nf4] in *; try discriminate.
    inversion H; subst. reflexivity.
  - destruct (nth_error (gls s) i) as [q|]; [|now inversion H].
    pose proof (f_remove_ent_none (gh s) q k) as X. destruct (f_remove_ent None (gh s) q k) as [[[[f2 h2] q2] r]|?|?]; cbn [glift nf4] in *; try discriminate.
    inversion H; subst. reflexivity.
  - destruct (nth_error (gls s) i) as [q|]; [|now inversion H].
    pose proof (f_remove_lru_in_none (gh s) q) as X. destruct (f_remove_lru_in None (gh s) q) as [[[[f2 h2] q2] r]|?|?]; cbn [glift nf4] in *; try discriminate.
    inversion H; subst. reflexivity.
  - destruct (nth_error (gls s) i) as [q|]; [|now inversion H]. destruct (nth_error (gfl s) b) as [n|]; [|now inversion H].
    pose proof (f_put_or_evict_none (gh s) q n) as X. destruct (f_put_or_evict_nonnull None (gh s) q n) as [[[[f2 h2] q2] r]|?|?]; cbn [glift nf4] in *; try discriminate.
    inversion H; subst. reflexivity.
  - destruct (nth_error (gls s) i) as [q|]; [|now inversion H]. destruct (nth_error (gfl s) b) as [n|]; [|now inversion H].
    pose proof (f_put_nonnull_none (gh s) q n) as X. destruct (f_put_nonnull None (gh s) q n) as [[[[f2 h2] q2] r]|?|?]; cbn [glift nf4] in *; try discriminate.
    inversion H; subst. reflexivity.
  - destruct (nth_error (gls s) i) as [q|]; [|now inversion H].
    pose proof (f_update_key_none (gh s) q k v) as X. destruct (f_update_key None (gh s) q k v) as [[[f2 h2] r]|?|?]; cbn [glift nf3] in *; try discriminate.
    inversion H; subst. reflexivity.
  - destruct (nth_error (gls s) i) as [q|]; [|now inversion H].
    destruct (existsb (Nat.eqb n) (map snd (hidx q))); [|now inversion H].
    destruct (h_write (gh s) n w) as [[h1 e]|e]; [now inversion H|discriminate].
  - destruct (nth_error (gfl s) b) as [n|]; [|now inversion H].
    destruct (h_swap_value (gh s) n v) as [[h1 e]|e]; [now inversion H|discriminate].
  - destruct (halloc (gh s) (Some k) (Some v)). now inversion H.
  - destruct (nth_error (gfl s) b) as [n|]; [|now inversion H].
    destruct (take_kv (gh s) n); [|discriminate]. destruct (hfree (gh s) n); [now inversion H|discriminate].
  - now inversion H.
  - destruct (nth_error (gls s) i) as [q|]; [|now inversion H].
    destruct (f_drop None (gh s) q); [now inversion H|discriminate|discriminate].
Qed.
