(** * C01 — capacity bound and size accounting, all five caches. *)
From VF Require Import Base Iter Enc Lru LruStep Slru TwoQ Arc CacheStep Tiny WTiny TinyStep
  BaseFacts LruFacts Counts PrimFacts SlruFacts TwoQFacts ArcFacts TinyFacts WTinyFacts Run.
From Coq Require Import Permutation.

(** ** "len() equals the number of distinct keys for which contains() is true" *)

Definition memk (l : list key) (k : key) : bool := existsb (Z.eqb k) l.

Lemma memk_in l k : memk l k = true <-> In k l.
Proof.
  unfold memk. rewrite existsb_exists. split.
  - intros (x & Hx & E). apply Z.eqb_eq in E. now subst.
  - intros H. exists k. split; [exact H|apply Z.eqb_refl].
Qed.

Lemma mem_memk k l : mem k l = memk (keys l) k.
Proof.
  destruct (mem k l) eqn:E.
  - symmetry. apply memk_in. now apply mem_true_iff.
  - symmetry. destruct (memk (keys l) k) eqn:E2; [|reflexivity].
    apply memk_in in E2. apply mem_true_iff in E2. congruence.
Qed.

(** for a duplicate-free list of resident keys and any duplicate-free universe covering it,
    the length is the number of keys of the universe that are members *)
Lemma length_distinct_members (l U : list key) :
  NoDup l -> NoDup U -> incl l U -> length l = length (filter (memk l) U).
Proof.
  intros Hl HU Hincl. apply Permutation_length. apply NoDup_Permutation.
  - exact Hl.
  - now apply NoDup_filter.
  - intros x. rewrite filter_In, memk_in. split; [intros H; split; auto|tauto].
Qed.

Lemma nodup_app_counts (a b : list entry) :
  (forall x, (cntl a x + cntl b x <= 1)%nat) -> NoDup (keys a ++ keys b).
Proof.
  intros H. rewrite <- keys_app. apply cntl_nodup. intros x. rewrite cntl_app. apply H.
Qed.

Lemma memk_app a b k : memk (a ++ b) k = memk a k || memk b k.
Proof. unfold memk. apply existsb_app. Qed.

(** ** RawLRU *)
Definition lrun (s : lru) (ops : list lop) : lru := fold_left (fun s o => fst (fst (lstep s o))) ops s.

Lemma lrun_inv ops s : lru_inv s -> lru_inv (lrun s ops).
Proof.
  revert s. induction ops as [|o t IH]; intros s H; cbn; [exact H|]. apply IH. now apply lstep_inv.
Qed.

Theorem c01_lru c cb ops :
  let s := lrun (lru_new c cb) ops in
  NoDup (keys (items s)) /\ (llen s <= cap s)%nat /\
  (forall U, NoDup U -> incl (keys (items s)) U ->
             llen s = length (filter (fun k => contains s k) U)) /\
  (Nat.eqb (llen s) 0 = true <-> items s = []).
Proof.
  cbn zeta. set (s := lrun (lru_new c cb) ops).
  assert (H : lru_inv s). { apply lrun_inv. split; cbn; [constructor|lia]. }
  destruct H as [Hnd Hlen]. repeat split; auto.
  - intros U HU Hincl. unfold llen. rewrite <- length_keys.
    rewrite (length_distinct_members _ U Hnd HU Hincl).
    f_equal. apply filter_ext. intros k. unfold contains. now rewrite mem_memk.
  - rewrite Nat.eqb_eq. unfold llen. destruct (items s); [reflexivity|discriminate].
  - intros E. unfold llen. now rewrite E.
Qed.

(** ** SegmentedCache *)
Definition srun := runM sstep.

Theorem c01_slru pc fc ops :
  (1 <= pc)%nat -> (1 <= fc)%nat ->
  exists s, srun (slru_new pc fc) ops = Ok s /\
    cap (prob s) = pc /\ cap (prot s) = fc /\
    (llen (prob s) <= pc)%nat /\ (llen (prot s) <= fc)%nat /\ (slen s <= scap s)%nat /\
    NoDup (keys (items (prob s)) ++ keys (items (prot s))) /\
    (forall U, NoDup U -> incl (keys (items (prob s)) ++ keys (items (prot s))) U ->
               slen s = length (filter (fun k => scontains s k) U)) /\
    (sis_empty s = true <-> items (prob s) = [] /\ items (prot s) = []).
Proof.
  intros Hp Hf.
  destruct (runM_inv sstep (fun s => slru_inv s /\ same_caps (slru_new pc fc) s)) with
      (ops := ops) (s := slru_new pc fc) as (s & E & Hinv & Hc1 & Hc2).
  - intros s o [Hi [Ha Hb]]. destruct (sstep_ok s o Hi) as (s' & out & E & Hi' & Hc1 & Hc2).
    exists s', out. split; [exact E|]. split; [exact Hi'|]. unfold same_caps in *. split; congruence.
  - split; [now apply slru_new_inv|split; reflexivity].
  - exists s. split; [exact E|]. cbn in Hc1, Hc2.
    destruct Hinv as (H1 & H2 & Hl1 & Hl2 & Hd).
    pose proof (nodup_app_counts _ _ Hd) as Hnd.
    repeat split; try lia.
    + unfold slen, scap. lia.
    + exact Hnd.
    + intros U HU Hincl. unfold slen, llen.
      replace (length (items (prot s)) + length (items (prob s)))%nat
        with (length (keys (items (prob s)) ++ keys (items (prot s)))) by (rewrite app_length, !length_keys; lia).
      rewrite (length_distinct_members _ U Hnd HU Hincl). f_equal. apply filter_ext. intros k.
      unfold scontains, contains. rewrite memk_app, !mem_memk. apply Bool.orb_comm.
    + unfold sis_empty, llen in H. apply Bool.andb_true_iff in H. destruct H as [_ H].
      apply Nat.eqb_eq in H. destruct (items (prob s)); [reflexivity|discriminate].
    + unfold sis_empty, llen in H. apply Bool.andb_true_iff in H. destruct H as [H _].
      apply Nat.eqb_eq in H. destruct (items (prot s)); [reflexivity|discriminate].
    + intros [E1 E2]. unfold sis_empty, llen. now rewrite E1, E2.
Qed.

(** ** TwoQueueCache *)
Definition qrun := runM qstep.

Theorem c01_twoq size rs es ops :
  (1 <= size)%nat -> (1 <= es)%nat ->
  exists s, qrun (twoq_new size rs es) ops = Ok s /\
    qsize s = size /\ cap (ghost s) = es /\
    (qlen s <= qsize s)%nat /\ (llen (ghost s) <= es)%nat /\
    NoDup (keys (items (recent s)) ++ keys (items (frequent s)) ++ keys (items (ghost s))) /\
    (forall U, NoDup U -> incl (keys (items (recent s)) ++ keys (items (frequent s))) U ->
               qlen s = length (filter (fun k => qcontains s k) U)) /\
    (qis_empty s = true <-> items (recent s) = [] /\ items (frequent s) = [] /\ items (ghost s) = []).
Proof.
  intros Hs He.
  destruct (runM_inv qstep (fun s => twoq_inv s /\ q_same_cfg (twoq_new size rs es) s)) with
      (ops := ops) (s := twoq_new size rs es) as (s & E & Hinv & Hc1 & Hc2 & Hc3).
  - intros s o [Hi (Ha & Hb & Hc)]. destruct (qstep_ok s o Hi) as (s' & out & E & Hi' & (A & B & C)).
    exists s', out. split; [exact E|]. split; [exact Hi'|]. unfold q_same_cfg in *. repeat split; congruence.
  - split; [now apply twoq_new_inv|repeat split].
  - exists s. split; [exact E|]. cbn in Hc1, Hc2, Hc3.
    destruct Hinv as (H1 & Hcr & Hcf & Hcg & Hrf & Hg & Hd).
    assert (Hnd3 : NoDup (keys (items (recent s)) ++ keys (items (frequent s)) ++ keys (items (ghost s)))).
    { rewrite <- !keys_app. apply cntl_nodup. intros x. rewrite !cntl_app. pose proof (Hd x). lia. }
    assert (Hnd2 : NoDup (keys (items (recent s)) ++ keys (items (frequent s)))).
    { apply nodup_app_counts. intros x. pose proof (Hd x). lia. }
    repeat split; try lia.
    + unfold qlen. lia.
    + exact Hnd3.
    + intros U HU Hincl. unfold qlen, llen.
      replace (length (items (recent s)) + length (items (frequent s)))%nat
        with (length (keys (items (recent s)) ++ keys (items (frequent s)))) by (rewrite app_length, !length_keys; lia).
      rewrite (length_distinct_members _ U Hnd2 HU Hincl). f_equal. apply filter_ext. intros k.
      unfold qcontains, contains. rewrite memk_app, !mem_memk. apply Bool.orb_comm.
    + unfold qis_empty, llen in H. rewrite !Bool.andb_true_iff, !Nat.eqb_eq in H.
      destruct (items (recent s)); [reflexivity|cbn in H; lia].
    + unfold qis_empty, llen in H. rewrite !Bool.andb_true_iff, !Nat.eqb_eq in H.
      destruct (items (frequent s)); [reflexivity|cbn in H; lia].
    + unfold qis_empty, llen in H. rewrite !Bool.andb_true_iff, !Nat.eqb_eq in H.
      destruct (items (ghost s)); [reflexivity|cbn in H; lia].
    + intros (E1 & E2 & E3). unfold qis_empty, llen. now rewrite E1, E2, E3.
Qed.

(** ** AdaptiveCache *)
Definition arun := runM astep.

Theorem c01_arc size ops :
  (1 <= size)%nat ->
  exists s, arun (arc_new size) ops = Ok s /\
    asize s = size /\ (ap s <= size)%nat /\
    (alen s <= size)%nat /\ (llen (b1 s) <= size)%nat /\ (llen (b2 s) <= size)%nat /\
    NoDup (keys (items (t1 s)) ++ keys (items (b1 s)) ++ keys (items (t2 s)) ++ keys (items (b2 s))) /\
    (forall U, NoDup U -> incl (keys (items (t1 s)) ++ keys (items (t2 s))) U ->
               alen s = length (filter (fun k => acontains s k) U)) /\
    (ais_empty s = true <->
     items (t1 s) = [] /\ items (b1 s) = [] /\ items (t2 s) = [] /\ items (b2 s) = []).
Proof.
  intros Hs.
  destruct (runM_inv astep (fun s => arc_inv s /\ a_same_cfg (arc_new size) s)) with
      (ops := ops) (s := arc_new size) as (s & E & Hinv & Hc).
  - intros s o [Hi Ha]. destruct (astep_ok s o Hi) as (s' & out & E & Hi' & A).
    exists s', out. split; [exact E|]. split; [exact Hi'|]. unfold a_same_cfg in *. congruence.
  - split; [now apply arc_new_inv|reflexivity].
  - exists s. split; [exact E|]. unfold a_same_cfg in Hc. cbn in Hc.
    destruct Hinv as (H1 & Hc1 & Hc2 & Hc3 & Hc4 & Hp & Hr & Hg1 & Hg2 & Hd).
    assert (Hnd4 : NoDup (keys (items (t1 s)) ++ keys (items (b1 s)) ++ keys (items (t2 s)) ++ keys (items (b2 s)))).
    { rewrite <- !keys_app. apply cntl_nodup. intros x. rewrite !cntl_app. pose proof (Hd x). lia. }
    assert (Hnd2 : NoDup (keys (items (t1 s)) ++ keys (items (t2 s)))).
    { apply nodup_app_counts. intros x. pose proof (Hd x). lia. }
    repeat split; try lia.
    + unfold alen. lia.
    + exact Hnd4.
    + intros U HU Hincl. unfold alen, llen.
      replace (length (items (t1 s)) + length (items (t2 s)))%nat
        with (length (keys (items (t1 s)) ++ keys (items (t2 s)))) by (rewrite app_length, !length_keys; lia).
      rewrite (length_distinct_members _ U Hnd2 HU Hincl). f_equal. apply filter_ext. intros k.
      unfold acontains, contains. now rewrite memk_app, !mem_memk.
    + unfold ais_empty, llen in H. rewrite !Bool.andb_true_iff, !Nat.eqb_eq in H.
      destruct (items (t1 s)); [reflexivity|cbn in H; lia].
    + unfold ais_empty, llen in H. rewrite !Bool.andb_true_iff, !Nat.eqb_eq in H.
      destruct (items (b1 s)); [reflexivity|cbn in H; lia].
    + unfold ais_empty, llen in H. rewrite !Bool.andb_true_iff, !Nat.eqb_eq in H.
      destruct (items (t2 s)); [reflexivity|cbn in H; lia].
    + unfold ais_empty, llen in H. rewrite !Bool.andb_true_iff, !Nat.eqb_eq in H.
      destruct (items (b2 s)); [reflexivity|cbn in H; lia].
    + intros (E1 & E2 & E3 & E4). unfold ais_empty, llen. now rewrite E1, E2, E3, E4.
Qed.

(** ** WTinyLFUCache *)
Definition wrun := runM wstep_trait.

Theorem c01_wtiny s0 ops :
  wt_inv s0 ->
  exists s, wrun s0 ops = Ok s /\
    cap (wt_lru s) = cap (wt_lru s0) /\ same_caps (wt_slru s0) (wt_slru s) /\
    (llen (wt_lru s) <= cap (wt_lru s))%nat /\
    (llen (prob (wt_slru s)) <= cap (prob (wt_slru s)))%nat /\
    (llen (prot (wt_slru s)) <= cap (prot (wt_slru s)))%nat /\
    (wlen s <= wcap s)%nat /\
    NoDup (keys (items (wt_lru s)) ++ keys (items (prob (wt_slru s))) ++ keys (items (prot (wt_slru s)))) /\
    (forall U, NoDup U ->
               incl (keys (items (wt_lru s)) ++ keys (items (prob (wt_slru s))) ++ keys (items (prot (wt_slru s)))) U ->
               wlen s = length (filter (fun k => wcontains s k) U)) /\
    (wis_empty s = true <->
     items (wt_lru s) = [] /\ items (prob (wt_slru s)) = [] /\ items (prot (wt_slru s)) = []).
Proof.
  intros H0.
  destruct (runM_inv wstep_trait (fun s => wt_inv s /\ w_same_cfg s0 s)) with
      (ops := ops) (s := s0) as (s & E & Hinv & Hc1 & Hc2 & Hc3).
  - intros s o [Hi (Ha & Hb & Hc)]. destruct (wstep_trait_ok s o Hi) as (s' & out & E & Hi' & (A & B & C)).
    exists s', out. split; [exact E|]. split; [exact Hi'|]. unfold w_same_cfg, same_caps in *.
    destruct B, Hb. repeat split; congruence.
  - split; [exact H0|repeat split].
  - exists s. split; [exact E|].
    destruct Hinv as (Ht & Hc & Hl & Hm & Hd). destruct Hm as (Hm1 & Hm2 & Hl1 & Hl2 & Hdm).
    unfold scnt in Hd.
    assert (Hnd : NoDup (keys (items (wt_lru s)) ++ keys (items (prob (wt_slru s))) ++ keys (items (prot (wt_slru s))))).
    { rewrite <- !keys_app. apply cntl_nodup. intros x. rewrite !cntl_app. pose proof (Hd x). lia. }
    repeat split; auto; try apply Hc2.
    + unfold wlen, wcap, slen, scap. lia.
    + intros U HU Hincl. unfold wlen, slen, llen.
      replace (length (items (wt_lru s)) + (length (items (prot (wt_slru s))) + length (items (prob (wt_slru s)))))%nat
        with (length (keys (items (wt_lru s)) ++ keys (items (prob (wt_slru s))) ++ keys (items (prot (wt_slru s)))))
        by (rewrite !app_length, !length_keys; lia).
      rewrite (length_distinct_members _ U Hnd HU Hincl). f_equal. apply filter_ext. intros k.
      unfold wcontains, scontains, contains. rewrite !memk_app, !mem_memk.
      destruct (memk (keys (items (wt_lru s))) k), (memk (keys (items (prob (wt_slru s)))) k),
        (memk (keys (items (prot (wt_slru s)))) k); reflexivity.
    + unfold wis_empty, sis_empty, llen in H. rewrite !Bool.andb_true_iff, !Nat.eqb_eq in H.
      destruct (items (wt_lru s)); [reflexivity|cbn in H; lia].
    + unfold wis_empty, sis_empty, llen in H. rewrite !Bool.andb_true_iff, !Nat.eqb_eq in H.
      destruct (items (prob (wt_slru s))); [reflexivity|cbn in H; lia].
    + unfold wis_empty, sis_empty, llen in H. rewrite !Bool.andb_true_iff, !Nat.eqb_eq in H.
      destruct (items (prot (wt_slru s))); [reflexivity|cbn in H; lia].
    + intros (E1 & E2 & E3). unfold wis_empty, sis_empty, llen. now rewrite E1, E2, E3.
Qed.
