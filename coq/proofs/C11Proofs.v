(** * C11 — TinyLFU estimates never under-count, age on schedule and compare consistently.
    Part 1: the 4-bit counters (count_min_row.rs) as a function from counter index to value. *)
From VF Require Import Base Tiny TinyFacts.
From Coq Require Import NArith Lia ZifyN ZifyNat ZifyBool.
Local Open Scope N_scope.

Ltac Zify.zify_post_hook ::= Z.div_mod_to_equations.

(** ** bytes: an exhaustive sweep over the 256 byte values and the two nibble positions *)
Definition all_bytes : list N := map N.of_nat (seq 0 256).

Lemma in_all_bytes b : b < 256 -> In b all_bytes.
Proof.
  intros H. unfold all_bytes. apply in_map_iff. exists (N.to_nat b). split; [lia|].
  apply in_seq. lia.
Qed.

Definition nib (b sh : N) : N := N.land (N.shiftr b sh) 15.

Definition byte_facts (b : N) : bool :=
  forallb (fun sh =>
    let v := nib b sh in
    let b' := b + N.shiftl 1 sh in
    (* increment of a non-saturated nibble: +1 there, the other nibble untouched, still a byte *)
    (if v <? 15 then (b' <? 256) && (nib b' sh =? v + 1) && (nib b' (4 - sh) =? nib b (4 - sh)) else true)
    (* reset halves both nibbles and stays a byte; values are nibbles *)
    && (nib (N.land (N.shiftr b 1) 119) sh =? v / 2) && (N.land (N.shiftr b 1) 119 <? 256) && (v <=? 15))
  [0; 4].

Lemma byte_sweep : forallb byte_facts all_bytes = true.
Proof. vm_compute. reflexivity. Qed.

Lemma byte_facts_at b sh :
  b < 256 -> (sh = 0 \/ sh = 4) ->
  let v := nib b sh in
  let b' := b + N.shiftl 1 sh in
  (v < 15 -> b' < 256 /\ nib b' sh = v + 1 /\ nib b' (4 - sh) = nib b (4 - sh)) /\
  nib (N.land (N.shiftr b 1) 119) sh = v / 2 /\ N.land (N.shiftr b 1) 119 < 256 /\ v <= 15.
Proof.
  intros Hb Hsh. pose proof (proj1 (forallb_forall _ _) byte_sweep b (in_all_bytes b Hb)) as H.
  unfold byte_facts in H. rewrite forallb_forall in H.
  assert (Hin : In sh [0; 4]) by (destruct Hsh; subst; cbn; auto).
  specialize (H sh Hin). cbv zeta in *.
  rewrite !Bool.andb_true_iff in H. destruct H as [[[H1 H2] H3] H4].
  apply N.eqb_eq in H2. apply N.ltb_lt in H3. apply N.leb_le in H4.
  split; [|auto]. intros Hv. destruct (N.ltb_spec (nib b sh) 15); [|lia].
  rewrite !Bool.andb_true_iff in H1. destruct H1 as [[Ha Hb'] Hc].
  apply N.ltb_lt in Ha. apply N.eqb_eq in Hb', Hc. auto.
Qed.

(** ** lists *)
Lemma nth_error_set_nth_same (l : list N) i x :
  (i < length l)%nat -> nth_error (set_nth l i x) i = Some x.
Proof. revert i. induction l as [|h t IH]; intros [|i] H; cbn in *; try lia; auto. apply IH. lia. Qed.

Lemma nth_error_set_nth_other (l : list N) i j x :
  i <> j -> nth_error (set_nth l i x) j = nth_error l j.
Proof.
  revert i j. induction l as [|h t IH]; intros [|i] [|j] H; cbn; auto; try congruence.
Qed.

(** ** a row as a function: [rget r i] is counter [i] (0 out of range) *)
Definition rget (r : row) (i : N) : N :=
  match nthN r (i / 2) with
  | Some b => nib b (N.land i 1 * 4)
  | None => 0
  end.

Definition bytes_ok (r : row) : Prop := Forall (fun b => b < 256) r.
Definition in_row (r : row) (i : N) : Prop := (N.to_nat (i / 2) < length r)%nat.

Lemma row_get_rget r i : in_row r i -> row_get r i = Ok (rget r i).
Proof.
  intros H. unfold row_get, rget. destruct (nthN_some r (i / 2) H) as [b ->]. reflexivity.
Qed.

Lemma nib_shift_cases i : N.land i 1 * 4 = 0 \/ N.land i 1 * 4 = 4.
Proof.
  change 1 with (N.ones 1). rewrite N.land_ones. change (2 ^ 1) with 2.
  assert (i mod 2 < 2) by (apply N.mod_upper_bound; lia). lia.
Qed.

Lemma nth_bytes_ok r i b : bytes_ok r -> nthN r i = Some b -> b < 256.
Proof.
  intros H E. unfold nthN in E. apply nth_error_In in E. unfold bytes_ok in H.
  rewrite Forall_forall in H. auto.
Qed.

Lemma rget_le_15 r i : bytes_ok r -> rget r i <= 15.
Proof.
  intros H. unfold rget. destruct (nthN r (i / 2)) as [b|] eqn:E; [|lia].
  apply (byte_facts_at b _ (nth_bytes_ok _ _ _ H E) (nib_shift_cases i)).
Qed.

(** the row after [increment] (total version: out-of-range leaves the row alone) *)
Definition rincr (r : row) (i : N) : row :=
  match row_increment r i with Ok r' => r' | Panic _ => r end.

Lemma row_increment_rincr r i : in_row r i -> row_increment r i = Ok (rincr r i).
Proof.
  intros H. unfold rincr, row_increment. destruct (nthN_some r (i / 2) H) as [b ->].
  destruct (_ <? 15); reflexivity.
Qed.

Lemma set_nth_bytes_ok r i x : bytes_ok r -> x < 256 -> bytes_ok (set_nth r i x).
Proof.
  unfold bytes_ok. revert i. induction r as [|h t IH]; intros [|i] H Hx; cbn; auto.
  - inversion H; subst. constructor; auto.
  - inversion H; subst. constructor; auto.
Qed.

Lemma index_split i j : i <> j -> i / 2 <> j / 2 \/ (i / 2 = j / 2 /\ N.land j 1 * 4 = 4 - N.land i 1 * 4).
Proof.
  intros H. change 1 with (N.ones 1). rewrite !N.land_ones. change (2 ^ 1) with 2.
  assert (i mod 2 < 2) by (apply N.mod_upper_bound; lia).
  assert (j mod 2 < 2) by (apply N.mod_upper_bound; lia).
  pose proof (N.div_mod i 2 ltac:(lia)). pose proof (N.div_mod j 2 ltac:(lia)). lia.
Qed.

Theorem rincr_spec r i :
  bytes_ok r -> in_row r i ->
  bytes_ok (rincr r i) /\ length (rincr r i) = length r /\
  rget (rincr r i) i = N.min 15 (rget r i + 1) /\
  (forall j, j <> i -> rget (rincr r i) j = rget r j).
Proof.
  intros Hb Hi. unfold rincr, row_increment, rget.
  destruct (nthN_some r (i / 2) Hi) as [b Eb]. rewrite Eb.
  pose proof (nth_bytes_ok _ _ _ Hb Eb) as Hb256.
  pose proof (byte_facts_at b _ Hb256 (nib_shift_cases i)) as (Hinc & _ & _ & Hle). cbv zeta in *.
  fold (nib b (N.land i 1 * 4)).
  destruct (N.ltb_spec (nib b (N.land i 1 * 4)) 15) as [Hlt|Hge].
  - destruct (Hinc Hlt) as (Hnew & Hsame & Hother).
    split; [now apply set_nth_bytes_ok|]. split; [apply length_set_nth|].
    unfold nthN in *. split.
    + rewrite nth_error_set_nth_same by exact Hi. rewrite Hsame. lia.
    + intros j Hj. destruct (index_split i j ltac:(congruence)) as [Hd|[He Hs]].
      * rewrite nth_error_set_nth_other by lia. reflexivity.
      * rewrite <- He. rewrite nth_error_set_nth_same by exact Hi. rewrite Eb. rewrite Hs. exact Hother.
  - split; [exact Hb|]. split; [reflexivity|]. unfold nthN in *. rewrite Eb. split; [lia|reflexivity].
Qed.

Theorem row_reset_spec r :
  bytes_ok r -> bytes_ok (row_reset r) /\ forall i, rget (row_reset r) i = rget r i / 2.
Proof.
  intros Hb. split.
  - unfold bytes_ok, row_reset in *. rewrite Forall_map. eapply Forall_impl; [|exact Hb].
    intros b Hb256. cbn beta. apply (byte_facts_at b 0 Hb256 (or_introl eq_refl)).
  - intros i. unfold rget, row_reset, nthN. rewrite nth_error_map.
    destruct (nth_error r (N.to_nat (i / 2))) as [b|] eqn:E; cbn [option_map]; [|reflexivity].
    apply (byte_facts_at b _ (nth_bytes_ok r (i / 2) b Hb E) (nib_shift_cases i)).
Qed.

Theorem row_clear_spec r : bytes_ok (row_clear r) /\ forall i, rget (row_clear r) i = 0.
Proof.
  split.
  - unfold bytes_ok, row_clear. rewrite Forall_map. apply Forall_forall. intros; lia.
  - intros i. unfold rget, row_clear, nthN. rewrite nth_error_map.
    destruct (nth_error r (N.to_nat (i / 2))); cbn [option_map]; [|reflexivity].
    unfold nib. now rewrite N.shiftr_0_l.
Qed.

(** * Part 2: the count-min sketch as a family of counters indexed by (row, hash) *)

Lemma sk_pos_in_row s i h r : row_ok (smask s) r -> in_row r (sk_pos s i h).
Proof.
  intros H. destruct (sk_pos_masked s i h) as [x ->]. unfold in_row, row_ok in *.
  pose proof (land_le_mask x (smask s)).
  assert (N.land x (smask s) / 2 <= smask s / 2) by (apply N.div_le_mono; lia). lia.
Qed.

(** the position function only depends on the seeds and the mask *)
Lemma sk_pos_ext s s' i h : seeds s' = seeds s -> smask s' = smask s -> sk_pos s' i h = sk_pos s i h.
Proof. intros E1 E2. unfold sk_pos. now rewrite E1, E2. Qed.

Definition rows_wf (s : sketch) (rs : list row) : Prop :=
  Forall (fun r => bytes_ok r /\ row_ok (smask s) r) rs.

(** [rows_rel R s i rs]: row number [i + j] of [rs] satisfies [R] at its own position function *)
Fixpoint rows_rel (R : row -> (N -> N) -> Prop) (s : sketch) (i : nat) (rs : list row) : Prop :=
  match rs with
  | [] => True
  | r :: t => R r (sk_pos s i) /\ rows_rel R s (S i) t
  end.

Lemma rows_rel_impl (R R' : row -> (N -> N) -> Prop) s i rs :
  (forall r p, R r p -> R' r p) -> rows_rel R s i rs -> rows_rel R' s i rs.
Proof. intros H. revert i. induction rs as [|r t IH]; intros i; cbn; [auto|]. intros [H1 H2]. auto. Qed.

(** what one increment does to every row *)
Definition incremented (h0 : N) (r r' : row) (p : N -> N) : Prop :=
  bytes_ok r' /\ length r' = length r /\
  forall h, rget r' (p h) = if p h =? p h0 then N.min 15 (rget r (p h) + 1) else rget r (p h).

Lemma sk_incr_rows_spec s i rs h0 :
  rows_wf s rs ->
  exists rs', sk_incr_rows s i rs h0 = Ok rs' /\ rows_wf s rs' /\ length rs' = length rs /\
              forall R R' : row -> (N -> N) -> Prop, (forall r r' p, incremented h0 r r' p -> R r p -> R' r' p) ->
                         forall j, rows_rel R s j rs -> j = i -> rows_rel R' s j rs'.
Proof.
  revert i. induction rs as [|r t IH]; intros i Hwf; cbn [sk_incr_rows].
  - exists []. cbn. repeat split; auto.
  - inversion Hwf as [|? ? [Hb Hr] Ht]; subst.
    pose proof (sk_pos_in_row s i h0 r Hr) as Hin.
    rewrite (row_increment_rincr r _ Hin). cbn [bind].
    destruct (IH (S i) Ht) as (t' & -> & Hwf' & Hl & Hrel). cbn [bind].
    destruct (rincr_spec r (sk_pos s i h0) Hb Hin) as (Hb' & Hlen & Hsame & Hother).
    eexists; split; [reflexivity|]. split; [|split].
    + constructor; [|exact Hwf']. split; [exact Hb'|]. unfold row_ok in *. now rewrite Hlen.
    + cbn. lia.
    + intros R R' HR' j [H1 H2] ->. cbn [rows_rel]. split.
      * eapply HR'; [|exact H1]. split; [exact Hb'|]. split; [exact Hlen|].
        intros h. destruct (N.eqb_spec (sk_pos s i h) (sk_pos s i h0)) as [E|Hne].
        -- rewrite E. exact Hsame.
        -- now apply Hother.
      * eapply Hrel; eauto.
Qed.

(** the estimate is the minimum over the rows *)
Lemma sk_min_rows_lower s i rs h acc (c : N) :
  rows_wf s rs -> rows_rel (fun r p => c <= rget r (p h)) s i rs -> c <= acc ->
  exists e, sk_min_rows s i rs h acc = Ok e /\ c <= e.
Proof.
  revert i acc. induction rs as [|r t IH]; intros i acc Hwf Hrel Hacc; cbn [sk_min_rows].
  - eauto.
  - inversion Hwf as [|? ? [Hb Hr] Ht]; subst. destruct Hrel as [H1 H2].
    rewrite (row_get_rget r _ (sk_pos_in_row s i h r Hr)). cbn [bind].
    apply IH; auto. destruct (N.ltb_spec (rget r (sk_pos s i h)) acc); lia.
Qed.

Lemma sk_min_rows_exact s i rs h acc (c : N) :
  rows_wf s rs -> rows_rel (fun r p => rget r (p h) = c) s i rs -> rs <> [] -> c <= acc ->
  sk_min_rows s i rs h acc = Ok c.
Proof.
  revert i acc. induction rs as [|r t IH]; intros i acc Hwf Hrel Hne Hacc; [congruence|].
  cbn [sk_min_rows]. inversion Hwf as [|? ? [Hb Hr] Ht]; subst. destruct Hrel as [H1 H2].
  rewrite (row_get_rget r _ (sk_pos_in_row s i h r Hr)). cbn [bind]. rewrite H1.
  destruct t as [|r2 t2].
  - cbn. destruct (N.ltb_spec c acc); f_equal; lia.
  - apply IH; auto; [discriminate|]. destruct (N.ltb_spec c acc); lia.
Qed.

Lemma rows_wf_map s rs (f : row -> row) :
  (forall r, bytes_ok r -> bytes_ok (f r)) -> (forall r, length (f r) = length r) ->
  rows_wf s rs -> rows_wf s (map f rs).
Proof.
  intros Hf Hl H. unfold rows_wf in *. rewrite Forall_map. eapply Forall_impl; [|exact H].
  intros r [Hb Hr]. split; [auto|]. unfold row_ok in *. now rewrite Hl.
Qed.

Lemma rows_rel_map (R R' : row -> (N -> N) -> Prop) s i rs (f : row -> row) :
  (forall r p, R r p -> R' (f r) p) -> rows_rel R s i rs -> rows_rel R' s i (map f rs).
Proof. intros H. revert i. induction rs as [|r t IH]; intros i; cbn; [auto|]. intros [H1 H2]. auto. Qed.

(** * Part 3: the doorkeeper (bloom.rs) as a set of bit indices *)

Lemma land_pow2_testbit w j : (N.land w (N.shiftl 1 j) =? 0) = negb (N.testbit w j).
Proof.
  rewrite N.shiftl_1_l. destruct (N.testbit w j) eqn:E; cbn [negb].
  - apply N.eqb_neq. intros H.
    assert (Hb : N.testbit (N.land w (2 ^ j)) j = false) by (rewrite H; apply N.bits_0).
    rewrite N.land_spec, E, N.pow2_bits_true in Hb. discriminate.
  - apply N.eqb_eq. apply N.bits_inj. intros n. rewrite N.land_spec, N.bits_0, N.pow2_bits_eqb.
    destruct (N.eqb_spec j n) as [->|Hne]; [now rewrite E|apply Bool.andb_false_r].
Qed.

Definition bget (b : bloom) (idx : N) : bool :=
  match nthN (words b) (N.shiftr idx 6) with
  | Some w => N.testbit w (idx mod 64)
  | None => false
  end.

Lemma bl_is_set_bget b idx r : bl_is_set b idx = Ok r -> r = bget b idx.
Proof.
  unfold bl_is_set, bget. destruct (nthN (words b) (N.shiftr idx 6)) as [w|]; [|discriminate].
  intros H. injection H as <-. change (N.pos (Pos.shiftl 1 (idx mod 64))) with (N.shiftl 1 (idx mod 64)).
  rewrite land_pow2_testbit. now rewrite Bool.negb_involutive.
Qed.

Lemma bl_set_bget b idx b' :
  bl_set b idx = Ok b' ->
  bget b' idx = true /\ (forall j, bget b j = true -> bget b' j = true).
Proof.
  unfold bl_set. destruct (nthN (words b) (N.shiftr idx 6)) as [w|] eqn:Ew; [|discriminate].
  intros H. inversion H; subst b'. clear H. unfold bget, nthN in *. cbn [words].
  assert (Hlt : (N.to_nat (N.shiftr idx 6) < length (words b))%nat).
  { apply nth_error_Some. congruence. }
  split.
  - rewrite nth_error_set_nth_same by exact Hlt.
    rewrite N.lor_spec. change (N.pos (Pos.shiftl 1 (idx mod 64))) with (N.shiftl 1 (idx mod 64)).
    rewrite N.shiftl_1_l, N.pow2_bits_true. apply Bool.orb_true_r.
  - intros j. destruct (Nat.eq_dec (N.to_nat (N.shiftr idx 6)) (N.to_nat (N.shiftr j 6))) as [E|Hne].
    + rewrite <- E, nth_error_set_nth_same by exact Hlt. rewrite Ew.
      intros Hj. rewrite N.lor_spec, Hj. reflexivity.
    + rewrite nth_error_set_nth_other by exact Hne. auto.
Qed.

(** the probe index as a total function (the overflow check never fires on a well-formed filter) *)
Definition bidx (b : bloom) (h i : N) : N :=
  N.land (N.shiftr h (bshift b) + i * N.shiftr (wrap64 (N.shiftl h (bshift b))) (bshift b)) (bmask b).

Lemma bl_index_bidx b h i :
  bloom_ok b -> h < two64 -> i < set_locs b -> bl_index b h i = Ok (bidx b h i) /\ bidx b h i < 2 ^ size_exp b.
Proof.
  intros Hb Hh Hi. destruct (bl_index_ok b h i Hb Hh Hi) as (idx & E & Hlt).
  unfold bl_index in E |- *. unfold bidx.
  destruct (N.shiftr h (bshift b) + i * N.shiftr (wrap64 (N.shiftl h (bshift b))) (bshift b) <? two64);
    [|discriminate].
  injection E as <-. split; [reflexivity|exact Hlt].
Qed.

Lemma bidx_geom b b' h i : same_geometry b b' -> bidx b' h i = bidx b h i.
Proof. intros (_ & E2 & _ & E4 & _). unfold bidx. now rewrite E2, E4. Qed.

(** [contains]: true exactly when every probe bit is set *)
Lemma bl_contains_from_spec b h i n :
  bloom_ok b -> h < two64 -> i + N.of_nat n <= set_locs b ->
  exists r, bl_contains_from b h i n = Ok r /\
            (r = true <-> forall j, (j < n)%nat -> bget b (bidx b h (i + N.of_nat j)) = true).
Proof.
  intros Hb Hh. revert i. induction n as [|n IH]; intros i Hi; cbn [bl_contains_from].
  - exists true. split; [reflexivity|]. split; [intros _ j Hj; lia|auto].
  - destruct (bl_index_bidx b h i Hb Hh ltac:(lia)) as [-> Hlt]. cbn [bind].
    destruct (bl_is_set_ok b _ Hb Hlt) as [r0 E0]. rewrite E0. cbn [bind].
    apply bl_is_set_bget in E0. subst r0.
    destruct (bget b (bidx b h i)) eqn:Eb.
    + destruct (IH (i + 1) ltac:(lia)) as (r & -> & Hr). exists r. split; [reflexivity|].
      rewrite Hr. split.
      * intros H j Hj. destruct j as [|j]; [now rewrite N.add_0_r|].
        specialize (H j ltac:(lia)). replace (i + N.of_nat (S j)) with (i + 1 + N.of_nat j) by lia. exact H.
      * intros H j Hj. specialize (H (S j) ltac:(lia)).
        replace (i + N.of_nat (S j)) with (i + 1 + N.of_nat j) in H by lia. exact H.
    + exists false. split; [reflexivity|]. split; [discriminate|].
      intros H. specialize (H 0%nat ltac:(lia)). rewrite N.add_0_r in H. congruence.
Qed.

Lemma bl_contains_spec b h :
  bloom_ok b -> h < two64 ->
  exists r, bl_contains b h = Ok r /\
            (r = true <-> forall i, i < set_locs b -> bget b (bidx b h i) = true).
Proof.
  intros Hb Hh. unfold bl_contains.
  destruct (bl_contains_from_spec b h 0 (N.to_nat (set_locs b)) Hb Hh ltac:(lia)) as (r & E & Hr).
  exists r. split; [exact E|]. rewrite Hr. split.
  - intros H i Hi. specialize (H (N.to_nat i) ltac:(lia)). now rewrite N2Nat.id in H.
  - intros H j Hj. apply H. lia.
Qed.

(** [add] sets every probe bit and clears none *)
Lemma bl_add_from_spec b h i n :
  bloom_ok b -> h < two64 -> i + N.of_nat n <= set_locs b ->
  exists b', bl_add_from b h i n = Ok b' /\ bloom_ok b' /\ same_geometry b b' /\
             (forall j, bget b j = true -> bget b' j = true) /\
             (forall j, (j < n)%nat -> bget b' (bidx b h (i + N.of_nat j)) = true).
Proof.
  intros Hb Hh. revert b i Hb. induction n as [|n IH]; intros b i Hb Hi; cbn [bl_add_from].
  - exists b. split; [reflexivity|]. split; [exact Hb|]. split; [repeat split|]. split; [auto|].
    intros j Hj. lia.
  - destruct (bl_index_bidx b h i Hb Hh ltac:(lia)) as [-> Hlt]. cbn [bind].
    destruct (bl_set_ok b _ Hb Hlt) as (b1 & E1 & Hb1 & Hg1). rewrite E1. cbn [bind].
    destruct (bl_set_bget _ _ _ E1) as [Hset Hmono].
    pose proof Hg1 as (G1 & G2 & G3 & G4 & G5).
    destruct (IH b1 (i + 1) Hb1 ltac:(rewrite G3; lia)) as (b2 & -> & Hb2 & Hg2 & Hmono2 & Hall).
    exists b2. split; [reflexivity|]. split; [exact Hb2|]. split.
    { destruct Hg2 as (K1 & K2 & K3 & K4 & K5). repeat split; congruence. }
    split; [auto|].
    intros j Hj. destruct j as [|j].
    + rewrite N.add_0_r. auto.
    + specialize (Hall j ltac:(lia)). rewrite (bidx_geom b b1 h _ Hg1) in Hall.
      replace (i + N.of_nat (S j)) with (i + 1 + N.of_nat j) by lia. exact Hall.
Qed.

Lemma bl_clear_bget b j : bget (bl_clear b) j = false.
Proof.
  unfold bget, bl_clear, nthN. cbn [words]. rewrite nth_error_map.
  destruct (nth_error (words b) _); cbn [option_map]; [apply N.bits_0|reflexivity].
Qed.

Definition bloom_empty (b : bloom) : Prop := forall j, bget b j = false.

Lemma bl_contains_empty b h :
  bloom_ok b -> h < two64 -> 1 <= set_locs b -> bloom_empty b -> bl_contains b h = Ok false.
Proof.
  intros Hb Hh Hl He. destruct (bl_contains_spec b h Hb Hh) as (r & E & Hr). rewrite E. f_equal.
  destruct r; [|reflexivity]. exfalso. pose proof (proj1 Hr eq_refl 0 ltac:(lia)) as H. rewrite He in H. discriminate.
Qed.

Lemma bl_new_empty exp locs : bloom_empty (bl_new exp locs).
Proof.
  intros j. unfold bget, bl_new, nthN. cbn [words].
  destruct (nth_error (repeat 0 _) _) as [w|] eqn:E; [|reflexivity].
  apply nth_error_In, repeat_spec in E. subst. apply N.bits_0.
Qed.

(** * Part 4: the estimator against the exact aged access counts *)

(** the specification: per hash, whether it was seen in the current sample window (the first
    access sets the doorkeeper bit) and how many further accesses were counted (up to 15); a
    reset halves every count and clears every bit *)
Record fspec := mkSpec { fcnt : N -> N; fdoor : N -> bool; fw : N }.

Definition exact (f : fspec) (h : N) : N := fcnt f h + (if fdoor f h then 1 else 0).

Definition spec_try_reset (samples : N) (f : fspec) : fspec :=
  if samples <=? fw f + 1 then mkSpec (fun h => fcnt f h / 2) (fun _ => false) 0
  else mkSpec (fcnt f) (fdoor f) (fw f + 1).

Definition spec_record (f : fspec) (h : N) : fspec :=
  if fdoor f h then mkSpec (fun x => if x =? h then N.min 15 (fcnt f h + 1) else fcnt f x) (fdoor f) (fw f)
  else mkSpec (fcnt f) (fun x => if x =? h then true else fdoor f x) (fw f).

Definition spec_increment (samples : N) (f : fspec) (h : N) : fspec := spec_try_reset samples (spec_record f h).
Definition spec_clear (f : fspec) : fspec := mkSpec (fun _ => 0) (fun _ => false) 0.
Definition spec_new : fspec := mkSpec (fun _ => 0) (fun _ => false) 0.

(** the relation between the real estimator and the specification *)
Definition tiny_wf (t : tinylfu) : Prop :=
  tiny_ok t /\ rows_wf (ctr t) (rows (ctr t)) /\ 1 <= set_locs (door t).

Definition dom (cnt : N -> N) (r : row) (p : N -> N) : Prop :=
  bytes_ok r /\ forall h, cnt h <= rget r (p h).

Definition tiny_rel (t : tinylfu) (f : fspec) : Prop :=
  tiny_wf t /\ tw t = fw f /\
  rows_rel (dom (fcnt f)) (ctr t) 0 (rows (ctr t)) /\
  (forall h, h < two64 -> fdoor f h = true -> bl_contains (door t) h = Ok true).

Lemma rows_rel_sketch_ext (R : row -> (N -> N) -> Prop) s s' i rs :
  seeds s' = seeds s -> smask s' = smask s -> rows_rel R s i rs -> rows_rel R s' i rs.
Proof.
  intros E1 E2. revert i. induction rs as [|r t IH]; intros i; cbn; [auto|]. intros [H1 H2]. split; [|auto].
  assert (E : sk_pos s' i = sk_pos s i).
  { unfold sk_pos. now rewrite E1, E2. }
  now rewrite E.
Qed.

(** ** reset / clear *)
Lemma tl_reset_rel t f :
  tiny_rel t f -> tiny_rel (tl_reset t) (mkSpec (fun h => fcnt f h / 2) (fun _ => false) 0).
Proof.
  intros ((Hok & Hwf & Hl) & Hw & Hrows & Hdoor). split; [|split; [reflexivity|split]].
  - split; [now apply tl_reset_ok|]. split; [|exact Hl].
    unfold tl_reset, sk_reset. cbn [ctr rows smask].
    apply rows_wf_map; [apply row_reset_spec| |exact Hwf].
    intros r. unfold row_reset. apply map_length.
  - unfold tl_reset, sk_reset. cbn [ctr rows fcnt].
    apply (rows_rel_sketch_ext _ (ctr t)); [reflexivity|reflexivity|].
    eapply rows_rel_map; [|exact Hrows]. intros r p [Hb H].
    destruct (row_reset_spec r Hb) as [Hb' Hg]. split; [exact Hb'|]. intros h. rewrite Hg.
    specialize (H h). apply N.div_le_mono; lia.
  - cbn [fdoor]. intros h _ Hf. discriminate.
Qed.

Lemma tl_try_reset_rel t f :
  tiny_rel t f -> tiny_rel (tl_try_reset t) (spec_try_reset (tsamples t) f).
Proof.
  intros H. pose proof H as (Hwf & Hw & Hrows & Hdoor). unfold tl_try_reset, spec_try_reset. rewrite Hw.
  destruct (tsamples t <=? fw f + 1); [now apply tl_reset_rel|].
  split; [exact Hwf|]. split; [reflexivity|]. split; assumption.
Qed.

Lemma tl_clear_rel t : tiny_wf t -> tiny_rel (tl_clear t) (spec_clear spec_new).
Proof.
  intros (Hok & Hwf & Hl). split; [|split; [reflexivity|split]].
  - split; [now apply tl_clear_ok|]. split; [|exact Hl].
    unfold tl_clear, sk_clear. cbn [ctr rows smask].
    apply rows_wf_map; [intros r _; apply row_clear_spec| |exact Hwf].
    intros r. unfold row_clear. apply map_length.
  - unfold tl_clear, sk_clear. cbn [ctr rows fcnt spec_clear].
    apply (rows_rel_sketch_ext _ (ctr t)); [reflexivity|reflexivity|].
    assert (Htriv : rows_rel (fun _ _ => True) (ctr t) 0 (rows (ctr t))).
    { generalize 0%nat. generalize (rows (ctr t)) as l. induction l as [|a l IH]; intros n; cbn; auto. }
    eapply rows_rel_map; [|exact Htriv]. intros r p _.
    destruct (row_clear_spec r) as [Hb Hg]. split; [exact Hb|]. intros h. rewrite Hg. lia.
  - cbn. intros h _ Hf. discriminate.
Qed.

(** ** one recorded access *)
Lemma tl_increment_rel t f h :
  tiny_rel t f -> h < two64 ->
  exists t', tl_increment t h = Ok t' /\ tiny_rel t' (spec_increment (tsamples t) f h) /\
             tsamples t' = tsamples t.
Proof.
  intros ((Hok & Hwf & Hl) & Hw & Hrows & Hdoor) Hh. pose proof Hok as (Hs & Hr & Hb).
  unfold tl_increment, bl_contains_or_add.
  destruct (bl_contains_spec (door t) h Hb Hh) as (c & Ec & Hc). rewrite Ec. cbn [bind].
  assert (Hts : forall t0, tsamples (tl_try_reset t0) = tsamples t0).
  { intros t0. unfold tl_try_reset, tl_reset. destruct (_ <=? _); reflexivity. }
  destruct c.
  - (* the doorkeeper already holds h (possibly a false positive): the sketch is incremented *)
    cbn [bind].
    destruct (sk_incr_rows_spec (ctr t) 0 (rows (ctr t)) h Hwf) as (rs' & E & Hwf' & Hlen & Hrel).
    unfold sk_increment. rewrite E. cbn [bind].
    eexists. split; [reflexivity|]. split; [|rewrite Hts; reflexivity].
    unfold spec_increment.
    match goal with |- tiny_rel (tl_try_reset ?t1) _ => set (t1' := t1) end.
    change (tsamples t) with (tsamples t1').
    apply tl_try_reset_rel. subst t1'.
    assert (Hok' : tiny_ok (mkTiny (mkSketch rs' (seeds (ctr t)) (smask (ctr t))) (door t) (tsamples t) (tw t))).
    { split; [|split]; cbn [ctr door rows smask].
      - unfold sketch_ok. cbn [rows smask]. eapply Forall_impl; [|exact Hwf']. intros r [_ Hr']. exact Hr'.
      - intros E0. rewrite E0 in Hlen. destruct (rows (ctr t)); [congruence|discriminate].
      - exact Hb. }
    split; [split; [exact Hok'|split; [exact Hwf'|exact Hl]]|].
    cbn [tw ctr rows door]. unfold spec_record.
    assert (Hdoor' : forall x, x < two64 -> (if x =? h then true else fdoor f x) = true ->
                               bl_contains (door t) x = Ok true).
    { intros x Hx Hdx. destruct (N.eqb_spec x h) as [->|Hne]; [exact Ec|now apply Hdoor]. }
    destruct (fdoor f h) eqn:Ed; cbn [fw fcnt fdoor]; (split; [exact Hw|]);
      (split; [|first [exact Hdoor|exact Hdoor']]);
      apply (rows_rel_sketch_ext _ (ctr t)); try reflexivity;
      (eapply Hrel with (j := 0%nat); [|exact Hrows|reflexivity]);
      intros r r' p (Hb' & _ & Hg) [Hb0 H0]; (split; [exact Hb'|]); intros x; rewrite Hg;
      pose proof (rget_le_15 r (p x) Hb0); pose proof (H0 x); pose proof (H0 h).
    + destruct (N.eqb_spec x h) as [->|Hne]; [rewrite N.eqb_refl; lia|destruct (p x =? p h); lia].
    + destruct (p x =? p h); lia.
  - (* first access in this window: the doorkeeper bits are set, the sketch is untouched *)
    unfold bl_add.
    destruct (bl_add_from_spec (door t) h 0 (N.to_nat (set_locs (door t))) Hb Hh ltac:(lia))
      as (b' & -> & Hb' & Hg & Hmono & Hall). cbn [bind].
    eexists. split; [reflexivity|]. split; [|rewrite Hts; reflexivity].
    unfold spec_increment.
    match goal with |- tiny_rel (tl_try_reset ?t1) _ => set (t1' := t1) end.
    change (tsamples t) with (tsamples t1').
    apply tl_try_reset_rel. subst t1'.
    pose proof Hg as (G1 & G2 & G3 & G4 & G5).
    split; [split; [split; [exact Hs|split; [exact Hr|exact Hb']]|split; [exact Hwf|cbn [door]; rewrite G3; exact Hl]]|].
    cbn [tw ctr rows door]. unfold spec_record.
    assert (Ed : fdoor f h = false).
    { destruct (fdoor f h) eqn:Ed; [|reflexivity]. rewrite (Hdoor h Hh Ed) in Ec. discriminate. }
    rewrite Ed. cbn [fw fcnt fdoor]. split; [exact Hw|]. split; [exact Hrows|].
    (* every hash of the window is still contained: its probe bits were set and stay set *)
    intros x Hx Hdx.
    destruct (bl_contains_spec b' x Hb' Hx) as (r & Er & Hrr). rewrite Er. f_equal. apply Hrr.
    intros i Hi. rewrite (bidx_geom (door t) b' x i Hg). rewrite G3 in Hi.
    destruct (N.eqb_spec x h) as [->|Hne].
    + specialize (Hall (N.to_nat i) ltac:(lia)). now rewrite N2Nat.id in Hall.
    + apply Hmono. destruct (bl_contains_spec (door t) x Hb Hx) as (r0 & Er0 & Hr0).
      rewrite (Hdoor x Hx Hdx) in Er0. injection Er0 as <-. now apply Hr0.
Qed.

(** ** the estimate never under-counts, and never exceeds 16 *)
Theorem estimate_lower_bound t f h :
  tiny_rel t f -> h < two64 ->
  exists e, tl_estimate t h = Ok e /\ exact f h <= e /\ e <= 16.
Proof.
  intros ((Hok & Hwf & Hl) & Hw & Hrows & Hdoor) Hh. pose proof Hok as (Hs & Hr & Hb).
  destruct (tl_estimate_ok t h Hok Hh) as (e & E & Hle). exists e. split; [exact E|]. split; [|exact Hle].
  unfold tl_estimate in E.
  assert (Hc15 : fcnt f h <= 15).
  { destruct (rows (ctr t)) as [|r rs] eqn:Er; [congruence|]. destruct Hrows as [[Hb0 H0] _].
    pose proof (H0 h). pose proof (rget_le_15 r (sk_pos (ctr t) 0 h) Hb0). lia. }
  destruct (sk_min_rows_lower (ctr t) 0 (rows (ctr t)) h 255 (fcnt f h) Hwf) as (m & Em & Hm); [|lia|].
  { eapply rows_rel_impl; [|exact Hrows]. intros r p [_ H0]. apply H0. }
  unfold sk_estimate in E. rewrite Em in E. cbn [bind] in E.
  destruct (bl_contains_ok (door t) h Hb Hh) as [c Ec]. rewrite Ec in E. cbn [bind] in E.
  injection E as <-. unfold exact.
  destruct (fdoor f h) eqn:Ed.
  - rewrite (Hdoor h Hh Ed) in Ec. injection Ec as <-. lia.
  - destruct c; lia.
Qed.

(** the doorkeeper never forgets a hash recorded since the last reset / clear *)
Theorem no_false_negative t f h :
  tiny_rel t f -> h < two64 -> fdoor f h = true -> tl_contains t h = Ok true.
Proof. intros (_ & _ & _ & Hdoor) Hh Hd. now apply Hdoor. Qed.

(** a freshly built estimator is related to the empty specification *)
Lemma rows_rel_forall (R : row -> (N -> N) -> Prop) s i rs :
  Forall (fun r => forall p, R r p) rs -> rows_rel R s i rs.
Proof. revert i. induction rs as [|r t IH]; intros i H; cbn; [auto|]. inversion H; subst. split; auto. Qed.

Lemma tl_new_rel size samples exp locs sds t :
  size <= 2 ^ 32 -> bloom_geometry_ok exp locs = true ->
  tl_new size samples exp locs sds = Some t -> tiny_rel t spec_new /\ tsamples t = samples /\ 1 <= samples.
Proof.
  intros Hsz Hg Hn. pose proof (tl_new_ok _ _ _ _ _ _ Hsz Hg Hn) as Hok.
  unfold tl_new in Hn. destruct (N.eqb_spec samples 0) as [|Hs0]; [discriminate|].
  destruct (sk_new size sds) as [s|] eqn:Es; [|discriminate]. injection Hn as <-.
  unfold sk_new in Es. destruct (size <? 1); [discriminate|]. injection Es as <-.
  set (z := repeat 0 (N.to_nat (N.max 2 (next_pow2 size) / 2))) in *.
  assert (Hz : bytes_ok z).
  { unfold bytes_ok. apply Forall_forall. intros x Hx. apply repeat_spec in Hx. subst. lia. }
  assert (Hg0 : forall i, rget z i = 0).
  { intros i. unfold rget, nthN. destruct (nth_error z _) eqn:E; [|reflexivity].
    apply nth_error_In, repeat_spec in E. subst. unfold nib. now rewrite N.shiftr_0_l. }
  split; [|split; [reflexivity|lia]].
  split; [split; [exact Hok|split]|split; [reflexivity|split]].
  - destruct Hok as (Hs & _). cbn [ctr rows smask] in *. unfold sketch_ok in Hs. cbn [rows smask] in Hs.
    unfold rows_wf. cbn [smask].
    inversion Hs as [|? ? Hr0 _]; subst. repeat constructor; auto.
  - cbn [door bl_new set_locs]. unfold bloom_geometry_ok in Hg.
    rewrite !Bool.andb_true_iff in Hg. destruct Hg as [[[_ _] H1] _]. now apply N.leb_le in H1.
  - cbn [ctr rows spec_new fcnt]. apply rows_rel_forall.
    assert (Hd : forall p : N -> N, dom (fun _ : N => 0) z p) by (intros p; split; [exact Hz|intros h; rewrite Hg0; lia]).
    repeat (constructor; [exact Hd|]). constructor.
  - cbn. intros h _ Hf. discriminate.
Qed.

(** * Part 5: histories *)
Inductive top := TIncr (h : N) | TTryReset | TClear.

Definition top_ok (o : top) : Prop := match o with TIncr h => h < two64 | _ => True end.

Definition tstep_t (t : tinylfu) (o : top) : res tinylfu :=
  match o with
  | TIncr h => tl_increment t h
  | TTryReset => Ok (tl_try_reset t)
  | TClear => Ok (tl_clear t)
  end.

Definition fstep (samples : N) (f : fspec) (o : top) : fspec :=
  match o with
  | TIncr h => spec_increment samples f h
  | TTryReset => spec_try_reset samples f
  | TClear => spec_clear f
  end.

Fixpoint trun (t : tinylfu) (ops : list top) : res tinylfu :=
  match ops with
  | [] => Ok t
  | o :: rest => match tstep_t t o with Ok t' => trun t' rest | Panic n => Panic n end
  end.

Definition frun (samples : N) (f : fspec) (ops : list top) : fspec := fold_left (fstep samples) ops f.

Lemma tl_try_reset_samples t : tsamples (tl_try_reset t) = tsamples t.
Proof. unfold tl_try_reset, tl_reset. destruct (_ <=? _); reflexivity. Qed.

Theorem trun_rel ops : forall t f,
  tiny_rel t f -> Forall top_ok ops ->
  exists t', trun t ops = Ok t' /\ tiny_rel t' (frun (tsamples t) f ops) /\ tsamples t' = tsamples t.
Proof.
  induction ops as [|o rest IH]; intros t f Hrel Hok; cbn [trun frun fold_left]; [eauto|].
  inversion Hok as [|? ? Ho Hrest]; subst.
  assert (Hstep : exists t1, tstep_t t o = Ok t1 /\ tiny_rel t1 (fstep (tsamples t) f o) /\ tsamples t1 = tsamples t).
  { destruct o as [h| |]; cbn [tstep_t fstep top_ok] in *.
    - now apply tl_increment_rel.
    - eexists. split; [reflexivity|]. split; [now apply tl_try_reset_rel|apply tl_try_reset_samples].
    - eexists. split; [reflexivity|]. split; [|reflexivity]. apply tl_clear_rel. apply Hrel. }
  destruct Hstep as (t1 & -> & Hrel1 & Hs1).
  destruct (IH t1 _ Hrel1 Hrest) as (t' & E & Hrel' & Hs'). rewrite Hs1 in *.
  exists t'. split; [exact E|]. split; [exact Hrel'|congruence].
Qed.

(** ** after [clear] every estimate is 0 *)
Theorem estimate_after_clear t h :
  tiny_wf t -> h < two64 -> tl_estimate (tl_clear t) h = Ok 0.
Proof.
  intros (Hok & Hwf & Hl) Hh. pose proof (tl_clear_ok t Hok) as Hok'. pose proof Hok as (Hs & Hr & Hb).
  unfold tl_estimate, sk_estimate.
  assert (Hwf' : rows_wf (ctr (tl_clear t)) (rows (ctr (tl_clear t)))).
  { unfold tl_clear, sk_clear. cbn [ctr rows smask].
    apply rows_wf_map; [intros r _; apply row_clear_spec| |exact Hwf]. intros r. apply map_length. }
  rewrite (sk_min_rows_exact (ctr (tl_clear t)) 0 (rows (ctr (tl_clear t))) h 255 0 Hwf'); [| | |lia].
  - cbn [bind]. rewrite bl_contains_empty; [reflexivity|apply Hok'|exact Hh| |].
    + unfold tl_clear, bl_clear. cbn [door set_locs]. exact Hl.
    + intros j. unfold tl_clear. cbn [door]. apply bl_clear_bget.
  - unfold tl_clear, sk_clear. cbn [ctr rows].
    apply (rows_rel_sketch_ext _ (ctr t)); [reflexivity|reflexivity|].
    assert (Htriv : rows_rel (fun _ _ => True) (ctr t) 0 (rows (ctr t))).
    { generalize 0%nat. generalize (rows (ctr t)) as l. induction l as [|a l IH]; intros n; cbn; auto. }
    eapply rows_rel_map; [|exact Htriv]. intros r p _. cbn beta. apply row_clear_spec.
  - apply Hok'.
Qed.

(** ** the reset schedule and what a reset does *)
Theorem try_reset_schedule t :
  tl_try_reset t =
  if tsamples t <=? tw t + 1 then tl_reset t else mkTiny (ctr t) (door t) (tsamples t) (tw t + 1).
Proof. reflexivity. Qed.

Theorem reset_effect t :
  tiny_wf t ->
  tw (tl_reset t) = 0 /\
  (forall h, h < two64 -> tl_contains (tl_reset t) h = Ok false) /\
  (forall i r, nth_error (rows (ctr t)) i = Some r ->
     exists r', nth_error (rows (ctr (tl_reset t))) i = Some r' /\ forall x, rget r' x = rget r x / 2).
Proof.
  intros (Hok & Hwf & Hl). split; [reflexivity|]. split.
  - intros h Hh. unfold tl_contains. apply bl_contains_empty; auto.
    + apply (tl_reset_ok t Hok).
    + intros j. unfold tl_reset. cbn [door]. apply bl_clear_bget.
  - intros i r E. unfold tl_reset, sk_reset. cbn [ctr rows]. rewrite nth_error_map, E. cbn [option_map].
    eexists. split; [reflexivity|]. apply row_reset_spec.
    unfold rows_wf in Hwf. rewrite Forall_forall in Hwf. apply nth_error_In in E. now apply Hwf.
Qed.

(** ** exactness when a single key is recorded *)
Definition eqat (h c : N) (r : row) (p : N -> N) : Prop := bytes_ok r /\ rget r (p h) = c.

Definition single (t : tinylfu) (h c : N) (d : bool) : Prop :=
  tiny_wf t /\ rows_rel (eqat h c) (ctr t) 0 (rows (ctr t)) /\
  (d = true -> bl_contains (door t) h = Ok true) /\ (d = false -> bloom_empty (door t)).

Lemma single_estimate t h c d :
  single t h c d -> h < two64 -> tl_estimate t h = Ok (c + if d then 1 else 0).
Proof.
  intros ((Hok & Hwf & Hl) & Hrows & Hd1 & Hd0) Hh. pose proof Hok as (Hs & Hr & Hb).
  unfold tl_estimate, sk_estimate.
  assert (Hc15 : c <= 15).
  { destruct (rows (ctr t)) as [|r rs] eqn:Er; [congruence|]. destruct Hrows as [[Hb0 H0] _].
    rewrite <- H0. now apply rget_le_15. }
  rewrite (sk_min_rows_exact (ctr t) 0 (rows (ctr t)) h 255 c Hwf); [| |exact Hr|lia].
  - cbn [bind]. destruct d.
    + rewrite (Hd1 eq_refl). cbn [bind]. reflexivity.
    + rewrite (bl_contains_empty (door t) h Hb Hh Hl (Hd0 eq_refl)). cbn [bind]. f_equal. lia.
  - eapply rows_rel_impl; [|exact Hrows]. intros r p [_ H]. exact H.
Qed.

Lemma single_reset t h c d : single t h c d -> single (tl_reset t) h (c / 2) false.
Proof.
  intros ((Hok & Hwf & Hl) & Hrows & _ & _). split; [|split; [|split]].
  - split; [now apply tl_reset_ok|]. split; [|exact Hl].
    unfold tl_reset, sk_reset. cbn [ctr rows smask].
    apply rows_wf_map; [apply row_reset_spec| |exact Hwf]. intros r. apply map_length.
  - unfold tl_reset, sk_reset. cbn [ctr rows].
    apply (rows_rel_sketch_ext _ (ctr t)); [reflexivity|reflexivity|].
    eapply rows_rel_map; [|exact Hrows]. intros r p [Hb H].
    destruct (row_reset_spec r Hb) as [Hb' Hg]. split; [exact Hb'|]. now rewrite Hg, H.
  - discriminate.
  - intros _ j. unfold tl_reset. cbn [door]. apply bl_clear_bget.
Qed.

Lemma single_try_reset t h c d :
  single t h c d ->
  if tsamples t <=? tw t + 1 then single (tl_try_reset t) h (c / 2) false
  else single (tl_try_reset t) h c d.
Proof.
  intros H. unfold tl_try_reset. destruct (tsamples t <=? tw t + 1); [now apply (single_reset t h c d)|].
  destruct H as ((Hok & Hwf & Hl) & Hrows & Hd1 & Hd0). repeat split; auto; apply Hok.
Qed.

Lemma single_record t h c d :
  single t h c d -> h < two64 ->
  exists t1, (do (d', added) <- bl_contains_or_add (door t) h;
              do c' <- (if added : bool then Ok (ctr t) else sk_increment (ctr t) h);
              Ok (mkTiny c' d' (tsamples t) (tw t))) = Ok t1 /\
             tsamples t1 = tsamples t /\ tw t1 = tw t /\
             single t1 h (if d then N.min 15 (c + 1) else c) true.
Proof.
  intros ((Hok & Hwf & Hl) & Hrows & Hd1 & Hd0) Hh. pose proof Hok as (Hs & Hr & Hb).
  unfold bl_contains_or_add. destruct d.
  - rewrite (Hd1 eq_refl). cbn [bind].
    destruct (sk_incr_rows_spec (ctr t) 0 (rows (ctr t)) h Hwf) as (rs' & E & Hwf' & Hlen & Hrel).
    unfold sk_increment. rewrite E. cbn [bind]. eexists. split; [reflexivity|]. split; [reflexivity|].
    split; [reflexivity|]. split; [|split; [|split]].
    + split; [|split; [exact Hwf'|exact Hl]]. split; [|split]; cbn [ctr door rows smask].
      * unfold sketch_ok. cbn [rows smask]. eapply Forall_impl; [|exact Hwf']. intros r [_ Hr']. exact Hr'.
      * intros E0. rewrite E0 in Hlen. destruct (rows (ctr t)); [congruence|discriminate].
      * exact Hb.
    + cbn [ctr rows]. apply (rows_rel_sketch_ext _ (ctr t)); try reflexivity.
      eapply Hrel with (j := 0%nat); [|exact Hrows|reflexivity].
      intros r r' p (Hb' & _ & Hg) [Hb0 H0]. split; [exact Hb'|]. rewrite Hg, N.eqb_refl, H0. reflexivity.
    + intros _. cbn [door]. now apply Hd1.
    + discriminate.
  - rewrite (bl_contains_empty (door t) h Hb Hh Hl (Hd0 eq_refl)). cbn [bind]. unfold bl_add.
    destruct (bl_add_from_spec (door t) h 0 (N.to_nat (set_locs (door t))) Hb Hh ltac:(lia))
      as (b' & -> & Hb' & Hg & Hmono & Hall). cbn [bind].
    pose proof Hg as (G1 & G2 & G3 & G4 & G5).
    eexists. split; [reflexivity|]. split; [reflexivity|]. split; [reflexivity|]. split; [|split; [|split]].
    + split; [split; [exact Hs|split; [exact Hr|exact Hb']]|split; [exact Hwf|cbn [door]; rewrite G3; exact Hl]].
    + exact Hrows.
    + intros _. cbn [door].
      destruct (bl_contains_spec b' h Hb' Hh) as (r & Er & Hrr). rewrite Er. f_equal. apply Hrr.
      intros i Hi. rewrite (bidx_geom (door t) b' h i Hg). rewrite G3 in Hi.
      specialize (Hall (N.to_nat i) ltac:(lia)). now rewrite N2Nat.id in Hall.
    + discriminate.
Qed.

(** the specification restricted to one key, as two numbers *)
Definition single_rel (t : tinylfu) (f : fspec) (h : N) : Prop :=
  single t h (fcnt f h) (fdoor f h) /\ tw t = fw f.

Definition only_key (h : N) (o : top) : Prop :=
  match o with TIncr x => x = h | _ => True end.

Lemma single_rel_try_reset t f h :
  single_rel t f h -> single_rel (tl_try_reset t) (spec_try_reset (tsamples t) f) h.
Proof.
  intros [Hs Hw]. pose proof (single_try_reset t h _ _ Hs) as Htr.
  unfold single_rel, spec_try_reset. rewrite <- Hw.
  unfold tl_try_reset in *.
  destruct (tsamples t <=? tw t + 1); cbn [fw fcnt fdoor tw]; (split; [exact Htr|]); [reflexivity|now rewrite Hw].
Qed.

Lemma spec_record_facts f h :
  fw (spec_record f h) = fw f /\ fdoor (spec_record f h) h = true /\
  fcnt (spec_record f h) h = if fdoor f h then N.min 15 (fcnt f h + 1) else fcnt f h.
Proof. unfold spec_record. destruct (fdoor f h) eqn:E; cbn [fw fcnt fdoor]; rewrite ?N.eqb_refl; auto. Qed.

Lemma single_step t f h o :
  single_rel t f h -> h < two64 -> only_key h o ->
  exists t1, tstep_t t o = Ok t1 /\ single_rel t1 (fstep (tsamples t) f o) h /\ tsamples t1 = tsamples t.
Proof.
  intros [Hs Hw] Hh Ho. destruct o as [x| |]; cbn [tstep_t fstep only_key] in *.
  - subst x.
    destruct (single_record t h _ _ Hs Hh) as (t1 & E1 & Hs1 & Hw1 & Hsingle).
    assert (Einc : tl_increment t h = Ok (tl_try_reset t1)).
    { unfold tl_increment.
      destruct (bl_contains_or_add (door t) h) as [[d' added]|] eqn:Eb; cbn [bind] in *; [|discriminate].
      destruct (if added then Ok (ctr t) else sk_increment (ctr t) h) as [c'|] eqn:Ec; cbn [bind] in *; [|discriminate].
      injection E1 as <-. reflexivity. }
    rewrite Einc. eexists. split; [reflexivity|]. split; [|now rewrite tl_try_reset_samples].
    unfold spec_increment. rewrite <- Hs1. apply single_rel_try_reset.
    destruct (spec_record_facts f h) as (F1 & F2 & F3). split; [|congruence].
    rewrite F2, F3. exact Hsingle.
  - eexists. split; [reflexivity|]. split; [|apply tl_try_reset_samples].
    apply single_rel_try_reset. now split.
  - eexists. split; [reflexivity|]. split; [|reflexivity].
    destruct Hs as ((Hok & Hwf & Hl) & Hrows & _ & _). split; [|reflexivity].
    split; [|split; [|split]].
    + split; [now apply tl_clear_ok|]. split; [|exact Hl].
      unfold tl_clear, sk_clear. cbn [ctr rows smask].
      apply rows_wf_map; [intros r _; apply row_clear_spec| |exact Hwf]. intros r. apply map_length.
    + unfold tl_clear, sk_clear. cbn [ctr rows spec_clear fcnt].
      apply (rows_rel_sketch_ext _ (ctr t)); [reflexivity|reflexivity|].
      eapply rows_rel_map; [|exact Hrows]. intros r p _.
      destruct (row_clear_spec r) as [Hb0 Hg0]. split; [exact Hb0|apply Hg0].
    + discriminate.
    + intros _ j. unfold tl_clear. cbn [door]. apply bl_clear_bget.
Qed.

Theorem single_key_exact ops : forall t f h,
  single_rel t f h -> h < two64 -> Forall (only_key h) ops ->
  exists t', trun t ops = Ok t' /\ tl_estimate t' h = Ok (exact (frun (tsamples t) f ops) h).
Proof.
  induction ops as [|o rest IH]; intros t f h Hrel Hh Hok; cbn [trun frun fold_left].
  - eexists. split; [reflexivity|]. destruct Hrel as [Hs _]. rewrite (single_estimate _ _ _ _ Hs Hh). reflexivity.
  - inversion Hok as [|? ? Ho Hrest]; subst.
    destruct (single_step t f h o Hrel Hh Ho) as (t1 & -> & Hrel1 & Hs1).
    destruct (IH t1 _ h Hrel1 Hh Hrest) as (t' & E & Hest). rewrite Hs1 in *. eauto.
Qed.

Lemma tl_new_single size samples exp locs sds t h :
  size <= 2 ^ 32 -> bloom_geometry_ok exp locs = true ->
  tl_new size samples exp locs sds = Some t -> single_rel t spec_new h.
Proof.
  intros Hsz Hg Hn. destruct (tl_new_rel _ _ _ _ _ _ Hsz Hg Hn) as (((Hok & Hwf & Hl) & Hw & Hrows & _) & _ & _).
  split; [|exact Hw]. cbn [spec_new fcnt fdoor]. split; [split; [exact Hok|split; [exact Hwf|exact Hl]]|].
  unfold tl_new in Hn. destruct (samples =? 0); [discriminate|].
  destruct (sk_new size sds) as [s|] eqn:Es; [|discriminate]. injection Hn as <-.
  unfold sk_new in Es. destruct (size <? 1); [discriminate|]. injection Es as <-.
  cbn [ctr rows door] in *. split; [|split; [discriminate|intros _; apply bl_new_empty]].
  assert (Hz : forall n i, rget (repeat 0 n) i = 0).
  { intros n i. unfold rget, nthN. destruct (nth_error (repeat 0 n) _) eqn:E; [|reflexivity].
    apply nth_error_In, repeat_spec in E. subst. unfold nib. now rewrite N.shiftr_0_l. }
  assert (Hb0 : forall n, bytes_ok (repeat 0 n)).
  { intros n. unfold bytes_ok. apply Forall_forall. intros x Hx. apply repeat_spec in Hx. subst. lia. }
  apply rows_rel_forall. repeat (constructor; [intros p; split; [apply Hb0|apply Hz]|]). constructor.
Qed.
