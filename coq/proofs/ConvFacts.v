(** * Conversions: [from_iter] never evicts — the capacity is the number of pairs (at least 1) — so every key of
    the source is retained with the value of its last occurrence, and the result satisfies the RawLRU invariant. *)
From Coq Require Import List Arith Lia.
Import ListNotations.
From VF Require Import Base Iter Enc Lru LruStep BaseFacts LruFacts.
Local Open Scope nat_scope.

Lemma length_remove_key_le k (l : list entry) : length (remove_key k l) <= length l.
Proof. induction l as [|[k' v] t IH]; cbn; [lia|]. destruct (Z.eqb k k'); cbn; lia. Qed.

Lemma put_room s k v :
  lru_inv s -> length (items s) < cap s ->
  let s' := fst (fst (put s k v)) in
  cap s' = cap s /\ find k (items s') = Some v /\
  (forall x, x <> k -> find x (items s') = find x (items s)) /\
  length (items s') <= S (length (items s)).
Proof.
  intros [Hnd Hlen] Hroom. unfold put.
  destruct (find k (items s)) as [old|] eqn:Ef.
  - cbn [fst with_items cap items]. split; [reflexivity|].
    unfold touch. cbn [find]. rewrite Z.eqb_refl. split; [reflexivity|]. split.
    + intros x Hx. cbn [find]. destruct (Z.eqb_spec x k); [contradiction|]. now apply find_remove_key_other.
    + cbn [length]. pose proof (length_remove_key_le k (items s)). lia.
  - destruct (Nat.eqb_spec (cap s) 0); [lia|]. unfold llen. destruct (Nat.eqb_spec (length (items s)) (cap s)); [lia|].
    cbn [fst with_items cap items find length]. rewrite Z.eqb_refl. split; [reflexivity|]. split; [reflexivity|].
    split; [|lia].
    intros x Hx. destruct (Z.eqb_spec x k); [contradiction|reflexivity].
Qed.

(** value of the last occurrence of a key in a list of pairs *)
Fixpoint last_val (k : key) (l : list entry) : option val :=
  match l with
  | [] => None
  | (k', v) :: t => match last_val k t with Some w => Some w | None => if Z.eqb k k' then Some v else None end
  end.

Lemma refill_no_evict l : forall s,
  lru_inv s -> length (items s) + length l <= cap s ->
  let s' := refill s l in
  cap s' = cap s /\ lru_inv s' /\
  (forall k, find k (items s') = match last_val k l with Some w => Some w | None => find k (items s) end) /\
  length (items s') <= length (items s) + length l.
Proof.
  induction l as [|[k v] t IH]; intros s Hinv Hlen; cbn [last_val length] in *.
  - cbn. split; [reflexivity|]. split; [exact Hinv|]. split; [reflexivity|lia].
  - change (refill s ((k, v) :: t)) with (refill (fst (fst (put s k v))) t).
    assert (Hroom : length (items s) < cap s) by lia.
    destruct (put_room s k v Hinv Hroom) as (Hc & Hk & Hother & Hl).
    pose proof (put_inv s k v Hinv) as Hinv1.
    set (s1 := fst (fst (put s k v))) in *.
    destruct (IH s1 Hinv1) as (Hc' & Hinv' & Hf' & Hl'); [rewrite Hc; lia|].
    split; [congruence|]. split; [exact Hinv'|]. split; [|lia].
    intros x. rewrite Hf'. destruct (last_val x t) as [w|]; [reflexivity|].
    destruct (Z.eqb_spec x k) as [->|Hne]; [exact Hk|now apply Hother].
Qed.

Theorem from_iter_spec l :
  let s := from_iter l in
  cap s = Nat.max 1 (length l) /\ lru_inv s /\
  (forall k, find k (items s) = last_val k l) /\ length (items s) <= length l.
Proof.
  unfold from_iter.
  assert (Hinv : lru_inv (lru_new (Nat.max 1 (length l)) false)) by (split; [constructor|cbn [items cap lru_new length]; lia]).
  destruct (refill_no_evict l _ Hinv) as (Hc & Hi & Hf & Hl); [cbn [items cap lru_new length]; lia|].
  split; [exact Hc|]. split; [exact Hi|]. split; [|exact Hl].
  intros k. rewrite Hf. destruct (last_val k l); reflexivity.
Qed.
