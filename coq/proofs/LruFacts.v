(** * The RawLRU invariant and how every operation changes the list. *)
From VF Require Import Base Iter Enc Lru LruStep BaseFacts.

Arguments touch : simpl never.
Arguments keys : simpl never.

Definition lru_inv (s : lru) : Prop :=
  NoDup (keys (items s)) /\ (length (items s) <= cap s)%nat.

(** ** list-level facts *)

Lemma keys_cons e l : keys (e :: l) = fst e :: keys l.
Proof. reflexivity. Qed.

Lemma keys_app a b : keys (a ++ b) = keys a ++ keys b.
Proof. unfold keys. apply map_app. Qed.

Lemma keys_touch k v l : keys (touch k v l) = k :: remove1 k (keys l).
Proof. unfold touch. rewrite keys_cons, keys_remove_key. reflexivity. Qed.

Lemma nodup_touch k v l : NoDup (keys l) -> NoDup (keys (touch k v l)).
Proof.
  intros H. rewrite keys_touch. constructor.
  - now apply notin_remove1_nodup.
  - now apply nodup_remove1.
Qed.

Lemma length_touch_in k v l : In k (keys l) -> length (touch k v l) = length l.
Proof.
  intros H. unfold touch. cbn. rewrite length_remove_key.
  rewrite (length_remove1_in _ _ H). apply length_keys.
Qed.

Lemma nodup_app_l (a b : list key) : NoDup (a ++ b) -> NoDup a.
Proof.
  induction a as [|x a IH]; cbn; [constructor|].
  intros H; inversion H; subst. constructor; [|auto].
  intros Hin; apply H2. apply in_or_app; now left.
Qed.

Lemma keys_set_hd w l : keys (set_hd w l) = keys l.
Proof. destruct w as [w|], l as [|[k v] t]; reflexivity. Qed.

Lemma keys_set_last w l : keys (set_last w l) = keys l.
Proof.
  unfold set_last. destruct w as [w|]; [|reflexivity].
  destruct (split_last l) as [[r [k v]]|] eqn:E; [|reflexivity].
  apply split_last_app in E. subst. now rewrite !keys_app.
Qed.

Lemma length_of_keys_eq (a b : list entry) : keys a = keys b -> length a = length b.
Proof. intros H. rewrite <- !length_keys. now rewrite H. Qed.

Lemma keys_apply_writes wrs l : keys (apply_writes wrs l) = keys l.
Proof.
  unfold apply_writes. revert l. induction wrs as [|[k w] t IH]; intros l; cbn; [reflexivity|].
  rewrite IH. apply keys_set_val.
Qed.

Lemma keys_iter_script kd pre pa pb l :
  keys (snd (iter_script kd pre pa pb l)) = keys l.
Proof.
  unfold iter_script.
  repeat match goal with
  | |- context [it_run ?a ?b ?c] => destruct (it_run a b c) as [[? ?] ?]
  end.
  cbn. apply keys_apply_writes.
Qed.

(** ** [put] *)

Lemma put_inv s k v : lru_inv s -> lru_inv (fst (fst (put s k v))).
Proof.
  intros [Hnd Hlen]. unfold put.
  destruct (find k (items s)) as [old|] eqn:Ef; cbn.
  - split; cbn.
    + now apply nodup_touch.
    + rewrite length_touch_in; [exact Hlen|]. eapply find_in_keys; eauto.
  - apply find_none_notin in Ef.
    destruct (Nat.eqb_spec (cap s) 0) as [Hc|Hc]; cbn; [split; assumption|].
    unfold llen. destruct (Nat.eqb_spec (length (items s)) (cap s)) as [Hf|Hf].
    + destruct (split_last (items s)) as [[rest [ek ev]]|] eqn:Es; cbn.
      * apply split_last_app in Es. rewrite Es in *. split; cbn.
        -- rewrite keys_app in Hnd, Ef. constructor.
           ++ intros Hin. apply Ef. apply in_or_app. now left.
           ++ eapply nodup_app_l; eauto.
        -- rewrite app_length in Hlen. cbn in Hlen. lia.
      * apply split_last_none in Es. rewrite Es in *. cbn in *. lia.
    + cbn. split; cbn.
      * constructor; assumption.
      * lia.
Qed.

Lemma refill_inv l s : lru_inv s -> lru_inv (refill s l).
Proof.
  unfold refill. revert s. induction l as [|e l IH]; intros s H; cbn; [exact H|].
  apply IH. now apply put_inv.
Qed.

(** ** [clone] rebuilds exactly the same list *)


Lemma refill_app s a b : refill s (a ++ b) = refill (refill s a) b.
Proof. unfold refill. apply fold_left_app. Qed.

Lemma refill_one s k v : refill s [(k, v)] = fst (fst (put s k v)).
Proof. reflexivity. Qed.

Lemma refill_rev c cb l acc :
  NoDup (keys (l ++ acc)) -> (length (l ++ acc) <= c)%nat ->
  refill (mkLru c acc cb) (rev l) = mkLru c (l ++ acc) cb.
Proof.
  revert acc. induction l as [|[k v] l IH]; intros acc Hnd Hlen; [reflexivity|].
  cbn [rev]. rewrite refill_app.
  change ((k, v) :: l) with ([(k, v)] ++ l) in Hnd, Hlen.
  rewrite <- app_assoc in Hnd, Hlen. cbn [app] in Hnd, Hlen.
  rewrite keys_cons in Hnd. cbn [fst] in Hnd. inversion Hnd as [|? ? Hni Hnd']; subst.
  cbn [length] in Hlen.
  rewrite IH; [|assumption|lia].
  rewrite refill_one. unfold put. cbn [items cap].
  apply find_none_notin in Hni. rewrite Hni.
  destruct (Nat.eqb_spec c 0) as [Hc|Hc]; [lia|].
  unfold llen. cbn [items cap].
  destruct (Nat.eqb_spec (length (l ++ acc)) c) as [Hf|Hf]; [lia|].
  reflexivity.
Qed.

Lemma clone_id s : lru_inv s -> clone s = s.
Proof.
  intros [Hnd Hlen]. unfold clone.
  rewrite refill_rev; rewrite ?app_nil_r; try assumption.
  destruct s; reflexivity.
Qed.

(** ** every operation preserves the invariant *)

Lemma with_items_inv s l :
  NoDup (keys l) -> (length l <= cap s)%nat -> lru_inv (with_items s l).
Proof. intros; split; assumption. Qed.

Lemma with_items_same_keys s l :
  lru_inv s -> keys l = keys (items s) -> lru_inv (with_items s l).
Proof.
  intros [Hnd Hlen] E. split; cbn.
  - now rewrite E.
  - now rewrite (length_of_keys_eq _ _ E).
Qed.

Lemma nodup_firstn {A} n (l : list A) : NoDup l -> NoDup (firstn n l).
Proof.
  revert n. induction l as [|x l IH]; intros n H; destruct n; cbn; try constructor.
  - inversion H; subst. intros Hin. apply H2. eapply (In_firstn_skipn_split) in Hin || idtac.
    revert Hin. clear. revert n. induction l as [|y l IH]; intros n; destruct n; cbn; try tauto.
    intros [E|Hin]; [now left|right; eauto].
  - inversion H; subst. auto.
Qed.

Lemma keys_firstn n l : keys (firstn n l) = firstn n (keys l).
Proof. unfold keys. symmetry. apply firstn_map. Qed.

Lemma remove_key_inv s k : lru_inv s -> lru_inv (with_items s (remove_key k (items s))).
Proof.
  intros [Hnd Hlen]. split; cbn.
  - rewrite keys_remove_key. now apply nodup_remove1.
  - rewrite length_remove_key.
    destruct (in_dec Z.eq_dec k (keys (items s))) as [i|n].
    + pose proof (length_remove1_in _ _ i). rewrite length_keys in H. lia.
    + rewrite remove1_notin by assumption. rewrite length_keys. lia.
Qed.

Lemma split_last_inv s rest e :
  lru_inv s -> split_last (items s) = Some (rest, e) -> lru_inv (with_items s rest).
Proof.
  intros [Hnd Hlen] Es. apply split_last_app in Es. rewrite Es in *.
  split; cbn.
  - rewrite keys_app in Hnd. eapply nodup_app_l; eauto.
  - rewrite app_length in Hlen. cbn in Hlen. lia.
Qed.

Lemma rotate_inv s rest e :
  lru_inv s -> split_last (items s) = Some (rest, e) -> lru_inv (with_items s (e :: rest)).
Proof.
  intros [Hnd Hlen] Es. apply split_last_app in Es. rewrite Es in *.
  split; cbn.
  - rewrite keys_app in Hnd. cbn in Hnd.
    apply NoDup_rev in Hnd. rewrite rev_app_distr in Hnd. cbn in Hnd.
    inversion Hnd; subst. constructor.
    + intros Hin. apply H1. now apply in_rev in Hin.
    + apply NoDup_rev in H2. now rewrite rev_involutive in H2.
  - rewrite app_length in Hlen. cbn in Hlen. lia.
Qed.

Theorem lstep_inv s o : lru_inv s -> lru_inv (fst (fst (lstep s o))).
Proof.
  intros H. pose proof H as [Hnd Hlen].
  destruct o; cbn; try exact H.
  - (* put *) pose proof (put_inv s k v H) as P. destruct (put s k v) as [[s' r] cb]. exact P.
  - (* get *) unfold get. destruct (find k (items s)) eqn:E; cbn; [|exact H].
    split; cbn; [now apply nodup_touch|].
    rewrite length_touch_in; [exact Hlen|eapply find_in_keys; eauto].
  - (* get_mut *) unfold get_mut. destruct (find k (items s)) eqn:E; cbn; [|exact H].
    split; cbn.
    + rewrite keys_set_val_opt. now apply nodup_touch.
    + rewrite (length_of_keys_eq _ (touch k v (items s))) by apply keys_set_val_opt.
      rewrite length_touch_in; [exact Hlen|eapply find_in_keys; eauto].
  - (* peek_mut *) unfold peek_mut. destruct (find k (items s)) eqn:E; cbn; [|exact H].
    apply with_items_same_keys; [exact H|apply keys_set_val_opt].
  - (* remove *) unfold remove. destruct (find k (items s)) eqn:E; cbn; [|exact H].
    now apply remove_key_inv.
  - (* purge *) split; cbn; [constructor|lia].
  - (* resize *) unfold resize. destruct (Nat.eqb_spec n (cap s)); cbn; [exact H|].
    split; cbn.
    + rewrite keys_firstn. now apply nodup_firstn.
    + rewrite firstn_length. lia.
  - (* get_lru *) unfold get_lru. destruct (split_last (items s)) as [[rest e]|] eqn:E; cbn; [|exact H].
    eapply rotate_inv; eauto.
  - (* get_lru_mut *) unfold get_lru_mut.
    destruct (split_last (items s)) as [[rest e]|] eqn:E; cbn; [|exact H].
    pose proof (rotate_inv s rest e H E) as R.
    apply (with_items_same_keys (with_items s (e :: rest))) ; [exact R|]. cbn. apply keys_set_hd.
  - (* get_mru_mut *) unfold get_mru_mut, peek_mru_mut. cbn.
    apply with_items_same_keys; [exact H|apply keys_set_hd].
  - (* peek_or_put *) unfold peek_or_put. destruct (find k (items s)); cbn; [exact H|].
    pose proof (put_inv s k v H) as P. destruct (put s k v) as [[s' r] cb]. exact P.
  - (* peek_mut_or_put *) unfold peek_mut_or_put. destruct (find k (items s)); cbn.
    + apply with_items_same_keys; [exact H|apply keys_set_val_opt].
    + pose proof (put_inv s k v H) as P. destruct (put s k v) as [[s' r] cb]. exact P.
  - (* contains_or_put *) unfold contains_or_put. destruct (mem k (items s)); cbn; [exact H|].
    pose proof (put_inv s k v H) as P. destruct (put s k v) as [[s' r] cb]. exact P.
  - (* peek_lru_mut *) unfold peek_lru_mut. cbn.
    apply with_items_same_keys; [exact H|apply keys_set_last].
  - (* peek_mru_mut *) unfold peek_mru_mut. cbn.
    apply with_items_same_keys; [exact H|apply keys_set_hd].
  - (* remove_lru *) unfold remove_lru.
    destruct (split_last (items s)) as [[rest e]|] eqn:E; cbn; [|exact H].
    eapply split_last_inv; eauto.
  - (* iter *)
    pose proof (keys_iter_script kd pre pa pb (items s)) as K.
    destruct (iter_script kd pre pa pb (items s)) as [[[y0 ya] yb] l']. cbn in K |- *.
    apply with_items_same_keys; [exact H|exact K].
  - (* clone *) now rewrite clone_id.
Qed.
