(** * C08 — TwoQueueCache follows the 2Q policy: exact list-level statements. *)
From VF Require Import Base Iter Enc Lru LruStep TwoQ CacheStep BaseFacts LruFacts Counts PrimFacts Tactics TwoQFacts.

(** ** the policy in the property's words, over plain lists (most-recent first) *)
Definition drop_last (l : list entry) : list entry :=
  match split_last l with Some (r, _) => r | None => [] end.
Definition last_e (l : list entry) : option entry :=
  match split_last l with Some (_, e) => Some e | None => None end.

(** the victim of a full cache: the least-recent entry of the recent queue when that queue is
    over its quota ([prefer_recent]), otherwise of the frequent queue, falling back to whichever
    queue is non-empty; [true] = taken from recent *)
Definition q_victim (prefer_recent : bool) (r f : list entry) : option (bool * entry) :=
  if prefer_recent then
    match last_e r with Some e => Some (true, e) | None => option_map (pair false) (last_e f) end
  else
    match last_e f with Some e => Some (false, e) | None => option_map (pair true) (last_e r) end.

(** over quota: strictly for a ghost revival, at quota also counts for a brand-new key *)
Definition over_quota (quota : nat) (r : list entry) (brand_new : bool) : bool :=
  if brand_new then Nat.leb quota (length r) else Nat.ltb quota (length r).

(** pushing an entry on a bounded list: when full, the list drops its own least-recent entry *)
Definition push_bounded (c : nat) (g : list entry) (e : entry) : list entry * option entry :=
  if Nat.ltb (length g) c then (e :: g, None) else (e :: drop_last g, last_e g).

Lemma drop_last_snoc r e : drop_last (r ++ [e]) = r.
Proof. unfold drop_last. now rewrite split_last_snoc. Qed.
Lemma last_e_snoc r e : last_e (r ++ [e]) = Some e.
Proof. unfold last_e. now rewrite split_last_snoc. Qed.
Lemma last_e_nil : last_e [] = None.
Proof. reflexivity. Qed.

Lemma put_nonnull_push l e :
  (1 <= cap l)%nat ->
  put_nonnull l e = Ok (with_items l (fst (push_bounded (cap l) (items l) e)),
                        snd (push_bounded (cap l) (items l) e)).
Proof.
  intros Hc. unfold push_bounded.
  destruct (put_nonnull_spec l e Hc) as [[Hlt ->]|[Hge (rest & victim & Hit & ->)]]; unfold llen in *.
  - destruct (Nat.ltb_spec (length (items l)) (cap l)); [reflexivity|lia].
  - destruct (Nat.ltb_spec (length (items l)) (cap l)); [lia|].
    rewrite Hit, drop_last_snoc, last_e_snoc. reflexivity.
Qed.

Lemma push_bounded_room c g e : (length g < c)%nat -> push_bounded c g e = (e :: g, None).
Proof. intros H. unfold push_bounded. destruct (Nat.ltb_spec (length g) c); [reflexivity|lia]. Qed.

Lemma evict_resident_victim s b :
  (1 <= llen (recent s) + llen (frequent s))%nat ->
  exists fromr e,
    q_victim b (items (recent s)) (items (frequent s)) = Some (fromr, e) /\
    evict_resident s b =
    Ok (if fromr : bool then with_items (recent s) (drop_last (items (recent s))) else recent s,
        if fromr then frequent s else with_items (frequent s) (drop_last (items (frequent s))), e).
Proof.
  intros Hne. unfold evict_resident, q_victim. destruct b.
  - destruct (remove_lru_in_spec (recent s)) as [[Hit ->]|(rest & e & Hit & ->)].
    + destruct (remove_lru_in_spec (frequent s)) as [[Hit2 ->]|(rest & e & Hit2 & ->)].
      * unfold llen in Hne. rewrite Hit, Hit2 in Hne. cbn in Hne. lia.
      * exists false, e. rewrite Hit, Hit2, last_e_nil, last_e_snoc, drop_last_snoc. auto.
    + exists true, e. rewrite Hit, last_e_snoc, drop_last_snoc. auto.
  - destruct (remove_lru_in_spec (frequent s)) as [[Hit ->]|(rest & e & Hit & ->)].
    + destruct (remove_lru_in_spec (recent s)) as [[Hit2 ->]|(rest & e & Hit2 & ->)].
      * unfold llen in Hne. rewrite Hit, Hit2 in Hne. cbn in Hne. lia.
      * exists true, e. rewrite Hit, Hit2, last_e_nil, last_e_snoc, drop_last_snoc. auto.
    + exists false, e. rewrite Hit, last_e_snoc, drop_last_snoc. auto.
Qed.

Lemma contains_find l k : contains l k = match find k (items l) with Some _ => true | None => false end.
Proof. reflexivity. Qed.

Lemma length_drop_last_le l : (length (drop_last l) <= length l)%nat.
Proof.
  unfold drop_last. destruct (split_last l) as [[r e]|] eqn:E; [|cbn; lia].
  apply split_last_app in E. subst. rewrite app_length. cbn. lia.
Qed.

(** ** put *)

(** second access by put, entry in the frequent queue: refreshed there *)
Theorem put_frequent_hit s k v old :
  find k (items (frequent s)) = Some old ->
  qput s k v = Ok (with_rfg s (recent s)
                     (with_items (frequent s) ((k, v) :: remove_key k (items (frequent s)))) (ghost s),
                   PUpdate old).
Proof.
  intros Hf. unfold qput.
  destruct (update_spec (frequent s) k v) as [[Hn _]|(o & Hf' & ->)]; [congruence|].
  assert (o = old) by congruence. now subst.
Qed.

(** second access by put, entry in the recent queue: moved to the front of the frequent queue *)
Theorem put_recent_hit s k v old :
  twoq_inv s -> find k (items (frequent s)) = None -> find k (items (recent s)) = Some old ->
  qput s k v = Ok (with_rfg s (with_items (recent s) (remove_key k (items (recent s))))
                     (with_items (frequent s) ((k, v) :: items (frequent s))) (ghost s),
                   PUpdate old).
Proof.
  intros (Hs & Hcr & Hcf & Hcg & Hrf & Hg & Hd) Hff Hfr. unfold qput.
  destruct (update_spec (frequent s) k v) as [[_ ->]|(o & Hf' & _)]; [|congruence].
  destruct (remove_ent_spec (recent s) k) as [[Hn _]|(o & Hf' & ->)]; [congruence|].
  assert (o = old) by congruence; subst o.
  pose proof (cntl_find_some _ _ _ Hfr) as Hpos. pose proof (length_remove_key_in _ _ Hpos) as Hlen.
  rewrite put_nonnull_push by lia. rewrite push_bounded_room by (unfold llen in *; lia).
  reflexivity.
Qed.

(** a put on a ghost key while the cache has room: revived directly into the frequent queue *)
Theorem put_ghost_hit_room s k v old :
  twoq_inv s -> find k (items (frequent s)) = None -> find k (items (recent s)) = None ->
  find k (items (ghost s)) = Some old ->
  (llen (recent s) + llen (frequent s) < qsize s)%nat ->
  qput s k v = Ok (with_rfg s (recent s) (with_items (frequent s) ((k, v) :: items (frequent s)))
                     (with_items (ghost s) (remove_key k (items (ghost s)))),
                   PUpdate old).
Proof.
  intros (Hs & Hcr & Hcf & Hcg & Hrf & Hg & Hd) Hff Hfr Hfg Hroom. unfold qput.
  destruct (update_spec (frequent s) k v) as [[_ ->]|(o & Hf' & _)]; [|congruence].
  destruct (remove_ent_spec (recent s) k) as [[_ ->]|(o & Hf' & _)]; [|congruence].
  rewrite contains_find, Hfg.
  destruct (Nat.leb_spec (qsize s) (llen (recent s) + llen (frequent s))); [lia|].
  destruct (remove_ent_spec (ghost s) k) as [[Hn _]|(o & Hf' & ->)]; [congruence|].
  assert (o = old) by congruence; subst o.
  rewrite put_nonnull_push by lia. rewrite push_bounded_room by (unfold llen in *; lia).
  reflexivity.
Qed.

Lemma find_app k a b : find k (a ++ b) = match find k a with Some v => Some v | None => find k b end.
Proof. induction a as [|[x y] a IH]; cbn; [reflexivity|]. destruct (Z.eqb k x); auto. Qed.

Lemma last_e_some l e : last_e l = Some e -> l = drop_last l ++ [e].
Proof.
  unfold last_e, drop_last. destruct (split_last l) as [[r x]|] eqn:E; [|discriminate].
  intros H; inversion H; subst. now apply split_last_app.
Qed.

(** the victim is the last entry of the queue it is taken from *)
Lemma q_victim_last b r f fromr e :
  q_victim b r f = Some (fromr, e) ->
  (if fromr : bool then r else f) = drop_last (if fromr then r else f) ++ [e].
Proof.
  unfold q_victim. destruct b.
  - destruct (last_e r) eqn:E1.
    + intros H; inversion H; subst. now apply last_e_some.
    + destruct (last_e f) eqn:E2; cbn; [|discriminate]. intros H; inversion H; subst. now apply last_e_some.
  - destruct (last_e f) eqn:E1.
    + intros H; inversion H; subst. now apply last_e_some.
    + destruct (last_e r) eqn:E2; cbn; [|discriminate]. intros H; inversion H; subst. now apply last_e_some.
Qed.

Lemma q_victim_key b r f fromr e k :
  q_victim b r f = Some (fromr, e) -> find k r = None -> find k f = None -> k <> fst e.
Proof.
  intros Hv Hr Hf Heq. apply q_victim_last in Hv.
  assert (Hin : In (fst e) (keys (if fromr then r else f))).
  { rewrite Hv, keys_app. apply in_or_app. right. now left. }
  destruct fromr; [apply find_none_notin in Hr|apply find_none_notin in Hf]; congruence.
Qed.

(** what happens to a ghost key [k] when another entry is pushed on the ghost list *)
Lemma push_bounded_find c g e k old :
  NoDup (keys g) -> find k g = Some old -> k <> fst e ->
  (find k (fst (push_bounded c g e)) = Some old /\
   match snd (push_bounded c g e) with None => True | Some (ek, _) => ek <> k end) \/
  (find k (fst (push_bounded c g e)) = None /\ snd (push_bounded c g e) = Some (k, old)).
Proof.
  intros Hnd Hf Hne. unfold push_bounded. destruct e as [a b]. cbn [fst] in Hne.
  destruct (Nat.ltb (length g) c); cbn [fst snd find].
  - left. destruct (Z.eqb_spec k a); [congruence|auto].
  - destruct (last_e g) as [[ek ev]|] eqn:El.
    + apply last_e_some in El. rewrite El in Hf, Hnd. rewrite find_app in Hf.
      destruct (Z.eqb_spec k a); [congruence|].
      destruct (find k (drop_last g)) eqn:Ed.
      * left. split; [congruence|]. intros ->.
        rewrite keys_app in Hnd. cbn in Hnd. apply NoDup_remove_2 in Hnd. rewrite app_nil_r in Hnd.
        apply Hnd. eapply find_in_keys; eauto.
      * right. cbn in Hf. destruct (Z.eqb_spec k ek); [|discriminate]. subst. split; congruence.
    + unfold last_e in El. destruct (split_last g) as [[? ?]|] eqn:Es; [discriminate|].
      apply split_last_none in Es. subst. discriminate.
Qed.

(** a put on a ghost key while the cache is full: a resident victim makes room and becomes the
    most-recent ghost (the ghost list dropping its own least-recent entry when it overflows —
    possibly the very key being revived), then the key is revived directly into the frequent queue *)
Theorem put_ghost_hit_full s k v old :
  twoq_inv s -> find k (items (frequent s)) = None -> find k (items (recent s)) = None ->
  find k (items (ghost s)) = Some old ->
  (qsize s <= llen (recent s) + llen (frequent s))%nat ->
  exists fromr victim s' r,
    q_victim (over_quota (qrecent_size s) (items (recent s)) false)
             (items (recent s)) (items (frequent s)) = Some (fromr, victim) /\
    qput s k v = Ok (s', r) /\
    items (recent s') = (if fromr : bool then drop_last (items (recent s)) else items (recent s)) /\
    items (frequent s') =
      (k, v) :: (if fromr then items (frequent s) else drop_last (items (frequent s))) /\
    items (ghost s') = remove_key k (fst (push_bounded (cap (ghost s)) (items (ghost s)) victim)) /\
    r = match snd (push_bounded (cap (ghost s)) (items (ghost s)) victim) with
        | None => PUpdate old
        | Some (ek, ev) => if Z.eqb ek k then PUpdate old else PEvictedAndUpdate ek ev old
        end.
Proof.
  intros Hinv Hff Hfr Hfg Hfull. pose proof Hinv as (Hs & Hcr & Hcf & Hcg & Hrf & Hg & Hd).
  unfold qput.
  destruct (update_spec (frequent s) k v) as [[_ ->]|(o & Hf' & _)]; [|congruence].
  destruct (remove_ent_spec (recent s) k) as [[_ ->]|(o & Hf' & _)]; [|congruence].
  rewrite contains_find, Hfg.
  destruct (Nat.leb_spec (qsize s) (llen (recent s) + llen (frequent s))); [|lia].
  destruct (evict_resident_victim s (Nat.ltb (qrecent_size s) (llen (recent s)))) as (fromr & victim & Hv & ->);
    [lia|].
  exists fromr, victim. unfold over_quota. fold (llen (recent s)). cbn [bind].
  unfold put_or_evict_nonnull. rewrite put_nonnull_push by lia. cbn [bind].
  pose proof (q_victim_key _ _ _ _ _ k Hv Hfr Hff) as Hvk.
  pose proof (q_victim_last _ _ _ _ _ Hv) as Hlast.
  assert (Hnd : NoDup (keys (items (ghost s)))).
  { apply cntl_nodup. intros x. pose proof (Hd x). lia. }
  set (f1 := if fromr then frequent s else with_items (frequent s) (drop_last (items (frequent s)))).
  assert (Hc1 : (1 <= cap f1)%nat) by (subst f1; destruct fromr; cbn; lia).
  assert (Hroomf : (length (items f1) < cap f1)%nat).
  { subst f1. unfold llen in *. destruct fromr; cbn [items with_items cap].
    - rewrite Hlast, app_length in Hrf. cbn in Hrf. lia.
    - rewrite Hlast, app_length in Hrf. cbn in Hrf. lia. }
  assert (Hf1 : items f1 = if fromr then items (frequent s) else drop_last (items (frequent s)))
    by (subst f1; now destruct fromr).
  destruct (push_bounded_find (cap (ghost s)) (items (ghost s)) victim k old Hnd Hfg Hvk)
    as [[Hk1 Hd1]|[Hk1 Hd1]].
  - destruct (remove_ent_spec (with_items (ghost s) (fst (push_bounded (cap (ghost s)) (items (ghost s)) victim))) k)
      as [[Hn _]|(o & Hfo & ->)]; cbn [items with_items] in *; [congruence|].
    assert (o = old) by congruence; subst o.
    rewrite put_nonnull_push by exact Hc1. rewrite push_bounded_room by exact Hroomf. cbn [bind fst snd].
    destruct (snd (push_bounded (cap (ghost s)) (items (ghost s)) victim)) as [[ek ev]|].
    + do 2 eexists. split; [exact Hv|]. split; [reflexivity|].
      cbn [recent frequent ghost with_rfg items with_items]. rewrite Hf1.
      split; [now destruct fromr|]. split; [reflexivity|]. split; [reflexivity|].
      destruct (Z.eqb_spec ek k); [contradiction|reflexivity].
    + do 2 eexists. split; [exact Hv|]. split; [reflexivity|].
      cbn [recent frequent ghost with_rfg items with_items]. rewrite Hf1.
      split; [now destruct fromr|]. split; [reflexivity|]. split; reflexivity.
  - destruct (remove_ent_spec (with_items (ghost s) (fst (push_bounded (cap (ghost s)) (items (ghost s)) victim))) k)
      as [[Hn ->]|(o & Hfo & _)]; cbn [items with_items] in *; [|congruence].
    rewrite Hd1. rewrite put_nonnull_push by exact Hc1. rewrite push_bounded_room by exact Hroomf.
    cbn [bind fst snd].
    do 2 eexists. split; [exact Hv|]. split; [reflexivity|].
    cbn [recent frequent ghost with_rfg items with_items]. rewrite Hf1, Z.eqb_refl.
    split; [now destruct fromr|]. split; [reflexivity|]. split; [|reflexivity].
    symmetry. apply remove_key_notin. now apply find_none_notin.
Qed.

(** ** a brand-new key (not resident, not a ghost) *)
Theorem put_new_room s k v :
  twoq_inv s -> find k (items (frequent s)) = None -> find k (items (recent s)) = None ->
  find k (items (ghost s)) = None ->
  (llen (frequent s) + llen (recent s) < qsize s)%nat ->
  qput s k v = Ok (with_rfg s (with_items (recent s) ((k, v) :: items (recent s))) (frequent s) (ghost s), PPut).
Proof.
  intros (Hs & Hcr & Hcf & Hcg & Hrf & Hg & Hd) Hff Hfr Hfg Hroom. unfold qput.
  destruct (update_spec (frequent s) k v) as [[_ ->]|(o & Hf' & _)]; [|congruence].
  destruct (remove_ent_spec (recent s) k) as [[_ ->]|(o & Hf' & _)]; [|congruence].
  rewrite contains_find, Hfg.
  destruct (Nat.ltb_spec (llen (frequent s) + llen (recent s)) (qsize s)); [|lia].
  unfold put_or_evict_nonnull. rewrite put_nonnull_push by lia.
  rewrite push_bounded_room by (unfold llen in *; lia). reflexivity.
Qed.

Theorem put_new_full s k v :
  twoq_inv s -> find k (items (frequent s)) = None -> find k (items (recent s)) = None ->
  find k (items (ghost s)) = None ->
  (qsize s <= llen (frequent s) + llen (recent s))%nat ->
  exists fromr victim s' r,
    q_victim (over_quota (qrecent_size s) (items (recent s)) true)
             (items (recent s)) (items (frequent s)) = Some (fromr, victim) /\
    qput s k v = Ok (s', r) /\
    items (recent s') = (k, v) :: (if fromr : bool then drop_last (items (recent s)) else items (recent s)) /\
    items (frequent s') = (if fromr then items (frequent s) else drop_last (items (frequent s))) /\
    items (ghost s') = fst (push_bounded (cap (ghost s)) (items (ghost s)) victim) /\
    r = match snd (push_bounded (cap (ghost s)) (items (ghost s)) victim) with
        | None => PPut
        | Some (ek, ev) => PEvicted ek ev
        end.
Proof.
  intros Hinv Hff Hfr Hfg Hfull. pose proof Hinv as (Hs & Hcr & Hcf & Hcg & Hrf & Hg & Hd).
  unfold qput.
  destruct (update_spec (frequent s) k v) as [[_ ->]|(o & Hf' & _)]; [|congruence].
  destruct (remove_ent_spec (recent s) k) as [[_ ->]|(o & Hf' & _)]; [|congruence].
  rewrite contains_find, Hfg.
  destruct (Nat.ltb_spec (llen (frequent s) + llen (recent s)) (qsize s)); [lia|].
  destruct (evict_resident_victim s (Nat.leb (qrecent_size s) (llen (recent s)))) as (fromr & victim & Hv & ->);
    [lia|].
  exists fromr, victim. unfold over_quota. fold (llen (recent s)). cbn [bind].
  pose proof (q_victim_last _ _ _ _ _ Hv) as Hlast.
  set (r1 := if fromr then with_items (recent s) (drop_last (items (recent s))) else recent s).
  assert (Hc1 : (1 <= cap r1)%nat) by (subst r1; destruct fromr; cbn; lia).
  assert (Hr1 : items r1 = if fromr then drop_last (items (recent s)) else items (recent s))
    by (subst r1; now destruct fromr).
  assert (Hroomr : (length (items r1) < cap r1)%nat).
  { subst r1. unfold llen in *. destruct fromr; cbn [items with_items cap].
    - rewrite Hlast, app_length in Hrf. cbn in Hrf. lia.
    - rewrite Hlast, app_length in Hrf. cbn in Hrf. lia. }
  rewrite put_nonnull_push by exact Hc1. rewrite push_bounded_room by exact Hroomr. cbn [bind fst snd].
  rewrite put_nonnull_push by lia. cbn [bind fst snd].
  destruct (snd (push_bounded (cap (ghost s)) (items (ghost s)) victim)) as [[ek ev]|];
    (do 2 eexists; split; [exact Hv|]; split; [reflexivity|];
     cbn [recent frequent ghost with_rfg items with_items]; rewrite Hr1;
     split; [reflexivity|]; split; [now destruct fromr|]; split; reflexivity).
Qed.

(** ** get / get_mut: the second access moves a recent entry to the frequent queue; ghosts are
    not consulted *)
Theorem get_frequent_hit s k w old :
  find k (items (frequent s)) = Some old ->
  qget_mut s k w =
  Ok (with_rfg s (recent s)
        (with_items (frequent s) (set_val_opt k w ((k, old) :: remove_key k (items (frequent s))))) (ghost s),
      Some old).
Proof.
  intros Hf. unfold qget_mut.
  destruct (get_mut_spec (frequent s) k w) as [[Hn _]|(o & Hf' & ->)]; [congruence|].
  assert (o = old) by congruence. now subst.
Qed.

Theorem get_recent_hit s k w old :
  twoq_inv s -> find k (items (frequent s)) = None -> find k (items (recent s)) = Some old ->
  qget_mut s k w =
  Ok (with_rfg s (with_items (recent s) (remove_key k (items (recent s))))
        (with_items (frequent s) ((k, match w with Some x => x | None => old end) :: items (frequent s)))
        (ghost s),
      Some old).
Proof.
  intros (Hs & Hcr & Hcf & Hcg & Hrf & Hg & Hd) Hff Hfr. unfold qget_mut.
  destruct (get_mut_spec (frequent s) k w) as [[_ ->]|(o & Hf' & _)]; [|congruence].
  destruct (remove_ent_spec (recent s) k) as [[Hn _]|(o & Hf' & ->)]; [congruence|].
  assert (o = old) by congruence; subst o.
  pose proof (cntl_find_some _ _ _ Hfr) as Hpos. pose proof (length_remove_key_in _ _ Hpos) as Hlen.
  unfold put_or_evict_nonnull. rewrite put_nonnull_push by lia.
  rewrite push_bounded_room by (unfold llen in *; lia). reflexivity.
Qed.

Theorem get_miss s k w :
  find k (items (frequent s)) = None -> find k (items (recent s)) = None -> qget_mut s k w = Ok (s, None).
Proof.
  intros Hff Hfr. unfold qget_mut.
  destruct (get_mut_spec (frequent s) k w) as [[_ ->]|(o & Hf' & _)]; [|congruence].
  destruct (remove_ent_spec (recent s) k) as [[_ ->]|(o & Hf' & _)]; [|congruence]. reflexivity.
Qed.
