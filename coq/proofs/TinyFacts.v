(** * TinyLFU: well-formedness of the sketch and the doorkeeper, totality of every operation
    (no out-of-bounds index, no 64-bit overflow) for every hash below 2^64. *)
From VF Require Import Base Tiny.
From Coq Require Import NArith Lia ZifyN ZifyNat ZifyBool.
Local Open Scope N_scope.

Ltac Zify.zify_post_hook ::= Z.div_mod_to_equations.

(** ** lists *)
Lemma nthN_some (l : list N) i : (N.to_nat i < length l)%nat -> exists x, nthN l i = Some x.
Proof.
  unfold nthN. intros H. destruct (nth_error l (N.to_nat i)) eqn:E; [eauto|].
  apply nth_error_None in E. lia.
Qed.

Lemma length_set_nth l i x : length (set_nth l i x) = length l.
Proof. revert i. induction l as [|h t IH]; intros [|i]; cbn; auto. Qed.

(** ** masks *)
Lemma land_le_mask x m : N.land x m <= m.
Proof.
  assert (E : N.ldiff m x + N.land x m = m).
  { rewrite N.add_nocarry_lxor.
    - rewrite N.lxor_lor.
      + rewrite (N.land_comm x m). apply N.lor_ldiff_and.
      + rewrite N.land_assoc. rewrite N.land_ldiff. apply N.land_0_l.
    - rewrite N.land_assoc. rewrite N.land_ldiff. apply N.land_0_l. }
  lia.
Qed.

(** ** rows *)
Definition row_ok (mask : N) (r : row) : Prop := (N.to_nat (mask / 2) < length r)%nat.

Lemma row_get_ok mask r x : row_ok mask r -> exists v, row_get r (N.land x mask) = Ok v /\ v <= 15.
Proof.
  intros H. unfold row_get.
  pose proof (land_le_mask x mask) as Hle.
  destruct (nthN_some r (N.land x mask / 2)) as [b Hb].
  { unfold row_ok in H. assert (N.land x mask / 2 <= mask / 2) by (apply N.div_le_mono; lia). lia. }
  rewrite Hb. eexists; split; [reflexivity|].
  change 15 with (N.ones 4). rewrite N.land_ones.
  assert (2 ^ 4 <> 0) by (cbn; lia). pose proof (N.mod_upper_bound (N.shiftr b (N.land (N.land x mask) 1 * 4)) (2 ^ 4) H0).
  cbn in *. lia.
Qed.

Lemma row_increment_ok mask r x :
  row_ok mask r -> exists r', row_increment r (N.land x mask) = Ok r' /\ row_ok mask r' /\ length r' = length r.
Proof.
  intros H. unfold row_increment.
  pose proof (land_le_mask x mask) as Hle.
  destruct (nthN_some r (N.land x mask / 2)) as [b Hb].
  { unfold row_ok in H. assert (N.land x mask / 2 <= mask / 2) by (apply N.div_le_mono; lia). lia. }
  rewrite Hb.
  match goal with |- context [if ?c then _ else _] => destruct c end.
  - eexists; split; [reflexivity|]. unfold row_ok. rewrite length_set_nth. auto.
  - eexists; split; [reflexivity|]. auto.
Qed.

Lemma row_reset_ok mask r : row_ok mask r -> row_ok mask (row_reset r).
Proof. unfold row_ok, row_reset. now rewrite map_length. Qed.
Lemma row_clear_ok mask r : row_ok mask r -> row_ok mask (row_clear r).
Proof. unfold row_ok, row_clear. now rewrite map_length. Qed.

(** ** sketch *)
Definition sketch_ok (s : sketch) : Prop := Forall (row_ok (smask s)) (rows s).

Lemma sk_pos_masked s i h : exists x, sk_pos s i h = N.land x (smask s).
Proof. unfold sk_pos. destruct (seeds s); eauto. Qed.

Lemma sk_incr_rows_ok s i rs h :
  Forall (row_ok (smask s)) rs ->
  exists rs', sk_incr_rows s i rs h = Ok rs' /\ Forall (row_ok (smask s)) rs' /\ length rs' = length rs.
Proof.
  revert i. induction rs as [|r t IH]; intros i H; cbn.
  - eexists; split; [reflexivity|]. auto.
  - inversion H as [|? ? Hr Ht]; subst.
    destruct (sk_pos_masked s i h) as [x ->].
    destruct (row_increment_ok (smask s) r x Hr) as (r' & -> & Hr' & _). cbn.
    destruct (IH (S i) Ht) as (t' & -> & Ht' & Hl). cbn.
    eexists; split; [reflexivity|]. split; [constructor; auto|cbn; lia].
Qed.

Lemma sk_increment_ok s h :
  sketch_ok s -> exists s', sk_increment s h = Ok s' /\ sketch_ok s' /\ smask s' = smask s /\
                            seeds s' = seeds s /\ length (rows s') = length (rows s).
Proof.
  intros H. unfold sk_increment.
  destruct (sk_incr_rows_ok s 0 (rows s) h H) as (rs & -> & Hrs & Hl). cbn.
  eexists; split; [reflexivity|]. repeat split; auto.
Qed.

Lemma sk_min_rows_ok s i rs h acc :
  Forall (row_ok (smask s)) rs -> acc <= 255 ->
  exists v, sk_min_rows s i rs h acc = Ok v /\ v <= acc /\ (rs <> [] -> v <= 15).
Proof.
  revert i acc. induction rs as [|r t IH]; intros i acc H Hacc; cbn.
  - eexists; split; [reflexivity|]. split; [lia|congruence].
  - inversion H as [|? ? Hr Ht]; subst.
    destruct (sk_pos_masked s i h) as [x ->].
    destruct (row_get_ok (smask s) r x Hr) as (v & -> & Hv). cbn.
    destruct (IH (S i) (if v <? acc then v else acc) Ht) as (v' & -> & Hle & _).
    { destruct (N.ltb_spec v acc); lia. }
    eexists; split; [reflexivity|]. destruct (N.ltb_spec v acc); split; try lia; intros _; lia.
Qed.

Lemma sk_estimate_ok s h :
  sketch_ok s -> rows s <> [] -> exists v, sk_estimate s h = Ok v /\ v <= 15.
Proof.
  intros H Hne. unfold sk_estimate.
  destruct (sk_min_rows_ok s 0 (rows s) h 255 H ltac:(lia)) as (v & -> & _ & Hv). eauto.
Qed.

Lemma sk_reset_ok s : sketch_ok s -> sketch_ok (sk_reset s).
Proof.
  unfold sketch_ok, sk_reset. cbn. intros H. apply Forall_forall. intros r Hr.
  apply in_map_iff in Hr. destruct Hr as (r0 & <- & Hin). rewrite Forall_forall in H.
  apply row_reset_ok. auto.
Qed.
Lemma sk_clear_ok s : sketch_ok s -> sketch_ok (sk_clear s).
Proof.
  unfold sketch_ok, sk_clear. cbn. intros H. apply Forall_forall. intros r Hr.
  apply in_map_iff in Hr. destruct Hr as (r0 & <- & Hin). rewrite Forall_forall in H.
  apply row_clear_ok. auto.
Qed.

(** ** the constructor: rows are wide enough whenever the counter count is even *)
Lemma sk_new_ok ctrs sds s :
  sk_new ctrs sds = Some s -> N.even (N.max 2 (next_pow2 ctrs)) = true ->
  sketch_ok s /\ rows s <> [].
Proof.
  unfold sk_new. destruct (ctrs <? 1); [discriminate|].
  intros E Hev; inversion E; subst; clear E. cbn.
  set (c := N.max 2 (next_pow2 ctrs)) in *.
  assert (Hc : 2 <= c) by (unfold c; lia).
  assert (Hrow : row_ok (c - 1) (repeat 0 (N.to_nat (c / 2)))).
  { unfold row_ok. rewrite repeat_length.
    apply N.even_spec in Hev. destruct Hev as [m Hm]. rewrite Hm.
    replace (2 * m - 1) with (1 + (m - 1) * 2) by lia.
    rewrite N.div_add by lia. rewrite (N.mul_comm 2 m), N.div_mul by lia.
    cbn. lia. }
  split; [|discriminate]. unfold sketch_ok. cbn. repeat constructor; exact Hrow.
Qed.

(** [next_pow2] keeps the lowest bit set for arguments up to 2^32, so the width is even *)
Lemma testbit0_lor_shiftr a k :
  N.testbit (N.lor a (N.shiftr a k)) 0 = N.testbit a 0 || N.testbit a k.
Proof. rewrite N.lor_spec, N.shiftr_spec by lia. now rewrite N.add_0_l. Qed.

Lemma testbit_smear a k j :
  N.testbit (N.lor a (N.shiftr a k)) j = N.testbit a j || N.testbit a (j + k).
Proof. rewrite N.lor_spec, N.shiftr_spec by lia. reflexivity. Qed.

Lemma low_bits_zero x :
  x < 2 ^ 32 -> (forall d, d < 32 -> N.testbit x d = false) -> x = 0.
Proof.
  intros Hx Hb. apply N.bits_inj_0. intros n.
  destruct (N.lt_ge_cases n 32) as [Hn|Hn]; [auto|].
  rewrite <- (N.mod_small x (2 ^ 32)) by exact Hx.
  now apply N.mod_pow2_bits_high.
Qed.

Lemma next_pow2_even ctrs :
  1 <= ctrs -> ctrs <= 2 ^ 32 -> N.even (N.max 2 (next_pow2 ctrs)) = true.
Proof.
  intros H1 H2. unfold next_pow2.
  set (x := ctrs - 1).
  set (y1 := N.lor x (N.shiftr x 1)). set (y2 := N.lor y1 (N.shiftr y1 2)).
  set (y3 := N.lor y2 (N.shiftr y2 4)). set (y4 := N.lor y3 (N.shiftr y3 8)).
  set (y5 := N.lor y4 (N.shiftr y4 16)).
  destruct (N.eq_dec x 0) as [E|E].
  - subst y5 y4 y3 y2 y1. rewrite E. reflexivity.
  - assert (Hodd : N.testbit y5 0 = true).
    { destruct (N.testbit y5 0) eqn:T; [reflexivity|exfalso]. apply E.
      apply low_bits_zero; [unfold x; lia|].
      unfold y5, y4, y3, y2, y1 in T.
      repeat rewrite testbit_smear in T. cbn [N.add Pos.add Pos.succ] in T.
      repeat match goal with H : _ || _ = false |- _ => apply Bool.orb_false_iff in H; destruct H end.
      intros d Hd.
      assert (Hcases : d = 0 \/ d = 1 \/ d = 2 \/ d = 3 \/ d = 4 \/ d = 5 \/ d = 6 \/ d = 7 \/ d = 8 \/
                       d = 9 \/ d = 10 \/ d = 11 \/ d = 12 \/ d = 13 \/ d = 14 \/ d = 15 \/ d = 16 \/
                       d = 17 \/ d = 18 \/ d = 19 \/ d = 20 \/ d = 21 \/ d = 22 \/ d = 23 \/ d = 24 \/
                       d = 25 \/ d = 26 \/ d = 27 \/ d = 28 \/ d = 29 \/ d = 30 \/ d = 31) by lia.
      repeat (destruct Hcases as [->|Hcases]; [assumption|]). subst d. assumption. }
    rewrite N.bit0_odd in Hodd.
    assert (Hev : N.even (y5 + 1) = true).
    { rewrite N.even_add. rewrite <- N.negb_odd. rewrite Hodd. reflexivity. }
    destruct (N.max_spec 2 (y5 + 1)) as [[_ ->]|[_ ->]]; [exact Hev|reflexivity].
Qed.

(** ** doorkeeper *)
Definition bloom_ok (b : bloom) : Prop :=
  9 <= size_exp b /\ size_exp b <= 63 /\ bmask b = N.ones (size_exp b) /\
  bshift b = 64 - size_exp b /\ (N.to_nat (2 ^ size_exp b / 64) <= length (words b))%nat /\
  set_locs b * (2 ^ size_exp b - 1) < two64.

Lemma two64_split e : e <= 64 -> two64 = 2 ^ e * 2 ^ (64 - e).
Proof.
  intros H. rewrite <- N.pow_add_r. replace (e + (64 - e)) with 64 by lia. reflexivity.
Qed.

Lemma bl_index_ok b h i :
  bloom_ok b -> h < two64 -> i < set_locs b ->
  exists idx, bl_index b h i = Ok idx /\ idx < 2 ^ size_exp b.
Proof.
  intros (H9 & H63 & Hm & Hs & Hw & Hov) Hh Hi. unfold bl_index.
  set (hh := N.shiftr h (bshift b)).
  set (l := N.shiftr (wrap64 (N.shiftl h (bshift b))) (bshift b)).
  pose proof (two64_split (size_exp b) ltac:(lia)) as E64.
  assert (Hp1 : 0 < 2 ^ size_exp b) by (apply N.neq_0_lt_0, N.pow_nonzero; lia).
  assert (Hp2 : 0 < 2 ^ bshift b) by (apply N.neq_0_lt_0, N.pow_nonzero; lia).
  rewrite <- Hs in E64.
  assert (Hhh : hh < 2 ^ size_exp b).
  { unfold hh. rewrite N.shiftr_div_pow2.
    apply N.div_lt_upper_bound; [lia|]. rewrite N.mul_comm. lia. }
  assert (Hl : l < 2 ^ size_exp b).
  { unfold l. rewrite N.shiftr_div_pow2.
    assert (Hw64 : wrap64 (N.shiftl h (bshift b)) < two64)
      by (unfold wrap64; apply N.mod_upper_bound; discriminate).
    apply N.div_lt_upper_bound; [lia|]. rewrite N.mul_comm. lia. }
  assert (Hx : hh + i * l < two64) by nia.
  destruct (N.ltb_spec (hh + i * l) two64); [|lia].
  eexists; split; [reflexivity|]. rewrite Hm, N.land_ones. apply N.mod_upper_bound. lia.
Qed.

Lemma word_index_ok b idx :
  bloom_ok b -> idx < 2 ^ size_exp b -> (N.to_nat (N.shiftr idx 6) < length (words b))%nat.
Proof.
  intros (H9 & H63 & Hm & Hs & Hw & Hov) Hi.
  rewrite N.shiftr_div_pow2. change (2 ^ 6) with 64.
  assert (E : 2 ^ size_exp b = 64 * 2 ^ (size_exp b - 6)).
  { change 64 with (2 ^ 6). rewrite <- N.pow_add_r. f_equal. lia. }
  assert (idx / 64 < 2 ^ (size_exp b - 6)) by (apply N.div_lt_upper_bound; lia).
  assert (2 ^ size_exp b / 64 = 2 ^ (size_exp b - 6)).
  { rewrite E. rewrite N.mul_comm. apply N.div_mul. lia. }
  lia.
Qed.

Lemma bl_is_set_ok b idx : bloom_ok b -> idx < 2 ^ size_exp b -> exists r, bl_is_set b idx = Ok r.
Proof.
  intros Hb Hi. unfold bl_is_set.
  destruct (nthN_some (words b) (N.shiftr idx 6) (word_index_ok b idx Hb Hi)) as [w ->]. eauto.
Qed.

Lemma bloom_ok_words b ws :
  bloom_ok b -> length ws = length (words b) ->
  bloom_ok (mkBloom ws (size_exp b) (bmask b) (set_locs b) (bshift b)).
Proof. intros (H9 & H63 & Hm & Hs & Hw & Hov) Hl. repeat split; cbn; try assumption. lia. Qed.

Definition same_geometry (b b' : bloom) : Prop :=
  size_exp b' = size_exp b /\ bmask b' = bmask b /\ set_locs b' = set_locs b /\ bshift b' = bshift b /\
  length (words b') = length (words b).

Lemma bl_set_ok b idx :
  bloom_ok b -> idx < 2 ^ size_exp b ->
  exists b', bl_set b idx = Ok b' /\ bloom_ok b' /\ same_geometry b b'.
Proof.
  intros Hb Hi. unfold bl_set.
  destruct (nthN_some (words b) (N.shiftr idx 6) (word_index_ok b idx Hb Hi)) as [w ->].
  eexists; split; [reflexivity|]. split.
  - apply bloom_ok_words; [exact Hb|apply length_set_nth].
  - repeat split; cbn. apply length_set_nth.
Qed.

Lemma bl_contains_from_ok b h i n :
  bloom_ok b -> h < two64 -> i + N.of_nat n <= set_locs b ->
  exists r, bl_contains_from b h i n = Ok r.
Proof.
  intros Hb Hh. revert i. induction n as [|n IH]; intros i Hi; cbn; [eauto|].
  destruct (bl_index_ok b h i Hb Hh ltac:(lia)) as (idx & -> & Hidx). cbn.
  destruct (bl_is_set_ok b idx Hb Hidx) as [r ->]. cbn.
  destruct r; [|eauto]. apply IH. lia.
Qed.

Lemma bl_contains_ok b h : bloom_ok b -> h < two64 -> exists r, bl_contains b h = Ok r.
Proof. intros Hb Hh. apply bl_contains_from_ok; auto. lia. Qed.

Lemma bl_add_from_ok b h i n :
  bloom_ok b -> h < two64 -> i + N.of_nat n <= set_locs b ->
  exists b', bl_add_from b h i n = Ok b' /\ bloom_ok b' /\ same_geometry b b'.
Proof.
  intros Hb Hh. revert b i Hb. induction n as [|n IH]; intros b i Hb Hi; cbn.
  - eexists; split; [reflexivity|]. split; [exact Hb|repeat split].
  - destruct (bl_index_ok b h i Hb Hh ltac:(lia)) as (idx & -> & Hidx). cbn.
    destruct (bl_set_ok b idx Hb Hidx) as (b1 & -> & Hb1 & Hg1). cbn.
    destruct Hg1 as (G1 & G2 & G3 & G4 & G5).
    destruct (IH b1 (i + 1) Hb1) as (b2 & -> & Hb2 & Hg2); [rewrite G3; lia|].
    eexists; split; [reflexivity|]. split; [exact Hb2|].
    destruct Hg2 as (K1 & K2 & K3 & K4 & K5). repeat split; congruence.
Qed.

Lemma bl_contains_or_add_ok b h :
  bloom_ok b -> h < two64 ->
  exists b' r, bl_contains_or_add b h = Ok (b', r) /\ bloom_ok b' /\ same_geometry b b'.
Proof.
  intros Hb Hh. unfold bl_contains_or_add.
  destruct (bl_contains_ok b h Hb Hh) as [c ->]. cbn. destruct c.
  - do 2 eexists; split; [reflexivity|]. split; [exact Hb|repeat split].
  - unfold bl_add. destruct (bl_add_from_ok b h 0 (N.to_nat (set_locs b)) Hb Hh ltac:(lia))
      as (b' & -> & Hb' & Hg). cbn. eauto.
Qed.

Lemma bl_clear_ok b : bloom_ok b -> bloom_ok (bl_clear b) /\ same_geometry b (bl_clear b).
Proof.
  intros Hb. unfold bl_clear. split.
  - apply bloom_ok_words; [exact Hb|apply map_length].
  - repeat split; cbn. apply map_length.
Qed.

Lemma bl_new_ok exp locs : bloom_geometry_ok exp locs = true -> bloom_ok (bl_new exp locs).
Proof.
  unfold bloom_geometry_ok, bl_new, bloom_ok. cbn [size_exp bmask set_locs bshift words].
  rewrite !Bool.andb_true_iff, !N.leb_le, N.ltb_lt. rewrite !N.shiftl_1_l.
  intros [[[H9 H63] H1] Hov]. repeat split; try lia.
  - rewrite N.ones_equiv. lia.
  - rewrite repeat_length. lia.
Qed.

(** ** TinyLFU *)
Definition tiny_ok (t : tinylfu) : Prop :=
  sketch_ok (ctr t) /\ rows (ctr t) <> [] /\ bloom_ok (door t).

Lemma tl_estimate_ok t h : tiny_ok t -> h < two64 -> exists e, tl_estimate t h = Ok e /\ e <= 16.
Proof.
  intros (Hs & Hr & Hb) Hh. unfold tl_estimate.
  destruct (sk_estimate_ok (ctr t) h Hs Hr) as (v & -> & Hv). cbn.
  destruct (bl_contains_ok (door t) h Hb Hh) as [c ->]. cbn.
  eexists; split; [reflexivity|]. destruct c; lia.
Qed.

Lemma tl_reset_ok t : tiny_ok t -> tiny_ok (tl_reset t).
Proof.
  intros (Hs & Hr & Hb). unfold tl_reset. split; [|split]; cbn.
  - now apply sk_reset_ok.
  - destruct (rows (ctr t)); [congruence|discriminate].
  - apply bl_clear_ok; exact Hb.
Qed.

Lemma tl_try_reset_ok t : tiny_ok t -> tiny_ok (tl_try_reset t).
Proof.
  intros H. unfold tl_try_reset. destruct (tsamples t <=? tw t + 1); [now apply tl_reset_ok|exact H].
Qed.

Lemma tl_clear_ok t : tiny_ok t -> tiny_ok (tl_clear t).
Proof.
  intros (Hs & Hr & Hb). unfold tl_clear. split; [|split]; cbn.
  - now apply sk_clear_ok.
  - destruct (rows (ctr t)); [congruence|discriminate].
  - apply bl_clear_ok; exact Hb.
Qed.

Lemma tl_increment_ok t h : tiny_ok t -> h < two64 -> exists t', tl_increment t h = Ok t' /\ tiny_ok t'.
Proof.
  intros (Hs & Hr & Hb) Hh. unfold tl_increment.
  destruct (bl_contains_or_add_ok (door t) h Hb Hh) as (d' & added & -> & Hd' & _). cbn.
  destruct added; cbn.
  - eexists; split; [reflexivity|]. apply tl_try_reset_ok. split; [|split]; assumption.
  - destruct (sk_increment_ok (ctr t) h Hs) as (c' & -> & Hc' & Hm & _ & Hl). cbn.
    eexists; split; [reflexivity|]. apply tl_try_reset_ok. split; [|split]; cbn; try assumption.
    intros E. rewrite E in Hl. destruct (rows (ctr t)); [congruence|discriminate].
Qed.

Lemma tl_increments_ok t hs :
  tiny_ok t -> Forall (fun h => h < two64) hs -> exists t', tl_increments t hs = Ok t' /\ tiny_ok t'.
Proof.
  revert t. induction hs as [|h hs IH]; intros t Ht Hh; cbn; [eauto|].
  inversion Hh; subst.
  destruct (tl_increment_ok t h Ht) as (t1 & -> & Ht1); [assumption|]. cbn. now apply IH.
Qed.

Lemma tl_contains_ok t h : tiny_ok t -> h < two64 -> exists r, tl_contains t h = Ok r.
Proof. intros (_ & _ & Hb) Hh. now apply bl_contains_ok. Qed.

Lemma tl_cmp_ok t a b :
  tiny_ok t -> a < two64 -> b < two64 -> exists x y, tl_cmp t a b = Ok (x, y).
Proof.
  intros Ht Ha Hb. unfold tl_cmp.
  destruct (tl_estimate_ok t a Ht Ha) as (x & -> & _). cbn.
  destruct (tl_estimate_ok t b Ht Hb) as (y & -> & _). cbn. eauto.
Qed.

Lemma tl_lt_ok t a b : tiny_ok t -> a < two64 -> b < two64 -> exists r, tl_lt t a b = Ok r.
Proof.
  intros Ht Ha Hb. unfold tl_lt. destruct (tl_cmp_ok t a b Ht Ha Hb) as (x & y & ->). cbn. eauto.
Qed.

(** every successfully constructed estimator is well formed (sizes up to 2^32 counters) *)
Lemma tl_new_ok size samples exp locs sds t :
  size <= 2 ^ 32 -> bloom_geometry_ok exp locs = true ->
  tl_new size samples exp locs sds = Some t -> tiny_ok t.
Proof.
  intros Hsz Hg. unfold tl_new. destruct (samples =? 0); [discriminate|].
  destruct (sk_new size sds) as [s|] eqn:Es; [|discriminate].
  intros E; inversion E; subst; clear E.
  assert (H1 : 1 <= size).
  { unfold sk_new in Es. destruct (N.ltb_spec size 1); [discriminate|lia]. }
  destruct (sk_new_ok size sds s Es (next_pow2_even size H1 Hsz)) as [Hs Hr].
  split; [|split]; cbn; auto. now apply bl_new_ok.
Qed.
