(** * C12 — PutResult tells the truth about what a put did.

    [put_truth R R' k v r]: with [R] / [R'] the retained entries (resident and ghost, all
    partitions concatenated) before / after [put k v] returned [r]:
    - [Put]: the key was not retained and [R'] is [R] plus the new pair;
    - [Update old]: the key was retained with value [old], and [R'] is [R] with that pair replaced;
    - [Evicted ek ev]: the key was not retained, [(ek, ev)] was, and [R'] is [R] plus the new pair
      minus exactly that entry;
    - [EvictedAndUpdate ek ev old]: both.
    Together with [NoDup (keys R')] (the C01 invariant) this determines [R'] as a set. *)
From VF Require Import Base Iter Enc Lru LruStep Slru TwoQ Arc CacheStep Tiny WTiny TinyStep
  BaseFacts LruFacts Counts PrimFacts Tactics SlruFacts TwoQFacts ArcFacts TinyFacts WTinyFacts
  C07Proofs C08Proofs C09Proofs C10Proofs.
From VF Require Import Univ.

Definition put_truth (R R' : list entry) (k : key) (v : val) (r : put_result) : Prop :=
  match r with
  | PPut => ~ In k (keys R) /\ (forall e, In e R' <-> e = (k, v) \/ In e R)
  | PUpdate old => In (k, old) R /\ (forall e, In e R' <-> e = (k, v) \/ (In e R /\ fst e <> k))
  | PEvicted ek ev =>
    ~ In k (keys R) /\ In (ek, ev) R /\ ek <> k /\
    (forall e, In e R' <-> e = (k, v) \/ (In e R /\ e <> (ek, ev)))
  | PEvictedAndUpdate ek ev old =>
    In (k, old) R /\ In (ek, ev) R /\ ek <> k /\
    (forall e, In e R' <-> e = (k, v) \/ (In e R /\ fst e <> k /\ e <> (ek, ev)))
  end.

(** ** membership lemmas for the list surgery of the models *)
Lemma in_keys_of_in (e : entry) l : In e l -> In (fst e) (keys l).
Proof. intros H. unfold keys. now apply in_map. Qed.

Lemma in_remove_key_iff e k l :
  NoDup (keys l) -> (In e (remove_key k l) <-> In e l /\ fst e <> k).
Proof.
  induction l as [|[a b] l IH]; intros Hnd; cbn.
  - tauto.
  - rewrite keys_cons in Hnd. cbn in Hnd. inversion Hnd as [|? ? Hnotin Hnd']; subst.
    destruct (Z.eqb_spec k a) as [->|Hne].
    + split.
      * intros Hin. split; [now right|]. intros E. apply Hnotin. rewrite <- E. now apply in_keys_of_in.
      * intros [[E|Hin] Hn]; [subst; cbn in Hn; congruence|exact Hin].
    + cbn. rewrite (IH Hnd'). split.
      * intros [E|[Hin Hn]]; [subst; cbn; split; auto; congruence|auto].
      * intros [[E|Hin] Hn]; auto.
Qed.

Lemma nodup_keys_nodup (l : list entry) : NoDup (keys l) -> NoDup l.
Proof.
  induction l as [|e l IH]; intros H; [constructor|]. rewrite keys_cons in H. inversion H; subst.
  constructor; [|auto]. intros Hin. match goal with H : ~ In _ _ |- _ => apply H end. now apply in_keys_of_in.
Qed.

Lemma in_snoc_iff (e x : entry) rest :
  NoDup (keys (rest ++ [x])) -> (In e rest <-> In e (rest ++ [x]) /\ e <> x).
Proof.
  intros Hnd. apply nodup_keys_nodup in Hnd. rewrite in_app_iff. cbn.
  apply NoDup_remove_2 in Hnd. rewrite app_nil_r in Hnd. split.
  - intros H. split; [now left|]. intros ->. contradiction.
  - intros [[H|[H|[]]] Hn]; [exact H|]. congruence.
Qed.

Lemma find_in_iff k v l : NoDup (keys l) -> (find k l = Some v <-> In (k, v) l).
Proof. intros H. split; [apply find_some_in|now apply in_find_nodup]. Qed.

Lemma in_set_val_opt_iff e k w l :
  NoDup (keys l) -> ~ (exists x, w = Some x) -> In e (set_val_opt k w l) <-> In e l.
Proof. intros _ Hw. destruct w; [exfalso; eauto|reflexivity]. Qed.

(** ** RawLRU *)
Theorem c12_lru s k v :
  lru_inv s -> cap s <> 0%nat ->
  let '(s', r, _) := Lru.put s k v in
  put_truth (items s) (items s') k v r /\ find k (items s') = Some v.
Proof.
  intros [Hnd Hlen] Hc.
  destruct (put_spec s k v ltac:(lia) Hlen)
    as [(old & Hf & ->)|[(Hf & Hlt & ->)|(Hf & Hfull & rest & ek & ev & Hit & ->)]];
    cbn [put_truth items with_items find]; rewrite ?Z.eqb_refl.
  - split; [|reflexivity]. split; [now apply find_some_in|].
    intros e. cbn [In]. rewrite (in_remove_key_iff e k _ Hnd). intuition congruence.
  - split; [|reflexivity]. split; [now apply find_none_notin|]. intros e. cbn [In]. intuition congruence.
  - split; [|reflexivity]. apply find_none_notin in Hf. rewrite Hit in *.
    split; [exact Hf|]. split; [apply in_or_app; right; now left|]. split.
    + intros ->. apply Hf. rewrite keys_app. apply in_or_app. right. now left.
    + intros e. cbn [In]. rewrite (in_snoc_iff e (ek, ev) rest Hnd). intuition congruence.
Qed.

(** a cache resized to capacity 0 hands the pair straight back and keeps nothing *)
Theorem c12_lru_cap0 s k v :
  cap s = 0%nat -> find k (items s) = None -> Lru.put s k v = (s, PEvicted k v, []).
Proof. intros Hc Hf. unfold Lru.put. rewrite Hf, Hc. reflexivity. Qed.

Definition entry_eq_dec12 : forall a b : entry, {a = b} + {a <> b}.
Proof. decide equality; apply Z.eq_dec. Defined.

(** ** SegmentedCache *)
Definition retained_s (s : slru) : list entry := items (prob s) ++ items (prot s).

Lemma notin_keys_neq k (e : entry) l : ~ In k (keys l) -> In e l -> fst e <> k.
Proof. intros Hn Hin E. apply Hn. rewrite <- E. now apply in_keys_of_in. Qed.

Lemma slru_nodups s :
  slru_inv s -> NoDup (keys (items (prob s))) /\ NoDup (keys (items (prot s))) /\
                forall x, In x (keys (items (prob s))) -> In x (keys (items (prot s))) -> False.
Proof.
  intros (_ & _ & _ & _ & Hd). repeat split.
  - apply cntl_nodup. intros x. pose proof (Hd x). lia.
  - apply cntl_nodup. intros x. pose proof (Hd x). lia.
  - intros x H1 H2. apply cntl_in in H1, H2. pose proof (Hd x). lia.
Qed.

Ltac in_norm :=
  repeat rewrite in_app_iff in *; cbn [In] in *.

Theorem c12_slru s k v :
  slru_inv s ->
  exists s' r, sput s k v = Ok (s', r) /\ put_truth (retained_s s) (retained_s s') k v r /\
               speek s' k = Some v.
Proof.
  intros Hinv. destruct (slru_nodups s Hinv) as (Hn1 & Hn2 & Hdis). unfold retained_s, speek, peek.
  destruct (find k (items (prot s))) as [v0|] eqn:Ef2.
  - (* protected hit *)
    rewrite (protected_hit_refreshes_put s k v0 v Ef2). do 2 eexists. split; [reflexivity|].
    cbn [prob prot items with_items find put_truth]. rewrite Z.eqb_refl. split; [|reflexivity].
    apply find_some_in in Ef2 as Hin.
    split; [apply in_or_app; now right|].
    intros e. in_norm. rewrite (in_remove_key_iff e k _ Hn2).
    assert (Hk1 : In e (items (prob s)) -> fst e <> k).
    { intros H E. apply (Hdis k); [rewrite <- E; now apply in_keys_of_in|eapply find_in_keys; eauto]. }
    intuition congruence.
  - destruct (find k (items (prob s))) as [v0|] eqn:Ef1.
    + (* probationary hit: promotion *)
      destruct (probationary_hit_promotes_put s k v0 v Hinv Ef2 Ef1) as (s' & E & _ & _ & Hcase).
      exists s', (PUpdate v0). split; [exact E|]. apply find_some_in in Ef1 as Hin.
      assert (Hk2 : forall e, In e (items (prot s)) -> fst e <> k).
      { intros e. apply notin_keys_neq. now apply find_none_notin. }
      destruct Hcase as [(_ & E2 & E1)|(_ & rest & d & Eo & E2 & E1)]; rewrite E1, E2;
        cbn [put_truth find]; rewrite Z.eqb_refl; (split; [|reflexivity]);
        (split; [apply in_or_app; now left|]); intros e; in_norm; rewrite (in_remove_key_iff e k _ Hn1).
      * specialize (Hk2 e). intuition congruence.
      * rewrite Eo in Hk2. rewrite Eo. in_norm.
        pose proof (Hk2 d ltac:(apply in_or_app; right; now left)) as Hdk.
        assert (F2 : In e rest -> fst e <> k) by (intros H; apply Hk2; apply in_or_app; now left).
        clear Hk2. intuition (subst; auto; congruence).
    + (* new key *)
      destruct (new_key_enters_probationary s k v Hinv Ef1 Ef2) as (s' & r & E & Ep & _ & Hcase).
      exists s', r. split; [exact E|]. rewrite Ep, Ef2.
      assert (Hnk : ~ In k (keys (items (prob s) ++ items (prot s)))).
      { rewrite keys_app, in_app_iff. intros [H|H]; [now apply find_none_notin in Ef1|now apply find_none_notin in Ef2]. }
      destruct Hcase as [(_ & -> & E1)|(_ & rest & ek & ev & Eo & -> & E1)]; rewrite E1; cbn [put_truth find];
        rewrite Z.eqb_refl; (split; [|reflexivity]); (split; [exact Hnk|]).
      * intros e. in_norm. intuition congruence.
      * rewrite Eo in *. split; [apply in_or_app; left; apply in_or_app; right; now left|]. split.
        -- intros ->. apply Hnk. rewrite !keys_app. apply in_or_app. left. apply in_or_app. right. now left.
        -- intros e. in_norm. pose proof (in_snoc_iff e (ek, ev) rest Hn1) as Hs. in_norm.
           assert (Hp : In e (items (prot s)) -> e <> (ek, ev)).
           { intros H ->. apply (Hdis ek); [rewrite keys_app; apply in_or_app; right; now left|].
             now apply in_keys_of_in in H. }
           intuition congruence.
Qed.

(** ** deriving [put_truth] from key counts + "no value is invented" *)
Lemma same_key_same_entry (R : list entry) e e' :
  NoDup (keys R) -> In e R -> In e' R -> fst e = fst e' -> e = e'.
Proof.
  intros Hnd H1 H2 E. destruct e as [a b], e' as [a' b']. cbn in E. subst a'.
  apply (in_find_nodup _ _ _ Hnd) in H1. apply (in_find_nodup _ _ _ Hnd) in H2. congruence.
Qed.

Lemma in_of_cnt R x : (0 < cntl R x)%nat -> exists y, In (x, y) R.
Proof. intros H. destruct (cntl_pos_find _ _ H) as [y Hy]. exists y. now apply find_some_in. Qed.

Lemma cnt_of_in (e : entry) R : In e R -> (0 < cntl R (fst e))%nat.
Proof. intros H. apply cntl_in. now apply in_keys_of_in. Qed.

Section Truth.
  Variables (R R' : list entry) (k : key) (v : val).
  Hypothesis HndR : NoDup (keys R).
  Hypothesis Hincl : forall e, In e R' -> e = (k, v) \/ In e R.
  Hypothesis Hnew : In (k, v) R'.

  (** an entry of [R] whose key is still counted in [R'] (and is not [k]) is in [R'] *)
  Lemma survives e : In e R -> fst e <> k -> (0 < cntl R' (fst e))%nat -> In e R'.
  Proof.
    intros Hin Hne Hc. destruct (in_of_cnt _ _ Hc) as [y Hy].
    destruct (Hincl _ Hy) as [E|Hy']; [inversion E; congruence|].
    assert (E : (fst e, y) = e) by (apply (same_key_same_entry R); auto).
    now rewrite <- E.
  Qed.

  Lemma truth_put :
    cntl R k = 0%nat -> (forall x, cntl R' x = (cntl R x + ind (Z.eqb k x))%nat) ->
    put_truth R R' k v PPut.
  Proof.
    intros Hk Hc. split; [now apply cntl_notin|]. intros e. split; [apply Hincl|].
    intros [->|Hin]; [exact Hnew|]. apply survives; auto.
    - intros E. apply cnt_of_in in Hin. rewrite E in Hin. lia.
    - rewrite Hc. apply cnt_of_in in Hin. lia.
  Qed.

  Lemma truth_update old :
    In (k, old) R -> (forall x, cntl R' x = cntl R x) -> put_truth R R' k v (PUpdate old).
  Proof.
    intros Hold Hc. split; [exact Hold|]. intros e. split.
    - intros Hin. destruct (Hincl _ Hin) as [->|Hin']; [now left|].
      destruct (Z.eq_dec (fst e) k) as [E|Hne]; [|right; auto].
      (* an entry of R' with key k that is in R: it is (k, old); R' has key k once, so it is (k, v) *)
      left. assert (HndR' : forall x, (cntl R' x <= 1)%nat).
      { intros x. rewrite Hc. now apply cntl_nodup. }
      apply cntl_nodup in HndR'. apply (same_key_same_entry R'); auto.
    - intros [->|[Hin Hne]]; [exact Hnew|]. apply survives; auto. rewrite Hc. now apply cnt_of_in.
  Qed.

  Lemma truth_evicted ek ev :
    cntl R k = 0%nat -> In (ek, ev) R ->
    (forall x, (cntl R' x + ind (Z.eqb ek x) = cntl R x + ind (Z.eqb k x))%nat) ->
    put_truth R R' k v (PEvicted ek ev).
  Proof.
    intros Hk Hev Hc. pose proof (proj1 (cntl_nodup R) HndR) as H1.
    assert (Hne : ek <> k).
    { intros ->. apply cnt_of_in in Hev. cbn in Hev. lia. }
    split; [now apply cntl_notin|]. split; [exact Hev|]. split; [exact Hne|]. intros e. split.
    - intros Hin. destruct (Hincl _ Hin) as [->|Hin']; [now left|]. right. split; [exact Hin'|].
      intros ->. apply cnt_of_in in Hin. cbn in Hin. pose proof (Hc ek) as Hx. pose proof (H1 ek).
      rewrite Z.eqb_refl in Hx. cbn [ind] in Hx. rewrite (ind_eqb_neq k ek) in Hx by congruence. lia.
    - intros [->|[Hin Hn]]; [exact Hnew|].
      assert (Hkx : fst e <> k) by (intros E; apply cnt_of_in in Hin; rewrite E in Hin; lia).
      apply survives; auto.
      assert (Hex : ek <> fst e).
      { intros E. apply Hn. apply (same_key_same_entry R); auto. }
      pose proof (Hc (fst e)) as Hx. apply cnt_of_in in Hin.
      rewrite (ind_eqb_neq ek (fst e)) in Hx by exact Hex.
      rewrite (ind_eqb_neq k (fst e)) in Hx by congruence. lia.
  Qed.

  Lemma truth_evicted_update ek ev old :
    In (k, old) R -> In (ek, ev) R -> ek <> k ->
    (forall x, (cntl R' x + ind (Z.eqb ek x) = cntl R x)%nat) ->
    put_truth R R' k v (PEvictedAndUpdate ek ev old).
  Proof.
    intros Hold Hev Hne Hc. pose proof (proj1 (cntl_nodup R) HndR) as H1.
    split; [exact Hold|]. split; [exact Hev|]. split; [exact Hne|]. intros e. split.
    - intros Hin. destruct (Hincl _ Hin) as [->|Hin']; [now left|].
      destruct (Z.eq_dec (fst e) k) as [E|Hnk].
      + left. assert (HndR' : NoDup (keys R')).
        { apply cntl_nodup. intros x. pose proof (Hc x). pose proof (H1 x). lia. }
        apply (same_key_same_entry R'); auto.
      + right. split; [exact Hin'|]. split; [exact Hnk|].
        intros ->. apply cnt_of_in in Hin. cbn in Hin. pose proof (Hc ek) as Hx. pose proof (H1 ek).
        rewrite Z.eqb_refl in Hx. cbn [ind] in Hx. lia.
    - intros [->|(Hin & Hnk & Hn)]; [exact Hnew|]. apply survives; auto.
      assert (Hex : ek <> fst e).
      { intros E. apply Hn. apply (same_key_same_entry R); auto. }
      pose proof (Hc (fst e)) as Hx. apply cnt_of_in in Hin.
      rewrite (ind_eqb_neq ek (fst e)) in Hx by exact Hex. lia.
  Qed.
End Truth.

(** ** TwoQueueCache *)
Definition retained_q (s : twoq) : list entry := items (recent s) ++ items (frequent s) ++ items (ghost s).

Lemma push_bounded_cases c g x :
  (1 <= c)%nat ->
  ((length g < c)%nat /\ push_bounded c g x = (x :: g, None)) \/
  ((c <= length g)%nat /\ exists rest d, g = rest ++ [d] /\ push_bounded c g x = (x :: rest, Some d)).
Proof.
  intros Hc. unfold push_bounded. destruct (Nat.ltb_spec (length g) c); [left; auto|right].
  split; [assumption|]. unfold drop_last, last_e.
  destruct (split_last g) as [[rest d]|] eqn:E.
  - apply split_last_app in E. eauto.
  - apply split_last_none in E. subst. cbn in *. lia.
Qed.

Lemma twoq_nodup s : twoq_inv s -> NoDup (keys (retained_q s)).
Proof.
  intros (_ & _ & _ & _ & _ & _ & Hd). apply cntl_nodup. intros x. unfold retained_q.
  rewrite !cntl_app. pose proof (Hd x). lia.
Qed.

Lemma in_drop_last e l : In e (drop_last l) -> In e l.
Proof.
  unfold drop_last. destruct (split_last l) as [[r x]|] eqn:E; [|intros []].
  apply split_last_app in E. subst. intros H. apply in_or_app. now left.
Qed.

(** automation for the two side conditions of the [truth_*] lemmas *)
Ltac incl_tac :=
  let e := fresh "e" in let H := fresh "H" in
  intros e H;
  cbn [recent frequent ghost with_rfg items with_items t1 t2 b1 b2 prob prot wt_lru wt_slru wt_with] in H |- *;
  repeat (rewrite in_app_iff in H || cbn [In] in H);
  repeat (rewrite in_app_iff || cbn [In]);
  repeat match goal with
         | H : _ \/ _ |- _ => destruct H as [H|H]
         | H : In _ (_ :: _) |- _ => cbn [In] in H
         | H : In _ (_ ++ _) |- _ => apply in_app_or in H
         | H : In _ [] |- _ => destruct H
         | H : In _ (remove_key _ _) |- _ => apply in_remove_key in H
         | H : In _ (drop_last _) |- _ => apply in_drop_last in H
         | H : False |- _ => destruct H
         end; subst; auto 10.

Ltac cnt_tac Hd :=
  let x := fresh "x" in
  intros x; pose proof (Hd x); unfold retained_q in *; cbn [recent frequent ghost with_rfg items with_items] in *;
  autorewrite with cnt in *; cbn [length] in *; eqb_cases; try lia.

Theorem c12_twoq s k v :
  twoq_inv s ->
  exists s' r, qput s k v = Ok (s', r) /\ put_truth (retained_q s) (retained_q s') k v r /\
               qpeek s' k = Some v.
Proof.
  intros Hinv. pose proof (twoq_nodup s Hinv) as HndR.
  pose proof Hinv as (Hs & Hcr & Hcf & Hcg & Hrf & Hg & Hd).
  unfold qpeek, peek. unfold retained_q in *.
  destruct (find k (items (frequent s))) as [old|] eqn:Ef.
  - (* frequent hit *)
    rewrite (put_frequent_hit s k v old Ef). do 2 eexists. split; [reflexivity|].
    cbn [recent frequent ghost with_rfg items with_items find]. rewrite Z.eqb_refl. split; [|reflexivity].
    pose proof (cntl_find_some _ _ _ Ef) as Hpos. apply find_some_in in Ef as Hin.
    apply truth_update; auto.
    + unfold retained_q. incl_tac.
    + unfold retained_q. cbn [recent frequent ghost with_rfg items with_items]. in_norm. auto.
    + unfold retained_q. in_norm. auto.
    + cnt_tac Hd.
  - destruct (find k (items (recent s))) as [old|] eqn:Er.
    + (* recent hit *)
      rewrite (put_recent_hit s k v old Hinv Ef Er). do 2 eexists. split; [reflexivity|].
      cbn [recent frequent ghost with_rfg items with_items find]. rewrite Z.eqb_refl. split; [|reflexivity].
      pose proof (cntl_find_some _ _ _ Er) as Hpos. apply find_some_in in Er as Hin.
      apply truth_update; auto.
      * unfold retained_q. incl_tac.
      * unfold retained_q. cbn [recent frequent ghost with_rfg items with_items]. in_norm. auto.
      * unfold retained_q. in_norm. auto.
      * cnt_tac Hd.
    + destruct (find k (items (ghost s))) as [old|] eqn:Eg.
      * (* ghost hit *)
        pose proof (cntl_find_some _ _ _ Eg) as Hpos. apply find_some_in in Eg as Hin.
        destruct (Nat.leb_spec (qsize s) (llen (recent s) + llen (frequent s))) as [Hfull|Hroom].
        -- destruct (put_ghost_hit_full s k v old Hinv Ef Er Eg Hfull)
             as (fromr & victim & s' & r & Hv & E & E1 & E2 & E3 & Hr).
           exists s', r. split; [exact E|]. rewrite E2. cbn [find]. rewrite Z.eqb_refl. split; [|reflexivity].
           pose proof (q_victim_last _ _ _ _ _ Hv) as Hlast.
           pose proof (q_victim_key _ _ _ _ _ k Hv Er Ef) as Hvk.
           rewrite ?E1, ?E2, ?E3.
           destruct victim as [vk vv]. cbn [fst] in Hvk.
           destruct (push_bounded_cases (cap (ghost s)) (items (ghost s)) (vk, vv) Hcg)
             as [[Hlt Ep]|[Hge (grest & [dk dv] & Hgit & Ep)]]; rewrite Ep in *; cbn [fst snd] in *; subst r.
           ++ (* ghost list had room *)
              destruct fromr;
                [set (rr := drop_last (items (recent s))) in *|set (rr := drop_last (items (frequent s))) in *];
                clearbody rr; rewrite Hlast in *.
              ** apply truth_update; auto.
                 --- incl_tac.
                 --- in_norm. auto.
                 --- in_norm. auto 6.
                 --- cnt_tac Hd.
              ** apply truth_update; auto.
                 --- incl_tac.
                 --- in_norm. auto.
                 --- in_norm. auto 6.
                 --- cnt_tac Hd.
           ++ (* ghost list full: it dropped its own LRU (dk, dv) *)
              rewrite Hgit in *.
              destruct fromr;
                [set (rr := drop_last (items (recent s))) in *|set (rr := drop_last (items (frequent s))) in *];
                clearbody rr; rewrite Hlast in *;
                (destruct (Z.eqb_spec dk k) as [->|Hdk];
                 [ (* the dropped ghost is the key itself *)
                   apply truth_update; auto; [incl_tac|in_norm; auto|in_norm; auto 8|cnt_tac Hd]
                 | apply truth_evicted_update; auto;
                   [incl_tac|in_norm; auto|in_norm; auto 8|in_norm; auto 8|cnt_tac Hd] ]).
        -- rewrite (put_ghost_hit_room s k v old Hinv Ef Er Eg Hroom). do 2 eexists. split; [reflexivity|].
           cbn [recent frequent ghost with_rfg items with_items find]. rewrite Z.eqb_refl. split; [|reflexivity].
           apply truth_update; auto.
           ++ unfold retained_q. incl_tac.
           ++ unfold retained_q. cbn [recent frequent ghost with_rfg items with_items]. in_norm. auto.
           ++ unfold retained_q. in_norm. auto.
           ++ cnt_tac Hd.
      * (* brand-new key *)
        assert (Hk0 : cntl (items (recent s) ++ items (frequent s) ++ items (ghost s)) k = 0%nat).
        { rewrite !cntl_app.
          rewrite (cntl_find_none _ _ Ef), (cntl_find_none _ _ Er), (cntl_find_none _ _ Eg). reflexivity. }
        destruct (Nat.ltb_spec (llen (frequent s) + llen (recent s)) (qsize s)) as [Hroom|Hfull].
        -- rewrite (put_new_room s k v Hinv Ef Er Eg Hroom). do 2 eexists. split; [reflexivity|].
           cbn [recent frequent ghost with_rfg items with_items find]. rewrite Z.eqb_refl, Ef.
           split; [|reflexivity].
           apply truth_put; auto.
           ++ unfold retained_q. incl_tac.
           ++ unfold retained_q. cbn [recent frequent ghost with_rfg items with_items]. in_norm. auto.
           ++ cnt_tac Hd.
        -- destruct (put_new_full s k v Hinv Ef Er Eg Hfull)
             as (fromr & victim & s' & r & Hv & E & E1 & E2 & E3 & Hr).
           exists s', r. split; [exact E|].
           pose proof (q_victim_last _ _ _ _ _ Hv) as Hlast.
           pose proof (q_victim_key _ _ _ _ _ k Hv Er Ef) as Hvk.
           assert (Hpk : match find k (items (frequent s')) with
                         | Some v0 => Some v0 | None => find k (items (recent s')) end = Some v).
           { rewrite E2, E1. cbn [find]. rewrite Z.eqb_refl.
             destruct fromr; [now rewrite Ef|].
             destruct (find k (drop_last (items (frequent s)))) eqn:Edl; [|reflexivity].
             apply find_some_in, in_drop_last in Edl. apply in_keys_of_in in Edl. cbn in Edl.
             apply find_none_notin in Ef. contradiction. }
           split; [|exact Hpk].
           rewrite ?E1, ?E2, ?E3.
           destruct victim as [vk vv]. cbn [fst] in Hvk.
           destruct (push_bounded_cases (cap (ghost s)) (items (ghost s)) (vk, vv) Hcg)
             as [[Hlt Ep]|[Hge (grest & [dk dv] & Hgit & Ep)]]; rewrite Ep in *; cbn [fst snd] in *; subst r.
           ++ destruct fromr;
                [set (rr := drop_last (items (recent s))) in *|set (rr := drop_last (items (frequent s))) in *];
                clearbody rr; rewrite Hlast in *;
                (apply truth_put; auto; [incl_tac|in_norm; auto|cnt_tac Hd]).
           ++ rewrite Hgit in *.
              destruct fromr;
                [set (rr := drop_last (items (recent s))) in *|set (rr := drop_last (items (frequent s))) in *];
                clearbody rr; rewrite Hlast in *;
                (apply truth_evicted; auto; [incl_tac|in_norm; auto|in_norm; auto 8|cnt_tac Hd]).
Qed.

(** ** framing: entries of an untouched partition [W] with keys disjoint from everything else *)
Lemma put_truth_frame W R R' k v r :
  (forall e, In e W -> fst e <> k /\ ~ In (fst e) (keys R)) ->
  put_truth R R' k v r -> put_truth (W ++ R) (W ++ R') k v r.
Proof.
  intros HW. destruct r as [|old|ek ev|ek ev old]; cbn [put_truth].
  - intros [Hk H]. split.
    + rewrite keys_app, in_app_iff. intros [Hin|Hin]; [|contradiction].
      unfold keys in Hin. apply in_map_iff in Hin. destruct Hin as (e & E & Hin). apply HW in Hin. tauto.
    + intros e. rewrite !in_app_iff, H. tauto.
  - intros [Hold H]. split; [apply in_or_app; now right|].
    intros e. rewrite !in_app_iff, H. specialize (HW e). tauto.
  - intros (Hk & Hev & Hne & H). split; [|split; [apply in_or_app; now right|split; [exact Hne|]]].
    + rewrite keys_app, in_app_iff. intros [Hin|Hin]; [|contradiction].
      unfold keys in Hin. apply in_map_iff in Hin. destruct Hin as (e & E & Hin). apply HW in Hin. tauto.
    + intros e. rewrite !in_app_iff, H. specialize (HW e).
      assert (In e W -> e <> (ek, ev)).
      { intros Hin ->. apply HW in Hin. destruct Hin as [_ Hn]. apply Hn. now apply in_keys_of_in in Hev. }
      tauto.
  - intros (Hold & Hev & Hne & H). split; [apply in_or_app; now right|].
    split; [apply in_or_app; now right|split; [exact Hne|]].
    intros e. rewrite !in_app_iff, H. specialize (HW e).
    assert (In e W -> e <> (ek, ev)).
    { intros Hin ->. apply HW in Hin. destruct Hin as [_ Hn]. apply Hn. now apply in_keys_of_in in Hev. }
    tauto.
Qed.

(** ** AdaptiveCache: put reports Put / Update truthfully and invents nothing; ARC discards ghost
    entries silently (which ones: theorem C09_replace and C09_new_key) *)
Definition retained_a (s : arc) : list entry := items (t1 s) ++ items (b1 s) ++ items (t2 s) ++ items (b2 s).

Lemma in_push_bounded e c g x : In e (fst (push_bounded c g x)) -> e = x \/ In e g.
Proof.
  unfold push_bounded. destruct (Nat.ltb (length g) c); cbn [fst In].
  - intros [<-|H]; auto.
  - intros [<-|H]; auto. right. now apply in_drop_last.
Qed.

Lemma made_room_incl s0 full b s1 :
  arc_inv s0 -> (full = true -> (1 <= llen (t1 s0) + llen (t2 s0))%nat) -> made_room s0 full b s1 ->
  (forall e, In e (retained_a s1) -> In e (retained_a s0)) /\
  (forall e, In e (items (t1 s1)) -> In e (items (t1 s0))) /\
  (forall e, In e (items (t2 s1)) -> In e (items (t2 s0))).
Proof.
  intros Hinv Hne Hm. unfold made_room in Hm. destruct full; [|inversion Hm; subst; auto].
  destruct (replace_exact s0 b Hinv (Hne eq_refl))
    as (fromr & victim & s' & Hv & E & _ & _ & _ & _ & _ & _ & E1 & E2 & E3 & E4).
  rewrite E in Hm. inversion Hm; subst s'. clear Hm.
  pose proof (q_victim_last _ _ _ _ _ Hv) as Hlast.
  assert (Hvin : In victim (if fromr then items (t1 s0) else items (t2 s0))).
  { destruct fromr; rewrite Hlast; apply in_or_app; right; now left. }
  unfold retained_a. rewrite E1, E2, E3, E4. repeat split; intros e; destruct fromr; in_norm; intros H;
    repeat match goal with
           | H : _ \/ _ |- _ => destruct H as [H|H]
           | H : In _ (drop_last _) |- _ => apply in_drop_last in H
           | H : In _ (fst (push_bounded _ _ _)) |- _ => apply in_push_bounded in H
           end; subst; auto 8.
Qed.

Theorem c12_arc s k v :
  arc_inv s ->
  exists s' r, aput s k v = Ok (s', r) /\
    (match r with
     | PPut => ~ In k (keys (retained_a s))
     | PUpdate old => In (k, old) (retained_a s)
     | _ => False
     end) /\
    (forall e, In e (retained_a s') -> e = (k, v) \/ (In e (retained_a s) /\ fst e <> k)) /\
    apeek s' k = Some v.
Proof.
  intros Hinv. pose proof Hinv as (Hs & Hc1 & Hc2 & Hc3 & Hc4 & Hp & Hr & Hg1 & Hg2 & Hd).
  assert (HndR : NoDup (keys (retained_a s))).
  { apply cntl_nodup. intros x. unfold retained_a. rewrite !cntl_app. pose proof (Hd x). lia. }
  assert (Hstrong : forall R', (forall e, In e R' -> e = (k, v) \/ In e (retained_a s)) ->
                               (forall x, (cntl R' x <= 1)%nat) -> In (k, v) R' ->
                               forall e, In e R' -> e = (k, v) \/ (In e (retained_a s) /\ fst e <> k)).
  { intros R' Hincl Hnd' Hnew e Hin. destruct (Hincl e Hin) as [->|Hin']; [now left|].
    destruct (Z.eq_dec (fst e) k) as [E|Hne]; [left|right; auto].
    apply cntl_nodup in Hnd'. apply (same_key_same_entry R'); auto. }
  destruct (aput_ok s k v Hinv) as (sx & rx & Ex & Hix & _).
  assert (Hnd' : forall x, (cntl (retained_a sx) x <= 1)%nat).
  { destruct Hix as (_ & _ & _ & _ & _ & _ & _ & _ & _ & Hd'). intros x. unfold retained_a.
    rewrite !cntl_app. pose proof (Hd' x). lia. }
  unfold apeek, peek.
  destruct (find k (items (t1 s))) as [old|] eqn:E1.
  - rewrite (aput_recent_hit s k v old Hinv E1) in *. inversion Ex; subst sx rx.
    do 2 eexists. split; [reflexivity|]. apply find_some_in in E1 as Hin.
    split; [unfold retained_a; in_norm; auto|].
    split.
    + apply Hstrong; auto.
      * unfold retained_a. cbn [t1 t2 b1 b2 items with_items]. incl_tac.
      * unfold retained_a. cbn [t1 t2 b1 b2 items with_items]. in_norm. auto 6.
    + cbn [t1 t2 items with_items find]. rewrite Z.eqb_refl.
      destruct (find k (remove_key k (items (t1 s)))) eqn:Er; [|reflexivity].
      assert (Hn1 : NoDup (keys (items (t1 s)))).
      { apply cntl_nodup. intros x. pose proof (Hd x). lia. }
      rewrite find_remove_key_same in Er by exact Hn1. discriminate.
  - destruct (find k (items (t2 s))) as [old|] eqn:E2.
    + rewrite (aput_frequent_hit s k v old E1 E2) in *. inversion Ex; subst sx rx.
      do 2 eexists. split; [reflexivity|]. apply find_some_in in E2 as Hin.
      split; [unfold retained_a; in_norm; auto 6|].
      split.
      * apply Hstrong; auto.
        -- unfold retained_a. cbn [t1 t2 b1 b2 items with_items]. incl_tac.
        -- unfold retained_a. cbn [t1 t2 b1 b2 items with_items]. in_norm. auto 6.
      * cbn [t1 t2 items with_items find]. now rewrite E1, Z.eqb_refl.
    + destruct (find k (items (b1 s))) as [old|] eqn:E3.
      * destruct (aput_recent_ghost_hit s k v old Hinv E1 E2 E3) as (s2 & Hm & E).
        rewrite E in Ex. inversion Ex; subst sx rx. clear Ex.
        do 2 eexists. split; [exact E|]. apply find_some_in in E3 as Hin.
        split; [unfold retained_a; in_norm; auto 6|].
        set (s1 := mkArc (asize s) _ (t1 s) (with_items (b1 s) (remove_key k (items (b1 s)))) (t2 s) (b2 s)) in *.
        assert (Hi1 : arc_inv s1).
        { pose proof (cntl_find_some _ _ _ E3) as Hpos. pose proof (length_remove_key_in _ _ Hpos) as Hlen.
          subst s1. repeat split; unfold llen in *; proj; try lia.
          intros x. pose proof (Hd x). autorewrite with cnt. eqb_cases; lia. }
        destruct (made_room_incl s1 (Nat.leb (asize s) (llen (t1 s) + llen (t2 s))) false s2 Hi1) as (Hinc & Hinc1 & Hinc2); [|exact Hm|].
        { intros Ef. apply Nat.leb_le in Ef. subst s1. proj. lia. }
        split.
        -- apply Hstrong; auto.
           ++ intros e He. unfold retained_a in He. cbn [t1 t2 b1 b2 items with_items] in He.
              assert (He' : e = (k, v) \/ In e (retained_a s2)).
              { unfold retained_a. in_norm. intuition auto. }
              destruct He' as [->|He']; [now left|right]. apply Hinc in He'.
              unfold retained_a in *. subst s1. cbn [t1 t2 b1 b2 items with_items] in He'. in_norm.
              repeat match goal with
                     | H : _ \/ _ |- _ => destruct H as [H|H]
                     | H : In _ (remove_key _ _) |- _ => apply in_remove_key in H
                     end; auto 8.
           ++ unfold retained_a. cbn [t1 t2 b1 b2 items with_items]. in_norm. auto 6.
        -- cbn [t1 t2 items with_items find]. rewrite Z.eqb_refl.
           destruct (find k (items (t1 s2))) eqn:Ek; [|reflexivity].
           apply find_some_in, Hinc1 in Ek. subst s1. cbn [t1] in Ek.
           apply in_keys_of_in in Ek. apply find_none_notin in E1. contradiction.
      * destruct (find k (items (b2 s))) as [old|] eqn:E4.
        -- destruct (aput_frequent_ghost_hit s k v old Hinv E1 E2 E3 E4) as (s2 & Hm & E).
           rewrite E in Ex. inversion Ex; subst sx rx. clear Ex.
           do 2 eexists. split; [exact E|]. apply find_some_in in E4 as Hin.
           split; [unfold retained_a; in_norm; auto 8|].
           set (s1 := mkArc (asize s) _ (t1 s) (b1 s) (t2 s) (with_items (b2 s) (remove_key k (items (b2 s))))) in *.
           assert (Hi1 : arc_inv s1).
           { pose proof (cntl_find_some _ _ _ E4) as Hpos. pose proof (length_remove_key_in _ _ Hpos) as Hlen.
             subst s1. repeat split; unfold llen in *; proj; try lia.
             intros x. pose proof (Hd x). autorewrite with cnt. eqb_cases; lia. }
           destruct (made_room_incl s1 (Nat.leb (asize s) (llen (t1 s) + llen (t2 s))) true s2 Hi1) as (Hinc & Hinc1 & Hinc2); [|exact Hm|].
           { intros Ef. apply Nat.leb_le in Ef. subst s1. proj. lia. }
           split.
           ++ apply Hstrong; auto.
              ** intros e He. unfold retained_a in He. cbn [t1 t2 b1 b2 items with_items] in He.
                 assert (He' : e = (k, v) \/ In e (retained_a s2)).
                 { unfold retained_a. in_norm. intuition auto. }
                 destruct He' as [->|He']; [now left|right]. apply Hinc in He'.
                 unfold retained_a in *. subst s1. cbn [t1 t2 b1 b2 items with_items] in He'. in_norm.
                 repeat match goal with
                        | H : _ \/ _ |- _ => destruct H as [H|H]
                        | H : In _ (remove_key _ _) |- _ => apply in_remove_key in H
                        end; auto 8.
              ** unfold retained_a. cbn [t1 t2 b1 b2 items with_items]. in_norm. auto 6.
           ++ cbn [t1 t2 items with_items find]. rewrite Z.eqb_refl.
              destruct (find k (items (t1 s2))) eqn:Ek; [|reflexivity].
              apply find_some_in, Hinc1 in Ek. subst s1. cbn [t1] in Ek.
              apply in_keys_of_in in Ek. apply find_none_notin in E1. contradiction.
        -- destruct (aput_new_key s k v Hinv E1 E2 E3 E4) as (s1 & Hm & E).
           rewrite E in Ex. inversion Ex; subst sx rx. clear Ex.
           do 2 eexists. split; [exact E|].
           split.
           { unfold retained_a. rewrite !keys_app, !in_app_iff.
             apply find_none_notin in E1, E2, E3, E4. tauto. }
           destruct (made_room_incl s (Nat.leb (asize s) (llen (t1 s) + llen (t2 s))) false s1 Hinv) as (Hinc & Hinc1 & Hinc2); [|exact Hm|].
           { intros Ef. apply Nat.leb_le in Ef. lia. }
           split.
           ++ apply Hstrong; auto.
              ** intros e He. unfold retained_a in He. cbn [t1 t2 b1 b2 items with_items] in He.
                 assert (He' : e = (k, v) \/ In e (retained_a s1)).
                 { unfold retained_a. in_norm.
                   destruct (Nat.ltb (asize s - ap s) (llen (b1 s))), (Nat.ltb (ap s) (llen (b2 s)));
                     cbn [items with_items] in He;
                     repeat match goal with
                            | H : _ \/ _ |- _ => destruct H as [H|H]
                            | H : In _ (drop_last _) |- _ => apply in_drop_last in H
                            end; auto 8. }
                 destruct He' as [->|He']; [now left|right]. now apply Hinc.
              ** unfold retained_a. cbn [t1 t2 b1 b2 items with_items]. in_norm. auto.
           ++ cbn [t1 t2 items with_items find]. now rewrite Z.eqb_refl.
Qed.

(** ** WTinyLFUCache *)
Definition retained_w (s : wtiny) : list entry :=
  items (wt_lru s) ++ items (prob (wt_slru s)) ++ items (prot (wt_slru s)).

Ltac wcnt_tac Hd :=
  let x := fresh "x" in
  intros x; pose proof (Hd x); unfold scnt in *;
  cbn [wt_lru wt_slru wt_tiny wt_with prob prot items with_items] in *;
  autorewrite with cnt in *; cbn [length] in *; eqb_cases; try lia.

Theorem c12_wtiny s k v :
  wt_inv s ->
  exists s' r, wput s k v = Ok (s', r) /\ put_truth (retained_w s) (retained_w s') k v r /\
               wpeek s' k = Some v.
Proof.
  intros Hinv. pose proof Hinv as (Ht & Hc & Hl & Hm & Hd).
  pose proof Hm as (Hc1 & Hc2 & Hl1 & Hl2 & Hdm).
  assert (HndR : NoDup (keys (retained_w s))).
  { apply cntl_nodup. intros x. unfold retained_w. rewrite !cntl_app. pose proof (Hd x). unfold scnt in *. lia. }
  unfold retained_w in *. unfold wpeek, speek, peek.
  destruct (find k (items (wt_lru s))) as [old|] eqn:Ew.
  - (* window hit *)
    destruct (window_hit_moves_to_protected s k v old Hinv Ew) as (s' & E & _ & Ep & Hcase).
    exists s', (PUpdate old). split; [exact E|].
    pose proof (cntl_find_some _ _ _ Ew) as Hpos. apply find_some_in in Ew as Hin.
    assert (Hnw : NoDup (keys (items (wt_lru s)))).
    { apply cntl_nodup. intros x. pose proof (Hd x). lia. }
    rewrite Ep.
    destruct Hcase as [(_ & E1 & E2)|(_ & rest & [dk dv] & Eo & E1 & E2)]; rewrite E1, E2.
    + split.
      * apply truth_update; auto; [incl_tac|in_norm; auto 6|in_norm; auto|].
        wcnt_tac Hd.
      * rewrite find_remove_key_same by exact Hnw. cbn [find]. now rewrite Z.eqb_refl.
    + rewrite Eo in *. split.
      * apply truth_update; auto; [incl_tac|in_norm; auto 6|in_norm; auto|].
        wcnt_tac Hd.
      * cbn [find]. rewrite Z.eqb_refl.
        assert (dk <> k).
        { intros ->. pose proof (Hd k) as Hx. unfold scnt in Hx. rewrite ?Eo in Hx. autorewrite with cnt in Hx.
          rewrite ?Z.eqb_refl, ?ind_eqb_refl in Hx. cbn [ind] in Hx. lia. }
        destruct (Z.eqb_spec k dk); [congruence|].
        now rewrite find_remove_key_same by exact Hnw.
  - destruct (scontains (wt_slru s) k) eqn:Esc.
    + (* key of the main cache: a put on the segmented cache *)
      rewrite (main_hit_put s k v Ew Esc).
      destruct (c12_slru (wt_slru s) k v Hm) as (m' & r & E & Htruth & Hpeek).
      rewrite E. cbn [bind]. do 2 eexists. split; [reflexivity|].
      cbn [wt_lru wt_slru wt_with]. rewrite Ew. split.
      * unfold retained_s in Htruth. apply put_truth_frame; [|exact Htruth].
        intros e He. split.
        -- apply notin_keys_neq with (l := items (wt_lru s)); [now apply find_none_notin|exact He].
        -- intros Hk. apply cnt_of_in in He. rewrite keys_app, in_app_iff in Hk.
           pose proof (Hd (fst e)) as Hx. unfold scnt in Hx.
           destruct Hk as [Hk|Hk]; apply cntl_in in Hk; lia.
      * exact Hpeek.
    + (* brand-new key *)
      assert (Hk0 : cntl (items (wt_lru s) ++ items (prob (wt_slru s)) ++ items (prot (wt_slru s))) k = 0%nat).
      { rewrite !cntl_app. apply scontains_false in Esc. unfold scnt in Esc.
        rewrite (cntl_find_none _ _ Ew). lia. }
      assert (Hkp : find k (items (prob (wt_slru s))) = None /\ find k (items (prot (wt_slru s))) = None).
      { apply scontains_false in Esc. unfold scnt in Esc. split; apply cntl_zero_find; lia. }
      destruct Hkp as [Hkp Hkf].
      destruct (new_key_enters_window s k v Hinv Ew Esc) as [[Hroom E]|(Hfull & rest & ck & cv & Eo & E)].
      * rewrite E. do 2 eexists. split; [reflexivity|]. cbn [wt_lru wt_slru wt_with items with_items find].
        rewrite Z.eqb_refl. split; [|reflexivity].
        apply truth_put; auto; [incl_tac|in_norm; auto|wcnt_tac Hd].
      * rewrite E. clear E.
        assert (Hck : find ck (items (prob (wt_slru s))) = None /\ find ck (items (prot (wt_slru s))) = None).
        { pose proof (Hd ck) as Hx. unfold scnt in Hx. rewrite Eo in Hx. autorewrite with cnt in Hx.
          rewrite ?Z.eqb_refl, ?ind_eqb_refl in Hx. cbn [ind] in Hx. split; apply cntl_zero_find; lia. }
        destruct Hck as [Hck1 Hck2].
        assert (Hpk : forall (s' : wtiny), items (wt_lru s') = (k, v) :: rest ->
                  match find k (items (wt_lru s')) with
                  | Some v0 => Some v0
                  | None => match find k (items (prot (wt_slru s'))) with
                            | Some v1 => Some v1 | None => find k (items (prob (wt_slru s'))) end
                  end = Some v).
        { intros s' ->. cbn [find]. now rewrite Z.eqb_refl. }
        destruct (Nat.ltb_spec (slen (wt_slru s)) (scap (wt_slru s))) as [Hfree|Hmf].
        -- (* free admission *)
           rewrite (admission_free s _ ck cv Hfree).
           destruct (new_key_enters_probationary (wt_slru s) ck cv Hm Hck1 Hck2) as (m' & r & E & Ep & _ & Hcase).
           rewrite E. cbn [bind]. do 2 eexists. split; [reflexivity|].
           split; [|apply Hpk; reflexivity].
           cbn [wt_lru wt_slru wt_with items with_items]. rewrite Ep, Eo in *.
           destruct Hcase as [(_ & -> & E1)|(_ & prest & ek & ev & Epo & -> & E1)]; rewrite E1.
           ++ apply truth_put; auto; [incl_tac|in_norm; auto|wcnt_tac Hd].
           ++ rewrite Epo in *.
              apply truth_evicted; auto; [incl_tac|in_norm; auto|in_norm; auto 8|wcnt_tac Hd].
        -- (* admission filter *)
           destruct (admission_filter s (with_items (wt_lru s) ((k, v) :: rest)) ck cv Hinv Hmf Hck1 Hck2)
             as (prest & vk & vv & Epo & E).
           rewrite E. rewrite Eo, Epo in *.
           destruct (N.ltb _ _).
           ++ do 2 eexists. split; [reflexivity|]. split; [|apply Hpk; reflexivity].
              cbn [wt_lru wt_slru wt_with items with_items]. rewrite Epo.
              apply truth_evicted; auto; [incl_tac|in_norm; auto|in_norm; auto 8|wcnt_tac Hd].
           ++ do 2 eexists. split; [reflexivity|]. split; [|apply Hpk; reflexivity].
              cbn [wt_lru wt_slru wt_with prob prot items with_items].
              apply truth_evicted; auto; [incl_tac|in_norm; auto|in_norm; auto 8|wcnt_tac Hd].
Qed.

(** ** PutResult values are structural *)
Theorem put_result_eqb_structural a b : put_result_eqb a b = true <-> a = b.
Proof.
  destruct a, b; cbn; split; intros H; try discriminate; try reflexivity;
    repeat match goal with
           | H : _ && _ = true |- _ => apply andb_prop in H; destruct H
           | H : Z.eqb _ _ = true |- _ => apply Z.eqb_eq in H
           end; subst; try reflexivity;
    inversion H; subst; rewrite ?Z.eqb_refl; reflexivity.
Qed.

(** ** put_protected and the *_or_put family *)
Ltac scnt_tac Hd :=
  let x := fresh "x" in
  intros x; pose proof (Hd x); cbn [prob prot items with_items] in *;
  autorewrite with cnt in *; cbn [length] in *; eqb_cases; try lia.

Theorem c12_slru_put_protected s k v :
  slru_inv s ->
  put_truth (retained_s s) (retained_s (fst (sput_protected s k v))) k v (snd (sput_protected s k v)) /\
  speek (fst (sput_protected s k v)) k = Some v.
Proof.
  intros Hinv. pose proof Hinv as (Hc1 & Hc2 & Hl1 & Hl2 & Hd).
  assert (HndR : NoDup (keys (retained_s s))).
  { apply cntl_nodup. intros x. unfold retained_s. rewrite cntl_app. apply Hd. }
  unfold retained_s in *. unfold sput_protected, speek, peek.
  destruct (remove_spec (prob s) k) as [[Hn ->]|(old & Hf & ->)].
  - pose proof (cntl_find_none _ _ Hn) as Hz.
    destruct (put_spec (prot s) k v Hc2 Hl2)
      as [(o & Hf2 & ->)|[(Hf2 & Hlt & ->)|(Hf2 & Hfull & rest & ek & ev & Hit & ->)]];
      cbn [fst snd prob prot items with_items find]; rewrite Z.eqb_refl; (split; [|reflexivity]).
    + pose proof (cntl_find_some _ _ _ Hf2) as Hpos. apply find_some_in in Hf2 as Hin.
      apply truth_update; auto; [incl_tac|in_norm; auto|in_norm; auto|scnt_tac Hd].
    + pose proof (cntl_find_none _ _ Hf2) as Hz2.
      apply truth_put; auto; [incl_tac|in_norm; auto|rewrite cntl_app; lia|scnt_tac Hd].
    + pose proof (cntl_find_none _ _ Hf2) as Hz2. rewrite Hit in *.
      apply truth_evicted; auto; [incl_tac|in_norm; auto|rewrite cntl_app; lia|in_norm; auto 6|scnt_tac Hd].
  - pose proof (cntl_find_some _ _ _ Hf) as Hpos. apply find_some_in in Hf as Hin.
    assert (Hf2 : find k (items (prot s)) = None).
    { apply cntl_zero_find. pose proof (Hd k). lia. }
    destruct (put_spec (prot s) k v Hc2 Hl2)
      as [(o & Hf3 & _)|[(_ & Hlt & ->)|(_ & Hfull & rest & ek & ev & Hit & ->)]]; [congruence| |];
      cbn [fst snd prob prot items with_items find]; rewrite Z.eqb_refl; (split; [|reflexivity]).
    + apply truth_update; auto; [incl_tac|in_norm; auto|in_norm; auto|scnt_tac Hd].
    + rewrite Hit in *.
      assert (Hne : ek <> k).
      { intros ->. pose proof (Hd k) as Hx. autorewrite with cnt in Hx. rewrite ?Z.eqb_refl, ?ind_eqb_refl in Hx.
        cbn [ind] in Hx. lia. }
      apply truth_evicted_update; auto; [incl_tac|in_norm; auto|in_norm; auto|in_norm; auto 6|scnt_tac Hd].
Qed.

(** peek_or_put / peek_mut_or_put / contains_or_put: no put result iff the key was resident, and
    then nothing but the optional write happened; otherwise exactly a put *)
Theorem c12_or_put s k v :
  (forall x, find k (items s) = Some x -> peek_or_put s k v = (s, Some x, None, []) /\
                                         contains_or_put s k v = (s, true, None, [])) /\
  (find k (items s) = None ->
   peek_or_put s k v = (let '(s', r, cb) := Lru.put s k v in (s', None, Some r, cb)) /\
   contains_or_put s k v = (let '(s', r, cb) := Lru.put s k v in (s', false, Some r, cb))).
Proof.
  unfold peek_or_put, contains_or_put, mem. split.
  - intros x ->. auto.
  - intros ->. auto.
Qed.

(** ** ARC with at least two slots: a resident entry never vanishes during a [put] — the victim of [replace]
    becomes the most recent ghost, and a ghost list that is trimmed in the same call loses an older ghost *)
Lemma drop_last_cons_keeps (x y : entry) l : drop_last (x :: y :: l) = x :: drop_last (y :: l).
Proof.
  unfold drop_last. rewrite (split_last_cons x (y :: l)).
  destruct (split_last_cons_nonempty y l) as (r & e & E). now rewrite E.
Qed.

Lemma in_head_drop_last (x : entry) l : l <> [] -> In x (drop_last (x :: l)).
Proof. destruct l as [|y t]; [congruence|]. intros _. rewrite drop_last_cons_keeps. now left. Qed.

Lemma length_drop_last l : length (drop_last l) = (length l - 1)%nat.
Proof.
  unfold drop_last. destruct (split_last l) as [[r e]|] eqn:E.
  - apply split_last_app in E. subst. rewrite app_length. cbn. lia.
  - apply split_last_none in E. now subst.
Qed.

Lemma push_bounded_head c g x : exists t, fst (push_bounded c g x) = x :: t /\
  (t = g \/ (t = drop_last g /\ (c <= length g)%nat)).
Proof.
  unfold push_bounded. destruct (Nat.ltb_spec (length g) c); cbn [fst]; eexists; split; eauto.
Qed.

(** where a resident entry is after [replace]: still resident, or the head of one ghost list (the other ghost
    list untouched) *)
Definition ghosted (e : entry) (g0 g1 : list entry) (c : nat) : Prop :=
  exists t, g1 = e :: t /\ (t = g0 \/ (t = drop_last g0 /\ (c <= length g0)%nat)).

Lemma made_room_residents s0 full b s1 :
  arc_inv s0 -> (full = true -> (1 <= llen (t1 s0) + llen (t2 s0))%nat) -> made_room s0 full b s1 ->
  forall e, In e (items (t1 s0) ++ items (t2 s0)) ->
    (In e (items (t1 s1) ++ items (t2 s1)) /\ items (b1 s1) = items (b1 s0) /\ items (b2 s1) = items (b2 s0)) \/
    (In e (items (t1 s1) ++ items (t2 s1)) /\ (exists x, ghosted x (items (b1 s0)) (items (b1 s1)) (asize s0)) /\ items (b2 s1) = items (b2 s0)) \/
    (In e (items (t1 s1) ++ items (t2 s1)) /\ (exists x, ghosted x (items (b2 s0)) (items (b2 s1)) (asize s0)) /\ items (b1 s1) = items (b1 s0)) \/
    (ghosted e (items (b1 s0)) (items (b1 s1)) (asize s0) /\ items (b2 s1) = items (b2 s0)) \/
    (ghosted e (items (b2 s0)) (items (b2 s1)) (asize s0) /\ items (b1 s1) = items (b1 s0)).
Proof.
  intros Hinv Hne Hm e He. unfold made_room in Hm. destruct full; [|inversion Hm; subst; left; auto].
  destruct (replace_exact s0 b Hinv (Hne eq_refl))
    as (fromr & victim & s' & Hv & E & _ & _ & _ & _ & _ & _ & E1 & E2 & E3 & E4).
  rewrite E in Hm. inversion Hm; subst s'. clear Hm.
  pose proof (q_victim_last _ _ _ _ _ Hv) as Hlast.
  rewrite E1, E2, E3, E4. apply in_app_iff in He.
  destruct fromr.
  - destruct (push_bounded_head (asize s0) (items (b1 s0)) victim) as (t & Et & Ht).
    destruct He as [He|He].
    + rewrite Hlast in He. apply in_app_iff in He. destruct He as [He|[<-|[]]].
      * right. left. split; [apply in_or_app; now left|]. split; [|reflexivity]. exists victim, t. auto.
      * right. right. right. left. split; [|reflexivity]. exists t. auto.
    + right. left. split; [apply in_or_app; now right|]. split; [|reflexivity]. exists victim, t. auto.
  - destruct (push_bounded_head (asize s0) (items (b2 s0)) victim) as (t & Et & Ht).
    destruct He as [He|He].
    + right. right. left. split; [apply in_or_app; now left|]. split; [|reflexivity]. exists victim, t. auto.
    + rewrite Hlast in He. apply in_app_iff in He. destruct He as [He|[<-|[]]].
      * right. right. left. split; [apply in_or_app; now right|]. split; [|reflexivity]. exists victim, t. auto.
      * right. right. right. right. split; [|reflexivity]. exists t. auto.
Qed.

(** a ghost list that received a victim and is then trimmed keeps the victim, when the cache has two slots or more:
    the list was non-empty before (that is why it is trimmed), so the victim is not its oldest entry *)
Lemma ghosted_survives_trim e g0 g1 c :
  ghosted e g0 g1 c -> (2 <= c)%nat -> (1 <= length g0)%nat -> In e (drop_last g1).
Proof.
  intros (t & -> & [->|[-> Hc]]) H2 H1; apply in_head_drop_last.
  - destruct g0; [cbn in H1; lia|discriminate].
  - intros E. apply (f_equal (@length entry)) in E. rewrite length_drop_last in E. cbn in E. lia.
Qed.

Lemma ghosted_in e g0 g1 c : ghosted e g0 g1 c -> In e g1.
Proof. intros (t & -> & _). now left. Qed.

Theorem arc_residents_kept s k v s' r :
  arc_inv s -> (2 <= asize s)%nat -> aput s k v = Ok (s', r) ->
  forall e, In e (items (t1 s) ++ items (t2 s)) -> fst e <> k -> In e (retained_a s').
Proof.
  intros Hinv H2 Ex e He Hne. pose proof Hinv as (Hs & Hc1 & Hc2 & Hc3 & Hc4 & Hp & Hr & Hg1 & Hg2 & Hd).
  assert (Hkeep : forall l, In e l -> In e (remove_key k l)).
  { induction l as [|[a b] l IH]; cbn; [tauto|]. intros [<-|Hin].
    - cbn [fst] in Hne. destruct (Z.eqb_spec k a); [congruence|now left].
    - destruct (Z.eqb_spec k a); [exact Hin|right; now apply IH]. }
  destruct (find k (items (t1 s))) as [old|] eqn:E1.
  - rewrite (aput_recent_hit s k v old Hinv E1) in Ex. inversion Ex; subst s' r.
    unfold retained_a. cbn [t1 t2 b1 b2 items with_items]. apply in_app_iff in He. in_norm.
    destruct He as [He|He]; [left; now apply Hkeep|tauto].
  - destruct (find k (items (t2 s))) as [old|] eqn:E2.
    + rewrite (aput_frequent_hit s k v old E1 E2) in Ex. inversion Ex; subst s' r.
      unfold retained_a. cbn [t1 t2 b1 b2 items with_items]. apply in_app_iff in He. in_norm.
      destruct He as [He|He]; [tauto|]. apply Hkeep in He. tauto.
    + destruct (find k (items (b1 s))) as [old|] eqn:E3.
      * destruct (aput_recent_ghost_hit s k v old Hinv E1 E2 E3) as (s2 & Hm & E).
        rewrite E in Ex. inversion Ex; subst s' r. clear Ex.
        set (s1 := mkArc (asize s) _ (t1 s) (with_items (b1 s) (remove_key k (items (b1 s)))) (t2 s) (b2 s)) in *.
        assert (Hi1 : arc_inv s1).
        { pose proof (cntl_find_some _ _ _ E3) as Hpos. pose proof (length_remove_key_in _ _ Hpos) as Hlen.
          subst s1. repeat split; unfold llen in *; proj; try lia.
          intros x. pose proof (Hd x). autorewrite with cnt. eqb_cases; lia. }
        destruct (made_room_residents s1 (Nat.leb (asize s) (llen (t1 s) + llen (t2 s))) false s2 Hi1) with (e := e)
          as [(Hin & _)|[(Hin & _)|[(Hin & _)|[(Hg & _)|(Hg & _)]]]]; [|exact Hm|exact He| | | | |].
        { intros Ef. apply Nat.leb_le in Ef. subst s1. proj. lia. }
        all: try (apply ghosted_in in Hg); try (apply in_app_iff in Hin);
          unfold retained_a; cbn [t1 t2 b1 b2 items with_items]; rewrite !in_app_iff; cbn [In]; tauto.
      * destruct (find k (items (b2 s))) as [old|] eqn:E4.
        -- destruct (aput_frequent_ghost_hit s k v old Hinv E1 E2 E3 E4) as (s2 & Hm & E).
           rewrite E in Ex. inversion Ex; subst s' r. clear Ex.
           set (s1 := mkArc (asize s) _ (t1 s) (b1 s) (t2 s) (with_items (b2 s) (remove_key k (items (b2 s))))) in *.
           assert (Hi1 : arc_inv s1).
           { pose proof (cntl_find_some _ _ _ E4) as Hpos. pose proof (length_remove_key_in _ _ Hpos) as Hlen.
             subst s1. repeat split; unfold llen in *; proj; try lia.
             intros x. pose proof (Hd x). autorewrite with cnt. eqb_cases; lia. }
           destruct (made_room_residents s1 (Nat.leb (asize s) (llen (t1 s) + llen (t2 s))) true s2 Hi1) with (e := e)
             as [(Hin & _)|[(Hin & _)|[(Hin & _)|[(Hg & _)|(Hg & _)]]]]; [|exact Hm|exact He| | | | |].
           { intros Ef. apply Nat.leb_le in Ef. subst s1. proj. lia. }
           all: try (apply ghosted_in in Hg); try (apply in_app_iff in Hin);
             unfold retained_a; cbn [t1 t2 b1 b2 items with_items]; rewrite !in_app_iff; cbn [In]; tauto.
        -- destruct (aput_new_key s k v Hinv E1 E2 E3 E4) as (s1 & Hm & E).
           rewrite E in Ex. inversion Ex; subst s' r. clear Ex.
           destruct (made_room_residents s (Nat.leb (asize s) (llen (t1 s) + llen (t2 s))) false s1 Hinv) with (e := e)
             as [(Hin & _)|[(Hin & _)|[(Hin & _)|[(Hg & Eb2)|(Hg & Eb1)]]]]; [|exact Hm|exact He| | | | |].
           { intros Ef. apply Nat.leb_le in Ef. lia. }
           1-3: apply in_app_iff in Hin; unfold retained_a; cbn [t1 t2 b1 b2 items with_items];
             rewrite !in_app_iff; cbn [In]; tauto.
           ++ unfold retained_a. cbn [t1 t2 b1 b2]. in_norm. right. left.
              destruct (Nat.ltb_spec (asize s - ap s) (llen (b1 s))) as [Hc|Hc]; cbn [items with_items].
              ** eapply ghosted_survives_trim; [exact Hg|exact H2|unfold llen in Hc; lia].
              ** eapply ghosted_in; exact Hg.
           ++ unfold retained_a. cbn [t1 t2 b1 b2]. in_norm. right. right. right.
              destruct (Nat.ltb_spec (ap s) (llen (b2 s))) as [Hc|Hc]; cbn [items with_items].
              ** eapply ghosted_survives_trim; [exact Hg|exact H2|unfold llen in Hc; lia].
              ** eapply ghosted_in; exact Hg.
Qed.
