(** * C12 — PutResult tells the truth about what a put did.

    [put_truth R R' k v r]: with [R] / [R'] the retained entries (resident and ghost, all
    partitions concatenated) before / after [put k v] returned [r]:
    - [Put]: the key was not retained and [R'] is [R] plus the new pair;
    - [Update old]: the key was retained with value [old], and [R'] is [R] with that pair replaced;
    - [Evicted ek ev]: the key was not retained, [(ek, ev)] was, and [R'] is [R] plus the new pair
      minus exactly that entry;
    - [EvictedAndUpdate ek ev old]: both.
    Together with [NoDup (keys R')] (the C01 invariant) this determines [R'] as a set. *)
From VF Require Import Base Iter Enc Lru LruStep Slru TwoQ Arc CacheStep Tiny WTiny TinyStep
  BaseFacts LruFacts Counts PrimFacts Tactics SlruFacts TwoQFacts ArcFacts TinyFacts WTinyFacts
  C07Proofs C08Proofs C09Proofs C10Proofs.

Definition put_truth (R R' : list entry) (k : key) (v : val) (r : put_result) : Prop :=
  match r with
  | PPut => ~ In k (keys R) /\ (forall e, In e R' <-> e = (k, v) \/ In e R)
  | PUpdate old => In (k, old) R /\ (forall e, In e R' <-> e = (k, v) \/ (In e R /\ fst e <> k))
  | PEvicted ek ev =>
    ~ In k (keys R) /\ In (ek, ev) R /\ ek <> k /\
    (forall e, In e R' <-> e = (k, v) \/ (In e R /\ e <> (ek, ev)))
  | PEvictedAndUpdate ek ev old =>
    In (k, old) R /\ In (ek, ev) R /\ ek <> k /\
    (forall e, In e R' <-> e = (k, v) \/ (In e R /\ fst e <> k /\ e <> (ek, ev)))
  end.

(** ** membership lemmas for the list surgery of the models *)
Lemma in_keys_of_in (e : entry) l : In e l -> In (fst e) (keys l).
Proof. intros H. unfold keys. now apply in_map. Qed.

Lemma in_remove_key_iff e k l :
  NoDup (keys l) -> (In e (remove_key k l) <-> In e l /\ fst e <> k).
Proof.
  induction l as [|[a b] l IH]; intros Hnd; cbn.
  - tauto.
  - rewrite keys_cons in Hnd. cbn in Hnd. inversion Hnd as [|? ? Hnotin Hnd']; subst.
    destruct (Z.eqb_spec k a) as [->|Hne].
    + split.
      * intros Hin. split; [now right|]. intros E. apply Hnotin. rewrite <- E. now apply in_keys_of_in.
      * intros [[E|Hin] Hn]; [subst; cbn in Hn; congruence|exact Hin].
    + cbn. rewrite (IH Hnd'). split.
      * intros [E|[Hin Hn]]; [subst; cbn; split; auto; congruence|auto].
      * intros [[E|Hin] Hn]; auto.
Qed.

Lemma nodup_keys_nodup (l : list entry) : NoDup (keys l) -> NoDup l.
Proof.
  induction l as [|e l IH]; intros H; [constructor|]. rewrite keys_cons in H. inversion H; subst.
  constructor; [|auto]. intros Hin. match goal with H : ~ In _ _ |- _ => apply H end. now apply in_keys_of_in.
Qed.

Lemma in_snoc_iff (e x : entry) rest :
  NoDup (keys (rest ++ [x])) -> (In e rest <-> In e (rest ++ [x]) /\ e <> x).
Proof.
  intros Hnd. apply nodup_keys_nodup in Hnd. rewrite in_app_iff. cbn.
  apply NoDup_remove_2 in Hnd. rewrite app_nil_r in Hnd. split.
  - intros H. split; [now left|]. intros ->. contradiction.
  - intros [[H|[H|[]]] Hn]; [exact H|]. congruence.
Qed.

Lemma find_in_iff k v l : NoDup (keys l) -> (find k l = Some v <-> In (k, v) l).
Proof. intros H. split; [apply find_some_in|now apply in_find_nodup]. Qed.

Lemma in_set_val_opt_iff e k w l :
  NoDup (keys l) -> ~ (exists x, w = Some x) -> In e (set_val_opt k w l) <-> In e l.
Proof. intros _ Hw. destruct w; [exfalso; eauto|reflexivity]. Qed.

(** ** RawLRU *)
Theorem c12_lru s k v :
  lru_inv s -> cap s <> 0%nat ->
  let '(s', r, _) := Lru.put s k v in
  put_truth (items s) (items s') k v r /\ find k (items s') = Some v.
Proof.
  intros [Hnd Hlen] Hc.
  destruct (put_spec s k v ltac:(lia) Hlen)
    as [(old & Hf & ->)|[(Hf & Hlt & ->)|(Hf & Hfull & rest & ek & ev & Hit & ->)]];
    cbn [put_truth items with_items find]; rewrite ?Z.eqb_refl.
  - split; [|reflexivity]. split; [now apply find_some_in|].
    intros e. cbn [In]. rewrite (in_remove_key_iff e k _ Hnd). intuition congruence.
  - split; [|reflexivity]. split; [now apply find_none_notin|]. intros e. cbn [In]. intuition congruence.
  - split; [|reflexivity]. apply find_none_notin in Hf. rewrite Hit in *.
    split; [exact Hf|]. split; [apply in_or_app; right; now left|]. split.
    + intros ->. apply Hf. rewrite keys_app. apply in_or_app. right. now left.
    + intros e. cbn [In]. rewrite (in_snoc_iff e (ek, ev) rest Hnd). intuition congruence.
Qed.

(** a cache resized to capacity 0 hands the pair straight back and keeps nothing *)
Theorem c12_lru_cap0 s k v :
  cap s = 0%nat -> find k (items s) = None -> Lru.put s k v = (s, PEvicted k v, []).
Proof. intros Hc Hf. unfold Lru.put. rewrite Hf, Hc. reflexivity. Qed.

Definition entry_eq_dec12 : forall a b : entry, {a = b} + {a <> b}.
Proof. decide equality; apply Z.eq_dec. Defined.

(** ** SegmentedCache *)
Definition retained_s (s : slru) : list entry := items (prob s) ++ items (prot s).

Lemma notin_keys_neq k (e : entry) l : ~ In k (keys l) -> In e l -> fst e <> k.
Proof. intros Hn Hin E. apply Hn. rewrite <- E. now apply in_keys_of_in. Qed.

Lemma slru_nodups s :
  slru_inv s -> NoDup (keys (items (prob s))) /\ NoDup (keys (items (prot s))) /\
                forall x, In x (keys (items (prob s))) -> In x (keys (items (prot s))) -> False.
Proof.
  intros (_ & _ & _ & _ & Hd). repeat split.
  - apply cntl_nodup. intros x. pose proof (Hd x). lia.
  - apply cntl_nodup. intros x. pose proof (Hd x). lia.
  - intros x H1 H2. apply cntl_in in H1, H2. pose proof (Hd x). lia.
Qed.

Ltac in_norm :=
  repeat rewrite in_app_iff in *; cbn [In] in *.

Theorem c12_slru s k v :
  slru_inv s ->
  exists s' r, sput s k v = Ok (s', r) /\ put_truth (retained_s s) (retained_s s') k v r /\
               speek s' k = Some v.
Proof.
  intros Hinv. destruct (slru_nodups s Hinv) as (Hn1 & Hn2 & Hdis). unfold retained_s, speek, peek.
  destruct (find k (items (prot s))) as [v0|] eqn:Ef2.
  - (* protected hit *)
    rewrite (protected_hit_refreshes_put s k v0 v Ef2). do 2 eexists. split; [reflexivity|].
    cbn [prob prot items with_items find put_truth]. rewrite Z.eqb_refl. split; [|reflexivity].
    apply find_some_in in Ef2 as Hin.
    split; [apply in_or_app; now right|].
    intros e. in_norm. rewrite (in_remove_key_iff e k _ Hn2).
    assert (Hk1 : In e (items (prob s)) -> fst e <> k).
    { intros H E. apply (Hdis k); [rewrite <- E; now apply in_keys_of_in|eapply find_in_keys; eauto]. }
    intuition congruence.
  - destruct (find k (items (prob s))) as [v0|] eqn:Ef1.
    + (* probationary hit: promotion *)
      destruct (probationary_hit_promotes_put s k v0 v Hinv Ef2 Ef1) as (s' & E & _ & _ & Hcase).
      exists s', (PUpdate v0). split; [exact E|]. apply find_some_in in Ef1 as Hin.
      assert (Hk2 : forall e, In e (items (prot s)) -> fst e <> k).
      { intros e. apply notin_keys_neq. now apply find_none_notin. }
      destruct Hcase as [(_ & E2 & E1)|(_ & rest & d & Eo & E2 & E1)]; rewrite E1, E2;
        cbn [put_truth find]; rewrite Z.eqb_refl; (split; [|reflexivity]);
        (split; [apply in_or_app; now left|]); intros e; in_norm; rewrite (in_remove_key_iff e k _ Hn1).
      * specialize (Hk2 e). intuition congruence.
      * rewrite Eo in Hk2. rewrite Eo. in_norm.
        pose proof (Hk2 d ltac:(apply in_or_app; right; now left)) as Hdk.
        assert (F2 : In e rest -> fst e <> k) by (intros H; apply Hk2; apply in_or_app; now left).
        clear Hk2. intuition (subst; auto; congruence).
    + (* new key *)
      destruct (new_key_enters_probationary s k v Hinv Ef1 Ef2) as (s' & r & E & Ep & _ & Hcase).
      exists s', r. split; [exact E|]. rewrite Ep, Ef2.
      assert (Hnk : ~ In k (keys (items (prob s) ++ items (prot s)))).
      { rewrite keys_app, in_app_iff. intros [H|H]; [now apply find_none_notin in Ef1|now apply find_none_notin in Ef2]. }
      destruct Hcase as [(_ & -> & E1)|(_ & rest & ek & ev & Eo & -> & E1)]; rewrite E1; cbn [put_truth find];
        rewrite Z.eqb_refl; (split; [|reflexivity]); (split; [exact Hnk|]).
      * intros e. in_norm. intuition congruence.
      * rewrite Eo in *. split; [apply in_or_app; left; apply in_or_app; right; now left|]. split.
        -- intros ->. apply Hnk. rewrite !keys_app. apply in_or_app. left. apply in_or_app. right. now left.
        -- intros e. in_norm. pose proof (in_snoc_iff e (ek, ev) rest Hn1) as Hs. in_norm.
           assert (Hp : In e (items (prot s)) -> e <> (ek, ev)).
           { intros H ->. apply (Hdis ek); [rewrite keys_app; apply in_or_app; right; now left|].
             now apply in_keys_of_in in H. }
           intuition congruence.
Qed.
