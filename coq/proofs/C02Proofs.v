(** * C02 — coherence: a cache may forget an entry but never returns a wrong one.

    The specification is the unbounded map [smap]: [spec_step] updates it from the operation
    and what the cache *returned* (a write through a mutable reference happens only when the
    cache handed one out; a reported eviction releases that key).  The theorem is that the
    retained entries of the cache (resident and ghost) always form a sub-map of it. *)
From VF Require Import Base Iter Enc Lru LruStep Slru TwoQ Arc CacheStep Tiny WTiny TinyStep
  BaseFacts LruFacts Counts PrimFacts Tactics SlruFacts TwoQFacts ArcFacts TinyFacts WTinyFacts
  C07Proofs C08Proofs C09Proofs C10Proofs Run C01Proofs.
From VF Require Import Univ C12Proofs.

Definition smap := key -> option val.
Definition upd (m : smap) (k : key) (o : option val) : smap := fun x => if Z.eqb x k then o else m x.
Definition empty_map : smap := fun _ => None.

(** the key reported as evicted by a put result *)
Definition evicted_key (r : list Z) : option key :=
  match r with
  | 2 :: ek :: _ => Some ek
  | 3 :: ek :: _ => Some ek
  | _ => None
  end.

(** unbounded-map semantics of the Cache-trait operations, given the encoded result *)
Definition spec_step (m : smap) (o : cop) (out : list Z) : smap :=
  match o with
  | CPut k v =>
    let m1 := upd m k (Some v) in
    match evicted_key out with Some ek => upd m1 ek None | None => m1 end
  | CGetMut k (Some w) | CPeekMut k (Some w) =>
    match out with 1 :: _ => upd m k (Some w) | _ => m end
  | CRemove k => upd m k None
  | CPurge => empty_map
  | _ => m
  end.

Definition submap (R : list entry) (m : smap) : Prop := forall k v, In (k, v) R -> m k = Some v.

Lemma submap_nil m : submap [] m.
Proof. intros k v []. Qed.

(** ** the generic step *)
Lemma submap_write R R' m k w :
  submap R m -> NoDup (keys R') -> In (k, w) R' ->
  (forall e, In e R' -> In e R \/ e = (k, w)) ->
  submap R' (upd m k (Some w)).
Proof.
  intros Hs Hnd Hin Hincl x y Hxy. unfold upd. destruct (Z.eqb_spec x k) as [->|Hne].
  - f_equal. symmetry. assert (E : (k, y) = (k, w)) by (apply (same_key_same_entry R'); auto). congruence.
  - destruct (Hincl _ Hxy) as [H|H]; [now apply Hs|inversion H; congruence].
Qed.

Lemma submap_incl R R' m : submap R m -> (forall e, In e R' -> In e R) -> submap R' m.
Proof. intros Hs Hi k v H. apply Hs. now apply Hi. Qed.

Lemma submap_clear R R' m k :
  submap R m -> (forall e, In e R' -> In e R) -> ~ In k (keys R') -> submap R' (upd m k None).
Proof.
  intros Hs Hi Hn x y Hxy. unfold upd. destruct (Z.eqb_spec x k) as [->|Hne].
  - exfalso. apply Hn. now apply in_keys_of_in in Hxy.
  - apply Hs. now apply Hi.
Qed.

(** a truthful put result implies the sub-map step for put *)
Lemma submap_put R R' m k v r :
  NoDup (keys R) -> NoDup (keys R') -> submap R m -> put_truth R R' k v r ->
  submap R' (match evicted_key (enc_put r) with
             | Some ek => upd (upd m k (Some v)) ek None
             | None => upd m k (Some v)
             end).
Proof.
  intros HndR HndR' Hs Ht. destruct r as [|old|ek ev|ek ev old]; cbn [enc_put evicted_key put_truth] in *.
  - destruct Ht as [_ H]. apply (submap_write R); auto.
    + apply H. now left.
    + intros e He. apply H in He. tauto.
  - destruct Ht as [_ H]. apply (submap_write R); auto.
    + apply H. now left.
    + intros e He. apply H in He. tauto.
  - destruct Ht as (_ & Hev & Hne & H).
    intros x y Hxy. unfold upd. destruct (Z.eqb_spec x ek) as [->|Hx].
    + exfalso. apply H in Hxy. destruct Hxy as [E|[Hin Hn]]; [inversion E; congruence|].
      apply Hn. apply (same_key_same_entry R); auto.
    + destruct (Z.eqb_spec x k) as [->|Hk].
      * apply H in Hxy. destruct Hxy as [E|[Hin Hn]]; [congruence|].
        f_equal. assert (E : (k, y) = (k, v)); [|congruence].
        apply (same_key_same_entry R'); auto; apply H; auto.
      * apply H in Hxy. destruct Hxy as [E|[Hin Hn]]; [inversion E; congruence|]. now apply Hs.
  - destruct Ht as (_ & Hev & Hne & H).
    intros x y Hxy. unfold upd. destruct (Z.eqb_spec x ek) as [->|Hx].
    + exfalso. apply H in Hxy. destruct Hxy as [E|(Hin & _ & Hn)]; [inversion E; congruence|].
      apply Hn. apply (same_key_same_entry R); auto.
    + destruct (Z.eqb_spec x k) as [->|Hk].
      * apply H in Hxy. destruct Hxy as [E|(Hin & Hnk & Hn)]; [congruence|]. cbn in Hnk. congruence.
      * apply H in Hxy. destruct Hxy as [E|(Hin & _ & Hn)]; [inversion E; congruence|]. now apply Hs.
Qed.

(** membership through the value-writing helpers *)
Lemma in_set_val e k w l : In e (set_val k w l) -> In e l \/ e = (k, w).
Proof.
  induction l as [|[a b] l IH]; cbn; [tauto|].
  destruct (Z.eqb_spec k a) as [->|Hne]; cbn; intros [<-|H]; auto. destruct (IH H); auto.
Qed.
Lemma in_set_val_opt e k w l :
  In e (set_val_opt k w l) -> In e l \/ (exists x, w = Some x /\ e = (k, x)).
Proof. destruct w as [x|]; cbn; [|auto]. intros H. apply in_set_val in H. destruct H; eauto. Qed.
Lemma set_val_in k w l : In k (keys l) -> In (k, w) (set_val k w l).
Proof.
  induction l as [|[a b] l IH]; cbn; [tauto|]. rewrite keys_cons. cbn [fst].
  destruct (Z.eqb_spec k a) as [->|Hne]; cbn; [auto|]. intros [E|H]; [congruence|auto].
Qed.

(** ** RawLRU (the Cache-trait operations) *)
Definition lop_of_cop (o : cop) : lop :=
  match o with
  | CPut k v => LPut k v | CGet k => LGet k | CGetMut k w => LGetMut k w | CPeek k => LPeek k
  | CPeekMut k w => LPeekMut k w | CContains k => LContains k | CRemove k => LRemove k
  | CPurge => LPurge | CLen => LLen | CCap => LCap | CIsEmpty => LIsEmpty
  end.

Theorem c02_lru_step s o m :
  lru_inv s -> cap s <> 0%nat -> submap (items s) m ->
  let '(s', out, _) := lstep s (lop_of_cop o) in
  submap (items s') (spec_step m o out).
Proof.
  intros Hinv Hc Hs. pose proof Hinv as [Hnd Hlen].
  pose proof (lstep_inv s (lop_of_cop o) Hinv) as Hinv'.
  destruct o as [k v|k|k w|k|k w|k|k| | | |]; cbn [lop_of_cop lstep spec_step] in *; try exact Hs.
  - pose proof (c12_lru s k v Hinv Hc) as Ht. destruct (Lru.put s k v) as [[s' r] cb]. cbn [fst] in *.
    destruct Ht as [Ht _]. apply (submap_put (items s)); auto. apply Hinv'.
  - unfold get. destruct (find k (items s)) as [v0|] eqn:Ef; cbn [items with_items]; [|exact Hs].
    eapply submap_incl; [exact Hs|]. unfold touch. intros e [<-|H]; [now apply find_some_in|now apply in_remove_key in H].
  - destruct (get_mut_spec s k w) as [[Hn E]|(v0 & Hf & E)]; rewrite E in *; cbn [fst snd items with_items enc_opt_v] in *.
    + destruct w; exact Hs.
    + apply find_some_in in Hf as Hin. destruct w as [w|]; cbn [set_val_opt] in *.
      * apply (submap_write (items s)); auto.
        -- apply Hinv'.
        -- cbn [set_val]. rewrite Z.eqb_refl. now left.
        -- cbn [set_val]. rewrite Z.eqb_refl. intros e [<-|H]; [auto|]. left. now apply in_remove_key in H.
      * eapply submap_incl; [exact Hs|]. intros e [<-|H]; [exact Hin|now apply in_remove_key in H].
  - destruct (peek_mut_spec s k w) as [[Hn E]|(v0 & Hf & E)]; rewrite E in *; cbn [fst snd items with_items enc_opt_v] in *.
    + destruct w; exact Hs.
    + destruct w as [w|]; cbn [set_val_opt] in *; [|exact Hs].
      apply (submap_write (items s)); auto.
      * apply Hinv'.
      * apply set_val_in. eapply find_in_keys; eauto.
      * intros e H. now apply in_set_val in H.
  - destruct (remove_spec s k) as [[Hn ->]|(v0 & Hf & ->)]; cbn [fst snd items with_items].
    + apply (submap_clear (items s)); auto. now apply find_none_notin.
    + apply (submap_clear (items s)); auto.
      * intros e H. now apply in_remove_key in H.
      * apply find_none_notin. now apply find_remove_key_same.
  - unfold purge. cbn [fst items with_items]. apply submap_nil.
Qed.

(** ** SegmentedCache *)
Lemma slru_retained_nodup s : slru_inv s -> NoDup (keys (retained_s s)).
Proof.
  intros (_ & _ & _ & _ & Hd). apply cntl_nodup. intros x. unfold retained_s. rewrite cntl_app. apply Hd.
Qed.

Ltac inc_tac :=
  let e := fresh "e" in let H := fresh "H" in
  intros e H;
  cbn [recent frequent ghost with_rfg items with_items t1 t2 b1 b2 prob prot wt_lru wt_slru wt_with] in H |- *;
  repeat (rewrite in_app_iff in H || cbn [In] in H);
  repeat (rewrite in_app_iff || cbn [In]);
  repeat match goal with
         | H : _ \/ _ |- _ => destruct H as [H|H]
         | H : In _ (_ :: _) |- _ => cbn [In] in H
         | H : In _ (_ ++ _) |- _ => apply in_app_or in H
         | H : In _ [] |- _ => destruct H
         | H : In _ (remove_key _ _) |- _ => apply in_remove_key in H
         | H : In _ (drop_last _) |- _ => apply in_drop_last in H
         | H : In _ (set_val _ _ _) |- _ => apply in_set_val in H
         | H : False |- _ => destruct H
         end; subst; auto 10.

Theorem c02_slru_step s o m :
  slru_inv s -> submap (retained_s s) m ->
  exists s' out, sstep_trait s o = Ok (s', out) /\ slru_inv s' /\ submap (retained_s s') (spec_step m o out).
Proof.
  intros Hinv Hs. pose proof (slru_retained_nodup s Hinv) as HndR.
  destruct (slru_nodups s Hinv) as (Hn1 & Hn2 & Hdis).
  destruct (sstep_ok s (STrait o) Hinv) as (sx & outx & Ex & Hix & _). cbn [sstep] in Ex.
  pose proof (slru_retained_nodup sx Hix) as HndR'.
  exists sx, outx. split; [exact Ex|]. split; [exact Hix|].
  destruct o as [k v|k|k w|k|k w|k|k| | | |]; cbn [sstep_trait spec_step] in *;
    try (inversion Ex; subst; exact Hs).
  - (* put *)
    destruct (c12_slru s k v Hinv) as (s' & r & E & Ht & _). rewrite E in Ex. cbn [bind] in Ex.
    inversion Ex; subst sx outx. now apply (submap_put (retained_s s)).
  - (* get *)
    unfold sget in Ex.
    destruct (find k (items (prot s))) as [v0|] eqn:Ef2.
    + rewrite (protected_hit_refreshes_get s k v0 None Ef2) in Ex. cbn [bind] in Ex. inversion Ex; subst sx outx.
      apply find_some_in in Ef2. eapply submap_incl; [exact Hs|]. unfold retained_s. cbn [set_val_opt]. inc_tac.
    + destruct (find k (items (prob s))) as [v0|] eqn:Ef1.
      * destruct (probationary_hit_promotes_get s k v0 None Hinv Ef2 Ef1) as (s' & E & _ & _ & Hcase).
        rewrite E in Ex. cbn [bind] in Ex. inversion Ex; subst sx outx. apply find_some_in in Ef1.
        eapply submap_incl; [exact Hs|]. unfold retained_s.
        destruct Hcase as [(_ & E2 & E1)|(_ & rest & d & Eo & E2 & E1)]; rewrite E1, E2, ?Eo; inc_tac.
      * rewrite (miss_changes_nothing s k None Ef2 Ef1) in Ex. cbn [bind] in Ex. inversion Ex; subst. exact Hs.
  - (* get_mut *)
    destruct (find k (items (prot s))) as [v0|] eqn:Ef2.
    + rewrite (protected_hit_refreshes_get s k v0 w Ef2) in Ex. cbn [bind] in Ex. inversion Ex; subst sx outx.
      apply find_some_in in Ef2. cbn [enc_opt_v]. destruct w as [w|]; cbn [set_val_opt set_val] in *.
      * rewrite Z.eqb_refl in *. apply (submap_write (retained_s s)); auto; unfold retained_s.
        -- cbn [prob prot items with_items]. in_norm. auto.
        -- inc_tac.
      * eapply submap_incl; [exact Hs|]. unfold retained_s. inc_tac.
    + destruct (find k (items (prob s))) as [v0|] eqn:Ef1.
      * destruct (probationary_hit_promotes_get s k v0 w Hinv Ef2 Ef1) as (s' & E & _ & _ & Hcase).
        rewrite E in Ex. cbn [bind] in Ex. inversion Ex; subst sx outx. apply find_some_in in Ef1.
        cbn [enc_opt_v]. destruct w as [w|].
        -- apply (submap_write (retained_s s)); auto; unfold retained_s;
             destruct Hcase as [(_ & E2 & E1)|(_ & rest & d & Eo & E2 & E1)]; rewrite E1, E2, ?Eo;
             try (in_norm; auto 6; fail); inc_tac.
        -- eapply submap_incl; [exact Hs|]. unfold retained_s.
           destruct Hcase as [(_ & E2 & E1)|(_ & rest & d & Eo & E2 & E1)]; rewrite E1, E2, ?Eo; inc_tac.
      * rewrite (miss_changes_nothing s k w Ef2 Ef1) in Ex. cbn [bind] in Ex. inversion Ex; subst.
        cbn [enc_opt_v]. destruct w; exact Hs.
  - (* peek_mut *)
    unfold speek_mut in Ex.
    destruct (peek_mut_spec (prot s) k w) as [[Hn E]|(v0 & Hf & E)]; rewrite E in Ex.
    + destruct (peek_mut_spec (prob s) k w) as [[Hn1' E1]|(v0 & Hf1 & E1)]; rewrite E1 in Ex;
        inversion Ex; subst sx outx; cbn [enc_opt_v].
      * destruct w; destruct s; exact Hs.
      * destruct w as [w|]; cbn [set_val_opt]; [|destruct s; exact Hs].
        apply (submap_write (retained_s s)); auto; unfold retained_s; cbn [prob prot items with_items].
        -- apply in_or_app. left. apply set_val_in. eapply find_in_keys; eauto.
        -- inc_tac.
    + inversion Ex; subst sx outx; cbn [enc_opt_v].
      destruct w as [w|]; cbn [set_val_opt]; [|destruct s; exact Hs].
      apply (submap_write (retained_s s)); auto; unfold retained_s; cbn [prob prot items with_items].
      * apply in_or_app. right. apply set_val_in. eapply find_in_keys; eauto.
      * inc_tac.
  - (* remove *)
    unfold sremove in Ex.
    destruct (remove_spec (prob s) k) as [[Hn E]|(v0 & Hf & E)]; rewrite E in Ex.
    + destruct (remove_spec (prot s) k) as [[Hn2' E2]|(v0 & Hf2 & E2)]; rewrite E2 in Ex;
        inversion Ex; subst sx outx.
      * assert (Es : mkSlru (prob s) (prot s) = s) by now destruct s.
        rewrite Es. apply (submap_clear (retained_s s)); auto.
        unfold retained_s. rewrite keys_app, in_app_iff.
        apply find_none_notin in Hn, Hn2'. tauto.
      * apply (submap_clear (retained_s s)); auto; unfold retained_s; cbn [prob prot items with_items].
        -- inc_tac.
        -- rewrite keys_app, in_app_iff. apply find_none_notin in Hn.
           intros [H|H]; [contradiction|]. apply find_none_notin in H; [exact H|]. now apply find_remove_key_same.
    + inversion Ex; subst sx outx.
      apply (submap_clear (retained_s s)); auto; unfold retained_s; cbn [prob prot items with_items].
      * inc_tac.
      * rewrite keys_app, in_app_iff. intros [H|H].
        -- apply find_none_notin in H; [exact H|]. now apply find_remove_key_same.
        -- apply (Hdis k); [eapply find_in_keys; eauto|exact H].
  - (* purge *)
    inversion Ex; subst. unfold retained_s, spurge, purge. cbn. apply submap_nil.
Qed.

(** ** list-level facts about peek_mut and remove, for the remaining caches *)
Lemma peek_mut_facts l k w :
  let '(l', r) := Lru.peek_mut l k w in
  r = find k (items l) /\ cap l' = cap l /\ keys (items l') = keys (items l) /\
  (forall e, In e (items l') -> In e (items l) \/ (exists x v0, w = Some x /\ r = Some v0 /\ e = (k, x))) /\
  (forall x v0, w = Some x -> r = Some v0 -> In (k, x) (items l')) /\
  (r = None -> l' = l) /\ (w = None -> l' = l).
Proof.
  destruct (peek_mut_spec l k w) as [[Hn ->]|(v0 & Hf & ->)]; cbn [items with_items cap].
  - repeat split; auto; try congruence.
  - split; [auto|]. split; [reflexivity|]. split; [apply keys_set_val_opt|]. split; [|split; [|split]].
    + intros e H. apply in_set_val_opt in H. destruct H as [H|(x & -> & ->)]; eauto 8.
    + intros x v1 -> _. cbn. apply set_val_in. eapply find_in_keys; eauto.
    + discriminate.
    + intros ->. cbn. now destruct l.
Qed.

Lemma remove_facts l k :
  NoDup (keys (items l)) ->
  let '(l', r, _) := Lru.remove l k in
  r = find k (items l) /\ cap l' = cap l /\ items l' = remove_key k (items l) /\
  ~ In k (keys (items l')) /\ (r = None -> l' = l).
Proof.
  intros Hnd. destruct (remove_spec l k) as [[Hn ->]|(v0 & Hf & ->)]; cbn [items with_items cap].
  - repeat split; auto.
    + symmetry. apply remove_key_notin. now apply find_none_notin.
    + now apply find_none_notin.
  - repeat split; auto; try discriminate. apply find_none_notin. now apply find_remove_key_same.
Qed.

Lemma submap_app W R m : submap (W ++ R) m <-> submap W m /\ submap R m.
Proof.
  unfold submap. split.
  - intros H. split; intros k v Hin; apply H; apply in_or_app; auto.
  - intros [H1 H2] k v Hin. apply in_app_or in Hin. destruct Hin; auto.
Qed.

(** ** TwoQueueCache *)
Theorem c02_twoq_step s o m :
  twoq_inv s -> submap (retained_q s) m ->
  exists s' out, qstep_trait s o = Ok (s', out) /\ twoq_inv s' /\ submap (retained_q s') (spec_step m o out).
Proof.
  intros Hinv Hs. pose proof (twoq_nodup s Hinv) as HndR.
  pose proof Hinv as (Hsz & Hcr & Hcf & Hcg & Hrf & Hg & Hd).
  assert (Hnr : NoDup (keys (items (recent s)))) by (apply cntl_nodup; intros x; pose proof (Hd x); lia).
  assert (Hnf : NoDup (keys (items (frequent s)))) by (apply cntl_nodup; intros x; pose proof (Hd x); lia).
  assert (Hng : NoDup (keys (items (ghost s)))) by (apply cntl_nodup; intros x; pose proof (Hd x); lia).
  destruct (qstep_trait_ok s o Hinv) as (sx & outx & Ex & Hix & _).
  pose proof (twoq_nodup sx Hix) as HndR'.
  exists sx, outx. split; [exact Ex|]. split; [exact Hix|].
  destruct o as [k v|k|k w|k|k w|k|k| | | |]; cbn [qstep_trait spec_step] in *;
    try (inversion Ex; subst; exact Hs).
  - destruct (c12_twoq s k v Hinv) as (s' & r & E & Ht & _). rewrite E in Ex. cbn [bind] in Ex.
    inversion Ex; subst sx outx. now apply (submap_put (retained_q s)).
  - unfold qget in Ex.
    destruct (find k (items (frequent s))) as [v0|] eqn:Ef.
    + rewrite (get_frequent_hit s k None v0 Ef) in Ex. cbn [bind] in Ex. inversion Ex; subst sx outx.
      apply find_some_in in Ef. eapply submap_incl; [exact Hs|]. unfold retained_q. cbn [set_val_opt]. inc_tac.
    + destruct (find k (items (recent s))) as [v0|] eqn:Er.
      * rewrite (get_recent_hit s k None v0 Hinv Ef Er) in Ex. cbn [bind] in Ex. inversion Ex; subst sx outx.
        apply find_some_in in Er. eapply submap_incl; [exact Hs|]. unfold retained_q. inc_tac.
      * rewrite (get_miss s k None Ef Er) in Ex. cbn [bind] in Ex. inversion Ex; subst. exact Hs.
  - destruct (find k (items (frequent s))) as [v0|] eqn:Ef.
    + rewrite (get_frequent_hit s k w v0 Ef) in Ex. cbn [bind] in Ex. inversion Ex; subst sx outx.
      apply find_some_in in Ef. cbn [enc_opt_v]. destruct w as [w|]; cbn [set_val_opt set_val] in *.
      * rewrite Z.eqb_refl in *. apply (submap_write (retained_q s)); auto; unfold retained_q.
        -- cbn [recent frequent ghost with_rfg items with_items]. in_norm. auto.
        -- inc_tac.
      * eapply submap_incl; [exact Hs|]. unfold retained_q. inc_tac.
    + destruct (find k (items (recent s))) as [v0|] eqn:Er.
      * rewrite (get_recent_hit s k w v0 Hinv Ef Er) in Ex. cbn [bind] in Ex. inversion Ex; subst sx outx.
        apply find_some_in in Er. cbn [enc_opt_v]. destruct w as [w|].
        -- apply (submap_write (retained_q s)); auto; unfold retained_q.
           ++ cbn [recent frequent ghost with_rfg items with_items]. in_norm. auto.
           ++ inc_tac.
        -- eapply submap_incl; [exact Hs|]. unfold retained_q. inc_tac.
      * rewrite (get_miss s k w Ef Er) in Ex. cbn [bind] in Ex. inversion Ex; subst.
        cbn [enc_opt_v]. destruct w; exact Hs.
  - (* peek_mut *)
    unfold qpeek_mut in Ex.
    pose proof (peek_mut_facts (frequent s) k w) as Pf.
    destruct (Lru.peek_mut (frequent s) k w) as [f1 rf]. destruct Pf as (Erf & _ & _ & Pin & Pw & Pn & Pnw).
    destruct rf as [v0|].
    + inversion Ex; subst sx outx. cbn [enc_opt_v].
      destruct w as [w|]; [|rewrite (Pnw eq_refl); destruct s; exact Hs].
      apply (submap_write (retained_q s)); auto; unfold retained_q; cbn [recent frequent ghost with_rfg].
      * in_norm. right. left. eapply Pw; eauto.
      * intros e H. in_norm. destruct H as [H|[H|H]]; auto.
        destruct (Pin e H) as [H'|(x & y & Ex' & _ & ->)]; auto. inversion Ex'; auto.
    + rewrite (Pn eq_refl) in *. clear Pin Pw Pn Pnw.
      pose proof (peek_mut_facts (recent s) k w) as Pr.
      destruct (Lru.peek_mut (recent s) k w) as [r1 rr]. destruct Pr as (Err & _ & _ & Pin & Pw & Pn & Pnw).
      inversion Ex; subst sx outx. destruct rr as [v0|]; cbn [enc_opt_v].
      * destruct w as [w|]; [|rewrite (Pnw eq_refl); destruct s; exact Hs].
        apply (submap_write (retained_q s)); auto; unfold retained_q; cbn [recent frequent ghost with_rfg].
        -- in_norm. left. eapply Pw; eauto.
        -- intros e H. in_norm. destruct H as [H|[H|H]]; auto.
           destruct (Pin e H) as [H'|(x & y & Ex' & _ & ->)]; auto. inversion Ex'; auto.
      * rewrite (Pn eq_refl). destruct w; destruct s; exact Hs.
  - (* remove *)
    unfold qremove in Ex.
    pose proof (remove_facts (frequent s) k Hnf) as Pf.
    destruct (Lru.remove (frequent s) k) as [[f1 rf] cbf]. destruct Pf as (Erf & _ & Eif & Pnk & Pn).
    assert (Hkeys : forall x (l : list entry), In x (keys (remove_key k l)) -> In x (keys l)).
    { intros x l H. unfold keys in *. apply in_map_iff in H. destruct H as (e & <- & He).
      apply in_remove_key in He. now apply in_map. }
    destruct rf as [v0|].
    + inversion Ex; subst sx outx.
      apply (submap_clear (retained_q s)); auto; unfold retained_q; cbn [recent frequent ghost with_rfg].
      * rewrite Eif. inc_tac.
      * rewrite !keys_app, !in_app_iff. symmetry in Erf. apply find_in_keys in Erf.
        intros [H|[H|H]]; [|contradiction|]; apply cntl_in in H, Erf; pose proof (Hd k); lia.
    + rewrite (Pn eq_refl) in *. symmetry in Erf. clear Eif Pnk Pn.
      pose proof (remove_facts (recent s) k Hnr) as Pr.
      destruct (Lru.remove (recent s) k) as [[r1 rr] cbr]. destruct Pr as (Err & _ & Eir & Pnk & Pn).
      destruct rr as [v0|].
      * inversion Ex; subst sx outx.
        apply (submap_clear (retained_q s)); auto; unfold retained_q; cbn [recent frequent ghost with_rfg].
        -- rewrite Eir. inc_tac.
        -- rewrite !keys_app, !in_app_iff. symmetry in Err. apply find_in_keys in Err.
           apply find_none_notin in Erf.
           intros [H|[H|H]]; [contradiction|contradiction|]. apply cntl_in in H, Err. pose proof (Hd k). lia.
      * rewrite (Pn eq_refl) in *. symmetry in Err. clear Eir Pnk Pn.
        pose proof (remove_facts (ghost s) k Hng) as Pg.
        destruct (Lru.remove (ghost s) k) as [[g1 rg] cbg]. destruct Pg as (Erg & _ & Eig & Pnk & Pn).
        inversion Ex; subst sx outx.
        apply (submap_clear (retained_q s)); auto; unfold retained_q; cbn [recent frequent ghost with_rfg].
        -- rewrite Eig. inc_tac.
        -- rewrite !keys_app, !in_app_iff. apply find_none_notin in Erf, Err. tauto.
  - inversion Ex; subst. unfold retained_q, qpurge, purge. cbn. apply submap_nil.
Qed.

(** ** AdaptiveCache *)
Lemma arc_retained_nodup s : arc_inv s -> NoDup (keys (retained_a s)).
Proof.
  intros (_ & _ & _ & _ & _ & _ & _ & _ & _ & Hd). apply cntl_nodup. intros x. unfold retained_a.
  rewrite !cntl_app. pose proof (Hd x). lia.
Qed.

Theorem c02_arc_step s o m :
  arc_inv s -> submap (retained_a s) m ->
  exists s' out, astep_trait s o = Ok (s', out) /\ arc_inv s' /\ submap (retained_a s') (spec_step m o out).
Proof.
  intros Hinv Hs. pose proof (arc_retained_nodup s Hinv) as HndR.
  pose proof Hinv as (Hsz & Hc1 & Hc2 & Hc3 & Hc4 & Hp & Hr & Hg1 & Hg2 & Hd).
  assert (Hn1 : NoDup (keys (items (t1 s)))) by (apply cntl_nodup; intros x; pose proof (Hd x); lia).
  assert (Hn2 : NoDup (keys (items (t2 s)))) by (apply cntl_nodup; intros x; pose proof (Hd x); lia).
  assert (Hn3 : NoDup (keys (items (b1 s)))) by (apply cntl_nodup; intros x; pose proof (Hd x); lia).
  assert (Hn4 : NoDup (keys (items (b2 s)))) by (apply cntl_nodup; intros x; pose proof (Hd x); lia).
  destruct (astep_trait_ok s o Hinv) as (sx & outx & Ex & Hix & _).
  pose proof (arc_retained_nodup sx Hix) as HndR'.
  exists sx, outx. split; [exact Ex|]. split; [exact Hix|].
  destruct o as [k v|k|k w|k|k w|k|k| | | |]; cbn [astep_trait spec_step] in *;
    try (inversion Ex; subst; exact Hs).
  - destruct (c12_arc s k v Hinv) as (s' & r & E & Hkind & Hincl & Hpeek). rewrite E in Ex. cbn [bind] in Ex.
    inversion Ex; subst sx outx.
    assert (Hev : evicted_key (enc_put r) = None) by (destruct r; cbn in *; tauto).
    rewrite Hev. apply (submap_write (retained_a s)); auto.
    + unfold apeek, peek in Hpeek. unfold retained_a. in_norm.
      destruct (find k (items (t1 s'))) eqn:E1.
      * inversion Hpeek; subst. apply find_some_in in E1. auto.
      * apply find_some_in in Hpeek. auto.
    + intros e He. apply Hincl in He. tauto.
  - unfold aget in Ex.
    destruct (find k (items (t1 s))) as [v0|] eqn:E1.
    + rewrite (aget_recent_hit s k None v0 Hinv E1) in Ex. cbn [bind] in Ex. inversion Ex; subst sx outx.
      apply find_some_in in E1. eapply submap_incl; [exact Hs|]. unfold retained_a. inc_tac.
    + destruct (find k (items (t2 s))) as [v0|] eqn:E2.
      * rewrite (aget_frequent_hit s k None v0 E1 E2) in Ex. cbn [bind] in Ex. inversion Ex; subst sx outx.
        apply find_some_in in E2. eapply submap_incl; [exact Hs|]. unfold retained_a. cbn [set_val_opt]. inc_tac.
      * rewrite (aget_miss s k None E1 E2) in Ex. cbn [bind] in Ex. inversion Ex; subst. exact Hs.
  - destruct (find k (items (t1 s))) as [v0|] eqn:E1.
    + rewrite (aget_recent_hit s k w v0 Hinv E1) in Ex. cbn [bind] in Ex. inversion Ex; subst sx outx.
      apply find_some_in in E1. cbn [enc_opt_v]. destruct w as [w|].
      * apply (submap_write (retained_a s)); auto; unfold retained_a.
        -- cbn [t1 t2 b1 b2 items with_items]. in_norm. auto 6.
        -- inc_tac.
      * eapply submap_incl; [exact Hs|]. unfold retained_a. inc_tac.
    + destruct (find k (items (t2 s))) as [v0|] eqn:E2.
      * rewrite (aget_frequent_hit s k w v0 E1 E2) in Ex. cbn [bind] in Ex. inversion Ex; subst sx outx.
        apply find_some_in in E2. cbn [enc_opt_v]. destruct w as [w|]; cbn [set_val_opt set_val] in *.
        -- rewrite Z.eqb_refl in *. apply (submap_write (retained_a s)); auto; unfold retained_a.
           ++ cbn [t1 t2 b1 b2 items with_items]. in_norm. auto 6.
           ++ inc_tac.
        -- eapply submap_incl; [exact Hs|]. unfold retained_a. inc_tac.
      * rewrite (aget_miss s k w E1 E2) in Ex. cbn [bind] in Ex. inversion Ex; subst.
        cbn [enc_opt_v]. destruct w; exact Hs.
  - (* peek_mut *)
    unfold apeek_mut in Ex.
    pose proof (peek_mut_facts (t1 s) k w) as P1.
    destruct (Lru.peek_mut (t1 s) k w) as [l1 r1]. destruct P1 as (Er1 & _ & _ & Pin & Pw & Pn & Pnw).
    destruct r1 as [v0|].
    + inversion Ex; subst sx outx. cbn [enc_opt_v].
      destruct w as [w|]; [|rewrite (Pnw eq_refl); destruct s; exact Hs].
      apply (submap_write (retained_a s)); auto; unfold retained_a; cbn [t1 t2 b1 b2].
      * in_norm. left. eapply Pw; eauto.
      * intros e H. in_norm. destruct H as [H|[H|[H|H]]]; auto 6.
        destruct (Pin e H) as [H'|(x & y & Ex' & _ & ->)]; auto. inversion Ex'; auto.
    + rewrite (Pn eq_refl) in *. clear Pin Pw Pn Pnw.
      pose proof (peek_mut_facts (t2 s) k w) as P2.
      destruct (Lru.peek_mut (t2 s) k w) as [l2 r2]. destruct P2 as (Er2 & _ & _ & Pin & Pw & Pn & Pnw).
      inversion Ex; subst sx outx. destruct r2 as [v0|]; cbn [enc_opt_v].
      * destruct w as [w|]; [|rewrite (Pnw eq_refl); destruct s; exact Hs].
        apply (submap_write (retained_a s)); auto; unfold retained_a; cbn [t1 t2 b1 b2].
        -- in_norm. right. right. left. eapply Pw; eauto.
        -- intros e H. in_norm. destruct H as [H|[H|[H|H]]]; auto 6.
           destruct (Pin e H) as [H'|(x & y & Ex' & _ & ->)]; auto 6. inversion Ex'; auto.
      * rewrite (Pn eq_refl). destruct w; destruct s; exact Hs.
  - (* remove: recent, frequent, then the two ghost lists *)
    unfold aremove in Ex.
    assert (Hclear : forall s', (forall e, In e (retained_a s') -> In e (retained_a s)) ->
                                ~ In k (keys (retained_a s')) -> submap (retained_a s') (upd m k None)).
    { intros s' Hi Hn. now apply (submap_clear (retained_a s)). }
    pose proof (remove_facts (t1 s) k Hn1) as P1.
    destruct (Lru.remove (t1 s) k) as [[l1 r1] c1]. destruct P1 as (Er1 & _ & Ei1 & Pk1 & Pn1).
    destruct r1 as [v0|].
    + inversion Ex; subst sx outx. apply Hclear; unfold retained_a; cbn [t1 t2 b1 b2].
      * rewrite Ei1. inc_tac.
      * rewrite !keys_app, !in_app_iff. symmetry in Er1. apply find_in_keys in Er1.
        intros [H|[H|[H|H]]]; [contradiction| | |]; apply cntl_in in H, Er1; pose proof (Hd k); lia.
    + rewrite (Pn1 eq_refl) in *. symmetry in Er1. apply find_none_notin in Er1. clear Ei1 Pk1 Pn1.
      pose proof (remove_facts (t2 s) k Hn2) as P2.
      destruct (Lru.remove (t2 s) k) as [[l2 r2] c2]. destruct P2 as (Er2 & _ & Ei2 & Pk2 & Pn2).
      destruct r2 as [v0|].
      * inversion Ex; subst sx outx. apply Hclear; unfold retained_a; cbn [t1 t2 b1 b2].
        -- rewrite Ei2. inc_tac.
        -- rewrite !keys_app, !in_app_iff. symmetry in Er2. apply find_in_keys in Er2.
           intros [H|[H|[H|H]]]; [contradiction| |contradiction|]; apply cntl_in in H, Er2; pose proof (Hd k); lia.
      * rewrite (Pn2 eq_refl) in *. symmetry in Er2. apply find_none_notin in Er2. clear Ei2 Pk2 Pn2.
        pose proof (remove_facts (b1 s) k Hn3) as P3.
        destruct (Lru.remove (b1 s) k) as [[l3 r3] c3]. destruct P3 as (Er3 & _ & Ei3 & Pk3 & Pn3).
        destruct r3 as [v0|].
        -- inversion Ex; subst sx outx. apply Hclear; unfold retained_a; cbn [t1 t2 b1 b2].
           ++ rewrite Ei3. inc_tac.
           ++ rewrite !keys_app, !in_app_iff. symmetry in Er3. apply find_in_keys in Er3.
              intros [H|[H|[H|H]]]; [contradiction|contradiction|contradiction|].
              apply cntl_in in H, Er3; pose proof (Hd k); lia.
        -- rewrite (Pn3 eq_refl) in *. symmetry in Er3. apply find_none_notin in Er3. clear Ei3 Pk3 Pn3.
           pose proof (remove_facts (b2 s) k Hn4) as P4.
           destruct (Lru.remove (b2 s) k) as [[l4 r4] c4]. destruct P4 as (Er4 & _ & Ei4 & Pk4 & Pn4).
           inversion Ex; subst sx outx. apply Hclear; unfold retained_a; cbn [t1 t2 b1 b2].
           ++ rewrite Ei4. inc_tac.
           ++ rewrite !keys_app, !in_app_iff. tauto.
  - inversion Ex; subst. unfold retained_a, apurge, purge. cbn. apply submap_nil.
Qed.

(** ** WTinyLFUCache *)
Lemma wt_retained_nodup s : wt_inv s -> NoDup (keys (retained_w s)).
Proof.
  intros (_ & _ & _ & _ & Hd). apply cntl_nodup. intros x. unfold retained_w. rewrite !cntl_app.
  pose proof (Hd x). unfold scnt in *. lia.
Qed.

Theorem c02_wtiny_step s o m :
  wt_inv s -> submap (retained_w s) m ->
  exists s' out, wstep_trait s o = Ok (s', out) /\ wt_inv s' /\ submap (retained_w s') (spec_step m o out).
Proof.
  intros Hinv Hs. pose proof (wt_retained_nodup s Hinv) as HndR.
  pose proof Hinv as (Ht & Hc & Hl & Hm & Hd).
  assert (Hnw : NoDup (keys (items (wt_lru s)))) by (apply cntl_nodup; intros x; pose proof (Hd x); lia).
  destruct (wstep_trait_ok s o Hinv) as (sx & outx & Ex & Hix & _).
  pose proof (wt_retained_nodup sx Hix) as HndR'.
  exists sx, outx. split; [exact Ex|]. split; [exact Hix|].
  assert (Hsplit : forall s0, retained_w s0 = items (wt_lru s0) ++ retained_s (wt_slru s0)) by reflexivity.
  (* the window's keys are not keys of the main cache *)
  assert (Hdisj : forall e, In e (items (wt_lru s)) -> ~ In (fst e) (keys (retained_s (wt_slru s)))).
  { intros e He Hk. apply cnt_of_in in He. apply cntl_in in Hk. unfold retained_s in Hk. rewrite cntl_app in Hk.
    pose proof (Hd (fst e)) as Hx. unfold scnt in Hx. lia. }
  destruct o as [k v|k|k w|k|k w|k|k| | | |]; cbn [wstep_trait spec_step] in *;
    try (inversion Ex; subst; exact Hs).
  - destruct (c12_wtiny s k v Hinv) as (s' & r & E & Htr & _). rewrite E in Ex. cbn [bind] in Ex.
    inversion Ex; subst sx outx. now apply (submap_put (retained_w s)).
  - (* get *)
    unfold wget in Ex.
    destruct (get_records_access s k None Hinv) as (t' & s' & r & _ & E & _ & Hhit & Hmiss).
    rewrite E in Ex. cbn [bind] in Ex. inversion Ex; subst sx outx.
    destruct (find k (items (wt_lru s))) as [v0|] eqn:Ew.
    + destruct (Hhit v0 eq_refl) as (-> & Em & Ei). apply find_some_in in Ew.
      eapply submap_incl; [exact Hs|]. unfold retained_w. rewrite Em, Ei. cbn [set_val_opt]. inc_tac.
    + destruct (Hmiss eq_refl) as (El & Eg).
      destruct (c02_slru_step (wt_slru s) (CGet k) m Hm) as (m' & out' & Es & _ & Hsub).
      { rewrite Hsplit in Hs. now apply submap_app in Hs. }
      cbn [sstep_trait spec_step] in Es, Hsub. unfold sget in Es. rewrite Eg in Es. cbn [bind] in Es.
      inversion Es; subst m' out'.
      rewrite Hsplit, El. apply submap_app. split; [|exact Hsub].
      rewrite Hsplit in Hs. now apply submap_app in Hs.
  - (* get_mut *)
    destruct (get_records_access s k w Hinv) as (t' & s' & r & _ & E & _ & Hhit & Hmiss).
    rewrite E in Ex. cbn [bind] in Ex. inversion Ex; subst sx outx.
    destruct (find k (items (wt_lru s))) as [v0|] eqn:Ew.
    + destruct (Hhit v0 eq_refl) as (-> & Em & Ei). apply find_some_in in Ew. cbn [enc_opt_v].
      destruct w as [w|]; cbn [set_val_opt set_val] in *.
      * rewrite Z.eqb_refl in *. apply (submap_write (retained_w s)); auto; unfold retained_w; rewrite Em, Ei.
        -- in_norm. auto.
        -- inc_tac.
      * eapply submap_incl; [exact Hs|]. unfold retained_w. rewrite Em, Ei. inc_tac.
    + destruct (Hmiss eq_refl) as (El & Eg).
      destruct (c02_slru_step (wt_slru s) (CGetMut k w) m Hm) as (m' & out' & Es & _ & Hsub).
      { rewrite Hsplit in Hs. now apply submap_app in Hs. }
      cbn [sstep_trait spec_step] in Es, Hsub. rewrite Eg in Es. cbn [bind] in Es.
      inversion Es; subst m' out'.
      rewrite Hsplit, El. apply submap_app. split; [|exact Hsub].
      rewrite Hsplit in Hs. apply submap_app in Hs. destruct Hs as [Hsw _].
      (* the write (if any) concerns a key of the main cache, not of the window *)
      destruct w as [w|]; [|exact Hsw]. destruct (enc_opt_v r) as [|[|[| |]|] tl]; try exact Hsw.
      intros x y Hxy. unfold upd. destruct (Z.eqb_spec x k) as [->|Hne]; [|now apply Hsw].
      exfalso. apply find_none_notin in Ew. apply Ew. now apply in_keys_of_in in Hxy.
  - (* peek_mut *)
    unfold wpeek_mut in Ex.
    pose proof (peek_mut_facts (wt_lru s) k w) as P1.
    destruct (Lru.peek_mut (wt_lru s) k w) as [l1 r1]. destruct P1 as (Er1 & _ & _ & Pin & Pw & Pn & Pnw).
    destruct r1 as [v0|].
    + inversion Ex; subst sx outx. cbn [enc_opt_v].
      destruct w as [w|]; [|rewrite (Pnw eq_refl); destruct s; exact Hs].
      apply (submap_write (retained_w s)); auto; unfold retained_w; cbn [wt_lru wt_slru wt_with].
      * in_norm. left. eapply Pw; eauto.
      * intros e H. in_norm. destruct H as [H|[H|H]]; auto.
        destruct (Pin e H) as [H'|(x & y & Ex' & _ & ->)]; auto. inversion Ex'; auto.
    + rewrite (Pn eq_refl) in *. symmetry in Er1.
      destruct (c02_slru_step (wt_slru s) (CPeekMut k w) m Hm) as (m' & out' & Es & _ & Hsub).
      { rewrite Hsplit in Hs. now apply submap_app in Hs. }
      cbn [sstep_trait spec_step] in Es, Hsub.
      destruct (speek_mut (wt_slru s) k w) as [m2 r2]. inversion Es; subst m' out'.
      inversion Ex; subst sx outx. rewrite Hsplit. cbn [wt_lru wt_slru wt_with].
      apply submap_app. split; [|exact Hsub].
      rewrite Hsplit in Hs. apply submap_app in Hs. destruct Hs as [Hsw _].
      destruct w as [w|]; [|exact Hsw]. destruct (enc_opt_v r2) as [|[|[| |]|] tl]; try exact Hsw.
      intros x y Hxy. unfold upd. destruct (Z.eqb_spec x k) as [->|Hne]; [|now apply Hsw].
      exfalso. apply find_none_notin in Er1. apply Er1. now apply in_keys_of_in in Hxy.
  - (* remove *)
    unfold wremove in Ex.
    pose proof (remove_facts (wt_lru s) k Hnw) as P1.
    destruct (Lru.remove (wt_lru s) k) as [[l1 r1] c1]. destruct P1 as (Er1 & _ & Ei1 & Pk1 & Pn1).
    destruct r1 as [v0|].
    + inversion Ex; subst sx outx.
      apply (submap_clear (retained_w s)); auto; unfold retained_w; cbn [wt_lru wt_slru wt_with].
      * rewrite Ei1. inc_tac.
      * rewrite !keys_app, !in_app_iff. symmetry in Er1. apply find_in_keys in Er1.
        intros [H|[H|H]]; [contradiction| |]; apply cntl_in in H, Er1; pose proof (Hd k) as Hx; unfold scnt in Hx; lia.
    + rewrite (Pn1 eq_refl) in *. symmetry in Er1.
      destruct (c02_slru_step (wt_slru s) (CRemove k) m Hm) as (m' & out' & Es & _ & Hsub).
      { rewrite Hsplit in Hs. now apply submap_app in Hs. }
      cbn [sstep_trait spec_step] in Es, Hsub.
      destruct (sremove (wt_slru s) k) as [m2 r2]. inversion Es; subst m' out'.
      inversion Ex; subst sx outx. rewrite Hsplit. cbn [wt_lru wt_slru wt_with].
      apply submap_app. split; [|exact Hsub].
      rewrite Hsplit in Hs. apply submap_app in Hs. destruct Hs as [Hsw _].
      intros x y Hxy. unfold upd. destruct (Z.eqb_spec x k) as [->|Hne]; [|now apply Hsw].
      exfalso. apply find_none_notin in Er1. apply Er1. now apply in_keys_of_in in Hxy.
  - inversion Ex; subst. unfold retained_w, wpurge, spurge, purge. cbn. apply submap_nil.
Qed.

(** ** histories *)
Fixpoint spec_run {S : Type} (step : S -> cop -> res (S * list Z)) (s : S) (m : smap) (ops : list cop)
  : res (S * smap) :=
  match ops with
  | [] => Ok (s, m)
  | o :: t => match step s o with
              | Ok (s', out) => spec_run step s' (spec_step m o out) t
              | Panic n => Panic n
              end
  end.

Lemma spec_run_submap {S : Type} (step : S -> cop -> res (S * list Z)) (Inv : S -> Prop) (ret : S -> list entry) :
  (forall s o m, Inv s -> submap (ret s) m ->
                 exists s' out, step s o = Ok (s', out) /\ Inv s' /\ submap (ret s') (spec_step m o out)) ->
  forall ops s m, Inv s -> submap (ret s) m ->
                  exists s' m', spec_run step s m ops = Ok (s', m') /\ Inv s' /\ submap (ret s') m'.
Proof.
  intros Hstep. induction ops as [|o t IH]; intros s m Hi Hs; cbn; [eauto|].
  destruct (Hstep s o m Hi Hs) as (s' & out & -> & Hi' & Hs'). now apply IH.
Qed.

(** what the sub-map invariant means for a reader *)
Lemma submap_never_wrong R m k v : submap R m -> In (k, v) R -> m k = Some v.
Proof. intros H. apply H. Qed.
Lemma submap_absent R m k : submap R m -> m k = None -> ~ In k (keys R).
Proof.
  intros H Hn Hin. unfold keys in Hin. apply in_map_iff in Hin. destruct Hin as ([a b] & E & Hin).
  cbn in E. subst a. apply H in Hin. congruence.
Qed.

(** RawLRU's trait operations as a [res]-valued step *)
Definition lstep_trait (s : lru) (o : cop) : res (lru * list Z) :=
  Ok (fst (fst (lstep s (lop_of_cop o))), snd (fst (lstep s (lop_of_cop o)))).

Lemma lstep_trait_cap s o : cap (fst (fst (lstep s (lop_of_cop o)))) = cap s.
Proof.
  destruct o; cbn [lop_of_cop lstep]; try reflexivity.
  - unfold Lru.put. destruct (find k (items s)); [reflexivity|]. destruct (Nat.eqb (cap s) 0); [reflexivity|].
    destruct (Nat.eqb (llen s) (cap s)); [|reflexivity]. destruct (split_last (items s)) as [[? [? ?]]|]; reflexivity.
  - unfold get. destruct (find k (items s)); reflexivity.
  - unfold get_mut. destruct (find k (items s)); reflexivity.
  - unfold peek_mut. destruct (find k (items s)); reflexivity.
  - unfold remove. destruct (find k (items s)); reflexivity.
Qed.

Theorem c02_lru_step' s o m :
  (lru_inv s /\ cap s <> 0%nat) -> submap (items s) m ->
  exists s' out, lstep_trait s o = Ok (s', out) /\ (lru_inv s' /\ cap s' <> 0%nat) /\
                 submap (items s') (spec_step m o out).
Proof.
  intros [Hinv Hc] Hs. unfold lstep_trait. do 2 eexists. split; [reflexivity|].
  pose proof (c02_lru_step s o m Hinv Hc Hs) as H. pose proof (lstep_inv s (lop_of_cop o) Hinv) as Hi.
  pose proof (lstep_trait_cap s o) as Hcap.
  destruct (lstep s (lop_of_cop o)) as [[s' out] cb]. cbn [fst snd] in *. repeat split; auto; try apply Hi. congruence.
Qed.

(** ** the lookups agree *)
Theorem slru_lookups_agree s k w :
  (forall s' r, sget_mut s k w = Ok (s', r) -> r = speek s k) /\
  snd (speek_mut s k w) = speek s k /\
  scontains s k = match speek s k with Some _ => true | None => false end.
Proof.
  unfold speek, peek, scontains, contains, mem. repeat split.
  - intros s' r. unfold sget_mut.
    destruct (get_mut_spec (prot s) k w) as [[Hn ->]|(v0 & Hf & ->)].
    + rewrite Hn. destruct (find k (items (prob s))) eqn:E.
      * destruct (move_to_protected s k w); cbn; intros H; inversion H; reflexivity.
      * intros H; inversion H; reflexivity.
    + rewrite Hf. intros H; inversion H; reflexivity.
  - unfold speek_mut.
    destruct (peek_mut_spec (prot s) k w) as [[Hn ->]|(v0 & Hf & ->)].
    + rewrite Hn. destruct (peek_mut_spec (prob s) k w) as [[Hn1 ->]|(v0 & Hf1 & ->)]; cbn; congruence.
    + rewrite Hf. reflexivity.
  - destruct (find k (items (prot s))); [reflexivity|]. destruct (find k (items (prob s))); reflexivity.
Qed.

Theorem twoq_lookups_agree s k w :
  (forall s' r, qget_mut s k w = Ok (s', r) -> r = qpeek s k) /\
  snd (qpeek_mut s k w) = qpeek s k /\
  qcontains s k = match qpeek s k with Some _ => true | None => false end.
Proof.
  unfold qpeek, peek, qcontains, contains, mem. repeat split.
  - intros s' r. unfold qget_mut.
    destruct (get_mut_spec (frequent s) k w) as [[Hn ->]|(v0 & Hf & ->)].
    + rewrite Hn. destruct (remove_ent_spec (recent s) k) as [[Hn1 ->]|(v0 & Hf1 & ->)].
      * rewrite Hn1. intros H; inversion H; reflexivity.
      * rewrite Hf1. destruct (put_or_evict_nonnull (frequent s) _) as [[? ?]|]; cbn; intros H; inversion H; reflexivity.
    + rewrite Hf. intros H; inversion H; reflexivity.
  - unfold qpeek_mut.
    destruct (peek_mut_spec (frequent s) k w) as [[Hn ->]|(v0 & Hf & ->)].
    + rewrite Hn. destruct (peek_mut_spec (recent s) k w) as [[Hn1 ->]|(v0 & Hf1 & ->)]; cbn; congruence.
    + rewrite Hf. reflexivity.
  - destruct (find k (items (frequent s))); [reflexivity|]. destruct (find k (items (recent s))); reflexivity.
Qed.

Theorem arc_lookups_agree s k w :
  (forall s' r, aget_mut s k w = Ok (s', r) -> r = apeek s k) /\
  snd (apeek_mut s k w) = apeek s k /\
  acontains s k = match apeek s k with Some _ => true | None => false end.
Proof.
  unfold apeek, peek, acontains, contains, mem. repeat split.
  - intros s' r. unfold aget_mut.
    destruct (remove_ent_spec (t1 s) k) as [[Hn ->]|(v0 & Hf & ->)].
    + rewrite Hn. destruct (get_mut_spec (t2 s) k w) as [[Hn1 ->]|(v0 & Hf1 & ->)].
      * rewrite Hn1. intros H; inversion H; reflexivity.
      * rewrite Hf1. intros H; inversion H; reflexivity.
    + rewrite Hf. destruct (put_nonnull (t2 s) _) as [[? ?]|]; cbn; intros H; inversion H; reflexivity.
  - unfold apeek_mut.
    destruct (peek_mut_spec (t1 s) k w) as [[Hn ->]|(v0 & Hf & ->)].
    + rewrite Hn. destruct (peek_mut_spec (t2 s) k w) as [[Hn1 ->]|(v0 & Hf1 & ->)]; cbn; congruence.
    + rewrite Hf. reflexivity.
  - destruct (find k (items (t1 s))); [reflexivity|]. destruct (find k (items (t2 s))); reflexivity.
Qed.

Theorem lru_lookups_agree s k w :
  snd (Lru.get_mut s k w) = Lru.peek s k /\ snd (Lru.get s k) = Lru.peek s k /\
  snd (Lru.peek_mut s k w) = Lru.peek s k /\
  Lru.contains s k = match Lru.peek s k with Some _ => true | None => false end.
Proof.
  unfold Lru.get_mut, Lru.get, Lru.peek_mut, Lru.peek, Lru.contains, mem.
  destruct (find k (items s)); repeat split; reflexivity.
Qed.

Theorem wtiny_lookups_agree s k w :
  (forall s' r, wget_mut s k w = Ok (s', r) -> r = wpeek s k) /\
  snd (wpeek_mut s k w) = wpeek s k /\
  wcontains s k = match wpeek s k with Some _ => true | None => false end.
Proof.
  unfold wpeek, peek, wcontains, contains, mem. repeat split.
  - intros s' r. unfold wget_mut. destruct (wt_record s k) as [t'|]; cbn [bind]; [|discriminate].
    destruct (get_mut_spec (wt_lru s) k w) as [[Hn ->]|(v0 & Hf & ->)].
    + rewrite Hn. destruct (sget_mut (wt_slru s) k w) as [[m' r']|] eqn:E; cbn [bind]; [|discriminate].
      intros H; inversion H; subst. now apply (proj1 (slru_lookups_agree (wt_slru s) k w)) in E.
    + rewrite Hf. intros H; inversion H; reflexivity.
  - unfold wpeek_mut.
    destruct (peek_mut_spec (wt_lru s) k w) as [[Hn ->]|(v0 & Hf & ->)].
    + rewrite Hn. pose proof (proj1 (proj2 (slru_lookups_agree (wt_slru s) k w))) as E.
      destruct (speek_mut (wt_slru s) k w). exact E.
    + rewrite Hf. reflexivity.
  - destruct (find k (items (wt_lru s))); [reflexivity|].
    apply (proj2 (proj2 (slru_lookups_agree (wt_slru s) k None))).
Qed.

(** a value returned by a lookup is a retained entry *)
Lemma speek_retained s k v : speek s k = Some v -> In (k, v) (retained_s s).
Proof.
  unfold speek, peek, retained_s. destruct (find k (items (prot s))) eqn:E.
  - intros H; inversion H; subst. apply in_or_app. right. now apply find_some_in.
  - intros H. apply in_or_app. left. now apply find_some_in.
Qed.
Lemma qpeek_retained s k v : qpeek s k = Some v -> In (k, v) (retained_q s).
Proof.
  unfold qpeek, peek, retained_q. destruct (find k (items (frequent s))) eqn:E.
  - intros H; inversion H; subst. apply in_or_app. right. apply in_or_app. left. now apply find_some_in.
  - intros H. apply in_or_app. left. now apply find_some_in.
Qed.
Lemma apeek_retained s k v : apeek s k = Some v -> In (k, v) (retained_a s).
Proof.
  unfold apeek, peek, retained_a. destruct (find k (items (t1 s))) eqn:E.
  - intros H; inversion H; subst. apply in_or_app. left. now apply find_some_in.
  - intros H. apply in_or_app. right. apply in_or_app. right. apply in_or_app. left. now apply find_some_in.
Qed.
Lemma wpeek_retained s k v : wpeek s k = Some v -> In (k, v) (retained_w s).
Proof.
  unfold wpeek, peek, retained_w. destruct (find k (items (wt_lru s))) eqn:E.
  - intros H; inversion H; subst. apply in_or_app. left. now apply find_some_in.
  - intros H. apply speek_retained in H. apply in_or_app. now right.
Qed.
