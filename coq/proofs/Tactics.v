(** * Shared automation for the composite-cache proofs. *)
From VF Require Import Base Lru Slru TwoQ Arc BaseFacts Counts PrimFacts.

Arguments put_nonnull : simpl never.
Arguments remove_ent : simpl never.
Arguments remove_lru_in : simpl never.
Arguments Lru.put : simpl never.
Arguments Lru.remove : simpl never.
Arguments Lru.remove_lru : simpl never.
Arguments Lru.update : simpl never.
Arguments Lru.get_mut : simpl never.
Arguments Lru.peek_mut : simpl never.
Arguments touch : simpl never.
Arguments keys : simpl never.

(** project the record fields of freshly built states *)
Ltac proj :=
  cbn [prob prot recent frequent ghost qsize qrecent_size with_rfg
       t1 t2 b1 b2 asize ap cap items hascb with_items fst snd bind] in *.

(** case analysis on every [Z.eqb] in sight *)
Ltac eqb_cases :=
  repeat match goal with
  | |- context [Z.eqb ?a ?b] => destruct (Z.eqb_spec a b); subst
  | H : context [Z.eqb ?a ?b] |- _ => destruct (Z.eqb_spec a b); subst
  end; cbn [ind] in *.

(** turn [find] facts into count facts (kept alongside) *)
Ltac find_facts :=
  repeat match goal with
  | H : find ?k ?l = Some _ |- _ =>
    lazymatch goal with
    | _ : (0 < cntl l k)%nat |- _ => fail
    | _ => pose proof (cntl_find_some _ _ _ H)
    end
  | H : find ?k ?l = None |- _ =>
    lazymatch goal with
    | _ : cntl l k = 0%nat |- _ => fail
    | _ => pose proof (cntl_find_none _ _ H)
    end
  end.

(** lengths of [remove_key] for keys known to be present / absent *)
Ltac remove_lengths :=
  repeat match goal with
  | H : (0 < cntl ?l ?k)%nat |- _ =>
    lazymatch goal with
    | _ : S (length (remove_key k l)) = length l |- _ => fail
    | _ => pose proof (length_remove_key_in _ _ H)
    end
  end.

Ltac subst_items :=
  repeat match goal with
  | H : items ?s = _ |- _ => rewrite H in *; clear H
  | H : ?x = _ ++ _ |- _ => is_var x; subst x
  end.

Ltac norm :=
  proj; find_facts; remove_lengths; unfold llen in *; proj; subst_items;
  autorewrite with cnt in *; cbn [length] in *.

(** instantiate every pointwise hypothesis at [x] *)
Ltac inst_all x :=
  repeat match goal with
  | H : forall y : key, _ |- _ => pose proof (H x); clear H
  end.

Ltac pointwise H :=
  let x := fresh "x" in
  intros x; inst_all x; norm; eqb_cases; try lia.

(** finish a conjunction of bounds, pointwise count facts (from [H]) and easy existentials *)
Ltac fin H :=
  repeat split; norm; try lia;
  try (match goal with |- forall _, _ => pointwise H end); eauto.

(** the term scrutinised first by the goal's outermost [match] *)
Ltac innermost x :=
  lazymatch x with
  | match ?y with _ => _ end => innermost y
  | _ => x
  end.

(** one primitive call at the head of the goal: case analysis through its specification *)
Ltac step_prim :=
  unfold bind, put_or_evict_nonnull;
  lazymatch goal with
  | |- context [match ?x0 with _ => _ end] =>
    let x := innermost x0 in
    lazymatch x with
    | put_nonnull ?s ?e =>
      let H := fresh "Hcap" in
      assert (H : (1 <= cap s)%nat) by (norm; lia);
      let Hl := fresh "Hlen" in let Hit := fresh "Hit" in
      let rest := fresh "rest" in let vk := fresh "vk" in let vv := fresh "vv" in
      destruct (put_nonnull_spec s e H) as [[Hl ->]|[Hl (rest & [vk vv] & Hit & ->)]]; clear H
    | remove_ent ?s ?k =>
      let Hf := fresh "Hf" in let v := fresh "v" in
      destruct (remove_ent_spec s k) as [[Hf ->]|(v & Hf & ->)]
    | remove_lru_in ?s =>
      let Hit := fresh "Hit" in
      let rest := fresh "rest" in let vk := fresh "vk" in let vv := fresh "vv" in
      destruct (remove_lru_in_spec s) as [[Hit ->]|(rest & [vk vv] & Hit & ->)]
    | Lru.update ?s ?k ?v =>
      let Hf := fresh "Hf" in let old := fresh "old" in
      destruct (update_spec s k v) as [[Hf ->]|(old & Hf & ->)]
    | Lru.get_mut ?s ?k ?w =>
      let Hf := fresh "Hf" in let v := fresh "v" in
      destruct (get_mut_spec s k w) as [[Hf ->]|(v & Hf & ->)]
    | Lru.peek_mut ?s ?k ?w =>
      let Hf := fresh "Hf" in let v := fresh "v" in
      destruct (peek_mut_spec s k w) as [[Hf ->]|(v & Hf & ->)]
    | Lru.remove ?s ?k =>
      let Hf := fresh "Hf" in let v := fresh "v" in
      destruct (remove_spec s k) as [[Hf ->]|(v & Hf & ->)]
    | Lru.remove_lru ?s =>
      let Hit := fresh "Hit" in
      let rest := fresh "rest" in let vk := fresh "vk" in let vv := fresh "vv" in
      destruct (remove_lru_spec s) as [[Hit ->]|(rest & [vk vv] & Hit & ->)]
    | ?other => fail "step_prim: head is" other
    end
  end; proj.

(** a leaf: either the branch is impossible, or the result is [Ok] and the invariant holds *)
Ltac contra := exfalso; norm; eqb_cases; lia.
