(** * The recency order of RawLRU does not look at the values.

    [kset]: an LRU *set* - a capacity and a list of keys, most recent first - with the operations of the cache written
    over keys alone.  The key projection of the RawLRU model ([Lru.v]) is a simulation of it: which keys are retained,
    in which order, which key an insertion evicts and whether a lookup hits are functions of the keys and the capacity;
    the values (and the writes through [get_mut] / [peek_mut]) ride along.  This is what lets `RawLRU<K, ()>` - whose
    values carry no information at all - be replayed in the same model with the values kept beside the cache
    (harness/src/zst.rs): a code path that treats a zero-sized value differently for the *order* contradicts it. *)
From Coq Require Import List ZArith Arith Lia.
Import ListNotations.
From VF Require Import Base Lru BaseFacts.

Record kset := mkK { kcap : nat; kitems : list key }.

Definition kproj (s : lru) : kset := mkK (cap s) (keys (items s)).

Fixpoint krem (k : key) (l : list key) : list key :=
  match l with
  | [] => []
  | k' :: t => if Z.eqb k k' then t else k' :: krem k t
  end.
Definition kmem (k : key) (l : list key) : bool := existsb (Z.eqb k) l.
Definition ktouch (k : key) (l : list key) : list key := k :: krem k l.

Fixpoint ksplit_last (l : list key) : option (list key * key) :=
  match l with
  | [] => None
  | x :: t => match ksplit_last t with Some (r, y) => Some (x :: r, y) | None => Some ([], x) end
  end.

(** what a [put] reports, keys only *)
Inductive kput_result := KPut | KUpdate | KEvicted (k : key).

Definition kput (s : kset) (k : key) : kset * kput_result :=
  if kmem k (kitems s) then (mkK (kcap s) (ktouch k (kitems s)), KUpdate)
  else if Nat.eqb (kcap s) 0 then (s, KEvicted k)
  else if Nat.eqb (length (kitems s)) (kcap s) then
    match ksplit_last (kitems s) with
    | Some (rest, ek) => (mkK (kcap s) (k :: rest), KEvicted ek)
    | None => (mkK (kcap s) (k :: kitems s), KPut)
    end
  else (mkK (kcap s) (k :: kitems s), KPut).

Definition kget (s : kset) (k : key) : kset * bool :=
  if kmem k (kitems s) then (mkK (kcap s) (ktouch k (kitems s)), true) else (s, false).
Definition kremove (s : kset) (k : key) : kset * bool :=
  if kmem k (kitems s) then (mkK (kcap s) (krem k (kitems s)), true) else (s, false).
Definition kremove_lru (s : kset) : kset * option key :=
  match ksplit_last (kitems s) with Some (rest, k) => (mkK (kcap s) rest, Some k) | None => (s, None) end.
Definition kget_lru (s : kset) : kset * option key :=
  match ksplit_last (kitems s) with Some (rest, k) => (mkK (kcap s) (k :: rest), Some k) | None => (s, None) end.
Definition kpurge (s : kset) : kset := mkK (kcap s) [].
Definition kresize (s : kset) (n : nat) : kset * nat :=
  if Nat.eqb n (kcap s) then (s, 0%nat) else (mkK n (firstn n (kitems s)), length (skipn n (kitems s))).

(** the key part of the model's results *)
Definition put_keys (r : put_result) : kput_result :=
  match r with
  | PPut => KPut
  | PUpdate _ => KUpdate
  | PEvicted k _ => KEvicted k
  | PEvictedAndUpdate k _ _ => KEvicted k
  end.
Definition hit {A} (o : option A) : bool := match o with Some _ => true | None => false end.

(** ** the list functions commute with the projection *)
Lemma keys_remove_key k l : keys (remove_key k l) = krem k (keys l).
Proof.
  unfold keys. induction l as [|[k' v] t IH]; cbn; [reflexivity|].
  destruct (Z.eqb k k'); cbn; [reflexivity|]. now rewrite IH.
Qed.

Lemma find_kmem k l : hit (find k l) = kmem k (keys l).
Proof.
  unfold keys. induction l as [|[k' v] t IH]; cbn; [reflexivity|].
  destruct (Z.eqb k k'); cbn; [reflexivity|exact IH].
Qed.

Lemma keys_set_val k w l : keys (set_val k w l) = keys l.
Proof.
  unfold keys. induction l as [|[k' v] t IH]; cbn; [reflexivity|].
  destruct (Z.eqb k k'); cbn; [reflexivity|]. now rewrite IH.
Qed.

Lemma keys_set_val_opt k w l : keys (set_val_opt k w l) = keys l.
Proof. destruct w; cbn; [apply keys_set_val|reflexivity]. Qed.

Lemma keys_split_last l :
  ksplit_last (keys l) = option_map (fun '(rest, e) => (keys rest, fst e)) (split_last l).
Proof.
  induction l as [|[k v] t IH]; [reflexivity|].
  change (keys ((k, v) :: t)) with (k :: keys t).
  rewrite split_last_cons. cbn [ksplit_last]. rewrite IH.
  destruct (split_last t) as [[r y]|]; reflexivity.
Qed.

Lemma keys_length l : length (keys l) = length l.
Proof. apply map_length. Qed.

(** ** the operations *)
Theorem put_blind s k v :
  let '(s', r, _) := put s k v in (kproj s', put_keys r) = kput (kproj s) k.
Proof.
  unfold put, kput, kproj. cbn [kcap kitems].
  rewrite <- find_kmem. destruct (find k (items s)) as [old|] eqn:Ef; cbn [hit].
  - cbn. unfold ktouch. now rewrite keys_remove_key.
  - destruct (Nat.eqb (cap s) 0); [reflexivity|].
    unfold llen. rewrite keys_length. destruct (Nat.eqb (length (items s)) (cap s)); [|reflexivity].
    rewrite keys_split_last. destruct (split_last (items s)) as [[rest [ek ev]]|]; reflexivity.
Qed.

Theorem get_blind s k :
  let '(s', r) := get s k in (kproj s', hit r) = kget (kproj s) k.
Proof.
  unfold get, kget, kproj. cbn [kcap kitems]. rewrite <- find_kmem.
  destruct (find k (items s)); cbn; [|reflexivity]. unfold ktouch. now rewrite keys_remove_key.
Qed.

Theorem get_mut_blind s k w :
  let '(s', r) := get_mut s k w in (kproj s', hit r) = kget (kproj s) k.
Proof.
  unfold get_mut, kget, kproj. cbn [kcap kitems]. rewrite <- find_kmem.
  destruct (find k (items s)); cbn; [|reflexivity].
  rewrite keys_set_val_opt. unfold touch, ktouch. cbn. now rewrite keys_remove_key.
Qed.

(** [peek], [peek_mut], [contains]: the answer is the membership of the key, the order is untouched *)
Theorem peek_blind s k w :
  hit (peek s k) = kmem k (kitems (kproj s)) /\ contains s k = kmem k (kitems (kproj s)) /\
  let '(s', r) := peek_mut s k w in kproj s' = kproj s /\ hit r = kmem k (kitems (kproj s)).
Proof.
  unfold peek, contains, mem, peek_mut, kproj. cbn [kcap kitems]. rewrite <- find_kmem.
  destruct (find k (items s)); cbn; repeat split; try reflexivity. now rewrite keys_set_val_opt.
Qed.

Theorem remove_blind s k :
  let '(s', r, _) := remove s k in (kproj s', hit r) = kremove (kproj s) k.
Proof.
  unfold remove, kremove, kproj. cbn [kcap kitems]. rewrite <- find_kmem.
  destruct (find k (items s)); cbn; [|reflexivity]. now rewrite keys_remove_key.
Qed.

Theorem remove_lru_blind s :
  let '(s', r, _) := remove_lru s in (kproj s', option_map fst r) = kremove_lru (kproj s).
Proof.
  unfold remove_lru, kremove_lru, kproj. cbn [kcap kitems]. rewrite keys_split_last.
  destruct (split_last (items s)) as [[rest [ek ev]]|]; reflexivity.
Qed.

Theorem get_lru_blind s :
  let '(s', r) := get_lru s in (kproj s', option_map fst r) = kget_lru (kproj s).
Proof.
  unfold get_lru, kget_lru, kproj. cbn [kcap kitems]. rewrite keys_split_last.
  destruct (split_last (items s)) as [[rest [ek ev]]|]; reflexivity.
Qed.

Theorem purge_blind s : kproj (fst (purge s)) = kpurge (kproj s).
Proof. reflexivity. Qed.

Theorem resize_blind s n :
  let '(s', r, _) := resize s n in (kproj s', r) = kresize (kproj s) n.
Proof.
  unfold resize, kresize, kproj. cbn [kcap kitems].
  destruct (Nat.eqb n (cap s)); [reflexivity|]. cbn. unfold keys.
  now rewrite firstn_map, skipn_map, map_length.
Qed.

(** the ends of the order *)
Theorem ends_blind s :
  option_map fst (peek_mru s) = hd_error (kitems (kproj s)) /\
  option_map fst (peek_lru s) = option_map snd (ksplit_last (kitems (kproj s))).
Proof.
  unfold peek_mru, peek_lru, kproj. cbn [kitems]. split.
  - destruct (items s) as [|[k v] t]; reflexivity.
  - rewrite keys_split_last. destruct (split_last (items s)) as [[rest [ek ev]]|]; reflexivity.
Qed.

(** two caches that hold the same keys in the same order, with whatever values, stay so under the same calls with
    whatever values: the zero-sized instantiation is the case where one side's values are all [0] *)
Corollary put_same_order s1 s2 k v1 v2 :
  kproj s1 = kproj s2 ->
  let '(t1, r1, _) := put s1 k v1 in let '(t2, r2, _) := put s2 k v2 in
  kproj t1 = kproj t2 /\ put_keys r1 = put_keys r2.
Proof.
  intros E. pose proof (put_blind s1 k v1) as H1. pose proof (put_blind s2 k v2) as H2.
  destruct (put s1 k v1) as [[t1 r1] c1]. destruct (put s2 k v2) as [[t2 r2] c2].
  rewrite E in H1. rewrite <- H2 in H1. now apply pair_equal_spec in H1.
Qed.
