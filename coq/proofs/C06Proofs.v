(** * C06 — RawLRU keeps exact recency order.

    A ghost clock is attached to the model: every operation that the property counts as a
    *use* of a key (put, get, get_mut, get_lru, get_lru_mut — when they hit or insert) stamps
    that key with the current time.  The theorem says that, in every reachable state, the list
    is sorted by strictly decreasing time of last use; the corollaries say that the entry
    evicted on overflow, named by peek_lru/remove_lru and discarded first by resize is the
    one with the oldest stamp, and that peek_mru/get_mru name the newest. *)
From VF Require Import Base Iter Enc Lru LruStep BaseFacts LruFacts.
From Coq Require Import Sorted.

Arguments touch : simpl never.
Arguments keys : simpl never.

(** the key an operation uses, if any, decided on the state before the call *)
Definition last_key (l : list entry) : option key :=
  match split_last l with Some (_, (k, _)) => Some k | None => None end.

Definition put_uses (s : lru) (k : key) : option key :=
  if mem k (items s) then Some k else if Nat.eqb (cap s) 0 then None else Some k.

Definition uses (s : lru) (o : lop) : option key :=
  match o with
  | LPut k _ => put_uses s k
  | LGet k | LGetMut k _ => if mem k (items s) then Some k else None
  | LGetLru | LGetLruMut _ => last_key (items s)
  | LPeekOrPut k _ | LPeekMutOrPut k _ _ | LContainsOrPut k _ =>
    if mem k (items s) then None else put_uses s k
  | _ => None
  end.

(** ghost state: time of last use per key, and the clock *)
Record ghost := mkGhost { stamp : key -> nat; clock : nat }.

Definition gstep (g : ghost) (u : option key) : ghost :=
  match u with
  | Some k => mkGhost (fun x => if Z.eqb x k then clock g else stamp g x) (S (clock g))
  | None => mkGhost (stamp g) (S (clock g))
  end.

Definition stamps (g : ghost) (l : list entry) : list nat := map (fun e => stamp g (fst e)) l.

(** sorted by strictly decreasing stamp, every stamp older than the clock *)
Definition recency_sorted (g : ghost) (l : list entry) : Prop :=
  StronglySorted gt (stamps g l) /\ Forall (fun t => (t < clock g)%nat) (stamps g l).

Definition c06_inv (g : ghost) (s : lru) : Prop := lru_inv s /\ recency_sorted g (items s).

(** run a history with the ghost clock *)
Fixpoint grun (g : ghost) (s : lru) (h : list lop) : ghost * lru :=
  match h with
  | [] => (g, s)
  | o :: h' => grun (gstep g (uses s o)) (fst (fst (lstep s o))) h'
  end.

Definition g0 : ghost := mkGhost (fun _ => 0%nat) 0%nat.

(** ** stamps under list surgery *)

Lemma stamps_keys g a b : keys a = keys b -> stamps g a = stamps g b.
Proof.
  unfold stamps, keys. revert b. induction a as [|x a IH]; intros [|y b] H; cbn in *;
    try discriminate.
  - reflexivity.
  - inversion H as [[H1 H2]]. rewrite H1. f_equal. now apply IH.
Qed.

Lemma recency_same_keys g a b : keys a = keys b -> recency_sorted g a -> recency_sorted g b.
Proof. intros E. unfold recency_sorted. now rewrite (stamps_keys g a b E). Qed.

Lemma sorted_sub_remove (f : entry -> nat) k l :
  StronglySorted gt (map f l) -> StronglySorted gt (map f (remove_key k l)).
Proof.
  induction l as [|[k' v'] t IH]; cbn; intros H; [constructor|].
  destruct (Z.eqb k k'); inversion H as [|? ? Hs Hf]; subst; [assumption|].
  cbn. constructor; [auto|].
  rewrite Forall_forall in *. intros x Hx. apply Hf.
  apply in_map_iff in Hx. destruct Hx as [e [<- He]]. apply in_map. eapply in_remove_key; eauto.
Qed.

Lemma forall_sub_remove (P : nat -> Prop) (f : entry -> nat) k l :
  Forall P (map f l) -> Forall P (map f (remove_key k l)).
Proof.
  rewrite !Forall_forall. intros H x Hx. apply H.
  apply in_map_iff in Hx. destruct Hx as [e [<- He]]. apply in_map. eapply in_remove_key; eauto.
Qed.

(** stamps of entries whose key is not the used key are unchanged *)
Lemma stamps_gstep_other g k l :
  ~ In k (keys l) -> stamps (gstep g (Some k)) l = stamps g l.
Proof.
  unfold stamps, keys. induction l as [|[k' v'] t IH]; cbn; intros H; [reflexivity|].
  destruct (Z.eqb_spec k' k) as [->|Hn]; [exfalso; apply H; now left|].
  f_equal. apply IH. intros Hin; apply H; now right.
Qed.

Lemma stamps_gstep_none g l : stamps (gstep g None) l = stamps g l.
Proof. reflexivity. Qed.

Lemma recency_tick_none g l : recency_sorted g l -> recency_sorted (gstep g None) l.
Proof.
  intros [H1 H2]. split; [exact H1|].
  eapply Forall_impl; [|exact H2]. cbn. intros; lia.
Qed.

(** moving the used key to the front (or inserting it there) keeps the list sorted *)
Lemma recency_front g k v l :
  ~ In k (keys l) -> recency_sorted g l -> recency_sorted (gstep g (Some k)) ((k, v) :: l).
Proof.
  intros Hni [H1 H2]. unfold recency_sorted.
  change (stamps (gstep g (Some k)) ((k, v) :: l))
    with (stamp (gstep g (Some k)) k :: stamps (gstep g (Some k)) l).
  rewrite stamps_gstep_other by assumption.
  cbn [stamp gstep clock]. rewrite Z.eqb_refl. split.
  - constructor; [exact H1|]. eapply Forall_impl; [|exact H2]. cbn. intros; lia.
  - constructor; [lia|]. eapply Forall_impl; [|exact H2]. cbn. intros; lia.
Qed.

Lemma recency_remove g k l : recency_sorted g l -> recency_sorted g (remove_key k l).
Proof.
  intros [H1 H2]. split; [now apply sorted_sub_remove | now apply forall_sub_remove].
Qed.

Lemma recency_touch g k v l :
  NoDup (keys l) -> recency_sorted g l -> recency_sorted (gstep g (Some k)) (touch k v l).
Proof.
  intros Hnd H. unfold touch. apply recency_front.
  - rewrite keys_remove_key. now apply notin_remove1_nodup.
  - now apply recency_remove.
Qed.

Lemma recency_app_l g a b : recency_sorted g (a ++ b) -> recency_sorted g a.
Proof.
  unfold recency_sorted, stamps. rewrite map_app. intros [H1 H2]. split.
  - revert H1. generalize (map (fun e : entry => stamp g (fst e)) a) as xs.
    generalize (map (fun e : entry => stamp g (fst e)) b) as ys.
    intros ys xs. induction xs as [|x xs IH]; cbn; intros H; [constructor|].
    inversion H as [|? ? Hs Hf]; subst. constructor; [auto|].
    apply Forall_app in Hf. tauto.
  - apply Forall_app in H2. tauto.
Qed.

Lemma recency_firstn g n l : recency_sorted g l -> recency_sorted g (firstn n l).
Proof. intros H. rewrite <- (firstn_skipn n l) in H. eapply recency_app_l; eauto. Qed.

(** ** the one-step theorem *)

Lemma mem_find k l : mem k l = match find k l with Some _ => true | None => false end.
Proof. reflexivity. Qed.

Lemma put_recency g s k v :
  c06_inv g s -> recency_sorted (gstep g (put_uses s k)) (items (fst (fst (put s k v)))).
Proof.
  intros [[Hnd Hlen] Hr]. unfold put, put_uses. rewrite mem_find.
  destruct (find k (items s)) as [old|] eqn:Ef; cbn [fst items with_items].
  - now apply recency_touch.
  - apply find_none_notin in Ef.
    destruct (Nat.eqb_spec (cap s) 0) as [Hc|Hc]; cbn [fst items]; [now apply recency_tick_none|].
    unfold llen. destruct (Nat.eqb_spec (length (items s)) (cap s)) as [Hf|Hf].
    + destruct (split_last (items s)) as [[rest [ek ev]]|] eqn:Es; cbn [fst items with_items].
      * apply split_last_app in Es. rewrite Es in *. apply recency_front.
        -- rewrite keys_app in Ef. intros Hin; apply Ef; apply in_or_app; now left.
        -- eapply recency_app_l; eauto.
      * now apply recency_front.
    + cbn [fst items with_items]. now apply recency_front.
Qed.

Lemma last_key_split l rest k v : split_last l = Some (rest, (k, v)) -> last_key l = Some k.
Proof. unfold last_key. now intros ->. Qed.

Lemma rotate_recency g l rest k v :
  NoDup (keys l) -> split_last l = Some (rest, (k, v)) -> recency_sorted g l ->
  recency_sorted (gstep g (Some k)) ((k, v) :: rest).
Proof.
  intros Hnd Es Hr. apply split_last_app in Es. subst l. apply recency_front.
  - rewrite keys_app in Hnd. cbn in Hnd. intros Hin.
    apply NoDup_remove_2 in Hnd. apply Hnd. rewrite app_nil_r. exact Hin.
  - eapply recency_app_l; eauto.
Qed.

Theorem c06_step g s o :
  c06_inv g s -> c06_inv (gstep g (uses s o)) (fst (fst (lstep s o))).
Proof.
  intros H. split; [apply lstep_inv; apply H|].
  pose proof H as [[Hnd Hlen] Hr].
  assert (Hnone : forall l, keys l = keys (items s) -> recency_sorted (gstep g None) l).
  { intros l E. apply recency_tick_none. eapply recency_same_keys; [symmetry; exact E|exact Hr]. }
  destruct o; cbn [uses lstep]; try (apply Hnone; reflexivity).
  - (* put *) pose proof (put_recency g s k v H) as P.
    destruct (put s k v) as [[s' r] cb]. exact P.
  - (* get *) unfold get. rewrite mem_find.
    destruct (find k (items s)) eqn:E; cbn [fst items with_items].
    + now apply recency_touch.
    + now apply recency_tick_none.
  - (* get_mut *) unfold get_mut. rewrite mem_find.
    destruct (find k (items s)) eqn:E; cbn [fst items with_items].
    + eapply recency_same_keys; [symmetry; apply keys_set_val_opt|]. now apply recency_touch.
    + now apply recency_tick_none.
  - (* peek_mut *) unfold peek_mut. destruct (find k (items s)); cbn [fst items with_items].
    + apply Hnone. apply keys_set_val_opt.
    + now apply recency_tick_none.
  - (* remove *) unfold remove. destruct (find k (items s)); cbn [fst items with_items].
    + apply recency_tick_none. now apply recency_remove.
    + now apply recency_tick_none.
  - (* purge *) cbn. split; constructor.
  - (* resize *) unfold resize. destruct (Nat.eqb n (cap s)); cbn [fst items].
    + now apply recency_tick_none.
    + apply recency_tick_none. now apply recency_firstn.
  - (* get_lru *) unfold get_lru.
    destruct (split_last (items s)) as [[rest [k v]]|] eqn:E; cbn [fst items with_items].
    + rewrite (last_key_split _ _ _ _ E). eapply rotate_recency; eauto.
    + unfold last_key. rewrite E. now apply recency_tick_none.
  - (* get_lru_mut *) unfold get_lru_mut.
    destruct (split_last (items s)) as [[rest [k v]]|] eqn:E; cbn [fst items with_items].
    + rewrite (last_key_split _ _ _ _ E).
      eapply recency_same_keys; [symmetry; apply keys_set_hd|]. eapply rotate_recency; eauto.
    + unfold last_key. rewrite E. now apply recency_tick_none.
  - (* get_mru_mut *) cbn. apply Hnone. apply keys_set_hd.
  - (* peek_or_put *) unfold peek_or_put. rewrite mem_find.
    destruct (find k (items s)) eqn:E; cbn [fst items].
    + now apply recency_tick_none.
    + pose proof (put_recency g s k v H) as P.
      destruct (put s k v) as [[s' r] cb]. exact P.
  - (* peek_mut_or_put *) unfold peek_mut_or_put. rewrite mem_find.
    destruct (find k (items s)) eqn:E; cbn [fst items with_items].
    + apply Hnone. apply keys_set_val_opt.
    + pose proof (put_recency g s k v H) as P.
      destruct (put s k v) as [[s' r] cb]. exact P.
  - (* contains_or_put *) unfold contains_or_put.
    destruct (mem k (items s)) eqn:E; cbn [fst items].
    + now apply recency_tick_none.
    + pose proof (put_recency g s k v H) as P.
      destruct (put s k v) as [[s' r] cb]. exact P.
  - (* peek_lru_mut *) cbn. apply Hnone. apply keys_set_last.
  - (* peek_mru_mut *) cbn. apply Hnone. apply keys_set_hd.
  - (* remove_lru *) unfold remove_lru.
    destruct (split_last (items s)) as [[rest e]|] eqn:E; cbn [fst items with_items].
    + apply recency_tick_none. apply split_last_app in E. rewrite E in Hr.
      eapply recency_app_l; eauto.
    + now apply recency_tick_none.
  - (* iter *)
    pose proof (keys_iter_script kd pre pa pb (items s)) as K.
    destruct (iter_script kd pre pa pb (items s)) as [[[y0 ya] yb] l']. cbn in K |- *.
    apply Hnone. exact K.
  - (* clone *) rewrite clone_id by (split; assumption). now apply recency_tick_none.
Qed.

Lemma c06_init c cb : c06_inv g0 (lru_new c cb).
Proof. repeat split; cbn; try constructor. lia. Qed.

Theorem c06_reachable c cb h :
  let '(g, s) := grun g0 (lru_new c cb) h in c06_inv g s.
Proof.
  assert (G : forall h g s, c06_inv g s -> let '(g', s') := grun g s h in c06_inv g' s').
  { clear. induction h as [|o h IH]; intros g s H; cbn; [exact H|].
    apply IH. now apply c06_step. }
  apply G. apply c06_init.
Qed.

(** ** what "sorted by last use" gives *)

(** the last entry has the oldest stamp *)
Lemma sorted_last_min g rest e x :
  recency_sorted g (rest ++ [e]) -> In x rest -> (stamp g (fst e) < stamp g (fst x))%nat.
Proof.
  unfold recency_sorted, stamps. rewrite map_app. cbn. intros [H _] Hin.
  induction rest as [|y rest IH]; [destruct Hin|].
  cbn in H. inversion H as [|? ? Hs Hf]; subst. destruct Hin as [->|Hin].
  - rewrite Forall_forall in Hf. apply Hf. apply in_or_app. right. now left.
  - auto.
Qed.

(** the first entry has the newest stamp *)
Lemma sorted_hd_max g e l x :
  recency_sorted g (e :: l) -> In x l -> (stamp g (fst x) < stamp g (fst e))%nat.
Proof.
  unfold recency_sorted, stamps. cbn. intros [H _] Hin. inversion H as [|? ? Hs Hf]; subst.
  rewrite Forall_forall in Hf. apply Hf. now apply (in_map (fun e : key * val => stamp g (fst e))).
Qed.

(** everything [resize] keeps is newer than everything it discards *)
Lemma sorted_app_lt g a b x y :
  recency_sorted g (a ++ b) -> In x a -> In y b -> (stamp g (fst y) < stamp g (fst x))%nat.
Proof.
  unfold recency_sorted, stamps. rewrite map_app. intros [H _] Hx Hy.
  induction a as [|z a IH]; [destruct Hx|].
  cbn in H. inversion H as [|? ? Hs Hf]; subst. destruct Hx as [->|Hx]; [|auto].
  rewrite Forall_forall in Hf. apply Hf. apply in_or_app. right.
  now apply (in_map (fun e : key * val => stamp g (fst e))).
Qed.

Lemma sorted_firstn_skipn g n l x y :
  recency_sorted g l -> In x (firstn n l) -> In y (skipn n l) ->
  (stamp g (fst y) < stamp g (fst x))%nat.
Proof.
  intros H Hx Hy. rewrite <- (firstn_skipn n l) in H. eapply sorted_app_lt; eauto.
Qed.

(** ** the property, clause by clause *)

Definition older_than_all (g : ghost) (e : entry) (l : list entry) : Prop :=
  forall x, In x l -> (stamp g (fst e) < stamp g (fst x))%nat.
Definition newer_than_all (g : ghost) (e : entry) (l : list entry) : Prop :=
  forall x, In x l -> (stamp g (fst x) < stamp g (fst e))%nat.

Lemma put_evicts_lru g s k v s' ek ev cb :
  c06_inv g s -> cap s <> 0%nat -> put s k v = (s', PEvicted ek ev, cb) ->
  exists rest, items s = rest ++ [(ek, ev)] /\ items s' = (k, v) :: rest /\
               older_than_all g (ek, ev) rest /\ length (items s) = cap s /\ ~ In k (keys (items s)).
Proof.
  intros [[Hnd Hlen] Hr] Hc. unfold put.
  destruct (find k (items s)) as [old|] eqn:Ef; [discriminate|].
  destruct (Nat.eqb_spec (cap s) 0); [contradiction|].
  unfold llen. destruct (Nat.eqb_spec (length (items s)) (cap s)) as [Hf|Hf]; [|discriminate].
  destruct (split_last (items s)) as [[rest [ek' ev']]|] eqn:Es; [|discriminate].
  intros E; inversion E; subst. apply split_last_app in Es. exists rest. repeat split; auto.
  - intros x Hx. rewrite Es in Hr. eapply sorted_last_min; eauto.
  - now apply find_none_notin.
Qed.

Lemma put_not_full_no_eviction s k v :
  (length (items s) < cap s)%nat -> ~ In k (keys (items s)) ->
  put s k v = (with_items s ((k, v) :: items s), PPut, []).
Proof.
  intros Hlt Hni. unfold put. apply find_none_notin in Hni. rewrite Hni.
  destruct (Nat.eqb_spec (cap s) 0); [lia|].
  unfold llen. destruct (Nat.eqb_spec (length (items s)) (cap s)); [lia|reflexivity].
Qed.

Lemma peek_lru_is_oldest g s e :
  c06_inv g s -> peek_lru s = Some e ->
  exists rest, items s = rest ++ [e] /\ older_than_all g e rest.
Proof.
  intros [_ Hr]. unfold peek_lru.
  destruct (split_last (items s)) as [[rest e']|] eqn:Es; [|discriminate].
  intros E; inversion E; subst. apply split_last_app in Es. exists rest. split; [exact Es|].
  intros x Hx. rewrite Es in Hr. eapply sorted_last_min; eauto.
Qed.

Lemma remove_lru_is_oldest g s s' e cb :
  c06_inv g s -> remove_lru s = (s', Some e, cb) ->
  items s = items s' ++ [e] /\ older_than_all g e (items s') /\ cap s' = cap s.
Proof.
  intros [_ Hr]. unfold remove_lru.
  destruct (split_last (items s)) as [[rest e']|] eqn:Es; [|discriminate].
  intros E; inversion E; subst. apply split_last_app in Es. cbn. repeat split; [exact Es|].
  intros x Hx. rewrite Es in Hr. eapply sorted_last_min; eauto.
Qed.

Lemma remove_lru_empty s : items s = [] -> remove_lru s = (s, None, []).
Proof. intros E. unfold remove_lru. now rewrite E. Qed.

Lemma get_lru_is_oldest g s s' e :
  c06_inv g s -> get_lru s = (s', Some e) ->
  exists rest, items s = rest ++ [e] /\ older_than_all g e rest /\ items s' = e :: rest.
Proof.
  intros [_ Hr]. unfold get_lru.
  destruct (split_last (items s)) as [[rest e']|] eqn:Es; [|discriminate].
  intros E; inversion E; subst. apply split_last_app in Es. exists rest. repeat split; auto.
  intros x Hx. rewrite Es in Hr. eapply sorted_last_min; eauto.
Qed.

Lemma peek_mru_is_newest g s e :
  c06_inv g s -> peek_mru s = Some e ->
  exists l, items s = e :: l /\ newer_than_all g e l.
Proof.
  intros [_ Hr]. unfold peek_mru. destruct (items s) as [|e' l] eqn:E; [discriminate|].
  cbn. intros X; inversion X; subst. exists l. split; [reflexivity|].
  intros x Hx. eapply sorted_hd_max; eauto.
Qed.

Lemma resize_spec g s n :
  c06_inv g s ->
  let '(s', cnt, cb) := resize s n in
  (n = cap s -> s' = s /\ cnt = 0%nat) /\
  (n <> cap s ->
     cap s' = n /\ items s' = firstn n (items s) /\ cnt = (length (items s) - n)%nat /\
     (forall x y, In x (items s') -> In y (skipn n (items s)) ->
                  (stamp g (fst y) < stamp g (fst x))%nat)).
Proof.
  intros [_ Hr]. unfold resize. destruct (Nat.eqb_spec n (cap s)) as [->|Hn].
  - split; [auto|congruence].
  - split; [congruence|]. intros _. cbn. repeat split.
    + apply skipn_length.
    + intros x y Hx Hy. eapply sorted_firstn_skipn; eauto.
Qed.

(** operations that the property lists as not counting as a use *)
Definition is_read_only (o : lop) : bool :=
  match o with
  | LPeek _ | LPeekMut _ _ | LContains _ | LLen | LCap | LIsEmpty | LGetMru | LGetMruMut _
  | LPeekLru | LPeekLruMut _ | LPeekMru | LPeekMruMut _ | LIter _ _ _ _ | LDebug | LClone => true
  | _ => false
  end.

Lemma reads_keep_order s o :
  lru_inv s -> is_read_only o = true ->
  keys (items (fst (fst (lstep s o)))) = keys (items s) /\ cap (fst (fst (lstep s o))) = cap s.
Proof.
  intros Hinv. destruct o; cbn [is_read_only]; try discriminate; intros _; cbn [lstep];
    try (split; reflexivity).
  - unfold peek_mut. destruct (find k (items s)); cbn; split; try reflexivity. apply keys_set_val_opt.
  - cbn. split; [apply keys_set_hd|reflexivity].
  - cbn. split; [apply keys_set_last|reflexivity].
  - cbn. split; [apply keys_set_hd|reflexivity].
  - pose proof (keys_iter_script kd pre pa pb (items s)) as K.
    destruct (iter_script kd pre pa pb (items s)) as [[[y0 ya] yb] l']. cbn in K |- *. now split.
  - rewrite clone_id by assumption. now split.
Qed.

(** non-vacuity: a reachable state with three entries in which all of the above apply *)
Example c06_witness :
  let '(g, s) := grun g0 (lru_new 3 true)
                   [LPut 1 10; LPut 2 20; LPut 3 30; LGet 1; LPeek 2; LPut 4 40] in
  items s = [(4, 40); (1, 10); (3, 30)] /\ stamps g (items s) = [5; 3; 2]%nat.
Proof. vm_compute. split; reflexivity. Qed.
