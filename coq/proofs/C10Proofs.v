(** * C10 — WTinyLFUCache: window -> TinyLFU admission filter -> segmented main cache. *)
From VF Require Import Base Iter Enc Lru LruStep Slru CacheStep Tiny WTiny TinyStep
  BaseFacts LruFacts Counts PrimFacts Tactics SlruFacts TinyFacts WTinyFacts C07Proofs C08Proofs.
From Coq Require Import NArith.
Open Scope Z_scope.

(** the estimate of a key's hash as a total function (it is total on every well-formed estimator:
    theorem [est_total]) *)
Definition est (t : tinylfu) (h : N) : N :=
  match tl_estimate t h with Ok e => e | Panic _ => 0%N end.

Lemma est_total t h : tiny_ok t -> (h < two64)%N -> tl_estimate t h = Ok (est t h).
Proof.
  intros Ht Hh. destruct (tl_estimate_ok t h Ht Hh) as (e & E & _). unfold est. now rewrite E.
Qed.

Lemma tl_lt_est t a b :
  tiny_ok t -> (a < two64)%N -> (b < two64)%N -> tl_lt t a b = Ok (N.ltb (est t a) (est t b)).
Proof.
  intros Ht Ha Hb. unfold tl_lt, tl_cmp. rewrite (est_total t a Ht Ha), (est_total t b Ht Hb). reflexivity.
Qed.

Definition khash (s : wtiny) (k : key) : N := key_hash (wt_kh s) k.

(** ** new keys enter the window; the entry the window pushes out is the candidate *)
Theorem new_key_enters_window s k v :
  wt_inv s -> find k (items (wt_lru s)) = None -> scontains (wt_slru s) k = false ->
  ((llen (wt_lru s) < cap (wt_lru s))%nat /\
   wput s k v = Ok (wt_with s (wt_tiny s) (with_items (wt_lru s) ((k, v) :: items (wt_lru s))) (wt_slru s), PPut)) \/
  (llen (wt_lru s) = cap (wt_lru s) /\ exists rest ck cv,
     items (wt_lru s) = rest ++ [(ck, cv)] /\
     wput s k v = wt_admit s (with_items (wt_lru s) ((k, v) :: rest)) ck cv).
Proof.
  intros (Ht & Hc & Hl & Hm & Hd) Hf Hsc. unfold wput.
  destruct (remove_spec (wt_lru s) k) as [[_ ->]|(old & Hf' & _)]; [|congruence].
  rewrite Hsc.
  destruct (put_spec (wt_lru s) k v Hc Hl) as
      [(o & Hf2 & _)|[(_ & Hlt & ->)|(_ & Hfull & rest & ek & ev & Hit & ->)]]; [congruence| |].
  - left. auto.
  - right. split; [exact Hfull|]. exists rest, ek, ev. auto.
Qed.

(** ** admission *)

(** while the main cache has room the candidate is admitted without any comparison: it enters the
    probationary segment like any new key of the segmented cache *)
Theorem admission_free s l1 ck cv :
  (slen (wt_slru s) < scap (wt_slru s))%nat ->
  wt_admit s l1 ck cv =
  (do (m', r) <- sput (wt_slru s) ck cv; Ok (wt_with s (wt_tiny s) l1 m', r)).
Proof.
  intros H. unfold wt_admit. destruct (Nat.ltb_spec (slen (wt_slru s)) (scap (wt_slru s))); [reflexivity|lia].
Qed.

(** when the main cache is full the candidate meets the would-be victim, the least-recent
    probationary entry: it is rejected (handed back as Evicted, main cache untouched) iff its
    estimate is strictly lower; otherwise it replaces the victim, which is handed back *)
Theorem admission_filter s l1 ck cv :
  wt_inv s -> (scap (wt_slru s) <= slen (wt_slru s))%nat ->
  find ck (items (prob (wt_slru s))) = None -> find ck (items (prot (wt_slru s))) = None ->
  exists rest vk vv,
    items (prob (wt_slru s)) = rest ++ [(vk, vv)] /\
    wt_admit s l1 ck cv =
    Ok (if N.ltb (est (wt_tiny s) (khash s ck)) (est (wt_tiny s) (khash s vk))
        then (wt_with s (wt_tiny s) l1 (wt_slru s), PEvicted ck cv)
        else (wt_with s (wt_tiny s) l1
                (mkSlru (with_items (prob (wt_slru s)) ((ck, cv) :: rest)) (prot (wt_slru s))),
              PEvicted vk vv)).
Proof.
  intros (Ht & Hc & Hl & Hm & Hd) Hfull Hf1 Hf2. pose proof Hm as (Hc1 & Hc2 & Hl1 & Hl2 & Hdm).
  unfold wt_admit. unfold slen, scap in *.
  destruct (Nat.ltb_spec (llen (prot (wt_slru s)) + llen (prob (wt_slru s)))
                         (cap (prot (wt_slru s)) + cap (prob (wt_slru s)))); [lia|].
  assert (Hpf : llen (prob (wt_slru s)) = cap (prob (wt_slru s))) by lia.
  destruct (peek_lru_spec (prob (wt_slru s))) as [[Hit _]|(rest & [vk vv] & Hit & ->)].
  { exfalso. unfold llen in Hpf. rewrite Hit in Hpf. cbn in Hpf. lia. }
  exists rest, vk, vv. split; [exact Hit|].
  unfold khash. rewrite tl_lt_est by (auto using key_hash_lt). cbn [bind].
  destruct (N.ltb (est (wt_tiny s) (key_hash (wt_kh s) ck)) (est (wt_tiny s) (key_hash (wt_kh s) vk))); [reflexivity|].
  unfold sput.
  destruct (update_spec (prot (wt_slru s)) ck cv) as [[_ ->]|(o & Hf' & _)]; [|congruence].
  rewrite Hf1.
  destruct (put_spec (prob (wt_slru s)) ck cv Hc1 Hl1)
    as [(o & Hf & _)|[(_ & Hlt & _)|(_ & _ & rest' & ek & ev & Hit' & ->)]]; [congruence|lia|].
  rewrite Hit in Hit'. apply app_inj_tail in Hit'. destruct Hit' as [<- Ee]. inversion Ee; subst ek ev.
  reflexivity.
Qed.

(** ** every get / get_mut, hit or miss, records exactly one access for that key *)
Theorem get_records_access s k w :
  wt_inv s ->
  exists t' s' r,
    tl_increment (tl_try_reset (wt_tiny s)) (khash s k) = Ok t' /\
    wget_mut s k w = Ok (s', r) /\ wt_tiny s' = t' /\
    (forall old, find k (items (wt_lru s)) = Some old ->
       r = Some old /\ wt_slru s' = wt_slru s /\
       items (wt_lru s') = set_val_opt k w ((k, old) :: remove_key k (items (wt_lru s)))) /\
    (find k (items (wt_lru s)) = None ->
       wt_lru s' = wt_lru s /\ sget_mut (wt_slru s) k w = Ok (wt_slru s', r)).
Proof.
  intros Hinv. destruct (wt_record_ok s k Hinv) as (t' & Et & _).
  unfold wget_mut. rewrite Et. cbn [bind]. unfold wt_record in Et. exists t'.
  destruct (get_mut_spec (wt_lru s) k w) as [[Hn ->]|(v0 & Hf & ->)].
  - destruct Hinv as (_ & _ & _ & Hm & _).
    destruct (sget_mut_ok (wt_slru s) k w Hm) as (m' & r & E & _).
    rewrite E. cbn [bind]. do 2 eexists. split; [exact Et|]. split; [reflexivity|].
    split; [reflexivity|]. split; [intros old Ho; congruence|]. intros _. cbn. auto.
  - do 2 eexists. split; [exact Et|]. split; [reflexivity|]. split; [reflexivity|]. split.
    + intros old Ho. assert (v0 = old) by congruence. subst. cbn. auto.
    + intros Hn. congruence.
Qed.

(** ** purge clears the estimator *)
Theorem purge_clears_estimator s :
  wt_tiny (wpurge s) = tl_clear (wt_tiny s) /\ items (wt_lru (wpurge s)) = [] /\
  items (prob (wt_slru (wpurge s))) = [] /\ items (prot (wt_slru (wpurge s))) = [].
Proof. repeat split. Qed.

(** ** a put on a window-resident key moves it into the protected segment, demoting protected's
    least-recent entry into the window when protected is full *)
Theorem window_hit_moves_to_protected s k v old :
  wt_inv s -> find k (items (wt_lru s)) = Some old ->
  exists s', wput s k v = Ok (s', PUpdate old) /\ wt_tiny s' = wt_tiny s /\
    prob (wt_slru s') = prob (wt_slru s) /\
    (((llen (prot (wt_slru s)) < cap (prot (wt_slru s)))%nat /\
      items (wt_lru s') = remove_key k (items (wt_lru s)) /\
      items (prot (wt_slru s')) = (k, v) :: items (prot (wt_slru s))) \/
     (llen (prot (wt_slru s)) = cap (prot (wt_slru s)) /\ exists rest d,
        items (prot (wt_slru s)) = rest ++ [d] /\
        items (wt_lru s') = d :: remove_key k (items (wt_lru s)) /\
        items (prot (wt_slru s')) = (k, v) :: rest)).
Proof.
  intros (Ht & Hc & Hl & Hm & Hd) Hf. unfold wput.
  pose proof Hm as (Hc1 & Hc2 & Hl1 & Hl2 & Hdm). unfold scnt in Hd.
  destruct (remove_spec (wt_lru s) k) as [[Hn _]|(o & Hf' & ->)]; [congruence|].
  assert (o = old) by congruence; subst o.
  pose proof (cntl_find_some _ _ _ Hf) as Hpos.
  pose proof (length_remove_key_in _ _ Hpos) as Hlen.
  assert (Hkp : find k (items (prob (wt_slru s))) = None).
  { apply cntl_zero_find. pose proof (Hd k). lia. }
  assert (Hkf : find k (items (prot (wt_slru s))) = None).
  { apply cntl_zero_find. pose proof (Hd k). lia. }
  assert (Hsp : forall m1, prob m1 = prob (wt_slru s) -> find k (items (prot m1)) = None ->
                (1 <= cap (prot m1))%nat -> (llen (prot m1) < cap (prot m1))%nat ->
                sput_protected m1 k v =
                (mkSlru (prob m1) (with_items (prot m1) ((k, v) :: items (prot m1))), PPut)).
  { intros m1 Ep Hkf1 Hcm Hroom. unfold sput_protected. rewrite Ep.
    destruct (remove_spec (prob (wt_slru s)) k) as [[_ ->]|(o & Hf3 & _)]; [|congruence].
    destruct (put_spec (prot m1) k v Hcm ltac:(lia)) as
        [(o & Hf2 & _)|[(_ & _ & ->)|(_ & Hfl & _)]]; [congruence| |lia].
    now rewrite <- Ep. }
  destruct (Nat.leb_spec (cap (prot (wt_slru s))) (llen (prot (wt_slru s)))) as [Hfull|Hroom].
  - destruct (remove_lru_spec (prot (wt_slru s))) as [[Hit _]|(rest & [ek ev] & Hit & ->)].
    { exfalso. unfold llen in *. rewrite Hit in *. cbn in *. lia. }
    set (l1 := with_items (wt_lru s) (remove_key k (items (wt_lru s)))).
    assert (Hek : find ek (items l1) = None).
    { apply cntl_zero_find. subst l1. pose proof (Hd ek) as Hx. rewrite Hit in Hx. norm. eqb_cases; lia. }
    assert (Hc' : (1 <= cap l1)%nat) by (subst l1; norm; lia).
    assert (Hl' : (llen l1 < cap l1)%nat) by (subst l1; norm; lia).
    destruct (put_spec l1 ek ev Hc' ltac:(lia)) as
        [(o & Hf2 & _)|[(_ & Hlt & ->)|(_ & Hfl & _)]]; [congruence| |lia].
    cbn [bind].
    rewrite (Hsp (mkSlru (prob (wt_slru s)) (with_items (prot (wt_slru s)) rest))); cbn [prob prot items with_items cap].
    + eexists. split; [reflexivity|]. cbn [wt_tiny wt_lru wt_slru wt_with prob prot items with_items].
      split; [reflexivity|]. split; [reflexivity|]. right. split; [unfold llen in *; lia|].
      exists rest, (ek, ev). subst l1. auto.
    + reflexivity.
    + rewrite Hit in Hkf. rewrite find_app in Hkf. destruct (find k rest); [discriminate|reflexivity].
    + lia.
    + unfold llen in *. cbn [items with_items]. rewrite Hit, app_length in Hl2. cbn in Hl2. lia.
  - cbn [bind]. rewrite (Hsp (wt_slru s)) by (auto; lia).
    eexists. split; [reflexivity|]. cbn [wt_tiny wt_lru wt_slru wt_with prob prot items with_items].
    split; [reflexivity|]. split; [reflexivity|]. left. auto.
Qed.

(** a put on a key of the main cache is a put on the segmented cache (C07 applies) *)
Theorem main_hit_put s k v :
  find k (items (wt_lru s)) = None -> scontains (wt_slru s) k = true ->
  wput s k v = (do (m', r) <- sput (wt_slru s) k v; Ok (wt_with s (wt_tiny s) (wt_lru s) m', r)).
Proof.
  intros Hf Hsc. unfold wput.
  destruct (remove_spec (wt_lru s) k) as [[_ ->]|(old & Hf' & _)]; [|congruence]. now rewrite Hsc.
Qed.
