(** * Whole histories of TwoQueueCache, AdaptiveCache and WTinyLFUCache: after any sequence of calls with whatever values
    the lists hold the keys, in the order, that the cache written over keys alone holds after the same calls - and the
    run panics exactly when that one does. *)
From Coq Require Import List ZArith Arith Lia.
Import ListNotations.
From VF Require Import Base Lru Slru TwoQ Arc Tiny WTiny BaseFacts KeyProj KeyProjSlru KeyProjTwoQ KeyProjArc KeyProjWTiny.

(** the calls that can change a composite cache, with and without their values *)
Inductive cvop := CVPut (k : key) (v : val) | CVGetMut (k : key) (w : option val) | CVRemove (k : key).
Inductive ckop := CKPut (k : key) | CKGet (k : key) | CKRemove (k : key).
Definition cstrip (o : cvop) : ckop :=
  match o with CVPut k _ => CKPut k | CVGetMut k _ => CKGet k | CVRemove k => CKRemove k end.

Section Run.
  Variables (S K : Type) (proj : S -> K) (vstep : S -> cvop -> res S) (kstep : K -> ckop -> res K).
  Definition csim (r : res S) (kr : res K) : Prop :=
    match r with Ok s' => kr = Ok (proj s') | Panic n => kr = Panic n end.
  Hypothesis step_blind : forall s o, csim (vstep s o) (kstep (proj s) (cstrip o)).

  Fixpoint crun (s : S) (ops : list cvop) : res S :=
    match ops with [] => Ok s | o :: t => do s' <- vstep s o; crun s' t end.
  Fixpoint ckrun (s : K) (ops : list ckop) : res K :=
    match ops with [] => Ok s | o :: t => do s' <- kstep s o; ckrun s' t end.

  Theorem crun_blind ops : forall s, csim (crun s ops) (ckrun (proj s) (map cstrip ops)).
  Proof.
    induction ops as [|o ops IH]; intros s; cbn [crun ckrun map]; [reflexivity|].
    pose proof (step_blind s o) as H. unfold csim in H.
    destruct (vstep s o) as [s'|n]; rewrite H; cbn [bind]; [apply IH|reflexivity].
  Qed.
End Run.

(** ** 2Q *)
Definition qvstep (s : twoq) (o : cvop) : res twoq :=
  match o with
  | CVPut k v => do (s', _) <- qput s k v; Ok s'
  | CVGetMut k w => do (s', _) <- qget_mut s k w; Ok s'
  | CVRemove k => Ok (fst (qremove s k))
  end.
Definition qkstep (s : k2q) (o : ckop) : res k2q :=
  match o with
  | CKPut k => do (s', _) <- kqput s k; Ok s'
  | CKGet k => do (s', _) <- kqget s k; Ok s'
  | CKRemove k => Ok (fst (kqremove s k))
  end.
Lemma qvstep_blind s o : csim _ _ qproj (qvstep s o) (qkstep (qproj s) (cstrip o)).
Proof.
  destruct o as [k v|k w|k]; cbn [qvstep qkstep cstrip csim].
  - pose proof (qput_blind s k v) as H. destruct (qput s k v) as [[s' r]|n]; rewrite H; reflexivity.
  - pose proof (qget_mut_blind s k w) as H. destruct (qget_mut s k w) as [[s' r]|n]; rewrite H; reflexivity.
  - pose proof (qremove_blind s k) as H. destruct (qremove s k) as [s' r]. now rewrite H.
Qed.
Definition qrun_blind := crun_blind _ _ qproj qvstep qkstep qvstep_blind.

(** ** ARC *)
Definition avstep (s : arc) (o : cvop) : res arc :=
  match o with
  | CVPut k v => do (s', _) <- aput s k v; Ok s'
  | CVGetMut k w => do (s', _) <- aget_mut s k w; Ok s'
  | CVRemove k => Ok (fst (aremove s k))
  end.
Definition akstep (s : karc) (o : ckop) : res karc :=
  match o with
  | CKPut k => do (s', _) <- kaput s k; Ok s'
  | CKGet k => do (s', _) <- kaget s k; Ok s'
  | CKRemove k => Ok (fst (karemove s k))
  end.
Lemma avstep_blind s o : csim _ _ aproj (avstep s o) (akstep (aproj s) (cstrip o)).
Proof.
  destruct o as [k v|k w|k]; cbn [avstep akstep cstrip csim].
  - pose proof (aput_blind s k v) as H. destruct (aput s k v) as [[s' r]|n]; rewrite H; reflexivity.
  - pose proof (aget_mut_blind s k w) as H. destruct (aget_mut s k w) as [[s' r]|n]; rewrite H; reflexivity.
  - pose proof (aremove_blind s k) as H. destruct (aremove s k) as [s' r]. now rewrite H.
Qed.
Definition arun_blind := crun_blind _ _ aproj avstep akstep avstep_blind.

(** ** W-TinyLFU *)
Definition wvstep (s : wtiny) (o : cvop) : res wtiny :=
  match o with
  | CVPut k v => do (s', _) <- wput s k v; Ok s'
  | CVGetMut k w => do (s', _) <- wget_mut s k w; Ok s'
  | CVRemove k => Ok (fst (wremove s k))
  end.
Definition wkstep (s : kwtiny) (o : ckop) : res kwtiny :=
  match o with
  | CKPut k => do (s', _) <- kwput s k; Ok s'
  | CKGet k => do (s', _) <- kwget s k; Ok s'
  | CKRemove k => Ok (fst (kwremove s k))
  end.
Lemma wvstep_blind s o : csim _ _ wproj (wvstep s o) (wkstep (wproj s) (cstrip o)).
Proof.
  destruct o as [k v|k w|k]; cbn [wvstep wkstep cstrip csim].
  - pose proof (wput_blind s k v) as H. destruct (wput s k v) as [[s' r]|n]; rewrite H; reflexivity.
  - pose proof (wget_mut_blind s k w) as H. destruct (wget_mut s k w) as [[s' r]|n]; rewrite H; reflexivity.
  - pose proof (wremove_blind s k) as H. destruct (wremove s k) as [s' r]. now rewrite H.
Qed.
Definition wrun_blind := crun_blind _ _ wproj wvstep wkstep wvstep_blind.
