(** * The decisions of AdaptiveCache do not look at the values.

    ARC written over keys alone ([karc]: four LRU sets, the size and the adaptation target [p]), and the key projection
    of the model ([Arc.v]) as a simulation of it: which list a key lives in, the order inside the lists, how [p] moves on
    a ghost hit, what [replace] demotes, which ghosts are trimmed, what a put reports (as keys) and whether a call
    panics are functions of the keys, the size and [p].  (The ground for replaying `AdaptiveCache<K, ()>` in the same
    model.) *)
From Coq Require Import List ZArith Arith Lia.
Import ListNotations.
From VF Require Import Base Lru Arc BaseFacts KeyProj KeyProjSlru KeyProjTwoQ.

Record karc := mkKA { kasize : nat; kap : nat; kt1 : kset; kb1 : kset; kt2 : kset; kb2 : kset }.
Definition aproj (s : arc) : karc :=
  mkKA (asize s) (ap s) (kproj (t1 s)) (kproj (b1 s)) (kproj (t2 s)) (kproj (b2 s)).

Definition klen (s : kset) : nat := length (kitems s).

Definition kareplace (s : karc) (freq_contains_key : bool) : res karc :=
  let rl := klen (kt1 s) in
  let from_recent :=
      Nat.ltb 0 rl && (Nat.ltb (kap s) rl || (Nat.eqb rl (kap s) && freq_contains_key)) in
  if from_recent || Nat.eqb (klen (kt2 s)) 0 then
    match kremove_lru (kt1 s) with
    | (t1', Some e) => do (b1', _) <- kput_nonnull (kb1 s) e; Ok (mkKA (kasize s) (kap s) t1' b1' (kt2 s) (kb2 s))
    | (_, None) => Ok s
    end
  else
    match kremove_lru (kt2 s) with
    | (t2', Some e) => do (b2', _) <- kput_nonnull (kb2 s) e; Ok (mkKA (kasize s) (kap s) (kt1 s) (kb1 s) t2' b2')
    | (_, None) => Ok s
    end.

Definition kaput (s : karc) (k : key) : res (karc * kput_result) :=
  match kremove (kt1 s) k with
  | (t1', true) =>
    do (t2', _) <- kput_nonnull (kt2 s) k;
    Ok (mkKA (kasize s) (kap s) t1' (kb1 s) t2' (kb2 s), KUpdate)
  | (_, false) =>
    match kget (kt2 s) k with
    | (t2', true) => Ok (mkKA (kasize s) (kap s) (kt1 s) (kb1 s) t2' (kb2 s), KUpdate)
    | (_, false) =>
      let recent_len := klen (kt1 s) in
      let freq_len := klen (kt2 s) in
      let b1_len := klen (kb1 s) in
      let b2_len := klen (kb2 s) in
      if kmem k (kitems (kb1 s)) then
        let delta := if Nat.ltb b1_len b2_len then Nat.div b2_len b1_len else 1%nat in
        let p' := if Nat.leb (kasize s) (kap s + delta) then kasize s else (kap s + delta)%nat in
        match kremove (kb1 s) k with
        | (b1', true) =>
          let s1 := mkKA (kasize s) p' (kt1 s) b1' (kt2 s) (kb2 s) in
          do s2 <- (if Nat.leb (kasize s) (recent_len + freq_len) then kareplace s1 false else Ok s1);
          do (t2', _) <- kput_nonnull (kt2 s2) k;
          Ok (mkKA (kasize s2) (kap s2) (kt1 s2) (kb1 s2) t2' (kb2 s2), KUpdate)
        | (_, false) => Panic 30
        end
      else if kmem k (kitems (kb2 s)) then
        let delta := if Nat.ltb b2_len b1_len then Nat.div b1_len b2_len else 1%nat in
        let p' := if Nat.leb (kap s) delta then 0%nat else (kap s - delta)%nat in
        match kremove (kb2 s) k with
        | (b2', true) =>
          let s1 := mkKA (kasize s) p' (kt1 s) (kb1 s) (kt2 s) b2' in
          do s2 <- (if Nat.leb (kasize s) (recent_len + freq_len) then kareplace s1 true else Ok s1);
          do (t2', _) <- kput_nonnull (kt2 s2) k;
          Ok (mkKA (kasize s2) (kap s2) (kt1 s2) (kb1 s2) t2' (kb2 s2), KUpdate)
        | (_, false) => Panic 31
        end
      else
        do s1 <- (if Nat.leb (kasize s) (recent_len + freq_len) then kareplace s false else Ok s);
        let b1' := if Nat.ltb (kasize s - kap s) b1_len then fst (kremove_lru (kb1 s1)) else kb1 s1 in
        let b2' := if Nat.ltb (kap s) b2_len then fst (kremove_lru (kb2 s1)) else kb2 s1 in
        let '(t1', r) := kput (kt1 s1) k in
        Ok (mkKA (kasize s) (kap s) t1' b1' (kt2 s1) b2', r)
    end
  end.

Definition kaget (s : karc) (k : key) : res (karc * bool) :=
  match kremove (kt1 s) k with
  | (t1', true) =>
    do (t2', _) <- kput_nonnull (kt2 s) k;
    Ok (mkKA (kasize s) (kap s) t1' (kb1 s) t2' (kb2 s), true)
  | (_, false) =>
    let '(t2', r) := kget (kt2 s) k in Ok (mkKA (kasize s) (kap s) (kt1 s) (kb1 s) t2' (kb2 s), r)
  end.

Definition karemove (s : karc) (k : key) : karc * bool :=
  match kremove (kt1 s) k with
  | (t1', true) => (mkKA (kasize s) (kap s) t1' (kb1 s) (kt2 s) (kb2 s), true)
  | (_, false) =>
    match kremove (kt2 s) k with
    | (t2', true) => (mkKA (kasize s) (kap s) (kt1 s) (kb1 s) t2' (kb2 s), true)
    | (_, false) =>
      match kremove (kb1 s) k with
      | (b1', true) => (mkKA (kasize s) (kap s) (kt1 s) b1' (kt2 s) (kb2 s), true)
      | (_, false) => let '(b2', r) := kremove (kb2 s) k in (mkKA (kasize s) (kap s) (kt1 s) (kb1 s) (kt2 s) b2', r)
      end
    end
  end.

(** ** [replace] *)
Lemma llen_klen s : llen s = klen (kproj s).
Proof. unfold klen. apply llen_kproj. Qed.

Lemma areplace_blind s b :
  match areplace s b with
  | Ok s' => kareplace (aproj s) b = Ok (aproj s')
  | Panic n => kareplace (aproj s) b = Panic n
  end.
Proof.
  unfold areplace, kareplace. cbn [aproj kt1 kt2 kb1 kb2 kap kasize]. rewrite !llen_klen.
  destruct (_ || _)%bool.
  - pose proof (remove_lru_in_blind (t1 s)) as Hr.
    destruct (remove_lru_in (t1 s)) as [t1' [[ek ev]|]]; rewrite Hr; cbn [option_map fst]; [|reflexivity].
    pose proof (put_nonnull_blind (b1 s) ek ev) as Hp.
    destruct (put_nonnull (b1 s) (ek, ev)) as [[b1' o]|n]; rewrite Hp; reflexivity.
  - pose proof (remove_lru_in_blind (t2 s)) as Hr.
    destruct (remove_lru_in (t2 s)) as [t2' [[ek ev]|]]; rewrite Hr; cbn [option_map fst]; [|reflexivity].
    pose proof (put_nonnull_blind (b2 s) ek ev) as Hp.
    destruct (put_nonnull (b2 s) (ek, ev)) as [[b2' o]|n]; rewrite Hp; reflexivity.
Qed.

Lemma remove_lru_fst_blind s : kproj (fst (fst (remove_lru s))) = fst (kremove_lru (kproj s)).
Proof.
  pose proof (remove_lru_blind s) as H. destruct (remove_lru s) as [[s' r] cb]. rewrite <- H. reflexivity.
Qed.

(** the tail shared by the two ghost-hit branches: [replace] when full, then push the key on the frequent list *)
Lemma ghost_tail_blind s1 (full b : bool) k v old :
  match (do s2 <- (if full then areplace s1 b else Ok s1);
         do (t2', _) <- put_nonnull (t2 s2) (k, v);
         Ok (mkArc (asize s2) (ap s2) (t1 s2) (b1 s2) t2' (b2 s2), PUpdate old)) with
  | Ok (s', r) =>
    (do s2 <- (if full then kareplace (aproj s1) b else Ok (aproj s1));
     do (t2', _) <- kput_nonnull (kt2 s2) k;
     Ok (mkKA (kasize s2) (kap s2) (kt1 s2) (kb1 s2) t2' (kb2 s2), KUpdate)) = Ok (aproj s', put_keys r)
  | Panic n =>
    (do s2 <- (if full then kareplace (aproj s1) b else Ok (aproj s1));
     do (t2', _) <- kput_nonnull (kt2 s2) k;
     Ok (mkKA (kasize s2) (kap s2) (kt1 s2) (kb1 s2) t2' (kb2 s2), KUpdate)) = Panic n
  end.
Proof.
  assert (Hstep : forall s2,
    match (do (t2', _) <- put_nonnull (t2 s2) (k, v);
           Ok (mkArc (asize s2) (ap s2) (t1 s2) (b1 s2) t2' (b2 s2), PUpdate old)) with
    | Ok (s', r) =>
      (do (t2', _) <- kput_nonnull (kt2 (aproj s2)) k;
       Ok (mkKA (kasize (aproj s2)) (kap (aproj s2)) (kt1 (aproj s2)) (kb1 (aproj s2)) t2' (kb2 (aproj s2)), KUpdate))
      = Ok (aproj s', put_keys r)
    | Panic n =>
      (do (t2', _) <- kput_nonnull (kt2 (aproj s2)) k;
       Ok (mkKA (kasize (aproj s2)) (kap (aproj s2)) (kt1 (aproj s2)) (kb1 (aproj s2)) t2' (kb2 (aproj s2)), KUpdate))
      = Panic n
    end).
  { intros s2. cbn [aproj kt2 kasize kap kt1 kb1 kb2].
    pose proof (put_nonnull_blind (t2 s2) k v) as Hp.
    destruct (put_nonnull (t2 s2) (k, v)) as [[t2' o]|n]; rewrite Hp; reflexivity. }
  destruct full.
  - pose proof (areplace_blind s1 b) as Hr.
    destruct (areplace s1 b) as [s2|n]; rewrite Hr; cbn [bind]; [apply Hstep|reflexivity].
  - cbn [bind]. apply Hstep.
Qed.

Theorem aput_blind s k v :
  match aput s k v with
  | Ok (s', r) => kaput (aproj s) k = Ok (aproj s', put_keys r)
  | Panic n => kaput (aproj s) k = Panic n
  end.
Proof.
  unfold aput, kaput. cbn [aproj kt1 kt2 kb1 kb2 kap kasize].
  pose proof (remove_ent_blind (t1 s) k) as Hr.
  destruct (remove_ent (t1 s) k) as [t1' [[k0 old]|]]; destruct Hr as [Hr Hk]; rewrite Hr; cbn [hit].
  { specialize (Hk _ eq_refl). cbn in Hk. subst k0.
    pose proof (put_nonnull_blind (t2 s) k v) as Hp.
    destruct (put_nonnull (t2 s) (k, v)) as [[t2' o]|n]; rewrite Hp; reflexivity. }
  clear Hk Hr.
  pose proof (update_blind (t2 s) k v) as Hu.
  destruct (update (t2 s) k v) as [t2' [old|]]; rewrite Hu; cbn [hit]; [reflexivity|].
  rewrite !contains_kmem, !llen_klen.
  destruct (kmem k (kitems (kproj (b1 s)))).
  - pose proof (remove_ent_blind (b1 s) k) as Hq.
    destruct (remove_ent (b1 s) k) as [b1' [[k0 old]|]]; destruct Hq as [Hq Hk]; rewrite Hq; cbn [hit]; [|reflexivity].
    specialize (Hk _ eq_refl). cbn in Hk. subst k0.
    apply (ghost_tail_blind
             (mkArc (asize s) _ (t1 s) b1' (t2 s) (b2 s))
             (Nat.leb (asize s) (klen (kproj (t1 s)) + klen (kproj (t2 s)))) false k v old).
  - destruct (kmem k (kitems (kproj (b2 s)))).
    + pose proof (remove_ent_blind (b2 s) k) as Hq.
      destruct (remove_ent (b2 s) k) as [b2' [[k0 old]|]]; destruct Hq as [Hq Hk]; rewrite Hq; cbn [hit]; [|reflexivity].
      specialize (Hk _ eq_refl). cbn in Hk. subst k0.
      apply (ghost_tail_blind
               (mkArc (asize s) _ (t1 s) (b1 s) (t2 s) b2')
               (Nat.leb (asize s) (klen (kproj (t1 s)) + klen (kproj (t2 s)))) true k v old).
    + assert (Hs1 : match (if Nat.leb (asize s) (klen (kproj (t1 s)) + klen (kproj (t2 s))) then areplace s false else Ok s) with
                    | Ok s1 => (if Nat.leb (asize s) (klen (kproj (t1 s)) + klen (kproj (t2 s)))
                                then kareplace (aproj s) false else Ok (aproj s)) = Ok (aproj s1)
                    | Panic n => (if Nat.leb (asize s) (klen (kproj (t1 s)) + klen (kproj (t2 s)))
                                  then kareplace (aproj s) false else Ok (aproj s)) = Panic n
                    end).
      { destruct (Nat.leb _ _); [apply areplace_blind|reflexivity]. }
      change (mkKA (asize s) (ap s) (kproj (t1 s)) (kproj (b1 s)) (kproj (t2 s)) (kproj (b2 s))) with (aproj s).
      destruct (if Nat.leb (asize s) (klen (kproj (t1 s)) + klen (kproj (t2 s))) then areplace s false else Ok s)
        as [s1|n]; rewrite Hs1; cbn [bind]; [|reflexivity].
      cbn [aproj kt1 kt2 kb1 kb2].
      pose proof (put_blind (t1 s1) k v) as Hp.
      destruct (put (t1 s1) k v) as [[t1n r] cb]. rewrite <- Hp.
      rewrite <- !remove_lru_fst_blind.
      destruct (Nat.ltb (asize s - ap s) _), (Nat.ltb (ap s) _); reflexivity.
Qed.

Theorem aget_mut_blind s k w :
  match aget_mut s k w with
  | Ok (s', r) => kaget (aproj s) k = Ok (aproj s', hit r)
  | Panic n => kaget (aproj s) k = Panic n
  end.
Proof.
  unfold aget_mut, kaget. cbn [aproj kt1 kt2 kb1 kb2 kap kasize].
  pose proof (remove_ent_blind (t1 s) k) as Hr.
  destruct (remove_ent (t1 s) k) as [t1' [[k0 v0]|]]; destruct Hr as [Hr Hk]; rewrite Hr; cbn [hit].
  - specialize (Hk _ eq_refl). cbn in Hk. subst k0.
    pose proof (put_nonnull_blind (t2 s) k (match w with Some w0 => w0 | None => v0 end)) as Hp.
    destruct (put_nonnull (t2 s) _) as [[t2' o]|n]; rewrite Hp; reflexivity.
  - pose proof (get_mut_blind (t2 s) k w) as Hg.
    destruct (get_mut (t2 s) k w) as [t2' r]. rewrite <- Hg. reflexivity.
Qed.

Theorem aremove_blind s k :
  let '(s', r) := aremove s k in karemove (aproj s) k = (aproj s', hit r).
Proof.
  unfold aremove, karemove. cbn [aproj kt1 kt2 kb1 kb2 kap kasize].
  pose proof (remove_blind (t1 s) k) as H1.
  destruct (remove (t1 s) k) as [[t1' [v|]] c1]; rewrite <- H1; cbn [hit]; [reflexivity|].
  pose proof (remove_blind (t2 s) k) as H2.
  destruct (remove (t2 s) k) as [[t2' [v|]] c2]; rewrite <- H2; cbn [hit]; [reflexivity|].
  pose proof (remove_blind (b1 s) k) as H3.
  destruct (remove (b1 s) k) as [[b1' [v|]] c3]; rewrite <- H3; cbn [hit]; [reflexivity|].
  pose proof (remove_blind (b2 s) k) as H4.
  destruct (remove (b2 s) k) as [[b2' r] c4]. rewrite <- H4. reflexivity.
Qed.

Theorem alookups_blind s k :
  hit (apeek s k) = (kmem k (kitems (kt1 (aproj s))) || kmem k (kitems (kt2 (aproj s))))%bool /\
  acontains s k = (kmem k (kitems (kt1 (aproj s))) || kmem k (kitems (kt2 (aproj s))))%bool.
Proof.
  unfold apeek, acontains, contains, mem, peek, aproj, kproj. cbn [kitems kt1 kt2]. rewrite <- !find_kmem.
  destruct (find k (items (t1 s))), (find k (items (t2 s))); cbn; split; reflexivity.
Qed.
