(** * C09 — AdaptiveCache follows the ARC policy: exact statements.
    [q_victim], [drop_last], [last_e], [push_bounded] are the list functions of C08Proofs.v. *)
From VF Require Import Base Iter Enc Lru LruStep Arc CacheStep BaseFacts LruFacts Counts PrimFacts Tactics
  TwoQFacts ArcFacts C08Proofs.

(** the victim list of [replace]: the recent list when it is non-empty and longer than p (or
    exactly p on a hit in the frequent ghost list), otherwise the frequent list, falling back to
    whichever list is non-empty *)
Definition arc_prefers_recent (p : nat) (r : list entry) (b2_hit : bool) : bool :=
  Nat.ltb 0 (length r) && (Nat.ltb p (length r) || (Nat.eqb (length r) p && b2_hit)).

Lemma q_victim_recent_nonempty_or b r f :
  q_victim b r f = match (if b then last_e r else None) with
                   | Some e => Some (true, e)
                   | None => match last_e f with
                             | Some e => Some (false, e)
                             | None => option_map (pair true) (last_e r)
                             end
                   end.
Proof. unfold q_victim. destruct b; [|reflexivity]. destruct (last_e r), (last_e f); reflexivity. Qed.

(** [replace]: exactly one resident entry becomes the most-recent ghost of the matching ghost
    list (which drops its own LRU silently when full) *)
Theorem replace_exact s b :
  arc_inv s -> (1 <= llen (t1 s) + llen (t2 s))%nat ->
  exists fromr victim s',
    q_victim (arc_prefers_recent (ap s) (items (t1 s)) b) (items (t1 s)) (items (t2 s)) = Some (fromr, victim) /\
    areplace s b = Ok s' /\ asize s' = asize s /\ ap s' = ap s /\
    cap (t1 s') = cap (t1 s) /\ cap (t2 s') = cap (t2 s) /\ cap (b1 s') = cap (b1 s) /\ cap (b2 s') = cap (b2 s) /\
    items (t1 s') = (if fromr : bool then drop_last (items (t1 s)) else items (t1 s)) /\
    items (t2 s') = (if fromr then items (t2 s) else drop_last (items (t2 s))) /\
    items (b1 s') = (if fromr then fst (push_bounded (asize s) (items (b1 s)) victim) else items (b1 s)) /\
    items (b2 s') = (if fromr then items (b2 s) else fst (push_bounded (asize s) (items (b2 s)) victim)).
Proof.
  intros (Hs & Hc1 & Hc2 & Hc3 & Hc4 & Hp & Hr & Hg1 & Hg2 & Hd) Hne.
  unfold areplace, arc_prefers_recent. fold (llen (t1 s)).
  set (fr := Nat.ltb 0 (llen (t1 s)) && (Nat.ltb (ap s) (llen (t1 s)) || (Nat.eqb (llen (t1 s)) (ap s) && b))).
  destruct (fr || Nat.eqb (llen (t2 s)) 0) eqn:Ec.
  - destruct (remove_lru_in_spec (t1 s)) as [[Hit ->]|(rest & e & Hit & ->)].
    + exfalso. assert (Hl1 : llen (t1 s) = 0%nat) by (unfold llen; now rewrite Hit).
      subst fr. rewrite Hl1 in Ec. change (0 <? 0)%nat with false in Ec. cbn [andb orb] in Ec.
      apply Nat.eqb_eq in Ec. lia.
    + rewrite put_nonnull_push by lia. cbn [bind].
      exists true, e. eexists. split; [|split; [reflexivity|]].
      * unfold q_victim. rewrite Hit, last_e_snoc.
        destruct fr; [reflexivity|]. cbn in Ec. apply Nat.eqb_eq in Ec.
        unfold llen in Ec. destruct (items (t2 s)); [reflexivity|discriminate].
      * cbn [asize ap t1 t2 b1 b2 cap items with_items]. rewrite Hit, drop_last_snoc. repeat split; try reflexivity; rewrite ?Hc2, ?Hc4; reflexivity.
  - apply Bool.orb_false_iff in Ec. destruct Ec as [Efr Ec]. apply Nat.eqb_neq in Ec.
    destruct (remove_lru_in_spec (t2 s)) as [[Hit ->]|(rest & e & Hit & ->)].
    + exfalso. unfold llen in Ec. rewrite Hit in Ec. cbn in Ec. lia.
    + rewrite put_nonnull_push by lia. cbn [bind].
      exists false, e. eexists. split; [|split; [reflexivity|]].
      * unfold q_victim. rewrite Efr, Hit, last_e_snoc. reflexivity.
      * cbn [asize ap t1 t2 b1 b2 cap items with_items]. rewrite Hit, drop_last_snoc. repeat split; try reflexivity; rewrite ?Hc2, ?Hc4; reflexivity.
Qed.

(** ** put *)

(** second access, entry in the recent list: moved to the front of the frequent list *)
Theorem aput_recent_hit s k v old :
  arc_inv s -> find k (items (t1 s)) = Some old ->
  aput s k v = Ok (mkArc (asize s) (ap s) (with_items (t1 s) (remove_key k (items (t1 s)))) (b1 s)
                         (with_items (t2 s) ((k, v) :: items (t2 s))) (b2 s), PUpdate old).
Proof.
  intros (Hs & Hc1 & Hc2 & Hc3 & Hc4 & Hp & Hr & Hg1 & Hg2 & Hd) Hf. unfold aput.
  destruct (remove_ent_spec (t1 s) k) as [[Hn _]|(o & Hf' & ->)]; [congruence|].
  assert (o = old) by congruence; subst o.
  pose proof (cntl_find_some _ _ _ Hf) as Hpos. pose proof (length_remove_key_in _ _ Hpos) as Hlen.
  rewrite put_nonnull_push by lia. rewrite push_bounded_room by (unfold llen in *; lia). reflexivity.
Qed.

Theorem aput_frequent_hit s k v old :
  find k (items (t1 s)) = None -> find k (items (t2 s)) = Some old ->
  aput s k v = Ok (mkArc (asize s) (ap s) (t1 s) (b1 s)
                         (with_items (t2 s) ((k, v) :: remove_key k (items (t2 s)))) (b2 s), PUpdate old).
Proof.
  intros Hn Hf. unfold aput.
  destruct (remove_ent_spec (t1 s) k) as [[_ ->]|(o & Hf' & _)]; [|congruence].
  destruct (update_spec (t2 s) k v) as [[Hn2 _]|(o & Hf' & ->)]; [congruence|].
  assert (o = old) by congruence. now subst.
Qed.

Lemma div_max_one a b : (1 <= a)%nat -> (if Nat.ltb a b then Nat.div b a else 1%nat) = Nat.max 1 (Nat.div b a).
Proof.
  intros Ha. destruct (Nat.ltb_spec a b) as [H|H].
  - assert (1 <= b / a)%nat by (apply Nat.div_le_lower_bound; lia). lia.
  - assert (b / a <= 1)%nat.
    { destruct (Nat.eq_dec a b) as [->|Hne]; [rewrite Nat.div_same by lia; lia|].
      rewrite Nat.div_small by lia. lia. }
    lia.
Qed.

(** the state in which the key is admitted after a ghost hit or for a new key: the cache made
    room first when it was full *)
Definition made_room (s0 : arc) (full b2_hit : bool) (s1 : arc) : Prop :=
  (if full then areplace s0 b2_hit else Ok s0) = Ok s1.

(** a put that hits the recent ghost list: p is raised by max(1, |frequent ghosts| / |recent ghosts|)
    capped at the size, the cache makes room when full, and the key is revived into the frequent list *)
Theorem aput_recent_ghost_hit s k v old :
  arc_inv s -> find k (items (t1 s)) = None -> find k (items (t2 s)) = None ->
  find k (items (b1 s)) = Some old ->
  let p' := Nat.min (asize s) (ap s + Nat.max 1 (llen (b2 s) / llen (b1 s))) in
  let s1 := mkArc (asize s) p' (t1 s) (with_items (b1 s) (remove_key k (items (b1 s)))) (t2 s) (b2 s) in
  exists s2,
    made_room s1 (Nat.leb (asize s) (llen (t1 s) + llen (t2 s))) false s2 /\
    aput s k v = Ok (mkArc (asize s2) (ap s2) (t1 s2) (b1 s2)
                           (with_items (t2 s2) ((k, v) :: items (t2 s2))) (b2 s2), PUpdate old).
Proof.
  intros Hinv Hn1 Hn2 Hf p' s1. pose proof Hinv as (Hs & Hc1 & Hc2 & Hc3 & Hc4 & Hp & Hr & Hg1 & Hg2 & Hd).
  pose proof (Hd k) as Hdk. unfold aput, made_room.
  destruct (remove_ent_spec (t1 s) k) as [[_ ->]|(o & Hf' & _)]; [|congruence].
  destruct (update_spec (t2 s) k v) as [[_ ->]|(o & Hf' & _)]; [|congruence].
  rewrite contains_find, Hf.
  destruct (remove_ent_spec (b1 s) k) as [[Hn _]|(o & Hf' & ->)]; [congruence|].
  assert (o = old) by congruence; subst o.
  pose proof (cntl_find_some _ _ _ Hf) as Hpos. pose proof (length_remove_key_in _ _ Hpos) as Hlen.
  assert (Hb1 : (1 <= llen (b1 s))%nat) by (unfold llen; lia).
  rewrite (div_max_one _ (llen (b2 s)) Hb1).
  assert (Ep : (if Nat.leb (asize s) (ap s + Nat.max 1 (llen (b2 s) / llen (b1 s))) then asize s
                else (ap s + Nat.max 1 (llen (b2 s) / llen (b1 s)))%nat) = p').
  { subst p'. destruct (Nat.leb_spec (asize s) (ap s + Nat.max 1 (llen (b2 s) / llen (b1 s)))); lia. }
  rewrite Ep. fold s1.
  assert (Hi1 : arc_inv s1).
  { subst s1 p'. repeat split; unfold llen in *; proj; try lia.
    intros x. pose proof (Hd x). autorewrite with cnt. eqb_cases; lia. }
  destruct (maybe_replace_ok s1 (Nat.leb (asize s) (llen (t1 s) + llen (t2 s))) false Hi1)
    as (s2 & E2 & Hi2 & Hsz2 & Hp2 & Hle2 & Hres2).
  { intros E. apply Nat.leb_le in E. subst s1. proj. lia. }
  rewrite E2. cbn [bind]. exists s2. split; [reflexivity|].
  pose proof Hi2 as (Hs' & Hc1' & Hc2' & Hc3' & Hc4' & Hp' & Hr' & Hg1' & Hg2' & Hd').
  assert (Hroom : (llen (t1 s2) + llen (t2 s2) < asize s)%nat).
  { subst s1. destruct (Nat.leb_spec (asize s) (llen (t1 s) + llen (t2 s))); proj; [lia|subst s2; proj; lia]. }
  rewrite put_nonnull_push by (cbn in *; lia).
  rewrite push_bounded_room by (unfold llen in *; cbn in *; lia). reflexivity.
Qed.

(** a put that hits the frequent ghost list: p is lowered by max(1, |recent ghosts| / |frequent ghosts|)
    floored at 0 *)
Theorem aput_frequent_ghost_hit s k v old :
  arc_inv s -> find k (items (t1 s)) = None -> find k (items (t2 s)) = None ->
  find k (items (b1 s)) = None -> find k (items (b2 s)) = Some old ->
  let p' := (ap s - Nat.max 1 (llen (b1 s) / llen (b2 s)))%nat in
  let s1 := mkArc (asize s) p' (t1 s) (b1 s) (t2 s) (with_items (b2 s) (remove_key k (items (b2 s)))) in
  exists s2,
    made_room s1 (Nat.leb (asize s) (llen (t1 s) + llen (t2 s))) true s2 /\
    aput s k v = Ok (mkArc (asize s2) (ap s2) (t1 s2) (b1 s2)
                           (with_items (t2 s2) ((k, v) :: items (t2 s2))) (b2 s2), PUpdate old).
Proof.
  intros Hinv Hn1 Hn2 Hn3 Hf p' s1. pose proof Hinv as (Hs & Hc1 & Hc2 & Hc3 & Hc4 & Hp & Hr & Hg1 & Hg2 & Hd).
  pose proof (Hd k) as Hdk. unfold aput, made_room.
  destruct (remove_ent_spec (t1 s) k) as [[_ ->]|(o & Hf' & _)]; [|congruence].
  destruct (update_spec (t2 s) k v) as [[_ ->]|(o & Hf' & _)]; [|congruence].
  rewrite !contains_find, Hn3, Hf.
  destruct (remove_ent_spec (b2 s) k) as [[Hn _]|(o & Hf' & ->)]; [congruence|].
  assert (o = old) by congruence; subst o.
  pose proof (cntl_find_some _ _ _ Hf) as Hpos. pose proof (length_remove_key_in _ _ Hpos) as Hlen.
  assert (Hb2 : (1 <= llen (b2 s))%nat) by (unfold llen; lia).
  rewrite (div_max_one _ (llen (b1 s)) Hb2).
  assert (Ep : (if Nat.leb (ap s) (Nat.max 1 (llen (b1 s) / llen (b2 s))) then 0%nat
                else (ap s - Nat.max 1 (llen (b1 s) / llen (b2 s)))%nat) = p').
  { subst p'. destruct (Nat.leb_spec (ap s) (Nat.max 1 (llen (b1 s) / llen (b2 s)))); lia. }
  rewrite Ep. fold s1.
  assert (Hi1 : arc_inv s1).
  { subst s1 p'. repeat split; unfold llen in *; proj; try lia.
    intros x. pose proof (Hd x). autorewrite with cnt. eqb_cases; lia. }
  destruct (maybe_replace_ok s1 (Nat.leb (asize s) (llen (t1 s) + llen (t2 s))) true Hi1)
    as (s2 & E2 & Hi2 & Hsz2 & Hp2 & Hle2 & Hres2).
  { intros E. apply Nat.leb_le in E. subst s1. proj. lia. }
  rewrite E2. cbn [bind]. exists s2. split; [reflexivity|].
  pose proof Hi2 as (Hs' & Hc1' & Hc2' & Hc3' & Hc4' & Hp' & Hr' & Hg1' & Hg2' & Hd').
  assert (Hroom : (llen (t1 s2) + llen (t2 s2) < asize s)%nat).
  { subst s1. destruct (Nat.leb_spec (asize s) (llen (t1 s) + llen (t2 s))); proj; [lia|subst s2; proj; lia]. }
  rewrite put_nonnull_push by (cbn in *; lia).
  rewrite push_bounded_room by (unfold llen in *; cbn in *; lia). reflexivity.
Qed.

(** a brand-new key: the cache makes room when full, the ghost lists are kept trim (with the
    lengths they had before making room), the key enters the recent list; never an eviction
    reported, never an update *)
Theorem aput_new_key s k v :
  arc_inv s -> find k (items (t1 s)) = None -> find k (items (t2 s)) = None ->
  find k (items (b1 s)) = None -> find k (items (b2 s)) = None ->
  exists s1,
    made_room s (Nat.leb (asize s) (llen (t1 s) + llen (t2 s))) false s1 /\
    aput s k v =
    Ok (mkArc (asize s) (ap s) (with_items (t1 s1) ((k, v) :: items (t1 s1)))
              (if Nat.ltb (asize s - ap s) (llen (b1 s)) then with_items (b1 s1) (drop_last (items (b1 s1))) else b1 s1)
              (t2 s1)
              (if Nat.ltb (ap s) (llen (b2 s)) then with_items (b2 s1) (drop_last (items (b2 s1))) else b2 s1),
        PPut).
Proof.
  intros Hinv Hn1 Hn2 Hn3 Hn4. pose proof Hinv as (Hs & Hc1 & Hc2 & Hc3 & Hc4 & Hp & Hr & Hg1 & Hg2 & Hd).
  unfold aput, made_room.
  destruct (remove_ent_spec (t1 s) k) as [[_ ->]|(o & Hf' & _)]; [|congruence].
  destruct (update_spec (t2 s) k v) as [[_ ->]|(o & Hf' & _)]; [|congruence].
  rewrite !contains_find, Hn3, Hn4.
  destruct (maybe_replace_ok s (Nat.leb (asize s) (llen (t1 s) + llen (t2 s))) false Hinv)
    as (s1 & E1 & Hi1 & Hsz1 & Hp1 & Hle1 & Hres1).
  { intros E. apply Nat.leb_le in E. lia. }
  rewrite E1. cbn [bind]. exists s1. split; [reflexivity|].
  pose proof Hi1 as (Hs' & Hc1' & Hc2' & Hc3' & Hc4' & Hp' & Hr' & Hg1' & Hg2' & Hd').
  assert (Hroom : (llen (t1 s1) + llen (t2 s1) < asize s)%nat).
  { destruct (Nat.leb_spec (asize s) (llen (t1 s) + llen (t2 s))); [lia|subst s1; lia]. }
  assert (Hk1 : find k (items (t1 s1)) = None).
  { apply cntl_zero_find. pose proof (Hle1 k) as Hk. unfold asum in Hk.
    pose proof (cntl_find_none _ _ Hn1). pose proof (cntl_find_none _ _ Hn2).
    pose proof (cntl_find_none _ _ Hn3). pose proof (cntl_find_none _ _ Hn4). lia. }
  destruct (put_spec (t1 s1) k v ltac:(lia) ltac:(lia))
    as [(old & Hf1 & _)|[(_ & _ & ->)|(_ & Hfull & _)]]; [congruence| |lia].
  assert (Htrim : forall l, fst (fst (remove_lru l)) = with_items l (drop_last (items l))).
  { intros l. destruct (remove_lru_spec l) as [[Hit ->]|(rest & e & Hit & ->)]; cbn [fst].
    - rewrite Hit. destruct l; cbn in *; subst; reflexivity.
    - now rewrite Hit, drop_last_snoc. }
  rewrite !Htrim. reflexivity.
Qed.

(** ** get / get_mut *)
Theorem aget_recent_hit s k w old :
  arc_inv s -> find k (items (t1 s)) = Some old ->
  aget_mut s k w =
  Ok (mkArc (asize s) (ap s) (with_items (t1 s) (remove_key k (items (t1 s)))) (b1 s)
            (with_items (t2 s) ((k, match w with Some x => x | None => old end) :: items (t2 s))) (b2 s),
      Some old).
Proof.
  intros (Hs & Hc1 & Hc2 & Hc3 & Hc4 & Hp & Hr & Hg1 & Hg2 & Hd) Hf. unfold aget_mut.
  destruct (remove_ent_spec (t1 s) k) as [[Hn _]|(o & Hf' & ->)]; [congruence|].
  assert (o = old) by congruence; subst o.
  pose proof (cntl_find_some _ _ _ Hf) as Hpos. pose proof (length_remove_key_in _ _ Hpos) as Hlen.
  rewrite put_nonnull_push by lia. rewrite push_bounded_room by (unfold llen in *; lia). reflexivity.
Qed.

Theorem aget_frequent_hit s k w old :
  find k (items (t1 s)) = None -> find k (items (t2 s)) = Some old ->
  aget_mut s k w =
  Ok (mkArc (asize s) (ap s) (t1 s) (b1 s)
            (with_items (t2 s) (set_val_opt k w ((k, old) :: remove_key k (items (t2 s))))) (b2 s),
      Some old).
Proof.
  intros Hn Hf. unfold aget_mut.
  destruct (remove_ent_spec (t1 s) k) as [[_ ->]|(o & Hf' & _)]; [|congruence].
  destruct (get_mut_spec (t2 s) k w) as [[Hn2 _]|(o & Hf' & ->)]; [congruence|].
  assert (o = old) by congruence. now subst.
Qed.

Theorem aget_miss s k w :
  find k (items (t1 s)) = None -> find k (items (t2 s)) = None -> aget_mut s k w = Ok (s, None).
Proof.
  intros Hn1 Hn2. unfold aget_mut.
  destruct (remove_ent_spec (t1 s) k) as [[_ ->]|(o & Hf' & _)]; [|congruence].
  destruct (get_mut_spec (t2 s) k w) as [[_ ->]|(o & Hf' & _)]; [|congruence]. now destruct s.
Qed.
