(** * Running a history: the generic induction that lifts a one-step lemma
    ("the step returns normally and preserves the invariant") to every reachable state. *)
From VF Require Import Base.

Fixpoint runM {S O : Type} (step : S -> O -> res (S * list Z)) (s : S) (ops : list O) : res S :=
  match ops with
  | [] => Ok s
  | o :: t => match step s o with
              | Ok (s', _) => runM step s' t
              | Panic n => Panic n
              end
  end.

(** the outputs of a history, in order (a panic ends the list with [-1000]) *)
Fixpoint outsM {S O : Type} (step : S -> O -> res (S * list Z)) (s : S) (ops : list O) : list (list Z) :=
  match ops with
  | [] => []
  | o :: t => match step s o with
              | Ok (s', out) => out :: outsM step s' t
              | Panic n => [[-1000]]
              end
  end.

Lemma runM_inv {S O : Type} (step : S -> O -> res (S * list Z)) (Inv : S -> Prop) :
  (forall s o, Inv s -> exists s' out, step s o = Ok (s', out) /\ Inv s') ->
  forall ops s, Inv s -> exists s', runM step s ops = Ok s' /\ Inv s'.
Proof.
  intros Hstep. induction ops as [|o t IH]; intros s Hs; cbn; [eauto|].
  destruct (Hstep s o Hs) as (s' & out & -> & Hs'). now apply IH.
Qed.

Lemma runM_app {S O : Type} (step : S -> O -> res (S * list Z)) (s : S) (a b : list O) :
  runM step s (a ++ b) = match runM step s a with Ok s' => runM step s' b | Panic n => Panic n end.
Proof.
  revert s. induction a as [|o t IH]; intros s; cbn; [reflexivity|].
  destruct (step s o) as [[s' out]|n]; [apply IH|reflexivity].
Qed.
