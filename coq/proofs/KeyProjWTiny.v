(** * The decisions of WTinyLFUCache do not look at the values.

    W-TinyLFU written over keys alone ([kwtiny]: the estimator, an LRU set for the window, the segmented cache over keys
    for the main cache), and the key projection of the model ([WTiny.v]) as a simulation of it: the admission duel, the
    window hit that promotes into the protected segment, the demotion into the window, what a put reports (as keys),
    the accesses the estimator records and whether a call panics are functions of the keys, the capacities and the
    estimator. *)
From Coq Require Import List ZArith NArith Arith Lia.
Import ListNotations.
From VF Require Import Base Lru Slru Tiny WTiny BaseFacts KeyProj KeyProjSlru.

Record kwtiny := mkKW { kw_tiny : tinylfu; kw_lru : kset; kw_slru : kslru; kw_kh : Z }.
Definition wproj (s : wtiny) : kwtiny := mkKW (wt_tiny s) (kproj (wt_lru s)) (sproj (wt_slru s)) (wt_kh s).
Definition kw_with (s : kwtiny) (t : tinylfu) (l : kset) (m : kslru) : kwtiny := mkKW t l m (kw_kh s).

Definition klen (s : kset) : nat := length (kitems s).
Definition kslen (m : kslru) : nat := (klen (snd m) + klen (fst m))%nat.
Definition kscap (m : kslru) : nat := (kcap (snd m) + kcap (fst m))%nat.
Definition kscontains (m : kslru) (k : key) : bool := (kmem k (kitems (snd m)) || kmem k (kitems (fst m)))%bool.

Definition kw_admit (s : kwtiny) (l1 : kset) (ck : key) : res (kwtiny * kput_result) :=
  let m := kw_slru s in
  if Nat.ltb (kslen m) (kscap m) then
    do (m', r) <- ksput m ck; Ok (kw_with s (kw_tiny s) l1 m', r)
  else
    match option_map snd (ksplit_last (kitems (fst m))) with
    | None => do (m', r) <- ksput m ck; Ok (kw_with s (kw_tiny s) l1 m', r)
    | Some vk =>
      do lt <- tl_lt (kw_tiny s) (key_hash (kw_kh s) ck) (key_hash (kw_kh s) vk);
      if lt then Ok (kw_with s (kw_tiny s) l1 m, KEvicted ck)
      else do (m', r) <- ksput m ck; Ok (kw_with s (kw_tiny s) l1 m', r)
    end.

Definition kwput (s : kwtiny) (k : key) : res (kwtiny * kput_result) :=
  match kremove (kw_lru s) k with
  | (l1, true) =>
    let m := kw_slru s in
    do (l2, m1) <-
       (if Nat.leb (kcap (snd m)) (klen (snd m)) then
          match kremove_lru (snd m) with
          | (p', Some ek) => let '(l2, _) := kput l1 ek in Ok (l2, (fst m, p'))
          | (_, None) => Panic 50
          end
        else Ok (l1, m));
    let '(m2, _) := ksput_protected m1 k in
    Ok (kw_with s (kw_tiny s) l2 m2, KUpdate)
  | (_, false) =>
    if kscontains (kw_slru s) k then
      do (m', r) <- ksput (kw_slru s) k; Ok (kw_with s (kw_tiny s) (kw_lru s) m', r)
    else
      let '(l1, r) := kput (kw_lru s) k in
      match r with
      | KPut => Ok (kw_with s (kw_tiny s) l1 (kw_slru s), KPut)
      | KUpdate => Ok (kw_with s (kw_tiny s) l1 (kw_slru s), KUpdate)
      | KEvicted ck => kw_admit s l1 ck
      end
  end.

Definition kwget (s : kwtiny) (k : key) : res (kwtiny * bool) :=
  do t' <- tl_increment (tl_try_reset (kw_tiny s)) (key_hash (kw_kh s) k);
  match kget (kw_lru s) k with
  | (l1, true) => Ok (kw_with s t' l1 (kw_slru s), true)
  | (_, false) => do (m', r) <- ksget (kw_slru s) k; Ok (kw_with s t' (kw_lru s) m', r)
  end.

Definition kwremove (s : kwtiny) (k : key) : kwtiny * bool :=
  match kremove (kw_lru s) k with
  | (l1, true) => (kw_with s (kw_tiny s) l1 (kw_slru s), true)
  | (_, false) => let '(m', r) := ksremove (kw_slru s) k in (kw_with s (kw_tiny s) (kw_lru s) m', r)
  end.

(** ** sizes and lookups of the main cache *)
Lemma llen_klen s : llen s = klen (kproj s).
Proof. unfold llen, klen, kproj. cbn [kitems]. now rewrite keys_length. Qed.

Lemma slen_kslen m : slen m = kslen (sproj m).
Proof. unfold slen, kslen, sproj. cbn [fst snd]. now rewrite !llen_klen. Qed.

Lemma scap_kscap m : scap m = kscap (sproj m).
Proof. reflexivity. Qed.

Lemma scontains_kscontains m k : scontains m k = kscontains (sproj m) k.
Proof. unfold kscontains, sproj. cbn [fst snd]. apply (slookups_blind m k). Qed.

Lemma peek_lru_key s : option_map fst (peek_lru s) = option_map snd (ksplit_last (kitems (kproj s))).
Proof. apply (ends_blind s). Qed.

(** the case where the put on the window reports an eviction that is really an update cannot arise for RawLRU's own
    [put] (it never builds [PEvictedAndUpdate]); the model's last branch is kept for totality *)
Lemma put_no_eau s k v : forall a b c, snd (fst (put s k v)) <> PEvictedAndUpdate a b c.
Proof.
  intros a b c. unfold put. destruct (find k (items s)); cbn; [discriminate|].
  destruct (Nat.eqb (cap s) 0); cbn; [discriminate|].
  destruct (Nat.eqb (llen s) (cap s)); cbn; [|discriminate].
  destruct (split_last (items s)) as [[rest [ek ev]]|]; cbn; discriminate.
Qed.

(** ** the operations *)
Lemma sput_step (s : wtiny) t l1 m ck cv :
  match (do (m', r) <- sput m ck cv; Ok (wt_with s t l1 m', r)) with
  | Ok (s', r) =>
    (do (m', r) <- ksput (sproj m) ck; Ok (kw_with (wproj s) t (kproj l1) m', r)) = Ok (wproj s', put_keys r)
  | Panic n => (do (m', r) <- ksput (sproj m) ck; Ok (kw_with (wproj s) t (kproj l1) m', r)) = Panic n
  end.
Proof.
  pose proof (sput_blind m ck cv) as H.
  destruct (sput m ck cv) as [[m' r]|n]; rewrite H; reflexivity.
Qed.

Lemma wt_admit_blind s l1 ck cv :
  match wt_admit s l1 ck cv with
  | Ok (s', r) => kw_admit (wproj s) (kproj l1) ck = Ok (wproj s', put_keys r)
  | Panic n => kw_admit (wproj s) (kproj l1) ck = Panic n
  end.
Proof.
  unfold wt_admit, kw_admit. cbn [wproj kw_slru kw_tiny kw_kh].
  rewrite slen_kslen, scap_kscap.
  destruct (Nat.ltb _ _); [apply sput_step|].
  change (fst (sproj (wt_slru s))) with (kproj (prob (wt_slru s))).
  rewrite <- peek_lru_key.
  destruct (peek_lru (prob (wt_slru s))) as [[vk vv]|]; cbn [option_map fst]; [|apply sput_step].
  destruct (tl_lt (wt_tiny s) _ _) as [lt|n]; cbn [bind]; [|reflexivity].
  destruct lt; [reflexivity|apply sput_step].
Qed.

Theorem wput_blind s k v :
  match wput s k v with
  | Ok (s', r) => kwput (wproj s) k = Ok (wproj s', put_keys r)
  | Panic n => kwput (wproj s) k = Panic n
  end.
Proof.
  unfold wput, kwput. cbn [wproj kw_lru kw_slru kw_tiny kw_kh].
  pose proof (remove_blind (wt_lru s) k) as Hr.
  destruct (remove (wt_lru s) k) as [[l1 [old|]] cb]; rewrite <- Hr; cbn [hit].
  - (* window hit *)
    change (snd (sproj (wt_slru s))) with (kproj (prot (wt_slru s))).
    change (fst (sproj (wt_slru s))) with (kproj (prob (wt_slru s))).
    rewrite <- llen_klen. change (kcap (kproj (prot (wt_slru s)))) with (cap (prot (wt_slru s))).
    destruct (Nat.leb (cap (prot (wt_slru s))) (llen (prot (wt_slru s)))).
    + pose proof (remove_lru_blind (prot (wt_slru s))) as Hl.
      destruct (remove_lru (prot (wt_slru s))) as [[p' [[ek ev]|]] cb']; rewrite <- Hl; cbn [option_map fst]; [|reflexivity].
      pose proof (put_blind l1 ek ev) as Hp.
      destruct (put l1 ek ev) as [[l2 r2] cb2]. rewrite <- Hp. cbn [bind].
      pose proof (sput_protected_blind (mkSlru (prob (wt_slru s)) p') k v) as Hs.
      destruct (sput_protected (mkSlru (prob (wt_slru s)) p') k v) as [m2 r].
      change (kproj (prob (wt_slru s)), kproj p') with (sproj (mkSlru (prob (wt_slru s)) p')).
      rewrite Hs. reflexivity.
    + cbn [bind].
      pose proof (sput_protected_blind (wt_slru s) k v) as Hs.
      destruct (sput_protected (wt_slru s) k v) as [m2 r]. rewrite Hs. reflexivity.
  - rewrite scontains_kscontains. destruct (kscontains (sproj (wt_slru s)) k).
    + apply (sput_step s (wt_tiny s) (wt_lru s) (wt_slru s) k v).
    + pose proof (put_blind (wt_lru s) k v) as Hp. pose proof (put_no_eau (wt_lru s) k v) as Hn.
      destruct (put (wt_lru s) k v) as [[l1' r] cb']. rewrite <- Hp. cbn [fst snd] in Hn.
      destruct r as [|o|ck cv|a b c]; cbn [put_keys]; try reflexivity.
      * apply wt_admit_blind.
      * exfalso. now apply (Hn a b c).
Qed.

Theorem wget_mut_blind s k w :
  match wget_mut s k w with
  | Ok (s', r) => kwget (wproj s) k = Ok (wproj s', hit r)
  | Panic n => kwget (wproj s) k = Panic n
  end.
Proof.
  unfold wget_mut, kwget, wt_record. cbn [wproj kw_lru kw_slru kw_tiny kw_kh].
  destruct (tl_increment _ _) as [t'|n]; cbn [bind]; [|reflexivity].
  pose proof (get_mut_blind (wt_lru s) k w) as Hg.
  destruct (get_mut (wt_lru s) k w) as [l1 [v|]]; rewrite <- Hg; cbn [hit]; [reflexivity|].
  pose proof (sget_mut_blind (wt_slru s) k w) as Hs.
  destruct (sget_mut (wt_slru s) k w) as [[m' r]|n]; rewrite Hs; reflexivity.
Qed.

Theorem wremove_blind s k :
  let '(s', r) := wremove s k in kwremove (wproj s) k = (wproj s', hit r).
Proof.
  unfold wremove, kwremove. cbn [wproj kw_lru kw_slru kw_tiny kw_kh].
  pose proof (remove_blind (wt_lru s) k) as Hr.
  destruct (remove (wt_lru s) k) as [[l1 [v|]] cb]; rewrite <- Hr; cbn [hit]; [reflexivity|].
  pose proof (sremove_blind (wt_slru s) k) as Hs.
  destruct (sremove (wt_slru s) k) as [m' r]. rewrite Hs. reflexivity.
Qed.
