(** * C07 — SegmentedCache follows the segmented-LRU policy: exact list-level statements. *)
From VF Require Import Base Iter Enc Lru LruStep Slru CacheStep BaseFacts LruFacts Counts PrimFacts SlruFacts.

Arguments put_nonnull : simpl never.
Arguments remove_ent : simpl never.
Arguments Lru.put : simpl never.
Arguments Lru.remove : simpl never.
Arguments Lru.update : simpl never.
Arguments Lru.get_mut : simpl never.

(** the promotion path: the hit entry becomes the most recent protected entry; when protected was
    full its least recent entry [d] becomes the most recent probationary entry (the slot the
    promoted key vacated is always free, so nothing leaves the cache) *)
Definition promoted (s s' : slru) (k : key) (v1 : val) : Prop :=
  cap (prob s') = cap (prob s) /\ cap (prot s') = cap (prot s) /\
  (((llen (prot s) < cap (prot s))%nat /\
    items (prot s') = (k, v1) :: items (prot s) /\
    items (prob s') = remove_key k (items (prob s))) \/
   (llen (prot s) = cap (prot s) /\ exists rest d,
      items (prot s) = rest ++ [d] /\
      items (prot s') = (k, v1) :: rest /\
      items (prob s') = d :: remove_key k (items (prob s)))).

Lemma move_to_protected_exact s k v0 w :
  slru_inv s -> find k (items (prob s)) = Some v0 ->
  exists s', move_to_protected s k w = Ok s' /\
             promoted s s' k (match w with Some x => x | None => v0 end).
Proof.
  intros (Hc1 & Hc2 & Hl1 & Hl2 & Hd) Hf. unfold move_to_protected, promoted.
  destruct (remove_ent_spec (prob s) k) as [[Hn _]|[v [Hv ->]]]; [congruence|].
  assert (v = v0) by congruence; subst v.
  pose proof (cntl_find_some _ _ _ Hf) as Hpos.
  pose proof (length_remove_key_in _ _ Hpos) as Hlen.
  set (v1 := match w with Some w0 => w0 | None => v0 end).
  unfold put_or_evict_nonnull.
  destruct (put_nonnull_spec (prot s) (k, v1) Hc2) as [[Hlt ->]|[Hge (rest & d & Hit & ->)]]; cbn [bind].
  - eexists; split; [reflexivity|]. cbn [prob prot cap items with_items]. auto 6.
  - assert (Hcp : (1 <= cap (with_items (prob s) (remove_key k (items (prob s)))))%nat) by (cbn; lia).
    destruct (put_nonnull_spec (with_items (prob s) (remove_key k (items (prob s)))) d Hcp)
      as [[Hlt ->]|[Hge2 _]].
    + cbn [bind]. eexists; split; [reflexivity|]. cbn [prob prot cap items with_items].
      split; [reflexivity|]. split; [reflexivity|]. right. split; [unfold llen in *; lia|]. eauto.
    + exfalso. unfold llen in *. cbn [items with_items cap] in Hge2. lia.
Qed.

(** ** clause 1 and 5: a new key enters probationary; only probationary's LRU can be evicted *)
Theorem new_key_enters_probationary s k v :
  slru_inv s -> find k (items (prob s)) = None -> find k (items (prot s)) = None ->
  exists s' r, sput s k v = Ok (s', r) /\ prot s' = prot s /\ cap (prob s') = cap (prob s) /\
    (((llen (prob s) < cap (prob s))%nat /\ r = PPut /\ items (prob s') = (k, v) :: items (prob s)) \/
     (llen (prob s) = cap (prob s) /\ exists rest ek ev,
        items (prob s) = rest ++ [(ek, ev)] /\ r = PEvicted ek ev /\
        items (prob s') = (k, v) :: rest)).
Proof.
  intros (Hc1 & Hc2 & Hl1 & Hl2 & Hd) Hf1 Hf2. unfold sput.
  destruct (update_spec (prot s) k v) as [[_ ->]|(old & Hf & _)]; [|congruence].
  rewrite Hf1.
  destruct (put_spec (prob s) k v Hc1 Hl1)
    as [(old & Hf & _)|[(_ & Hlt & ->)|(_ & Hfull & rest & ek & ev & Hit & ->)]]; [congruence| |].
  - do 2 eexists; split; [reflexivity|]. cbn [prob prot cap items with_items]. auto 7.
  - do 2 eexists; split; [reflexivity|]. cbn [prob prot cap items with_items].
    split; [reflexivity|]. split; [reflexivity|]. right. split; [exact Hfull|]. eauto 8.
Qed.

(** ** clause 2 and 4: a hit on a probationary entry promotes it (get, get_mut, put) *)
Theorem probationary_hit_promotes_get s k v0 w :
  slru_inv s -> find k (items (prot s)) = None -> find k (items (prob s)) = Some v0 ->
  exists s', sget_mut s k w = Ok (s', Some v0) /\
             promoted s s' k (match w with Some x => x | None => v0 end).
Proof.
  intros Hinv Hf2 Hf1. unfold sget_mut.
  destruct (get_mut_spec (prot s) k w) as [[_ ->]|(v & Hf & _)]; [|congruence].
  rewrite Hf1. destruct (move_to_protected_exact s k v0 w Hinv Hf1) as (s' & -> & P).
  cbn [bind]. eauto.
Qed.

Theorem probationary_hit_promotes_put s k v0 v :
  slru_inv s -> find k (items (prot s)) = None -> find k (items (prob s)) = Some v0 ->
  exists s', sput s k v = Ok (s', PUpdate v0) /\ promoted s s' k v.
Proof.
  intros Hinv Hf2 Hf1. unfold sput.
  destruct (update_spec (prot s) k v) as [[_ ->]|(old & Hf & _)]; [|congruence].
  rewrite Hf1. destruct (move_to_protected_exact s k v0 (Some v) Hinv Hf1) as (s' & -> & P).
  cbn [bind]. eauto.
Qed.

(** ** clause 3: a hit on a protected entry only refreshes it *)
Theorem protected_hit_refreshes_get s k v0 w :
  find k (items (prot s)) = Some v0 ->
  sget_mut s k w =
  Ok (mkSlru (prob s) (with_items (prot s) (set_val_opt k w ((k, v0) :: remove_key k (items (prot s))))),
      Some v0).
Proof.
  intros Hf. unfold sget_mut.
  destruct (get_mut_spec (prot s) k w) as [[Hn _]|(v & Hf' & ->)]; [congruence|].
  assert (v = v0) by congruence. now subst.
Qed.

Theorem protected_hit_refreshes_put s k v0 v :
  find k (items (prot s)) = Some v0 ->
  sput s k v =
  Ok (mkSlru (prob s) (with_items (prot s) ((k, v) :: remove_key k (items (prot s)))), PUpdate v0).
Proof.
  intros Hf. unfold sput.
  destruct (update_spec (prot s) k v) as [[Hn _]|(old & Hf' & ->)]; [congruence|].
  assert (old = v0) by congruence. now subst.
Qed.

(** nothing leaves the cache on a promotion: the key multiset of the two segments is unchanged *)
Theorem promotion_conserves s s' k v1 x :
  (0 < cntl (items (prob s)) k)%nat -> promoted s s' k v1 -> scnt s' x = scnt s x.
Proof.
  intros Hpos (_ & _ & [(_ & E1 & E2)|(_ & rest & [dk dv] & Eo & E1 & E2)]); unfold scnt;
    rewrite E1, E2, ?Eo; autorewrite with cnt; eqb_cases; lia.
Qed.

(** a miss changes nothing *)
Theorem miss_changes_nothing s k w :
  find k (items (prot s)) = None -> find k (items (prob s)) = None -> sget_mut s k w = Ok (s, None).
Proof.
  intros H1 H2. unfold sget_mut.
  destruct (get_mut_spec (prot s) k w) as [[_ ->]|(v & Hf & _)]; [|congruence]. now rewrite H2.
Qed.

(** ** clause 6: put_protected places the key in protected and nowhere else *)
Theorem put_protected_exact s k v :
  slru_inv s ->
  let s' := fst (sput_protected s k v) in
  (exists rest, items (prot s') = (k, v) :: rest) /\ find k (items (prob s')) = None /\
  items (prob s') = remove_key k (items (prob s)) /\
  cap (prob s') = cap (prob s) /\ cap (prot s') = cap (prot s).
Proof.
  intros (Hc1 & Hc2 & Hl1 & Hl2 & Hd). unfold sput_protected.
  assert (Hnd : NoDup (keys (items (prob s)))).
  { apply cntl_nodup. intros x. pose proof (Hd x). lia. }
  assert (Hhd : exists rest, items (fst (fst (Lru.put (prot s) k v))) = (k, v) :: rest /\
                             cap (fst (fst (Lru.put (prot s) k v))) = cap (prot s)).
  { destruct (put_spec (prot s) k v Hc2 Hl2)
      as [(old & _ & ->)|[(_ & _ & ->)|(_ & _ & rest & ek & ev & _ & ->)]]; cbn; eauto. }
  destruct Hhd as (rest & Hhd & Hcap).
  destruct (remove_spec (prob s) k) as [[Hn ->]|(old & Hf & ->)].
  - destruct (Lru.put (prot s) k v) as [[p' r] cb]. cbn [fst prob prot] in *.
    split; [eauto|]. split; [exact Hn|]. split; [|auto].
    symmetry. apply remove_key_notin. now apply find_none_notin.
  - destruct (Lru.put (prot s) k v) as [[p' r] cb]. cbn [fst prob prot items with_items cap] in *.
    split; [eauto|]. split; [now apply find_remove_key_same|]. auto.
Qed.
