(** * C20 — SampledLFU cost accounting is exact. *)
From VF Require Import Base Sampled TinyStep BaseFacts Counts LruFacts.
From Coq Require Import Permutation.
Open Scope Z_scope.

Fixpoint total (l : list (Z * Z)) : Z :=
  match l with [] => 0 | e :: t => snd e + total t end.

Ltac Zify.zify_post_hook ::= Z.div_mod_to_equations.

(** the arithmetic of [wrapping_add] / [wrapping_sub]: a ring homomorphism onto the i64 range *)
Lemma w64_add_l a b : w64 (w64 a + b) = w64 (a + b).
Proof. unfold w64. lia. Qed.
Lemma w64_add_r a b : w64 (a + w64 b) = w64 (a + b).
Proof. unfold w64. lia. Qed.
Lemma w64_sub_l a b : w64 (w64 a - b) = w64 (a - b).
Proof. unfold w64. lia. Qed.
Lemma w64_sub_r a b : w64 (a - w64 b) = w64 (a - b).
Proof. unfold w64. lia. Qed.
Lemma w64_id a : -9223372036854775808 <= a < 9223372036854775808 -> w64 a = a.
Proof. unfold w64. lia. Qed.
Lemma w64_range a : -9223372036854775808 <= w64 a < 9223372036854775808.
Proof. unfold w64. lia. Qed.

(** [used] is the sum of the recorded costs, modulo 2^64 *)
Definition sam_inv (s : sampled) : Prop := sused s = w64 (total (scosts s)) /\ NoDup (keys (scosts s)).

Lemma total_set_val k c l prev :
  NoDup (keys l) -> find k l = Some prev -> total (set_val k c l) = total l + (c - prev).
Proof.
  induction l as [|[k' v'] t IH]; cbn; [discriminate|].
  intros Hnd. destruct (Z.eqb_spec k k') as [->|Hne]; cbn.
  - intros E; inversion E; subst. lia.
  - intros E. inversion Hnd; subst. rewrite IH by assumption. lia.
Qed.

Lemma total_remove_key k l c :
  find k l = Some c -> total (remove_key k l) = total l - c.
Proof.
  induction l as [|[k' v'] t IH]; cbn; [discriminate|].
  destruct (Z.eqb_spec k k') as [->|Hne]; cbn.
  - intros E; inversion E; subst. lia.
  - intros E. rewrite IH by assumption. lia.
Qed.

Arguments keys : simpl never.

Lemma keys_cons' (e : Z * Z) l : keys (e :: l) = fst e :: keys l.
Proof. reflexivity. Qed.

(** ** every operation preserves the invariant *)
Lemma sam_increment_inv s k c : sam_inv s -> sam_inv (sam_increment s k c).
Proof.
  intros [Hu Hnd]. unfold sam_increment. destruct (find k (scosts s)) as [prev|] eqn:E; split; cbn.
  - rewrite (total_set_val k c _ prev Hnd E), Hu, w64_add_r, w64_add_l. reflexivity.
  - now rewrite keys_set_val.
  - rewrite Hu, w64_add_r, w64_add_l. f_equal. lia.
  - rewrite keys_cons'. constructor; [now apply find_none_notin|exact Hnd].
Qed.

Lemma sam_update_inv s k c : sam_inv s -> sam_inv (fst (sam_update s k c)).
Proof.
  intros [Hu Hnd]. unfold sam_update. destruct (find k (scosts s)) as [prev|] eqn:E; cbn; [|split; auto].
  split; cbn.
  - rewrite (total_set_val k c _ prev Hnd E), Hu, w64_add_r, w64_add_l. reflexivity.
  - now rewrite keys_set_val.
Qed.

Lemma sam_remove_inv s k : sam_inv s -> sam_inv (fst (sam_remove s k)).
Proof.
  intros [Hu Hnd]. unfold sam_remove. destruct (find k (scosts s)) as [c|] eqn:E; cbn; [|split; auto].
  split; cbn.
  - rewrite (total_remove_key k _ c E), Hu, w64_sub_l. reflexivity.
  - rewrite keys_remove_key. now apply nodup_remove1.
Qed.

Theorem samstep_inv s o : sam_inv s -> sam_inv (fst (samstep_t s o)).
Proof.
  intros Hinv. destruct o; cbn [samstep_t].
  - cbn. now apply sam_increment_inv.
  - pose proof (sam_update_inv s k c Hinv) as P. destruct (sam_update s k c). exact P.
  - pose proof (sam_remove_inv s k Hinv) as P. destruct (sam_remove s k). exact P.
  - split; cbn; [reflexivity|constructor].
  - destruct Hinv. split; assumption.
  - exact Hinv.
  - exact Hinv.
  - exact Hinv.
Qed.

Definition samrun (s : sampled) (ops : list samop) : sampled :=
  fold_left (fun s o => fst (samstep_t s o)) ops s.

Theorem samrun_inv ops s : sam_inv s -> sam_inv (samrun s ops).
Proof.
  revert s. induction ops as [|o t IH]; intros s H; cbn; [exact H|]. apply IH. now apply samstep_inv.
Qed.

Lemma sam_new_inv mc n : sam_inv (sam_new mc n).
Proof. split; cbn; [reflexivity|constructor]. Qed.

(** ** the property *)
Theorem room_left_exact mc n ops c :
  let s := samrun (sam_new mc n) ops in
  sam_room_left s c = w64 (smax s - total (scosts s) - c).
Proof.
  cbn zeta. destruct (samrun_inv ops (sam_new mc n) (sam_new_inv mc n)) as [Hu _].
  unfold sam_room_left. rewrite Hu, w64_add_l, w64_sub_r. f_equal. lia.
Qed.

(** ... hence the plain difference whenever that fits an i64 *)
Corollary room_left_exact_in_range mc n ops c :
  let s := samrun (sam_new mc n) ops in
  -9223372036854775808 <= smax s - total (scosts s) - c < 9223372036854775808 ->
  sam_room_left s c = smax s - total (scosts s) - c.
Proof. cbn zeta. intros H. rewrite room_left_exact. now apply w64_id. Qed.

(** ** no overflow: whatever i64 costs are passed, [used] and every result stay i64 values (the code computes
    them with wrapping operations, which cannot panic) *)
Definition in64 (z : Z) : Prop := -9223372036854775808 <= z < 9223372036854775808.

Lemma samstep_used_in64 s o : in64 (sused s) -> in64 (sused (fst (samstep_t s o))).
Proof.
  intros H. destruct o; cbn [samstep_t fst]; try exact H.
  - unfold sam_increment. destruct (find k (scosts s)); cbn [sused]; apply w64_range.
  - unfold sam_update. destruct (find k (scosts s)); cbn [fst sused]; [apply w64_range|exact H].
  - unfold sam_remove. destruct (find k (scosts s)); cbn [fst sused]; [apply w64_range|exact H].
  - cbn. unfold in64. lia.
Qed.

Theorem samrun_used_in64 ops : forall s, in64 (sused s) -> in64 (sused (samrun s ops)).
Proof.
  induction ops as [|o t IH]; intros s H; cbn; [exact H|]. apply IH. now apply samstep_used_in64.
Qed.

Theorem sampled_no_overflow mc n ops c :
  let s := samrun (sam_new mc n) ops in in64 (sused s) /\ in64 (sam_room_left s c).
Proof.
  cbn zeta. split; [apply samrun_used_in64; cbn; unfold in64; lia|apply w64_range].
Qed.

Theorem update_reports_tracked s k c :
  snd (sam_update s k c) = mem k (scosts s) /\
  (mem k (scosts s) = true -> find k (scosts (fst (sam_update s k c))) = Some c).
Proof.
  unfold sam_update, mem. destruct (find k (scosts s)) as [prev|] eqn:E; cbn; split; auto; try discriminate.
  intros _. apply find_set_val_same. eapply find_in_keys; eauto.
Qed.

Theorem remove_reports_cost s k :
  snd (sam_remove s k) = find k (scosts s) /\
  (sam_inv s -> find k (scosts (fst (sam_remove s k))) = None).
Proof.
  unfold sam_remove. destruct (find k (scosts s)) as [c|] eqn:E; cbn; split; auto.
  intros [_ Hnd]. now apply find_remove_key_same.
Qed.

Lemma in_firstn {A} (x : A) n l : In x (firstn n l) -> In x l.
Proof.
  revert n. induction l as [|y l IH]; intros [|n]; cbn; try tauto.
  intros [E|H]; [now left|right; eauto].
Qed.

(** [fill_sample]: the input, then only genuinely tracked pairs, pairwise distinct, until the
    sample size is reached — for every iteration order of the hash map *)
Theorem fill_sample_spec s order input :
  sam_inv s -> Permutation order (scosts s) ->
  let out := sam_fill s order input in
  exists appended,
    out = input ++ appended /\
    (forall e, In e appended -> In e (scosts s)) /\ NoDup (keys appended) /\
    length appended = (if Nat.leb (ssamples s) (length input) then 0
                       else Nat.min (ssamples s - length input) (length (scosts s)))%nat.
Proof.
  intros [_ Hnd] Hperm. cbn zeta. unfold sam_fill.
  destruct (Nat.leb (ssamples s) (length input)).
  - exists []. rewrite app_nil_r. repeat split; auto; [intros e []|constructor].
  - exists (firstn (ssamples s - length input) order). repeat split.
    + intros e He. apply (Permutation_in _ Hperm). eapply in_firstn; eauto.
    + assert (Hnd' : NoDup (keys order)).
      { unfold keys. eapply Permutation_NoDup; [apply Permutation_map, Permutation_sym, Hperm|exact Hnd]. }
      unfold keys in *. rewrite <- firstn_map. now apply nodup_firstn.
    + rewrite firstn_length. now rewrite (Permutation_length Hperm).
Qed.


(** "sample everything": a sample size that is at least the input plus the tracked pairs (usize::MAX, say) gives the
    input followed by every tracked pair, in the order the hash map yields them; and the result does not depend on
    which such size it is.  (This is why the histories with sample sizes near usize::MAX, which the unary sizes of
    this model cannot hold, are judged by `min (samples - |input|) |tracked|` alone.) *)
Theorem fill_sample_saturates s order input :
  (length input + length order <= ssamples s)%nat ->
  sam_fill s order input = input ++ order.
Proof.
  intros Hle. unfold sam_fill.
  destruct (Nat.leb (ssamples s) (length input)) eqn:E.
  - apply Nat.leb_le in E.
    assert (length order = 0)%nat as H0 by lia.
    destruct order; [now rewrite app_nil_r | discriminate H0].
  - apply Nat.leb_gt in E. f_equal. apply firstn_all2. lia.
Qed.

Theorem fill_sample_size_irrelevant s1 s2 order input :
  (length input + length order <= ssamples s1)%nat ->
  (length input + length order <= ssamples s2)%nat ->
  sam_fill s1 order input = sam_fill s2 order input.
Proof. intros H1 H2. now rewrite !fill_sample_saturates. Qed.

(** the sample size takes no part in the accounting: two trackers that differ in it only go through the same states
    (up to it) and give the same results under every operation but [fill_sample]; hence a history under a sample size
    no collection can hold is, apart from [fill_sample], the history under any other *)
Definition with_samples (s : sampled) (n : nat) : sampled := mkSampled (smax s) (sused s) (scosts s) n.

Definition is_fill (o : samop) : bool := match o with SFill _ _ => true | _ => false end.

Theorem samstep_samples_irrelevant s n o :
  is_fill o = false ->
  samstep_t (with_samples s n) o = (with_samples (fst (samstep_t s o)) n, snd (samstep_t s o)).
Proof.
  destruct o as [k c|k c|k| |mc| |c|input appended]; cbn [is_fill]; intros Hf; try discriminate;
    cbn [samstep_t with_samples].
  - unfold sam_increment, with_samples. cbn. destruct (find k (scosts s)); reflexivity.
  - unfold sam_update, with_samples. cbn. destruct (find k (scosts s)); reflexivity.
  - unfold sam_remove, with_samples. cbn. destruct (find k (scosts s)); reflexivity.
  - reflexivity.
  - reflexivity.
  - reflexivity.
  - reflexivity.
Qed.

Theorem samrun_samples_irrelevant ops : forall s n,
  forallb (fun o => negb (is_fill o)) ops = true ->
  samrun (with_samples s n) ops = with_samples (samrun s ops) n.
Proof.
  induction ops as [|o t IH]; intros s n Hall; cbn [samrun fold_left]; [reflexivity|].
  cbn [forallb] in Hall. apply andb_prop in Hall. destruct Hall as [Ho Ht].
  apply Bool.negb_true_iff in Ho.
  change (fold_left (fun s0 o0 => fst (samstep_t s0 o0)) t (fst (samstep_t (with_samples s n) o)))
    with (samrun (fst (samstep_t (with_samples s n) o)) t).
  rewrite (samstep_samples_irrelevant s n o Ho). cbn [fst].
  change (fold_left (fun s0 o0 => fst (samstep_t s0 o0)) t (fst (samstep_t s o))) with (samrun (fst (samstep_t s o)) t).
  now apply IH.
Qed.
