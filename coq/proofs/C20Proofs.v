(** * C20 — SampledLFU cost accounting is exact. *)
From VF Require Import Base Sampled TinyStep BaseFacts Counts LruFacts.
From Coq Require Import Permutation.
Open Scope Z_scope.

Fixpoint total (l : list (Z * Z)) : Z :=
  match l with [] => 0 | e :: t => snd e + total t end.

Definition sam_inv (s : sampled) : Prop := sused s = total (scosts s) /\ NoDup (keys (scosts s)).

Lemma total_set_val k c l prev :
  NoDup (keys l) -> find k l = Some prev -> total (set_val k c l) = total l + (c - prev).
Proof.
  induction l as [|[k' v'] t IH]; cbn; [discriminate|].
  intros Hnd. destruct (Z.eqb_spec k k') as [->|Hne]; cbn.
  - intros E; inversion E; subst. lia.
  - intros E. inversion Hnd; subst. rewrite IH by assumption. lia.
Qed.

Lemma total_remove_key k l c :
  find k l = Some c -> total (remove_key k l) = total l - c.
Proof.
  induction l as [|[k' v'] t IH]; cbn; [discriminate|].
  destruct (Z.eqb_spec k k') as [->|Hne]; cbn.
  - intros E; inversion E; subst. lia.
  - intros E. rewrite IH by assumption. lia.
Qed.

Arguments keys : simpl never.

Lemma keys_cons' (e : Z * Z) l : keys (e :: l) = fst e :: keys l.
Proof. reflexivity. Qed.

(** ** every operation preserves the invariant *)
Lemma sam_increment_inv s k c : sam_inv s -> sam_inv (sam_increment s k c).
Proof.
  intros [Hu Hnd]. unfold sam_increment. destruct (find k (scosts s)) as [prev|] eqn:E; split; cbn.
  - rewrite (total_set_val k c _ prev Hnd E). lia.
  - now rewrite keys_set_val.
  - lia.
  - rewrite keys_cons'. constructor; [now apply find_none_notin|exact Hnd].
Qed.

Lemma sam_update_inv s k c : sam_inv s -> sam_inv (fst (sam_update s k c)).
Proof.
  intros [Hu Hnd]. unfold sam_update. destruct (find k (scosts s)) as [prev|] eqn:E; cbn; [|split; auto].
  split; cbn.
  - rewrite (total_set_val k c _ prev Hnd E). lia.
  - now rewrite keys_set_val.
Qed.

Lemma sam_remove_inv s k : sam_inv s -> sam_inv (fst (sam_remove s k)).
Proof.
  intros [Hu Hnd]. unfold sam_remove. destruct (find k (scosts s)) as [c|] eqn:E; cbn; [|split; auto].
  split; cbn.
  - rewrite (total_remove_key k _ c E). lia.
  - rewrite keys_remove_key. now apply nodup_remove1.
Qed.

Theorem samstep_inv s o : sam_inv s -> sam_inv (fst (samstep_t s o)).
Proof.
  intros Hinv. destruct o; cbn [samstep_t].
  - cbn. now apply sam_increment_inv.
  - pose proof (sam_update_inv s k c Hinv) as P. destruct (sam_update s k c). exact P.
  - pose proof (sam_remove_inv s k Hinv) as P. destruct (sam_remove s k). exact P.
  - split; cbn; [reflexivity|constructor].
  - destruct Hinv. split; assumption.
  - exact Hinv.
  - exact Hinv.
  - exact Hinv.
Qed.

Definition samrun (s : sampled) (ops : list samop) : sampled :=
  fold_left (fun s o => fst (samstep_t s o)) ops s.

Theorem samrun_inv ops s : sam_inv s -> sam_inv (samrun s ops).
Proof.
  revert s. induction ops as [|o t IH]; intros s H; cbn; [exact H|]. apply IH. now apply samstep_inv.
Qed.

Lemma sam_new_inv mc n : sam_inv (sam_new mc n).
Proof. split; cbn; [reflexivity|constructor]. Qed.

(** ** the property *)
Theorem room_left_exact mc n ops c :
  let s := samrun (sam_new mc n) ops in
  sam_room_left s c = smax s - total (scosts s) - c.
Proof.
  cbn zeta. destruct (samrun_inv ops (sam_new mc n) (sam_new_inv mc n)) as [Hu _].
  unfold sam_room_left. rewrite Hu. lia.
Qed.

Theorem update_reports_tracked s k c :
  snd (sam_update s k c) = mem k (scosts s) /\
  (mem k (scosts s) = true -> find k (scosts (fst (sam_update s k c))) = Some c).
Proof.
  unfold sam_update, mem. destruct (find k (scosts s)) as [prev|] eqn:E; cbn; split; auto; try discriminate.
  intros _. apply find_set_val_same. eapply find_in_keys; eauto.
Qed.

Theorem remove_reports_cost s k :
  snd (sam_remove s k) = find k (scosts s) /\
  (sam_inv s -> find k (scosts (fst (sam_remove s k))) = None).
Proof.
  unfold sam_remove. destruct (find k (scosts s)) as [c|] eqn:E; cbn; split; auto.
  intros [_ Hnd]. now apply find_remove_key_same.
Qed.

Lemma in_firstn {A} (x : A) n l : In x (firstn n l) -> In x l.
Proof.
  revert n. induction l as [|y l IH]; intros [|n]; cbn; try tauto.
  intros [E|H]; [now left|right; eauto].
Qed.

(** [fill_sample]: the input, then only genuinely tracked pairs, pairwise distinct, until the
    sample size is reached — for every iteration order of the hash map *)
Theorem fill_sample_spec s order input :
  sam_inv s -> Permutation order (scosts s) ->
  let out := sam_fill s order input in
  exists appended,
    out = input ++ appended /\
    (forall e, In e appended -> In e (scosts s)) /\ NoDup (keys appended) /\
    length appended = (if Nat.leb (ssamples s) (length input) then 0
                       else Nat.min (ssamples s - length input) (length (scosts s)))%nat.
Proof.
  intros [_ Hnd] Hperm. cbn zeta. unfold sam_fill.
  destruct (Nat.leb (ssamples s) (length input)).
  - exists []. rewrite app_nil_r. repeat split; auto; [intros e []|constructor].
  - exists (firstn (ssamples s - length input) order). repeat split.
    + intros e He. apply (Permutation_in _ Hperm). eapply in_firstn; eauto.
    + assert (Hnd' : NoDup (keys order)).
      { unfold keys. eapply Permutation_NoDup; [apply Permutation_map, Permutation_sym, Hperm|exact Hnd]. }
      unfold keys in *. rewrite <- firstn_map. now apply nodup_firstn.
    + rewrite firstn_length. now rewrite (Permutation_length Hperm).
Qed.

