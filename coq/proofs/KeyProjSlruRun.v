(** * Whole histories of SegmentedCache: segments and order after any sequence of calls, with whatever values, are what
    the segmented cache over keys alone holds after the same calls - and it panics exactly when that one does. *)
From Coq Require Import List ZArith Arith Lia.
Import ListNotations.
From VF Require Import Base Lru Slru BaseFacts KeyProj KeyProjSlru.

Inductive svop :=
| SVPut (k : key) (v : val)
| SVGetMut (k : key) (w : option val)
| SVRemove (k : key)
| SVPutProtected (k : key) (v : val)
| SVPurge.
Inductive skop := SKPut (k : key) | SKGet (k : key) | SKRemove (k : key) | SKPutProtected (k : key) | SKPurge.

Definition sstrip (o : svop) : skop :=
  match o with
  | SVPut k _ => SKPut k
  | SVGetMut k _ => SKGet k
  | SVRemove k => SKRemove k
  | SVPutProtected k _ => SKPutProtected k
  | SVPurge => SKPurge
  end.

Definition svstep (s : slru) (o : svop) : res slru :=
  match o with
  | SVPut k v => do (s', _) <- sput s k v; Ok s'
  | SVGetMut k w => do (s', _) <- sget_mut s k w; Ok s'
  | SVRemove k => Ok (fst (sremove s k))
  | SVPutProtected k v => Ok (fst (sput_protected s k v))
  | SVPurge => Ok (spurge s)
  end.

Definition skstep (s : kslru) (o : skop) : res kslru :=
  match o with
  | SKPut k => do (s', _) <- ksput s k; Ok s'
  | SKGet k => do (s', _) <- ksget s k; Ok s'
  | SKRemove k => Ok (fst (ksremove s k))
  | SKPutProtected k => Ok (fst (ksput_protected s k))
  | SKPurge => Ok (kpurge (fst s), kpurge (snd s))
  end.

Fixpoint srun (s : slru) (ops : list svop) : res slru :=
  match ops with [] => Ok s | o :: t => do s' <- svstep s o; srun s' t end.
Fixpoint skrun (s : kslru) (ops : list skop) : res kslru :=
  match ops with [] => Ok s | o :: t => do s' <- skstep s o; skrun s' t end.

Definition sim (r : res slru) (kr : res kslru) : Prop :=
  match r with Ok s' => kr = Ok (sproj s') | Panic n => kr = Panic n end.

Lemma svstep_blind s o : sim (svstep s o) (skstep (sproj s) (sstrip o)).
Proof.
  destruct o as [k v|k w|k|k v|]; cbn [svstep skstep sstrip sim].
  - pose proof (sput_blind s k v) as H. destruct (sput s k v) as [[s' r]|n]; rewrite H; reflexivity.
  - pose proof (sget_mut_blind s k w) as H. destruct (sget_mut s k w) as [[s' r]|n]; rewrite H; reflexivity.
  - pose proof (sremove_blind s k) as H. destruct (sremove s k) as [s' r]. now rewrite H.
  - pose proof (sput_protected_blind s k v) as H. destruct (sput_protected s k v) as [s' r]. now rewrite H.
  - pose proof (slookups_blind s 0%Z) as (_ & _ & H). now rewrite H.
Qed.

Theorem srun_blind ops : forall s, sim (srun s ops) (skrun (sproj s) (map sstrip ops)).
Proof.
  induction ops as [|o ops IH]; intros s; cbn [srun skrun map]; [reflexivity|].
  pose proof (svstep_blind s o) as H. unfold sim in H.
  destruct (svstep s o) as [s'|n]; rewrite H; cbn [bind]; [apply IH|reflexivity].
Qed.
