(** * The decisions of TwoQueueCache do not look at the values.

    The 2Q cache written over keys alone ([k2q]: three LRU sets and the two quotas), and the key projection of the model
    ([TwoQ.v]) as a simulation of it: which queue a key lives in, the order inside the queues, which resident entry
    becomes a ghost, which ghost is forgotten, what a put reports (as keys) and whether a call panics are functions of
    the keys, the size and the quotas.  (The ground for replaying `TwoQueueCache<K, ()>` in the same model.) *)
From Coq Require Import List ZArith Arith Lia.
Import ListNotations.
From VF Require Import Base Lru TwoQ BaseFacts KeyProj KeyProjSlru.

Record k2q := mkK2 { ksize : nat; krs : nat; kr : kset; kf : kset; kg : kset }.
Definition qproj (s : twoq) : k2q :=
  mkK2 (qsize s) (qrecent_size s) (kproj (recent s)) (kproj (frequent s)) (kproj (ghost s)).
Definition kwith (s : k2q) (r f g : kset) : k2q := mkK2 (ksize s) (krs s) r f g.

Definition kevict_resident (s : k2q) (from_recent : bool) : res (kset * kset * key) :=
  if from_recent then
    match kremove_lru (kr s) with
    | (r1, Some e) => Ok (r1, kf s, e)
    | (_, None) =>
      match kremove_lru (kf s) with
      | (f1, Some e) => Ok (kr s, f1, e)
      | (_, None) => Panic 20
      end
    end
  else
    match kremove_lru (kf s) with
    | (f1, Some e) => Ok (kr s, f1, e)
    | (_, None) =>
      match kremove_lru (kr s) with
      | (r1, Some e) => Ok (r1, kf s, e)
      | (_, None) => Panic 20
      end
    end.

Definition kev (o : option key) : kput_result := match o with None => KPut | Some k => KEvicted k end.

Definition kqput (s : k2q) (k : key) : res (k2q * kput_result) :=
  match kget (kf s) k with
  | (f1, true) => Ok (kwith s (kr s) f1 (kg s), KUpdate)
  | (_, false) =>
    match kremove (kr s) k with
    | (r1, true) =>
      do (f1, _) <- kput_nonnull (kf s) k;
      Ok (kwith s r1 f1 (kg s), KUpdate)
    | (_, false) =>
      let recent_len := length (kitems (kr s)) in
      let freq_len := length (kitems (kf s)) in
      if kmem k (kitems (kg s)) then
        if Nat.leb (ksize s) (recent_len + freq_len) then
          do (r1, f1, victim) <- kevict_resident s (Nat.ltb (krs s) recent_len);
          do (g1, rst) <- kput_nonnull (kg s) victim;
          match kremove g1 k with
          | (_, false) =>
            match rst with
            | None => Ok (kwith s r1 f1 g1, KPut)
            | Some ek => do (f2, _) <- kput_nonnull f1 ek; Ok (kwith s r1 f2 g1, KUpdate)
            end
          | (g2, true) =>
            do (f2, _) <- kput_nonnull f1 k;
            match rst with
            | None => Ok (kwith s r1 f2 g2, KUpdate)
            | Some ek => Ok (kwith s r1 f2 g2, KEvicted ek)
            end
          end
        else
          match kremove (kg s) k with
          | (g1, true) => do (f1, _) <- kput_nonnull (kf s) k; Ok (kwith s (kr s) f1 g1, KUpdate)
          | (_, false) => Panic 21
          end
      else
        if Nat.ltb (freq_len + recent_len) (ksize s) then
          do (r1, ev) <- kput_nonnull (kr s) k;
          match ev with
          | None => Ok (kwith s r1 (kf s) (kg s), KPut)
          | Some e => do (g1, gev) <- kput_nonnull (kg s) e; Ok (kwith s r1 (kf s) g1, kev gev)
          end
        else
          do (r1, f1, victim) <- kevict_resident s (Nat.leb (krs s) recent_len);
          do (r2, _) <- kput_nonnull r1 k;
          do (g1, gev) <- kput_nonnull (kg s) victim;
          Ok (kwith s r2 f1 g1, kev gev)
    end
  end.

Definition kqget (s : k2q) (k : key) : res (k2q * bool) :=
  match kget (kf s) k with
  | (f1, true) => Ok (kwith s (kr s) f1 (kg s), true)
  | (_, false) =>
    match kremove (kr s) k with
    | (r1, true) => do (f1, _) <- kput_nonnull (kf s) k; Ok (kwith s r1 f1 (kg s), true)
    | (_, false) => Ok (s, false)
    end
  end.

Definition kqremove (s : k2q) (k : key) : k2q * bool :=
  match kremove (kf s) k with
  | (f1, true) => (kwith s (kr s) f1 (kg s), true)
  | (_, false) =>
    match kremove (kr s) k with
    | (r1, true) => (kwith s r1 (kf s) (kg s), true)
    | (_, false) => let '(g1, r) := kremove (kg s) k in (kwith s (kr s) (kf s) g1, r)
    end
  end.

(** the key part of a put result in which an update hides an eviction: 2Q reports [EvictedAndUpdate] as the eviction *)
Definition put_keys2 (r : put_result) : kput_result := put_keys r.

(** ** primitives *)
Lemma remove_lru_in_blind s :
  let '(s', r) := remove_lru_in s in kremove_lru (kproj s) = (kproj s', option_map fst r).
Proof.
  unfold remove_lru_in, kremove_lru, kproj. cbn [kcap kitems]. rewrite keys_split_last.
  destruct (split_last (items s)) as [[rest [ek ev]]|]; reflexivity.
Qed.

Lemma evict_resident_blind s b :
  match evict_resident s b with
  | Ok (r1, f1, e) => kevict_resident (qproj s) b = Ok (kproj r1, kproj f1, fst e)
  | Panic n => kevict_resident (qproj s) b = Panic n
  end.
Proof.
  unfold evict_resident, kevict_resident, qproj. cbn [kr kf].
  pose proof (remove_lru_in_blind (recent s)) as Hr. pose proof (remove_lru_in_blind (frequent s)) as Hf.
  destruct (remove_lru_in (recent s)) as [r1 [er|]]; destruct (remove_lru_in (frequent s)) as [f1 [ef|]];
    rewrite Hr, Hf; destruct b; reflexivity.
Qed.

Lemma contains_kmem s k : contains s k = kmem k (kitems (kproj s)).
Proof. unfold contains, mem, kproj. cbn [kitems]. rewrite <- find_kmem. now destruct (find k (items s)). Qed.

Lemma llen_kproj s : llen s = length (kitems (kproj s)).
Proof. unfold llen, kproj. cbn [kitems]. now rewrite keys_length. Qed.

Ltac pn H s k v := pose proof (put_nonnull_blind s k v) as H;
  destruct (put_nonnull s (k, v)) as [[? ?]|?]; rewrite H; cbn [bind]; [|reflexivity].

(** ** the operations *)
Theorem qput_blind s k v :
  match qput s k v with
  | Ok (s', r) => kqput (qproj s) k = Ok (qproj s', put_keys r)
  | Panic n => kqput (qproj s) k = Panic n
  end.
Proof.
  unfold qput, kqput. cbn [qproj kr kf kg ksize krs].
  pose proof (update_blind (frequent s) k v) as Hu.
  destruct (update (frequent s) k v) as [f1 [old|]]; rewrite Hu; cbn [hit]; [reflexivity|].
  pose proof (remove_ent_blind (recent s) k) as Hr.
  destruct (remove_ent (recent s) k) as [r1 [[k0 old]|]]; destruct Hr as [Hr Hk]; rewrite Hr; cbn [hit].
  { specialize (Hk _ eq_refl). cbn in Hk. subst k0. pn Hp (frequent s) k v. reflexivity. }
  clear Hk. rewrite contains_kmem, !llen_kproj.
  destruct (kmem k (kitems (kproj (ghost s)))).
  - destruct (Nat.leb (qsize s) _).
    + pose proof (evict_resident_blind s (Nat.ltb (qrecent_size s) (length (kitems (kproj (recent s)))))) as He.

      destruct (evict_resident s _) as [[[r1' f1'] [vk vv]]|n]; rewrite He; cbn [bind fst]; [|reflexivity].
      unfold put_or_evict_nonnull. pn Hg (ghost s) vk vv. rename l into g1, o into rst.
      pose proof (remove_ent_blind g1 k) as Hq.
      destruct (remove_ent g1 k) as [g2 [[k0 old]|]]; destruct Hq as [Hq Hk]; rewrite Hq; cbn [hit].
      * specialize (Hk _ eq_refl). cbn in Hk. subst k0. pn Hp f1' k v.
        destruct rst as [[ek ev]|]; reflexivity.
      * destruct rst as [[ek ev]|]; cbn [option_map fst]; [|reflexivity].
        pn Hp f1' ek v. reflexivity.
    + pose proof (remove_ent_blind (ghost s) k) as Hq.
      destruct (remove_ent (ghost s) k) as [g1 [[k0 old]|]]; destruct Hq as [Hq Hk]; rewrite Hq; cbn [hit]; [|reflexivity].
      specialize (Hk _ eq_refl). cbn in Hk. subst k0. pn Hp (frequent s) k v. reflexivity.
  - destruct (Nat.ltb _ (qsize s)).
    + unfold put_or_evict_nonnull. pn Hp (recent s) k v. rename l into r1', o into ev.
      destruct ev as [[ek ev]|]; cbn [option_map fst]; [|reflexivity].
      pn Hg (ghost s) ek ev. rename o into gev. destruct gev as [[gk gv]|]; reflexivity.
    + pose proof (evict_resident_blind s (Nat.leb (qrecent_size s) (length (kitems (kproj (recent s)))))) as He.

      destruct (evict_resident s _) as [[[r1' f1'] [vk vv]]|n]; rewrite He; cbn [bind fst]; [|reflexivity].
      pn Hp r1' k v. pn Hg (ghost s) vk vv. rename o0 into gev. destruct gev as [[gk gv]|]; reflexivity.
Qed.

Theorem qget_mut_blind s k w :
  match qget_mut s k w with
  | Ok (s', r) => kqget (qproj s) k = Ok (qproj s', hit r)
  | Panic n => kqget (qproj s) k = Panic n
  end.
Proof.
  unfold qget_mut, kqget. cbn [qproj kr kf kg].
  pose proof (get_mut_blind (frequent s) k w) as Hg.
  destruct (get_mut (frequent s) k w) as [f1 [v|]]; rewrite <- Hg; cbn [hit]; [reflexivity|].
  pose proof (remove_ent_blind (recent s) k) as Hr.
  destruct (remove_ent (recent s) k) as [r1 [[k0 v0]|]]; destruct Hr as [Hr Hk]; rewrite Hr; cbn [hit]; [|reflexivity].
  specialize (Hk _ eq_refl). cbn in Hk. subst k0. unfold put_or_evict_nonnull.
  pn Hp (frequent s) k (match w with Some w0 => w0 | None => v0 end). reflexivity.
Qed.

Theorem qremove_blind s k :
  let '(s', r) := qremove s k in kqremove (qproj s) k = (qproj s', hit r).
Proof.
  unfold qremove, kqremove. cbn [qproj kr kf kg].
  pose proof (remove_blind (frequent s) k) as Hf.
  destruct (remove (frequent s) k) as [[f1 [v|]] cb]; rewrite <- Hf; cbn [hit]; [reflexivity|].
  pose proof (remove_blind (recent s) k) as Hr.
  destruct (remove (recent s) k) as [[r1 [v|]] cb']; rewrite <- Hr; cbn [hit]; [reflexivity|].
  pose proof (remove_blind (ghost s) k) as Hg.
  destruct (remove (ghost s) k) as [[g1 r] cb'']. rewrite <- Hg. reflexivity.
Qed.

Theorem qlookups_blind s k :
  hit (qpeek s k) = (kmem k (kitems (kf (qproj s))) || kmem k (kitems (kr (qproj s))))%bool /\
  qcontains s k = (kmem k (kitems (kf (qproj s))) || kmem k (kitems (kr (qproj s))))%bool /\
  qproj (qpurge s) = kwith (qproj s) (kpurge (kr (qproj s))) (kpurge (kf (qproj s))) (kpurge (kg (qproj s))).
Proof.
  unfold qpeek, qcontains, contains, mem, peek, qproj, kproj. cbn [kitems kf kr kg]. rewrite <- !find_kmem.
  destruct (find k (items (frequent s))), (find k (items (recent s))); cbn; repeat split; reflexivity.
Qed.
