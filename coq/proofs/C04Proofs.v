(** * C04 — ownership conservation at the level of the models: a count of the retained entries.

    The models have no object identity; what they can say is that no entry is duplicated or lost:
    [retained after + handed back = retained before + handed in] for every put, remove and purge,
    with the entries themselves identified by C12's [put_truth].  That every key and value *object*
    is released exactly once is the correspondence's part (drop ledger of the harness compared
    after every call with [2 * retained entries] of the model, allocator block count at drop). *)
From VF Require Import Base Iter Enc Lru LruStep Slru TwoQ Arc CacheStep Tiny WTiny TinyStep
  BaseFacts LruFacts Counts PrimFacts Tactics SlruFacts TwoQFacts ArcFacts TinyFacts WTinyFacts
  C07Proofs C08Proofs C09Proofs C10Proofs Run C01Proofs Univ C12Proofs C02Proofs.
From Coq Require Import Permutation.

(** pairs handed back to the caller inside a PutResult (an Update hands back the old value and
    drops the duplicate key object: one key and one value leave, like a pair) *)
Definition handed_back (r : put_result) : nat :=
  match r with PPut => 0 | PUpdate _ => 1 | PEvicted _ _ => 1 | PEvictedAndUpdate _ _ _ => 2 end.

Lemma nodup_keys_remove_key k (l : list entry) : NoDup (keys l) -> NoDup (keys (remove_key k l)).
Proof. intros H. rewrite keys_remove_key. now apply nodup_remove1. Qed.

Lemma same_members_same_length (a b : list entry) :
  NoDup a -> NoDup b -> (forall e, In e a <-> In e b) -> length a = length b.
Proof. intros Ha Hb H. apply Permutation_length. now apply NoDup_Permutation. Qed.

Lemma in_remove_key_entry (R : list entry) ek ev e :
  NoDup (keys R) -> In (ek, ev) R -> (In e (remove_key ek R) <-> In e R /\ e <> (ek, ev)).
Proof.
  intros Hnd Hin. rewrite (in_remove_key_iff e ek R Hnd). split; intros [H1 H2]; split; auto.
  - intros ->. now apply H2.
  - intros E. apply H2. apply (same_key_same_entry R); auto.
Qed.

Theorem put_truth_length R R' k v r :
  NoDup (keys R) -> NoDup (keys R') -> put_truth R R' k v r ->
  (length R' + handed_back r = length R + 1)%nat.
Proof.
  intros HndR HndR' Ht. pose proof (nodup_keys_nodup R' HndR') as HN'.
  destruct r as [|old|ek ev|ek ev old]; cbn [put_truth handed_back] in *.
  - destruct Ht as [Hk H].
    rewrite (same_members_same_length R' ((k, v) :: R)); [cbn; lia|exact HN'| |].
    + constructor; [|now apply nodup_keys_nodup]. intros Hin. apply Hk. now apply in_keys_of_in in Hin.
    + intros e. rewrite H. cbn. intuition congruence.
  - destruct Ht as [Hold H].
    rewrite (same_members_same_length R' ((k, v) :: remove_key k R)); [|exact HN'| |].
    + cbn [length]. pose proof (length_remove_key_in k R ltac:(apply cntl_in; now apply in_keys_of_in in Hold)). lia.
    + constructor; [|apply nodup_keys_nodup; now apply nodup_keys_remove_key].
      intros Hin. apply in_remove_key_iff in Hin; [|exact HndR]. cbn in Hin. tauto.
    + intros e. rewrite H. cbn [In]. rewrite (in_remove_key_iff e k R HndR). intuition congruence.
  - destruct Ht as (Hk & Hev & Hne & H).
    rewrite (same_members_same_length R' ((k, v) :: remove_key ek R)); [|exact HN'| |].
    + cbn [length]. pose proof (length_remove_key_in ek R ltac:(apply cntl_in; now apply in_keys_of_in in Hev)). lia.
    + constructor; [|apply nodup_keys_nodup; now apply nodup_keys_remove_key].
      intros Hin. apply in_remove_key in Hin. apply Hk. now apply in_keys_of_in in Hin.
    + intros e. rewrite H. cbn [In]. rewrite (in_remove_key_entry R ek ev e HndR Hev). intuition congruence.
  - destruct Ht as (Hold & Hev & Hne & H).
    assert (Hev' : In (ek, ev) (remove_key k R)).
    { apply in_remove_key_iff; [exact HndR|]. split; [exact Hev|exact Hne]. }
    rewrite (same_members_same_length R' ((k, v) :: remove_key ek (remove_key k R))); [|exact HN'| |].
    + cbn [length].
      pose proof (length_remove_key_in k R ltac:(apply cntl_in; now apply in_keys_of_in in Hold)).
      pose proof (length_remove_key_in ek (remove_key k R) ltac:(apply cntl_in; now apply in_keys_of_in in Hev')). lia.
    + constructor; [|apply nodup_keys_nodup; now do 2 apply nodup_keys_remove_key].
      intros Hin. apply in_remove_key in Hin. apply in_remove_key_iff in Hin; [|exact HndR]. cbn in Hin. tauto.
    + intros e. rewrite H. cbn [In].
      rewrite (in_remove_key_entry (remove_key k R) ek ev e (nodup_keys_remove_key k R HndR) Hev').
      rewrite (in_remove_key_iff e k R HndR). intuition congruence.
Qed.

(** ** per cache: put conserves entries *)
Theorem c04_lru_put s k v :
  lru_inv s -> cap s <> 0%nat ->
  let '(s', r, _) := Lru.put s k v in (length (items s') + handed_back r = length (items s) + 1)%nat.
Proof.
  intros Hinv Hc. pose proof (c12_lru s k v Hinv Hc) as Ht. pose proof (put_inv s k v Hinv) as Hi.
  destruct (Lru.put s k v) as [[s' r] cb]. cbn [fst] in Hi. destruct Ht as [Ht _].
  apply (put_truth_length _ _ k v); [apply Hinv|apply Hi|exact Ht].
Qed.

Theorem c04_slru_put s k v :
  slru_inv s -> exists s' r, sput s k v = Ok (s', r) /\
    (length (retained_s s') + handed_back r = length (retained_s s) + 1)%nat.
Proof.
  intros Hinv. destruct (c12_slru s k v Hinv) as (s' & r & E & Ht & _).
  destruct (sput_ok s k v Hinv) as (s2 & r2 & E2 & Hi2 & _). rewrite E in E2. inversion E2; subst s2 r2.
  exists s', r. split; [exact E|].
  apply (put_truth_length _ _ k v); [now apply slru_retained_nodup|now apply slru_retained_nodup|exact Ht].
Qed.

Theorem c04_twoq_put s k v :
  twoq_inv s -> exists s' r, qput s k v = Ok (s', r) /\
    (length (retained_q s') + handed_back r = length (retained_q s) + 1)%nat.
Proof.
  intros Hinv. destruct (c12_twoq s k v Hinv) as (s' & r & E & Ht & _).
  destruct (qput_ok s k v Hinv) as (s2 & r2 & E2 & Hi2 & _). rewrite E in E2. inversion E2; subst s2 r2.
  exists s', r. split; [exact E|].
  apply (put_truth_length _ _ k v); [now apply twoq_nodup|now apply twoq_nodup|exact Ht].
Qed.

Theorem c04_wtiny_put s k v :
  wt_inv s -> exists s' r, wput s k v = Ok (s', r) /\
    (length (retained_w s') + handed_back r = length (retained_w s) + 1)%nat.
Proof.
  intros Hinv. destruct (c12_wtiny s k v Hinv) as (s' & r & E & Ht & _).
  destruct (wput_ok s k v Hinv) as (s2 & r2 & E2 & Hi2 & _). rewrite E in E2. inversion E2; subst s2 r2.
  exists s', r. split; [exact E|].
  apply (put_truth_length _ _ k v); [now apply wt_retained_nodup|now apply wt_retained_nodup|exact Ht].
Qed.

(** ARC never duplicates: what is retained afterwards is the new pair plus old entries other than
    the overwritten one (ghost entries may be dropped silently, which only lowers the count) *)
Theorem c04_arc_put s k v :
  arc_inv s -> exists s' r, aput s k v = Ok (s', r) /\
    (length (retained_a s') + handed_back r <= length (retained_a s) + 1)%nat.
Proof.
  intros Hinv. destruct (c12_arc s k v Hinv) as (s' & r & E & Hkind & Hincl & _).
  destruct (aput_ok s k v Hinv) as (s2 & r2 & E2 & Hi2 & _). rewrite E in E2. inversion E2; subst s2 r2.
  exists s', r. split; [exact E|].
  pose proof (arc_retained_nodup s Hinv) as HndR. pose proof (arc_retained_nodup s' Hi2) as HndR'.
  assert (Hle : (length (retained_a s') <= length ((k, v) :: remove_key k (retained_a s)))%nat).
  { apply NoDup_incl_length; [now apply nodup_keys_nodup|].
    intros e He. destruct (Hincl e He) as [->|[Hin Hne]]; [now left|right].
    apply in_remove_key_iff; auto. }
  cbn [length] in Hle. destruct r as [|old| |]; cbn [handed_back] in *; try tauto.
  - rewrite remove_key_notin in Hle by exact Hkind. lia.
  - pose proof (length_remove_key_in k (retained_a s) ltac:(apply cntl_in; now apply in_keys_of_in in Hkind)). lia.
Qed.

(** ** remove hands back at most the one retained entry; purge releases everything *)
Theorem c04_remove_counts :
  (forall s k, lru_inv s ->
     let '(s', r, _) := Lru.remove s k in
     (length (items s') + (if r then 1 else 0) = length (items s))%nat) /\
  (forall s, items (fst (Lru.purge s)) = []) /\
  (forall s, retained_s (spurge s) = []) /\ (forall s, retained_q (qpurge s) = []) /\
  (forall s, retained_a (apurge s) = []) /\ (forall s, retained_w (wpurge s) = []).
Proof.
  split; [|repeat split].
  intros s k [Hnd _]. destruct (remove_spec s k) as [[Hn ->]|(v0 & Hf & ->)]; cbn [items with_items].
  - lia.
  - pose proof (length_remove_key_in k (items s) (cntl_find_some _ _ _ Hf)). lia.
Qed.
