(** * Exact specifications of the RawLRU primitives, in the form the composite-cache proofs
    consume: a disjunction of cases, each giving the result as an explicit term. *)
From VF Require Import Base Lru BaseFacts Counts.

Lemma put_nonnull_spec s e :
  (1 <= cap s)%nat ->
  ((llen s < cap s)%nat /\ put_nonnull s e = Ok (with_items s (e :: items s), None)) \/
  ((cap s <= llen s)%nat /\ exists rest victim,
      items s = rest ++ [victim] /\ put_nonnull s e = Ok (with_items s (e :: rest), Some victim)).
Proof.
  intros Hc. unfold put_nonnull. destruct (Nat.leb_spec (cap s) (llen s)) as [Hge|Hlt].
  - right. split; [exact Hge|].
    destruct (split_last (items s)) as [[rest victim]|] eqn:E.
    + apply split_last_app in E. eauto.
    + apply split_last_none in E. unfold llen in Hge. rewrite E in Hge. cbn in Hge. lia.
  - left. auto.
Qed.

Lemma remove_ent_spec s k :
  (find k (items s) = None /\ remove_ent s k = (s, None)) \/
  (exists v, find k (items s) = Some v /\
             remove_ent s k = (with_items s (remove_key k (items s)), Some (k, v))).
Proof. unfold remove_ent. destruct (find k (items s)) eqn:E; [right; eauto|left; auto]. Qed.

Lemma remove_lru_in_spec s :
  (items s = [] /\ remove_lru_in s = (s, None)) \/
  (exists rest e, items s = rest ++ [e] /\ remove_lru_in s = (with_items s rest, Some e)).
Proof.
  unfold remove_lru_in. destruct (split_last (items s)) as [[rest e]|] eqn:E.
  - apply split_last_app in E. right; eauto.
  - apply split_last_none in E. left; auto.
Qed.

Lemma update_spec s k v :
  (find k (items s) = None /\ update s k v = (s, None)) \/
  (exists old, find k (items s) = Some old /\
               update s k v = (with_items s ((k, v) :: remove_key k (items s)), Some old)).
Proof. unfold update, touch. destruct (find k (items s)) eqn:E; [right; eauto|left; auto]. Qed.

Lemma remove_spec s k :
  (find k (items s) = None /\ remove s k = (s, None, [])) \/
  (exists v, find k (items s) = Some v /\
             remove s k = (with_items s (remove_key k (items s)), Some v, cbl s [(k, v)])).
Proof. unfold remove. destruct (find k (items s)) eqn:E; [right; eauto|left; auto]. Qed.

Lemma remove_lru_spec s :
  (items s = [] /\ remove_lru s = (s, None, [])) \/
  (exists rest e, items s = rest ++ [e] /\ remove_lru s = (with_items s rest, Some e, cbl s [e])).
Proof.
  unfold remove_lru. destruct (split_last (items s)) as [[rest e]|] eqn:E.
  - apply split_last_app in E. right; eauto.
  - apply split_last_none in E. left; auto.
Qed.

Lemma peek_lru_spec s :
  (items s = [] /\ peek_lru s = None) \/
  (exists rest e, items s = rest ++ [e] /\ peek_lru s = Some e).
Proof.
  unfold peek_lru. destruct (split_last (items s)) as [[rest e]|] eqn:E.
  - apply split_last_app in E. right; eauto.
  - apply split_last_none in E. left; auto.
Qed.

(** [put] on a list of capacity >= 1 *)
Lemma put_spec s k v :
  (1 <= cap s)%nat -> (llen s <= cap s)%nat ->
  (exists old, find k (items s) = Some old /\
               put s k v = (with_items s ((k, v) :: remove_key k (items s)), PUpdate old, [])) \/
  (find k (items s) = None /\ (llen s < cap s)%nat /\
   put s k v = (with_items s ((k, v) :: items s), PPut, [])) \/
  (find k (items s) = None /\ llen s = cap s /\ exists rest ek ev,
      items s = rest ++ [(ek, ev)] /\
      put s k v = (with_items s ((k, v) :: rest), PEvicted ek ev, cbl s [(ek, ev)])).
Proof.
  intros Hc Hl. unfold put, touch. destruct (find k (items s)) eqn:E; [left; eauto|right].
  destruct (Nat.eqb_spec (cap s) 0); [lia|].
  destruct (Nat.eqb_spec (llen s) (cap s)) as [Hf|Hf].
  - right. repeat split; auto.
    destruct (split_last (items s)) as [[rest [ek ev]]|] eqn:Es.
    + apply split_last_app in Es. eauto 6.
    + apply split_last_none in Es. unfold llen in Hf. rewrite Es in Hf. cbn in Hf. lia.
  - left. repeat split; auto. lia.
Qed.

Lemma get_mut_spec s k w :
  (find k (items s) = None /\ get_mut s k w = (s, None)) \/
  (exists v, find k (items s) = Some v /\
             get_mut s k w = (with_items s (set_val_opt k w ((k, v) :: remove_key k (items s))), Some v)).
Proof. unfold get_mut, touch. destruct (find k (items s)) eqn:E; [right; eauto|left; auto]. Qed.

Lemma peek_mut_spec s k w :
  (find k (items s) = None /\ peek_mut s k w = (s, None)) \/
  (exists v, find k (items s) = Some v /\
             peek_mut s k w = (with_items s (set_val_opt k w (items s)), Some v)).
Proof. unfold peek_mut. destruct (find k (items s)) eqn:E; [right; eauto|left; auto]. Qed.

(** rewriting database for lengths and counts of the shapes above *)
Lemma llen_with_items s l : llen (with_items s l) = length l.
Proof. reflexivity. Qed.
Lemma cap_with_items s l : cap (with_items s l) = cap s.
Proof. reflexivity. Qed.
Lemma items_with_items s l : items (with_items s l) = l.
Proof. reflexivity. Qed.
Lemma length_snoc {A} (l : list A) x : length (l ++ [x]) = S (length l).
Proof. rewrite app_length. cbn. lia. Qed.
Lemma length_cons {A} (x : A) (l : list A) : length (x :: l) = S (length l).
Proof. reflexivity. Qed.
Lemma cntl_snoc l k v x : cntl (l ++ [(k, v)]) x = (cntl l x + ind (Z.eqb k x))%nat.
Proof. rewrite cntl_app, cntl_cons, cntl_nil. lia. Qed.
Lemma cntl_set_val_opt_cons k w e l x : cntl (set_val_opt k w (e :: l)) x = cntl (e :: l) x.
Proof. apply cntl_set_val_opt. Qed.
Lemma length_set_val_opt k w l : length (set_val_opt k w l) = length l.
Proof. destruct w; cbn; [apply length_set_val|reflexivity]. Qed.

#[export] Hint Rewrite llen_with_items cap_with_items items_with_items @length_snoc @length_cons cntl_snoc
  cntl_cons cntl_app cntl_nil cntl_remove_key cntl_set_val_opt length_set_val_opt
  app_length ind_eqb_refl : cnt.
