(** * Facts about the floating-point constructor model (Flocq): which ratios are accepted, and the
    2Q sub-sizes are within [0, size].  These theorems depend on the axioms of the standard
    library's real numbers through Flocq (listed by Print Assumptions in props/C05.v, C08.v). *)
From Flocq Require Import Core.Core IEEE754.Binary IEEE754.Bits IEEE754.BinarySingleNaN.
From Coq Require Import ZArith Reals List Lia Lra.
From VF Require Import Sizing.
Import ListNotations.
Open Scope Z_scope.

Local Notation fexp64 := (FLT_exp (3 - 1024 - 53) 53).
#[local] Instance valid_fexp64 : Valid_exp fexp64.
Proof. apply FLT_exp_valid. reflexivity. Qed.
#[local] Instance valid_rnd_NE : Valid_rnd (round_mode mode_NE).
Proof. apply valid_rnd_round_mode. Qed.

(** ** sizes below 2^53 convert exactly *)
Lemma f_of_Z_exact (n : Z) :
  0 <= n < 2 ^ 53 -> B2R (f_of_Z n) = IZR n /\ is_finite (f_of_Z n) = true.
Proof.
  intros Hn. unfold f_of_Z.
  pose proof (binary_normalize_correct 53 1024 eq_refl eq_refl mode_NE n 0 false) as H. cbv zeta in H.
  assert (Hx : F2R (Float radix2 n 0) = IZR n) by (unfold F2R; cbn; lra).
  rewrite Hx in H.
  assert (Hg : generic_format radix2 fexp64 (IZR n)).
  { apply generic_format_FLT. exists (Float radix2 n 0); [symmetry; exact Hx| |cbn; lia].
    cbn [Fnum]. rewrite Z.abs_eq by lia. apply Hn. }
  rewrite (round_generic radix2 fexp64 _ (IZR n) Hg) in H.
  assert (Hlt : Rlt_bool (Rabs (IZR n)) (bpow radix2 1024) = true).
  { apply Rlt_bool_true. rewrite Rabs_pos_eq by (apply IZR_le; lia).
    apply Rlt_trans with (IZR (2 ^ 53)); [apply IZR_lt; lia|].
    change (IZR (2 ^ 53)) with (bpow radix2 53). apply bpow_lt. lia. }
  rewrite Hlt in H. destruct H as (H1 & H2 & _). split; assumption.
Qed.

(** ** accepted ratios are finite numbers of [0, 1]; NaN and the infinities are rejected *)
Lemma f_zero_R : B2R f_zero = 0%R /\ is_finite f_zero = true.
Proof. apply (f_of_Z_exact 0). lia. Qed.
Lemma f_one_R : B2R f_one = 1%R /\ is_finite f_one = true.
Proof. apply (f_of_Z_exact 1). lia. Qed.

Lemma ratio_ok_finite r : ratio_ok r = true -> is_finite r = true.
Proof.
  unfold ratio_ok, f_le. destruct r as [s|s| |s m e B]; try reflexivity.
  - destruct s; vm_compute; discriminate.
  - vm_compute. discriminate.
Qed.

Theorem ratio_ok_spec r :
  ratio_ok r = true <-> is_finite r = true /\ (0 <= B2R r <= 1)%R.
Proof.
  destruct f_zero_R as [Z0 Zf]. destruct f_one_R as [O1 Of].
  split.
  - intros H. pose proof (ratio_ok_finite r H) as Hf. split; [exact Hf|].
    unfold ratio_ok, f_le in H. apply andb_prop in H. destruct H as [H1 H2].
    rewrite (Bleb_correct 53 1024 _ _ Zf Hf) in H1. rewrite (Bleb_correct 53 1024 _ _ Hf Of) in H2.
    rewrite Z0 in H1. rewrite O1 in H2.
    destruct (Rle_bool_spec 0 (B2R r)); [|discriminate]. destruct (Rle_bool_spec (B2R r) 1); [|discriminate].
    lra.
  - intros [Hf [H0 H1]]. unfold ratio_ok, f_le.
    rewrite (Bleb_correct 53 1024 _ _ Zf Hf), (Bleb_correct 53 1024 _ _ Hf Of), Z0, O1.
    destruct (Rle_bool_spec 0 (B2R r)); [|lra]. destruct (Rle_bool_spec (B2R r) 1); [reflexivity|lra].
Qed.

Theorem nan_and_infinities_rejected :
  ratio_ok B754_nan = false /\ ratio_ok (B754_infinity false) = false /\ ratio_ok (B754_infinity true) = false /\
  fp_ok B754_nan = false /\ fp_ok (B754_infinity false) = false /\ fp_ok (B754_infinity true) = false /\
  fp_ok f_zero = false /\ fp_ok f_one = false.
Proof. vm_compute. repeat split. Qed.

(** ** the product size * ratio, truncated, stays within [0, size] *)
Theorem quota_bounds (size : Z) (r : f64) :
  1 <= size < 2 ^ 53 -> ratio_ok r = true ->
  0 <= f_floor_usize (f_mul (f_of_Z size) r) <= size.
Proof.
  intros Hs Hr. apply ratio_ok_spec in Hr. destruct Hr as [Hf [H0 H1]].
  destruct (f_of_Z_exact size ltac:(lia)) as [Hx Hxf].
  pose proof (Bmult_correct 53 1024 eq_refl eq_refl mode_NE (f_of_Z size) r) as Hm.
  rewrite Hx in Hm. change (SpecFloat.fexp 53 1024) with fexp64 in Hm.
  set (P := round radix2 fexp64 (round_mode mode_NE) (IZR size * B2R r)) in *.
  assert (Hg : generic_format radix2 fexp64 (IZR size)).
  { rewrite <- Hx. apply generic_format_B2R. }
  assert (HP : (0 <= P <= IZR size)%R).
  { assert (Hs0 : (0 <= IZR size)%R) by (apply IZR_le; lia).
    split.
    - rewrite <- (round_0 radix2 fexp64 (round_mode mode_NE)).
      apply round_le; [exact valid_fexp64|exact valid_rnd_NE|]. apply Rmult_le_pos; lra.
    - apply Rle_trans with (round radix2 fexp64 (round_mode mode_NE) (IZR size)).
      + apply round_le; [exact valid_fexp64|exact valid_rnd_NE|]. nra.
      + rewrite (round_generic radix2 fexp64 (round_mode mode_NE) (IZR size) Hg). lra. }
  assert (Hlt : Rlt_bool (Rabs P) (bpow radix2 1024) = true).
  { apply Rlt_bool_true. rewrite Rabs_pos_eq by lra.
    apply Rle_lt_trans with (IZR size); [lra|].
    apply Rlt_trans with (IZR (2 ^ 53)); [apply IZR_lt; lia|].
    change (IZR (2 ^ 53)) with (bpow radix2 53). apply bpow_lt. lia. }
  rewrite Hlt in Hm. destruct Hm as (Hv & Hfin & _). rewrite Hxf, Hf in Hfin. cbn in Hfin.
  fold (f_mul (f_of_Z size) r) in Hv, Hfin |- *.
  set (p := f_mul (f_of_Z size) r) in *.
  assert (Ht : BinarySingleNaN.Btrunc p = Ztrunc P).
  { apply eq_IZR. rewrite (@Btrunc_correct 53 1024 prec53_emax p), round_FIX_IZR.
    do 2 f_equal. exact Hv. }
  assert (Hz : 0 <= BinarySingleNaN.Btrunc p <= size).
  { rewrite Ht. split.
    - rewrite <- (Ztrunc_IZR 0). apply Ztrunc_le. lra.
    - rewrite <- (Ztrunc_IZR size). apply Ztrunc_le. lra. }
  assert (Hfp : is_finite p = true) by exact Hfin.
  unfold f_floor_usize, f_to_usize. clear Hv Ht Hfin. clearbody p.
  assert (Hgen : forall z, 0 <= z <= size -> 0 <= (if z <? 0 then 0 else Z.min z u64_max) <= size).
  { intros z Hzz. destruct (Z.ltb_spec z 0); [lia|]. rewrite Z.min_l; [exact Hzz|]. unfold u64_max. lia. }
  destruct p; try discriminate; apply Hgen; exact Hz.
Qed.

(** ** what the 2Q constructor does, clause by clause *)
Theorem ctor_twoq_spec size rr gr :
  0 <= size ->
  (size = 0 -> ctor_twoq size rr gr = err 1 0) /\
  (size <> 0 -> ratio_ok (f_of_bits rr) = false -> ctor_twoq size rr gr = err 2 rr) /\
  (size <> 0 -> ratio_ok (f_of_bits rr) = true -> ratio_ok (f_of_bits gr) = false ->
     ctor_twoq size rr gr = err 3 gr) /\
  (size <> 0 -> ratio_ok (f_of_bits rr) = true -> ratio_ok (f_of_bits gr) = true ->
     let rs := f_floor_usize (f_mul (f_of_Z size) (f_of_bits rr)) in
     let es := f_floor_usize (f_mul (f_of_Z size) (f_of_bits gr)) in
     ctor_twoq size rr gr = if es =? 0 then err 1 0 else [0; size; rs; es]).
Proof.
  intros Hs. unfold ctor_twoq. repeat split.
  - intros ->. reflexivity.
  - intros Hn Hr. destruct (Z.eqb_spec size 0); [contradiction|]. now rewrite Hr.
  - intros Hn Hr Hg. destruct (Z.eqb_spec size 0); [contradiction|]. now rewrite Hr, Hg.
  - intros Hn Hr Hg. destruct (Z.eqb_spec size 0); [contradiction|]. now rewrite Hr, Hg.
Qed.

Theorem ctor_twoq_ok_bounds size rr gr rs es :
  1 <= size < 2 ^ 53 -> ctor_twoq size rr gr = [0; size; rs; es] ->
  rs = f_floor_usize (f_mul (f_of_Z size) (f_of_bits rr)) /\
  es = f_floor_usize (f_mul (f_of_Z size) (f_of_bits gr)) /\
  0 <= rs <= size /\ 1 <= es <= size.
Proof.
  intros Hs H. unfold ctor_twoq in H.
  destruct (Z.eqb_spec size 0); [lia|].
  destruct (ratio_ok (f_of_bits rr)) eqn:Hr; cbn [negb] in H; [|discriminate].
  destruct (ratio_ok (f_of_bits gr)) eqn:Hg; cbn [negb] in H; [|discriminate].
  destruct (Z.eqb_spec (f_floor_usize (f_mul (f_of_Z size) (f_of_bits gr))) 0) as [E|E]; [discriminate|].
  injection H as <- <-.
  pose proof (quota_bounds size _ Hs Hr). pose proof (quota_bounds size _ Hs Hg).
  repeat split; try reflexivity; lia.
Qed.
