(** * The decisions of SegmentedCache do not look at the values.

    The segmented cache written over keys alone ([kslru]: two LRU sets), and the key projection of the model
    ([Slru.v]) as a simulation of it: in which segment a key lives, in which order, what a promotion demotes, what an
    insertion evicts, whether a call panics - all functions of the keys and the two capacities.  (The ground for
    replaying `SegmentedCache<K, ()>` in the same model, harness/src/zst.rs.) *)
From Coq Require Import List ZArith Arith Lia.
Import ListNotations.
From VF Require Import Base Lru Slru BaseFacts KeyProj.

Definition kslru := (kset * kset)%type.        (* probationary, protected *)
Definition sproj (s : slru) : kslru := (kproj (prob s), kproj (prot s)).

Definition kput_nonnull (s : kset) (k : key) : res (kset * option key) :=
  if Nat.leb (kcap s) (length (kitems s)) then
    match ksplit_last (kitems s) with
    | Some (rest, victim) => Ok (mkK (kcap s) (k :: rest), Some victim)
    | None => Panic 1
    end
  else Ok (mkK (kcap s) (k :: kitems s), None).

Definition kmove_to_protected (s : kslru) (k : key) : res kslru :=
  match kremove (fst s) k with
  | (prob1, true) =>
    do (prot1, ev) <- kput_nonnull (snd s) k;
    match ev with
    | None => Ok (prob1, prot1)
    | Some e => do (prob2, _) <- kput_nonnull prob1 e; Ok (prob2, prot1)
    end
  | (_, false) => Ok s
  end.

Definition ksput (s : kslru) (k : key) : res (kslru * kput_result) :=
  match kget (snd s) k with
  | (prot1, true) => Ok ((fst s, prot1), KUpdate)
  | (_, false) =>
    if kmem k (kitems (fst s)) then do s' <- kmove_to_protected s k; Ok (s', KUpdate)
    else let '(prob1, r) := kput (fst s) k in Ok ((prob1, snd s), r)
  end.

Definition ksget (s : kslru) (k : key) : res (kslru * bool) :=
  match kget (snd s) k with
  | (prot1, true) => Ok ((fst s, prot1), true)
  | (_, false) =>
    if kmem k (kitems (fst s)) then do s' <- kmove_to_protected s k; Ok (s', true)
    else Ok (s, false)
  end.

Definition ksremove (s : kslru) (k : key) : kslru * bool :=
  match kremove (fst s) k with
  | (prob1, true) => ((prob1, snd s), true)
  | (_, false) => let '(prot1, r) := kremove (snd s) k in ((fst s, prot1), r)
  end.

Definition ksput_protected (s : kslru) (k : key) : kslru * kput_result :=
  match kremove (fst s) k with
  | (prob1, true) =>
    let '(prot1, r) := kput (snd s) k in
    ((prob1, prot1), match r with KPut => KUpdate | other => other end)
  | (_, false) => let '(prot1, r) := kput (snd s) k in ((fst s, prot1), r)
  end.

(** ** the primitives *)
Lemma put_nonnull_blind s k v :
  match put_nonnull s (k, v) with
  | Ok (s', ev) => kput_nonnull (kproj s) k = Ok (kproj s', option_map fst ev)
  | Panic n => kput_nonnull (kproj s) k = Panic n
  end.
Proof.
  unfold put_nonnull, kput_nonnull, kproj. cbn [kcap kitems]. unfold llen. rewrite keys_length.
  destruct (Nat.leb (cap s) (length (items s))); [|reflexivity].
  rewrite keys_split_last. destruct (split_last (items s)) as [[rest [ek ev]]|]; reflexivity.
Qed.

Lemma remove_ent_blind s k :
  let '(s', r) := remove_ent s k in
  kremove (kproj s) k = (kproj s', hit r) /\ (forall e, r = Some e -> fst e = k).
Proof.
  unfold remove_ent, kremove, kproj. cbn [kcap kitems]. rewrite <- find_kmem.
  destruct (find k (items s)); cbn; split; try reflexivity.
  - now rewrite keys_remove_key.
  - intros e E. now inversion E.
  - discriminate.
Qed.

Lemma update_blind s k v :
  let '(s', r) := update s k v in kget (kproj s) k = (kproj s', hit r).
Proof.
  unfold update, kget, kproj. cbn [kcap kitems]. rewrite <- find_kmem.
  destruct (find k (items s)); cbn; [|reflexivity]. unfold ktouch. now rewrite keys_remove_key.
Qed.

Lemma move_to_protected_blind s k w :
  match move_to_protected s k w with
  | Ok s' => kmove_to_protected (sproj s) k = Ok (sproj s')
  | Panic n => kmove_to_protected (sproj s) k = Panic n
  end.
Proof.
  unfold move_to_protected, kmove_to_protected, sproj. cbn [fst snd].
  pose proof (remove_ent_blind (prob s) k) as Hr.
  destruct (remove_ent (prob s) k) as [prob1 [[k0 v0]|]]; destruct Hr as [Hr Hk]; rewrite Hr; cbn [hit].
  - specialize (Hk _ eq_refl). cbn in Hk. subst k0.
    set (v1 := match w with Some w0 => w0 | None => v0 end).
    unfold put_or_evict_nonnull.
    pose proof (put_nonnull_blind (prot s) k v1) as Hp.
    destruct (put_nonnull (prot s) (k, v1)) as [[prot1 ev]|n]; rewrite Hp; cbn [bind]; [|reflexivity].
    destruct ev as [[ek ev]|]; cbn [option_map fst]; [|reflexivity].
    pose proof (put_nonnull_blind prob1 ek ev) as Hq.
    destruct (put_nonnull prob1 (ek, ev)) as [[prob2 ev2]|n]; rewrite Hq; reflexivity.
  - reflexivity.
Qed.

(** ** the operations *)
Theorem sput_blind s k v :
  match sput s k v with
  | Ok (s', r) => ksput (sproj s) k = Ok (sproj s', put_keys r)
  | Panic n => ksput (sproj s) k = Panic n
  end.
Proof.
  unfold sput, ksput. cbn [sproj fst snd].
  pose proof (update_blind (prot s) k v) as Hu.
  destruct (update (prot s) k v) as [prot1 [old|]]; rewrite Hu; cbn [hit]; [reflexivity|].
  change (kmem k (kitems (kproj (prob s)))) with (kmem k (keys (items (prob s)))).
  rewrite <- find_kmem. destruct (find k (items (prob s))) as [old|]; cbn [hit].
  - pose proof (move_to_protected_blind s k (Some v)) as Hm.
    destruct (move_to_protected s k (Some v)) as [s'|n]; cbn [bind]; rewrite Hm; reflexivity.
  - pose proof (put_blind (prob s) k v) as Hp.
    destruct (put (prob s) k v) as [[prob1 r] cb]. rewrite <- Hp. reflexivity.
Qed.

Theorem sget_mut_blind s k w :
  match sget_mut s k w with
  | Ok (s', r) => ksget (sproj s) k = Ok (sproj s', hit r)
  | Panic n => ksget (sproj s) k = Panic n
  end.
Proof.
  unfold sget_mut, ksget. cbn [sproj fst snd].
  pose proof (get_mut_blind (prot s) k w) as Hg.
  destruct (get_mut (prot s) k w) as [prot1 [v|]]; rewrite <- Hg; cbn [hit]; [reflexivity|].
  change (kmem k (kitems (kproj (prob s)))) with (kmem k (keys (items (prob s)))).
  rewrite <- find_kmem. destruct (find k (items (prob s))) as [v|]; cbn [hit]; [|reflexivity].
  pose proof (move_to_protected_blind s k w) as Hm.
  destruct (move_to_protected s k w) as [s'|n]; cbn [bind]; rewrite Hm; reflexivity.
Qed.

Theorem sremove_blind s k :
  let '(s', r) := sremove s k in ksremove (sproj s) k = (sproj s', hit r).
Proof.
  unfold sremove, ksremove. cbn [sproj fst snd].
  pose proof (remove_blind (prob s) k) as Hr.
  destruct (remove (prob s) k) as [[prob1 [v|]] cb]; rewrite <- Hr; cbn [hit]; [reflexivity|].
  pose proof (remove_blind (prot s) k) as Hq.
  destruct (remove (prot s) k) as [[prot1 r] cb']. rewrite <- Hq. reflexivity.
Qed.

Theorem sput_protected_blind s k v :
  let '(s', r) := sput_protected s k v in ksput_protected (sproj s) k = (sproj s', put_keys r).
Proof.
  unfold sput_protected, ksput_protected. cbn [sproj fst snd].
  pose proof (remove_blind (prob s) k) as Hr.
  destruct (remove (prob s) k) as [[prob1 [old|]] cb]; rewrite <- Hr; cbn [hit].
  - pose proof (put_blind (prot s) k v) as Hp.
    destruct (put (prot s) k v) as [[prot1 r] cb']. rewrite <- Hp. destruct r; reflexivity.
  - pose proof (put_blind (prot s) k v) as Hp.
    destruct (put (prot s) k v) as [[prot1 r] cb']. rewrite <- Hp. reflexivity.
Qed.

Theorem slookups_blind s k :
  hit (speek s k) = (kmem k (kitems (kproj (prot s))) || kmem k (kitems (kproj (prob s))))%bool /\
  scontains s k = (kmem k (kitems (kproj (prot s))) || kmem k (kitems (kproj (prob s))))%bool /\
  sproj (spurge s) = (kpurge (kproj (prob s)), kpurge (kproj (prot s))).
Proof.
  unfold speek, scontains, contains, mem, peek, kproj. cbn [kitems]. rewrite <- !find_kmem.
  destruct (find k (items (prot s))), (find k (items (prob s))); cbn; repeat split; reflexivity.
Qed.
