(** * Facts about the association-list primitives of Base.v *)
From VF Require Import Base.
From Coq Require Import Permutation.

Lemma find_some_in k v l : find k l = Some v -> In (k, v) l.
Proof.
  induction l as [|[k' v'] t IH]; cbn; [discriminate|].
  destruct (Z.eqb_spec k k') as [->|Hne]; intros H.
  - inversion H; subst; now left.
  - right; auto.
Qed.

Lemma find_none_notin k l : find k l = None <-> ~ In k (keys l).
Proof.
  induction l as [|[k' v'] t IH]; cbn; [tauto|].
  destruct (Z.eqb_spec k k') as [->|Hne]; split; intros H.
  - discriminate.
  - exfalso; apply H; now left.
  - intros [E|E]; [congruence|]. now apply IH in H.
  - apply IH. intros E; apply H; now right.
Qed.

Lemma find_in_keys k v l : find k l = Some v -> In k (keys l).
Proof.
  intros H. destruct (in_dec Z.eq_dec k (keys l)) as [i|n]; [exact i|].
  apply find_none_notin in n. congruence.
Qed.

Lemma in_find_nodup k v l : NoDup (keys l) -> In (k, v) l -> find k l = Some v.
Proof.
  induction l as [|[k' v'] t IH]; cbn; [tauto|].
  intros Hnd [E|Hin].
  - inversion E; subst. now rewrite Z.eqb_refl.
  - inversion Hnd as [|? ? Hni Hnd']; subst.
    destruct (Z.eqb_spec k k') as [->|Hne].
    + exfalso. apply Hni. change (In (fst (k', v)) (map fst t)). now apply in_map.
    + auto.
Qed.

Lemma mem_true_iff k l : mem k l = true <-> In k (keys l).
Proof.
  unfold mem. destruct (find k l) eqn:E.
  - split; [intros _; eapply find_in_keys; eauto | reflexivity].
  - split; [discriminate|]. intros H. apply find_none_notin in E. contradiction.
Qed.

Lemma mem_false_iff k l : mem k l = false <-> ~ In k (keys l).
Proof.
  rewrite <- mem_true_iff. destruct (mem k l); split; intros; try congruence; try tauto.
Qed.


(** [remove_key] on keys: removes the first occurrence *)
Fixpoint remove1 (k : key) (l : list key) : list key :=
  match l with
  | [] => []
  | x :: t => if Z.eqb k x then t else x :: remove1 k t
  end.

Lemma keys_remove_key k l : keys (remove_key k l) = remove1 k (keys l).
Proof.
  unfold keys. induction l as [|[k' v'] t IH]; cbn; [reflexivity|].
  destruct (Z.eqb k k'); cbn; [reflexivity|]. now rewrite IH.
Qed.

Lemma in_remove1 x k l : In x (remove1 k l) -> In x l.
Proof.
  induction l as [|y t IH]; cbn; [tauto|].
  destruct (Z.eqb k y); cbn; intuition.
Qed.

Lemma in_remove1_neq x k l : x <> k -> In x l -> In x (remove1 k l).
Proof.
  intros Hne. induction l as [|y t IH]; cbn; [tauto|].
  destruct (Z.eqb_spec k y) as [->|Hn]; cbn; intuition congruence.
Qed.

Lemma nodup_remove1 k l : NoDup l -> NoDup (remove1 k l).
Proof.
  induction 1 as [|y t Hni Hnd IH]; cbn; [constructor|].
  destruct (Z.eqb k y); [exact Hnd|]. constructor; [|exact IH].
  intros Hin. apply Hni. eapply in_remove1; eauto.
Qed.

Lemma notin_remove1_nodup k l : NoDup l -> ~ In k (remove1 k l).
Proof.
  induction 1 as [|y t Hni Hnd IH]; cbn; [tauto|].
  destruct (Z.eqb_spec k y) as [->|Hn]; [exact Hni|].
  intros [E|Hin]; [congruence|]. contradiction.
Qed.

Lemma remove1_notin k l : ~ In k l -> remove1 k l = l.
Proof.
  induction l as [|y t IH]; cbn; [reflexivity|].
  intros H. destruct (Z.eqb_spec k y) as [->|Hn]; [exfalso; apply H; now left|].
  f_equal. apply IH. intros Hin; apply H; now right.
Qed.

Lemma length_remove1_in k l : In k l -> S (length (remove1 k l)) = length l.
Proof.
  induction l as [|y t IH]; cbn; [tauto|].
  destruct (Z.eqb_spec k y) as [->|Hn]; [reflexivity|].
  intros [E|Hin]; [congruence|]. cbn. now rewrite IH.
Qed.

Lemma length_remove_key k l : length (remove_key k l) = length (remove1 k (keys l)).
Proof. rewrite <- keys_remove_key. unfold keys. now rewrite map_length. Qed.

Lemma length_keys l : length (keys l) = length l.
Proof. unfold keys. apply map_length. Qed.

Lemma remove_key_notin k l : ~ In k (keys l) -> remove_key k l = l.
Proof.
  induction l as [|[k' v'] t IH]; cbn; [reflexivity|].
  intros H. destruct (Z.eqb_spec k k') as [->|Hn]; [exfalso; apply H; now left|].
  f_equal. apply IH. intros Hin; apply H; now right.
Qed.

Lemma find_remove_key_same k l : NoDup (keys l) -> find k (remove_key k l) = None.
Proof.
  intros H. apply find_none_notin. rewrite keys_remove_key. now apply notin_remove1_nodup.
Qed.

Lemma find_remove_key_other k k' l : k <> k' -> find k (remove_key k' l) = find k l.
Proof.
  intros Hne. induction l as [|[k2 v2] t IH]; cbn; [reflexivity|].
  destruct (Z.eqb_spec k' k2) as [->|Hn2].
  - destruct (Z.eqb_spec k k2); [congruence|reflexivity].
  - cbn. destruct (Z.eqb_spec k k2); [reflexivity|exact IH].
Qed.

Lemma in_remove_key e k l : In e (remove_key k l) -> In e l.
Proof.
  induction l as [|[k2 v2] t IH]; cbn; [tauto|].
  destruct (Z.eqb k k2); cbn; intuition.
Qed.

(** [set_val] keeps keys and positions *)
Lemma keys_set_val k w l : keys (set_val k w l) = keys l.
Proof.
  unfold keys. induction l as [|[k' v'] t IH]; cbn; [reflexivity|].
  destruct (Z.eqb_spec k k') as [->|Hn]; cbn; [reflexivity|]. now rewrite IH.
Qed.

Lemma keys_set_val_opt k w l : keys (set_val_opt k w l) = keys l.
Proof. destruct w; cbn; [apply keys_set_val|reflexivity]. Qed.

Lemma length_set_val k w l : length (set_val k w l) = length l.
Proof. rewrite <- !length_keys. now rewrite keys_set_val. Qed.

Lemma find_set_val_same k w l : In k (keys l) -> find k (set_val k w l) = Some w.
Proof.
  induction l as [|[k' v'] t IH]; cbn; [tauto|].
  destruct (Z.eqb_spec k k') as [->|Hn]; cbn.
  - now rewrite Z.eqb_refl.
  - intros [E|Hin]; [congruence|].
    destruct (Z.eqb_spec k k'); [congruence|auto].
Qed.

Lemma find_set_val_other k k' w l : k <> k' -> find k (set_val k' w l) = find k l.
Proof.
  intros Hne. induction l as [|[k2 v2] t IH]; cbn; [reflexivity|].
  destruct (Z.eqb_spec k' k2) as [->|Hn2]; cbn.
  - destruct (Z.eqb_spec k k2); [congruence|reflexivity].
  - destruct (Z.eqb_spec k k2); [reflexivity|exact IH].
Qed.

(** [split_last] *)
Lemma split_last_cons x t :
  split_last (x :: t) =
  match split_last t with Some (r, y) => Some (x :: r, y) | None => Some ([], x) end.
Proof. reflexivity. Qed.

Lemma split_last_none l : split_last l = None <-> l = [].
Proof.
  destruct l as [|x t]; [cbn; tauto|].
  rewrite split_last_cons. destruct (split_last t) as [[r y]|]; split; discriminate.
Qed.

Lemma split_last_snoc r e : split_last (r ++ [e]) = Some (r, e).
Proof.
  induction r as [|x r IH]; [reflexivity|].
  change ((x :: r) ++ [e]) with (x :: (r ++ [e])). rewrite split_last_cons, IH. reflexivity.
Qed.

Lemma split_last_app l r e : split_last l = Some (r, e) <-> l = r ++ [e].
Proof.
  split; [|intros ->; apply split_last_snoc].
  revert r e. induction l as [|x t IH]; intros r e; [discriminate|].
  rewrite split_last_cons. destruct (split_last t) as [[r' y]|] eqn:E.
  - intros H; inversion H; subst. cbn. f_equal. now apply IH.
  - intros H; inversion H; subst. apply split_last_none in E. subst. reflexivity.
Qed.

Lemma split_last_cons_nonempty x l : exists r e, split_last (x :: l) = Some (r, e).
Proof.
  destruct (split_last (x :: l)) as [[r e]|] eqn:E; [eauto|].
  apply split_last_none in E. discriminate.
Qed.
