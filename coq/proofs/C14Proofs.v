(** * C14 — iterators visit each entry exactly once, in order, from both ends.
    [it_run lru_order rs rem] (Iter.v) runs the requests [rs] (next = [Front], next_back = [Back],
    optionally storing a value through the yielded reference) on an iterator whose remaining
    entries are [rem] (most-recent first). *)
From VF Require Import Base Iter Enc Lru LruStep BaseFacts LruFacts C13Proofs.

(** the entries yielded, split by the end of the list they were taken from, in yield order *)
Fixpoint yields_by_end (lru_order : bool) (rs : list req) (ys : list (option entry * nat))
  : list entry * list entry :=
  match rs, ys with
  | (d, _) :: rs', (y, _) :: ys' =>
    let '(h, t) := yields_by_end lru_order rs' ys' in
    match y with
    | Some e => if from_head lru_order d then (e :: h, t) else (h, e :: t)
    | None => (h, t)
    end
  | _, _ => ([], [])
  end.

Lemma it_next_head lru_order d rem :
  from_head lru_order d = true ->
  it_next lru_order d rem = match rem with [] => (None, []) | e :: t => (Some e, t) end.
Proof. intros H. unfold it_next. now rewrite H. Qed.

Lemma it_next_tail lru_order d rem :
  from_head lru_order d = false ->
  it_next lru_order d rem = match split_last rem with None => (None, []) | Some (r, e) => (Some e, r) end.
Proof. intros H. unfold it_next. now rewrite H. Qed.

(** ** exactly once, in order, from both ends: what was yielded from the front, what remains and
    what was yielded from the back (reversed) always reassemble the original list *)
Theorem it_run_partition lru_order rs : forall rem,
  let '(ys, rem', _) := it_run lru_order rs rem in
  let '(h, t) := yields_by_end lru_order rs ys in
  h ++ rem' ++ rev t = rem.
Proof.
  induction rs as [|[d w] rs IH]; intros rem; cbn [it_run yields_by_end].
  - now rewrite app_nil_r.
  - destruct (from_head lru_order d) eqn:Eh.
    + rewrite (it_next_head _ _ _ Eh). destruct rem as [|e r].
      * specialize (IH []). destruct (it_run lru_order rs []) as [[ys rem'] wr].
        cbn -[from_head split_last rev]. destruct (yields_by_end lru_order rs ys) as [h t]. exact IH.
      * specialize (IH r). destruct (it_run lru_order rs r) as [[ys rem'] wr].
        cbn -[from_head split_last rev]. destruct (yields_by_end lru_order rs ys) as [h t]. cbn. now rewrite IH.
    + rewrite (it_next_tail _ _ _ Eh). destruct (split_last rem) as [[r e]|] eqn:Es.
      * apply split_last_app in Es. subst rem.
        specialize (IH r). destruct (it_run lru_order rs r) as [[ys rem'] wr].
        cbn -[from_head split_last rev]. destruct (yields_by_end lru_order rs ys) as [h t]. cbn [rev].
        rewrite !app_assoc. f_equal. rewrite <- app_assoc. exact IH.
      * apply split_last_none in Es. subst rem.
        specialize (IH []). destruct (it_run lru_order rs []) as [[ys rem'] wr].
        cbn -[from_head split_last rev]. destruct (yields_by_end lru_order rs ys) as [h t]. exact IH.
Qed.

(** ** the reported length is exact after every step, a yield is [None] exactly when nothing
    remained, and an exhausted iterator stays exhausted *)
Fixpoint lens_ok (n : nat) (ys : list (option entry * nat)) : Prop :=
  match ys with
  | [] => True
  | (y, len) :: ys' =>
    match y with
    | Some _ => (0 < n)%nat /\ len = (n - 1)%nat /\ lens_ok (n - 1) ys'
    | None => n = 0%nat /\ len = 0%nat /\ lens_ok 0 ys'
    end
  end.

Theorem it_run_lens lru_order rs : forall rem,
  lens_ok (length rem) (fst (fst (it_run lru_order rs rem))) /\
  length (fst (fst (it_run lru_order rs rem))) = length rs.
Proof.
  induction rs as [|[d w] rs IH]; intros rem; cbn [it_run]; [cbn; auto|].
  destruct (from_head lru_order d) eqn:Eh.
  - rewrite (it_next_head _ _ _ Eh). destruct rem as [|e r].
    + specialize (IH []). destruct (it_run lru_order rs []) as [[ys rem'] wr]. cbn in *. destruct IH. auto.
    + specialize (IH r). destruct (it_run lru_order rs r) as [[ys rem'] wr]. cbn -[Nat.sub] in *.
      replace (S (length r) - 1)%nat with (length r) by lia.
      destruct IH. repeat split; auto; lia.
  - rewrite (it_next_tail _ _ _ Eh). destruct (split_last rem) as [[r e]|] eqn:Es.
    + apply split_last_app in Es. subst rem.
      specialize (IH r). destruct (it_run lru_order rs r) as [[ys rem'] wr]. cbn -[Nat.sub] in *.
      rewrite app_length. cbn [length]. replace (length r + 1 - 1)%nat with (length r) by lia.
      destruct IH. repeat split; auto; lia.
    + apply split_last_none in Es. subst rem.
      specialize (IH []). destruct (it_run lru_order rs []) as [[ys rem'] wr]. cbn in *. destruct IH. auto.
Qed.

(** exactly [min (requests) (entries)] items are yielded *)
Fixpoint somes (ys : list (option entry * nat)) : nat :=
  match ys with [] => 0 | (Some _, _) :: t => S (somes t) | (None, _) :: t => somes t end.

Lemma lens_ok_somes n ys : lens_ok n ys -> somes ys = Nat.min (length ys) n.
Proof.
  revert n. induction ys as [|[[e|] len] ys IH]; intros n; cbn [lens_ok somes length]; [lia| |].
  - intros (Hn & _ & H). rewrite (IH _ H). lia.
  - intros (-> & _ & H). rewrite (IH _ H). lia.
Qed.

Theorem it_run_count lru_order rs rem :
  somes (fst (fst (it_run lru_order rs rem))) = Nat.min (length rs) (length rem).
Proof.
  destruct (it_run_lens lru_order rs rem) as [H1 H2]. rewrite (lens_ok_somes _ _ H1). now rewrite H2.
Qed.

(** fused: after a [None] every later yield is [None] *)
Fixpoint all_none (ys : list (option entry * nat)) : Prop :=
  match ys with [] => True | (None, _) :: t => all_none t | (Some _, _) :: _ => False end.
Fixpoint fused (ys : list (option entry * nat)) : Prop :=
  match ys with [] => True | (None, _) :: t => all_none t | (Some _, _) :: t => fused t end.

Lemma lens_ok_zero ys : lens_ok 0 ys -> all_none ys.
Proof.
  induction ys as [|[[e|] len] ys IH]; cbn; auto.
  - intros (H & _). lia.
  - intros (_ & _ & H). auto.
Qed.
Lemma lens_ok_fused n ys : lens_ok n ys -> fused ys.
Proof.
  revert n. induction ys as [|[[e|] len] ys IH]; intros n; cbn; auto.
  - intros (_ & _ & H). eauto.
  - intros (_ & _ & H). now apply lens_ok_zero.
Qed.
Theorem it_run_fused lru_order rs rem : fused (fst (fst (it_run lru_order rs rem))).
Proof. eapply lens_ok_fused. apply it_run_lens. Qed.

(** ** the least-recent-first iterators are exact reverses of the most-recent-first ones *)
Lemma split_last_rev_cons (e : entry) r : split_last (rev r ++ [e]) = Some (rev r, e).
Proof. apply split_last_snoc. Qed.

Lemma it_next_lru_rev d rem :
  it_next true d rem = let '(y, r) := it_next false d (rev rem) in (y, rev r).
Proof.
  unfold it_next. destruct d; cbn [from_head negb].
  - (* Front on an LRU iterator: from the tail of rem = the head of rev rem *)
    destruct (split_last rem) as [[r e]|] eqn:Es.
    + apply split_last_app in Es. subst. rewrite rev_app_distr. cbn. now rewrite rev_involutive.
    + apply split_last_none in Es. subst. reflexivity.
  - destruct rem as [|e r]; [reflexivity|]. cbn [rev]. rewrite split_last_snoc. now rewrite rev_involutive.
Qed.

Theorem it_run_lru_is_reverse rs : forall rem,
  let '(ys, rem', wr) := it_run true rs rem in
  let '(ys2, rem2, wr2) := it_run false rs (rev rem) in
  ys = ys2 /\ rem' = rev rem2 /\ wr = wr2.
Proof.
  induction rs as [|[d w] rs IH]; intros rem; cbn [it_run]; [now rewrite rev_involutive|].
  rewrite it_next_lru_rev. destruct (it_next false d (rev rem)) as [y r] eqn:En.
  specialize (IH (rev r)). rewrite rev_involutive in IH.
  destruct (it_run true rs (rev r)) as [[ys rem'] wr]. destruct (it_run false rs r) as [[ys2 rem2] wr2].
  destruct IH as (-> & -> & ->). rewrite rev_length. auto.
Qed.

(** ** a fresh iterator over the whole list, all the way: [n >= length l] calls of [next] yield
    the list in order (most-recent first, or least-recent first for the *_lru variants) *)
Fixpoint somes_list (ys : list (option entry * nat)) : list entry :=
  match ys with [] => [] | (Some e, _) :: t => e :: somes_list t | (None, _) :: t => somes_list t end.

Theorem it_run_all_front lru_order n l :
  (length l <= n)%nat ->
  somes_list (fst (fst (it_run lru_order (repeat (Front, None) n) l))) = if lru_order then rev l else l.
Proof.
  assert (H : forall n l, (length l <= n)%nat ->
            somes_list (fst (fst (it_run false (repeat (Front, None) n) l))) = l).
  { clear. induction n as [|n IH]; intros l Hl.
    - destruct l; [reflexivity|cbn in Hl; lia].
    - cbn [repeat it_run]. unfold it_next. cbn [from_head negb]. destruct l as [|e r].
      + specialize (IH [] ltac:(cbn; lia)). destruct (it_run false (repeat (Front, None) n) []) as [[ys rem'] wr].
        cbn in *. exact IH.
      + specialize (IH r ltac:(cbn in Hl; lia)). destruct (it_run false (repeat (Front, None) n) r) as [[ys rem'] wr].
        cbn in *. now rewrite IH. }
  intros Hl. destruct lru_order; [|now apply H].
  pose proof (it_run_lru_is_reverse (repeat (Front, None) n) l) as R.
  destruct (it_run true (repeat (Front, None) n) l) as [[ys rem'] wr].
  specialize (H n (rev l) ltac:(rewrite rev_length; exact Hl)).
  destruct (it_run false (repeat (Front, None) n) (rev l)) as [[ys2 rem2] wr2].
  destruct R as (-> & _). exact H.
Qed.

(** ** writes through the mutable iterators change exactly the visited values, never the order *)
Lemma keys_apply_writes' wrs l : keys (apply_writes wrs l) = keys l.
Proof. apply keys_apply_writes. Qed.

Theorem iter_script_keeps_order kd pre pa pb l :
  keys (snd (iter_script kd pre pa pb l)) = keys l.
Proof. apply keys_iter_script. Qed.

(** an immutable iterator (or a mutable one through which nothing is stored) changes nothing *)
Theorem iter_script_read_only kd pre pa pb l :
  ik_mut kd = false -> snd (iter_script kd pre pa pb l) = l.
Proof. intros Hm. apply iter_script_ro. unfold script_ro. now rewrite Hm. Qed.

(** a value stored through a yielded reference is what a later read of that key sees *)
Lemma find_apply_writes_last k w wrs l :
  In k (keys l) -> (forall k' w', In (k', w') wrs -> k' <> k) ->
  find k (apply_writes (wrs ++ [(k, w)]) l) = Some w.
Proof.
  intros Hin _. unfold apply_writes. rewrite fold_left_app. cbn.
  apply find_set_val_same. fold (apply_writes wrs l). now rewrite keys_apply_writes.
Qed.

(** a clone of an iterator advances independently: in [iter_script] the requests [pb] on the
    clone see exactly the iterator state at the moment of the clone, whatever [pa] does *)
Theorem iter_clone_independent kd pre pa pa' pb l :
  ik_mut kd = false ->
  snd (fst (iter_script kd pre pa pb l)) = snd (fst (iter_script kd pre pa' pb l)).
Proof.
  intros Hm. unfold iter_script. rewrite Hm. cbv beta iota zeta.
  repeat match goal with
         | |- context [it_run ?a ?b ?c] =>
           let y := fresh "y" in let r := fresh "r" in let w := fresh "w" in
           destruct (it_run a b c) as [[y r] w]
         end.
  reflexivity.
Qed.
