(** * SegmentedCache: invariant, totality, preservation. *)
From VF Require Import Base Iter Enc Lru LruStep Slru CacheStep BaseFacts LruFacts Counts PrimFacts.

Arguments put_nonnull : simpl never.
Arguments remove_ent : simpl never.
Arguments Lru.put : simpl never.
Arguments Lru.remove : simpl never.
Arguments Lru.update : simpl never.

Definition slru_inv (s : slru) : Prop :=
  (1 <= cap (prob s))%nat /\ (1 <= cap (prot s))%nat /\
  (llen (prob s) <= cap (prob s))%nat /\ (llen (prot s) <= cap (prot s))%nat /\
  forall x, (cntl (items (prob s)) x + cntl (items (prot s)) x <= 1)%nat.

(** case analysis on every [Z.eqb] in sight, then arithmetic *)
Ltac eqb_cases :=
  repeat match goal with
  | |- context [Z.eqb ?a ?b] => destruct (Z.eqb_spec a b); subst
  | H : context [Z.eqb ?a ?b] |- _ => destruct (Z.eqb_spec a b); subst
  end; cbn [ind] in *.

Ltac pointwise H :=
  let x := fresh "x" in
  intros x; pose proof (H x); autorewrite with cnt in *; eqb_cases; try lia.

Ltac norm := unfold llen in *; autorewrite with cnt in *; cbn [length] in *.

(** finish a conjunction of bounds, pointwise count facts (from [H]) and easy existentials *)
Ltac fin H :=
  repeat split; cbn [prob prot]; norm; try lia;
  try (match goal with |- forall _, _ => pointwise H end); eauto.

Lemma llen_length s : llen s = length (items s).
Proof. reflexivity. Qed.

Definition same_caps (s s' : slru) : Prop :=
  cap (prob s') = cap (prob s) /\ cap (prot s') = cap (prot s).

(** the promotion path shared by get, get_mut and put *)
Lemma move_to_protected_ok s k v0 w :
  slru_inv s -> find k (items (prob s)) = Some v0 ->
  exists s', move_to_protected s k w = Ok s' /\ slru_inv s' /\ same_caps s s' /\
             (forall x, (cntl (items (prob s')) x + cntl (items (prot s')) x =
                         cntl (items (prob s)) x + cntl (items (prot s)) x)%nat) /\
             exists v1 rest, items (prot s') = (k, v1) :: rest /\
                             v1 = match w with Some w => w | None => v0 end.
Proof.
  intros (Hc1 & Hc2 & Hl1 & Hl2 & Hd) Hf. unfold move_to_protected.
  destruct (remove_ent_spec (prob s) k) as [[Hn _]|[v [Hv ->]]]; [congruence|].
  assert (v = v0) by congruence; subst v.
  pose proof (cntl_find_some _ _ _ Hf) as Hpos.
  pose proof (length_remove_key_in _ _ Hpos) as Hlen.
  rewrite llen_length in *.
  set (v1 := match w with Some w0 => w0 | None => v0 end).
  unfold put_or_evict_nonnull.
  destruct (put_nonnull_spec (prot s) (k, v1) Hc2) as [[Hlt ->]|[Hge (rest & [vk vv] & Hit & ->)]]; cbn [bind].
  - eexists; split; [reflexivity|]. fin Hd.
  - norm. rewrite Hit in *. norm.
    destruct (put_nonnull_spec (with_items (prob s) (remove_key k (items (prob s)))) (vk, vv))
      as [[Hlt ->]|[Hge2 _]]; norm; try lia.
    cbn [bind]. eexists; split; [reflexivity|]. fin Hd.
Qed.

Lemma put_inv_seg l k v :
  (1 <= cap l)%nat -> (llen l <= cap l)%nat ->
  let '(l', r, _) := Lru.put l k v in
  cap l' = cap l /\ (llen l' <= cap l')%nat /\
  ((exists old, r = PUpdate old /\ (0 < cntl (items l) k)%nat /\
                forall x, cntl (items l') x = cntl (items l) x) \/
   (r = PPut /\ cntl (items l) k = 0%nat /\
    forall x, cntl (items l') x = (ind (Z.eqb k x) + cntl (items l) x)%nat) \/
   (exists ek ev, r = PEvicted ek ev /\ cntl (items l) k = 0%nat /\ (0 < cntl (items l) ek)%nat /\
      forall x, (cntl (items l') x + ind (Z.eqb ek x) = ind (Z.eqb k x) + cntl (items l) x)%nat)).
Proof.
  intros Hc Hl.
  destruct (put_spec l k v Hc Hl) as [(old & Hf & ->)|[(Hf & Hlt & ->)|(Hf & Hfull & rest & ek & ev & Hit & ->)]].
  - pose proof (cntl_find_some _ _ _ Hf) as Hpos. pose proof (length_remove_key_in _ _ Hpos).
    rewrite llen_length in *. autorewrite with cnt. repeat split; try (cbn; lia).
    left. exists old. repeat split; auto. intros x. autorewrite with cnt. eqb_cases; lia.
  - rewrite llen_length in *. autorewrite with cnt. repeat split; try (cbn; lia).
    right; left. repeat split; auto using cntl_find_none. intros x. now autorewrite with cnt.
  - rewrite llen_length in *. rewrite Hit in *. autorewrite with cnt in *. repeat split; try (cbn; lia).
    right; right. exists ek, ev. apply cntl_find_none in Hf. autorewrite with cnt in Hf.
    repeat split; auto; try lia.
    + autorewrite with cnt. lia.
    + intros x. autorewrite with cnt. lia.
Qed.

(** ** the operations *)

Definition scnt (s : slru) (x : key) : nat := (cntl (items (prob s)) x + cntl (items (prot s)) x)%nat.

Lemma sput_ok s k v :
  slru_inv s -> exists s' r, sput s k v = Ok (s', r) /\ slru_inv s' /\ same_caps s s' /\
                             (forall x, (scnt s' x <= scnt s x + ind (Z.eqb k x))%nat) /\
                             (0 < scnt s' k)%nat.
Proof.
  intros Hinv. pose proof Hinv as (Hc1 & Hc2 & Hl1 & Hl2 & Hd). unfold sput, scnt.
  destruct (update_spec (prot s) k v) as [[Hn ->]|(old & Hf & ->)].
  - destruct (find k (items (prob s))) as [old|] eqn:Ef.
    + destruct (move_to_protected_ok s k old (Some v) Hinv Ef) as (s' & -> & Hi & Hcaps & Heq & (v1 & rest & Hhd & _)).
      cbn [bind]. do 2 eexists; split; [reflexivity|]. split; [exact Hi|]. split; [exact Hcaps|]. split.
      * intros x. rewrite Heq. lia.
      * rewrite Hhd. rewrite cntl_cons, Z.eqb_refl. cbn. lia.
    + pose proof (put_inv_seg (prob s) k v Hc1 Hl1) as P.
      destruct (Lru.put (prob s) k v) as [[l' r] cb]. destruct P as (Pc & Pl & Pcases).
      do 2 eexists; split; [reflexivity|]. apply cntl_find_none in Hn. apply cntl_find_none in Ef.
      assert (Hx : forall x, (cntl (items l') x <= cntl (items (prob s)) x + ind (Z.eqb k x))%nat /\
                             (0 < cntl (items l') k)%nat).
      { intros x.
        destruct Pcases as [(o & _ & Hp & E)|[(_ & Hz & E)|(ek & ev & _ & Hz & Hp & E)]].
        - rewrite !E. split; [lia|exact Hp].
        - rewrite !E. rewrite Z.eqb_refl. cbn [ind]. split; lia.
        - pose proof (E x) as Ex. pose proof (E k) as Ek. rewrite Z.eqb_refl in Ek. cbn [ind] in Ek.
          assert (ek <> k) by (intros ->; lia).
          rewrite (ind_eqb_neq ek k) in Ek by assumption. split; lia. }
      split; [|split; [split; cbn; auto|]].
      * repeat split; cbn [prob prot]; try lia.
        intros x. pose proof (Hd x). destruct (Hx x) as [Hxa _]. eqb_cases; lia.
      * cbn [prob prot]. split.
        -- intros x. destruct (Hx x) as [Hxa _]. lia.
        -- destruct (Hx k) as [_ Hxb]. lia.
  - pose proof (cntl_find_some _ _ _ Hf) as Hpos. pose proof (length_remove_key_in _ _ Hpos).
    do 2 eexists; split; [reflexivity|]. split; [fin Hd|]. split; [split; reflexivity|].
    cbn [prob prot]. split.
    + intros x. norm. eqb_cases; lia.
    + norm. lia.
Qed.

Lemma sget_mut_ok s k w :
  slru_inv s -> exists s' r, sget_mut s k w = Ok (s', r) /\ slru_inv s' /\ same_caps s s' /\
                             (forall x, scnt s' x = scnt s x).
Proof.
  intros Hinv. pose proof Hinv as (Hc1 & Hc2 & Hl1 & Hl2 & Hd). unfold sget_mut, scnt.
  destruct (get_mut_spec (prot s) k w) as [[Hn ->]|(v & Hf & ->)].
  - destruct (find k (items (prob s))) as [v|] eqn:Ef.
    + destruct (move_to_protected_ok s k v w Hinv Ef) as (s' & -> & Hi & Hcaps & Heq & _).
      cbn [bind]. eauto 8.
    + do 2 eexists; split; [reflexivity|]. split; [exact Hinv|]. split; [split; reflexivity|reflexivity].
  - pose proof (cntl_find_some _ _ _ Hf) as Hpos. pose proof (length_remove_key_in _ _ Hpos).
    do 2 eexists; split; [reflexivity|]. split; [fin Hd|]. split; [split; reflexivity|].
    cbn [prob prot]. intros x. norm. eqb_cases; lia.
Qed.

Lemma lru_remove_inv_seg l k :
  let '(l', r, _) := Lru.remove l k in
  cap l' = cap l /\ (llen l' <= llen l)%nat /\
  (forall x, cntl (items l') x = (cntl (items l) x - (if r then ind (Z.eqb k x) else 0))%nat) /\
  (r = None -> l' = l /\ cntl (items l) k = 0%nat) /\ (r <> None -> (0 < cntl (items l) k)%nat).
Proof.
  destruct (remove_spec l k) as [[Hn ->]|(v & Hf & ->)].
  - repeat split; auto using cntl_find_none; try lia. congruence.
  - pose proof (cntl_find_some _ _ _ Hf) as Hpos. pose proof (length_remove_key_in _ _ Hpos).
    norm. repeat split; auto; try lia; try congruence. intros x. now norm.
Qed.

Lemma speek_mut_ok s k w :
  slru_inv s -> slru_inv (fst (speek_mut s k w)) /\ same_caps s (fst (speek_mut s k w)) /\
                (forall x, scnt (fst (speek_mut s k w)) x = scnt s x).
Proof.
  intros (Hc1 & Hc2 & Hl1 & Hl2 & Hd). unfold speek_mut, scnt.
  destruct (peek_mut_spec (prot s) k w) as [[Hn ->]|(v & Hf & ->)].
  - destruct (peek_mut_spec (prob s) k w) as [[Hn2 ->]|(v & Hf & ->)]; cbn [fst];
      (split; [|split; [split; reflexivity|]]).
    + repeat split; assumption.
    + reflexivity.
    + fin Hd.
    + cbn [prob prot]. intros x. now norm.
  - cbn [fst]. split; [|split; [split; reflexivity|]]. fin Hd.
    cbn [prob prot]. intros x. now norm.
Qed.

Lemma sremove_ok s k :
  slru_inv s -> slru_inv (fst (sremove s k)) /\ same_caps s (fst (sremove s k)) /\
                (forall x, (scnt (fst (sremove s k)) x <= scnt s x)%nat).
Proof.
  intros (Hc1 & Hc2 & Hl1 & Hl2 & Hd). unfold sremove, scnt.
  pose proof (lru_remove_inv_seg (prob s) k) as P.
  destruct (Lru.remove (prob s) k) as [[l' r] cb]. destruct P as (Pc & Pl & Pe & _).
  destruct r as [v|]; cbn [fst].
  - split; [|split; [split; cbn; auto|]].
    + repeat split; cbn [prob prot]; try lia.
      intros x. pose proof (Hd x). rewrite Pe. lia.
    + cbn [prob prot]. intros x. rewrite Pe. lia.
  - pose proof (lru_remove_inv_seg (prot s) k) as Q.
    destruct (Lru.remove (prot s) k) as [[l2 r2] cb2]. destruct Q as (Qc & Ql & Qe & _).
    cbn [fst]. split; [|split; [split; cbn; auto|]].
    + repeat split; cbn [prob prot]; try lia.
      intros x. pose proof (Hd x). rewrite Qe. lia.
    + cbn [prob prot]. intros x. rewrite Qe. lia.
Qed.

Lemma sput_protected_ok s k v :
  slru_inv s -> slru_inv (fst (sput_protected s k v)) /\ same_caps s (fst (sput_protected s k v)) /\
                (0 < cntl (items (prot (fst (sput_protected s k v)))) k)%nat /\
                cntl (items (prob (fst (sput_protected s k v)))) k = 0%nat /\
                (forall x, (scnt (fst (sput_protected s k v)) x <= scnt s x + ind (Z.eqb k x))%nat).
Proof.
  intros (Hc1 & Hc2 & Hl1 & Hl2 & Hd). unfold sput_protected, scnt.
  pose proof (lru_remove_inv_seg (prob s) k) as P.
  destruct (Lru.remove (prob s) k) as [[l' r] cb]. destruct P as (Pc & Pl & Pe & Pn & Ps).
  pose proof (put_inv_seg (prot s) k v Hc2 Hl2) as Q.
  destruct (Lru.put (prot s) k v) as [[l2 r2] cb2]. destruct Q as (Qc & Ql & Qcases).
  assert (Hk : (0 < cntl (items l2) k)%nat).
  { destruct Qcases as [(o & _ & Hp & E)|[(_ & _ & E)|(ek & ev & _ & Hz & Hp & E)]].
    - rewrite E. exact Hp.
    - rewrite E. rewrite Z.eqb_refl. cbn. lia.
    - specialize (E k). rewrite Z.eqb_refl in E. cbn [ind] in E.
      destruct (Z.eqb_spec ek k); cbn [ind] in E; subst; lia. }
  destruct r as [old|]; cbn [fst prob prot].
  - split; [|split; [split; cbn; auto|]].
    + repeat split; cbn [prob prot]; try lia.
      intros x. pose proof (Hd x). rewrite Pe.
      destruct Qcases as [(o & _ & _ & E)|[(_ & Hz & E)|(ek & ev & _ & Hz & _ & E)]];
        specialize (E x); pose proof (Ps ltac:(congruence)); eqb_cases; try lia.
    + split; [exact Hk|]. split.
      * rewrite Pe. rewrite Z.eqb_refl. cbn [ind]. pose proof (Hd k). lia.
      * intros x. rewrite Pe.
        destruct Qcases as [(o & _ & _ & E)|[(_ & Hz & E)|(ek & ev & _ & Hz & _ & E)]];
          specialize (E x); eqb_cases; lia.
  - destruct (Pn eq_refl) as [-> Hz0].
    split; [|split; [split; cbn; auto|]].
    + repeat split; cbn [prob prot]; try lia.
      intros x. pose proof (Hd x).
      destruct Qcases as [(o & _ & _ & E)|[(_ & Hz & E)|(ek & ev & _ & Hz & _ & E)]];
        specialize (E x); eqb_cases; try lia.
    + split; [exact Hk|]. split; [exact Hz0|].
      intros x.
      destruct Qcases as [(o & _ & _ & E)|[(_ & Hz & E)|(ek & ev & _ & Hz & _ & E)]];
        specialize (E x); eqb_cases; lia.
Qed.

Lemma seg_same_keys_inv s p l :
  slru_inv s -> keys (items l) = keys (items (seg s p)) -> cap l = cap (seg s p) ->
  slru_inv (with_seg s p l) /\ same_caps s (with_seg s p l).
Proof.
  intros (Hc1 & Hc2 & Hl1 & Hl2 & Hd) Hk Hcap.
  pose proof (length_of_keys_eq _ _ Hk) as Hlen.
  assert (Hcnt : forall x, cntl (items l) x = cntl (items (seg s p)) x)
    by (intros x; now apply cntl_same_keys).
  destruct p; cbn [seg with_seg] in *; (split; [|split; cbn; auto]);
    repeat split; cbn [prob prot]; unfold llen in *; try lia;
    intros x; pose proof (Hd x); rewrite Hcnt; lia.
Qed.

Lemma clone_seg l : (llen l <= cap l)%nat -> (forall x, (cntl (items l) x <= 1)%nat) -> clone l = l.
Proof. intros Hl Hd. apply clone_id. split; [now apply cntl_nodup|exact Hl]. Qed.

Theorem sstep_ok s o :
  slru_inv s -> exists s' out, sstep s o = Ok (s', out) /\ slru_inv s' /\ same_caps s s'.
Proof.
  intros Hinv. pose proof Hinv as (Hc1 & Hc2 & Hl1 & Hl2 & Hd).
  assert (Hsame : same_caps s s) by (split; reflexivity).
  destruct o as [o|k v|p mru w|p|p|p|]; cbn [sstep].
  - destruct o; cbn [sstep_trait]; try (do 2 eexists; split; [reflexivity|split; assumption]).
    + destruct (sput_ok s k v Hinv) as (s' & r & -> & Hi & Hcp & _). cbn [bind]. eauto.
    + unfold sget. destruct (sget_mut_ok s k None Hinv) as (s' & r & -> & Hi & Hcp & _). cbn [bind]. eauto.
    + destruct (sget_mut_ok s k w Hinv) as (s' & r & -> & Hi & Hcp & _). cbn [bind]. eauto.
    + pose proof (speek_mut_ok s k w Hinv) as (P & Q & _). destruct (speek_mut s k w) as [s' r]. eauto.
    + pose proof (sremove_ok s k Hinv) as (P & Q & _). destruct (sremove s k) as [s' r]. eauto.
    + do 2 eexists; split; [reflexivity|]. split; [|split; reflexivity].
      unfold spurge, purge. cbn [fst]. fin Hd.
  - pose proof (sput_protected_ok s k v Hinv) as (P & Q & _).
    destruct (sput_protected s k v) as [s' r]. eauto.
  - destruct w as [w|].
    + destruct mru.
      * do 2 eexists; split; [reflexivity|]. apply seg_same_keys_inv; auto. apply keys_set_hd.
      * do 2 eexists; split; [reflexivity|]. apply seg_same_keys_inv; auto. apply keys_set_last.
    + eauto.
  - destruct (remove_lru_spec (seg s p)) as [[Hn ->]|(rest & e & Hit & ->)].
    + do 2 eexists; split; [reflexivity|].
      destruct p; cbn [with_seg seg]; destruct s; cbn; auto.
    + do 2 eexists; split; [reflexivity|].
      destruct e as [ek ev].
      destruct p; cbn [seg with_seg] in *; (split; [|split; reflexivity]);
        norm; rewrite ?Hit in *; fin Hd.
  - eauto.
  - eauto.
  - assert (E1 : clone (prob s) = prob s).
    { apply clone_seg; [exact Hl1|]. intros x. pose proof (Hd x). lia. }
    assert (E2 : clone (prot s) = prot s).
    { apply clone_seg; [exact Hl2|]. intros x. pose proof (Hd x). lia. }
    do 2 eexists; split; [reflexivity|]. unfold sclone. rewrite E1, E2. destruct s; auto.
Qed.

Lemma slru_new_inv pc fc : (1 <= pc)%nat -> (1 <= fc)%nat -> slru_inv (slru_new pc fc).
Proof. intros. repeat split; cbn; try lia. intros x. rewrite !cntl_nil. lia. Qed.
