(** * Whole histories: the keys of a RawLRU after any sequence of calls, with whatever values, are what the LRU set over
    keys alone holds after the same calls. *)
From Coq Require Import List ZArith Arith Lia.
Import ListNotations.
From VF Require Import Base Lru BaseFacts KeyProj.

(** the calls that can change the order or the content, with the values they carry *)
Inductive vop :=
| VPut (k : key) (v : val)
| VGet (k : key)
| VGetMut (k : key) (w : option val)
| VPeekMut (k : key) (w : option val)
| VRemove (k : key)
| VRemoveLru
| VGetLru
| VPurge
| VResize (n : nat).

(** the same calls without their values *)
Inductive kop :=
| KPutO (k : key) | KGetO (k : key) | KPeekO (k : key) | KRemoveO (k : key)
| KRemoveLruO | KGetLruO | KPurgeO | KResizeO (n : nat).

Definition strip (o : vop) : kop :=
  match o with
  | VPut k _ => KPutO k
  | VGet k | VGetMut k _ => KGetO k
  | VPeekMut k _ => KPeekO k
  | VRemove k => KRemoveO k
  | VRemoveLru => KRemoveLruO
  | VGetLru => KGetLruO
  | VPurge => KPurgeO
  | VResize n => KResizeO n
  end.

Definition vstep (s : lru) (o : vop) : lru :=
  match o with
  | VPut k v => fst (fst (put s k v))
  | VGet k => fst (get s k)
  | VGetMut k w => fst (get_mut s k w)
  | VPeekMut k w => fst (peek_mut s k w)
  | VRemove k => fst (fst (remove s k))
  | VRemoveLru => fst (fst (remove_lru s))
  | VGetLru => fst (get_lru s)
  | VPurge => fst (purge s)
  | VResize n => fst (fst (resize s n))
  end.

Definition kstep (s : kset) (o : kop) : kset :=
  match o with
  | KPutO k => fst (kput s k)
  | KGetO k => fst (kget s k)
  | KPeekO _ => s
  | KRemoveO k => fst (kremove s k)
  | KRemoveLruO => fst (kremove_lru s)
  | KGetLruO => fst (kget_lru s)
  | KPurgeO => kpurge s
  | KResizeO n => fst (kresize s n)
  end.

Lemma vstep_blind s o : kproj (vstep s o) = kstep (kproj s) (strip o).
Proof.
  destruct o as [k v|k|k w|k w|k| | | |n]; cbn [vstep kstep strip].
  - pose proof (put_blind s k v) as H. destruct (put s k v) as [[s' r] cb]. now rewrite <- H.
  - pose proof (get_blind s k) as H. destruct (get s k) as [s' r]. now rewrite <- H.
  - pose proof (get_mut_blind s k w) as H. destruct (get_mut s k w) as [s' r]. now rewrite <- H.
  - pose proof (peek_blind s k w) as (_ & _ & H). destruct (peek_mut s k w) as [s' r]. apply H.
  - pose proof (remove_blind s k) as H. destruct (remove s k) as [[s' r] cb]. now rewrite <- H.
  - pose proof (remove_lru_blind s) as H. destruct (remove_lru s) as [[s' r] cb]. now rewrite <- H.
  - pose proof (get_lru_blind s) as H. destruct (get_lru s) as [s' r]. now rewrite <- H.
  - apply purge_blind.
  - pose proof (resize_blind s n) as H. destruct (resize s n) as [[s' r] cb]. now rewrite <- H.
Qed.

Theorem vrun_blind ops : forall s,
  kproj (fold_left vstep ops s) = fold_left kstep (map strip ops) (kproj s).
Proof.
  induction ops as [|o ops IH]; intros s; cbn [fold_left map]; [reflexivity|].
  now rewrite IH, vstep_blind.
Qed.

(** two histories that differ in their values only (the second may carry none at all) leave the same keys in the same
    order, from any two states that hold the same keys in the same order *)
Corollary same_calls_same_order ops1 ops2 s1 s2 :
  map strip ops1 = map strip ops2 -> kproj s1 = kproj s2 ->
  kproj (fold_left vstep ops1 s1) = kproj (fold_left vstep ops2 s2).
Proof. intros Eo Es. now rewrite !vrun_blind, Eo, Es. Qed.
