(** * C13 — read-only operations never change the state (hence no later result). *)
From VF Require Import Base Iter Enc Lru LruStep Slru TwoQ Arc CacheStep Tiny WTiny TinyStep
  BaseFacts LruFacts Run.

(** ** iterator scripts without writes leave the list unchanged *)
Definition no_writes (rs : list req) : bool := forallb (fun r => match snd r with None => true | Some _ => false end) rs.

Lemma it_run_no_writes lru_order rs rem :
  no_writes rs = true -> snd (it_run lru_order rs rem) = [].
Proof.
  revert rem. induction rs as [|[d w] rs IH]; intros rem H; cbn; [reflexivity|].
  cbn in H. apply andb_prop in H. destruct H as [Hw H]. destruct w; [discriminate|].
  destruct (it_next lru_order d rem) as [y rem'].
  specialize (IH rem' H). destruct (it_run lru_order rs rem') as [[ys remf] wrs]. cbn in *.
  subst. destruct y as [[k v]|]; reflexivity.
Qed.

Lemma map_strip_no_writes rs : no_writes (map (fun r : req => (fst r, @None val)) rs) = true.
Proof. induction rs as [|r rs IH]; cbn; auto. Qed.

Lemma map_id_no_writes rs : no_writes rs = true -> no_writes (map (fun r : req => r) rs) = true.
Proof. now rewrite map_id. Qed.

(** an iterator script is read-only when the iterator is not a mutable one, or no request writes *)
Definition script_ro (kd : iter_kind) (pre pa : list req) : bool :=
  negb (ik_mut kd) || (no_writes pre && no_writes pa).

Lemma iter_script_ro kd pre pa pb l :
  script_ro kd pre pa = true -> snd (iter_script kd pre pa pb l) = l.
Proof.
  unfold script_ro, iter_script. intros H.
  set (strip := if ik_mut kd then (fun r : req => r) else (fun r : req => (fst r, None))).
  assert (Hp : no_writes (map strip pre) = true /\ no_writes (map strip pa) = true).
  { unfold strip. destruct (ik_mut kd); cbn in H.
    - apply andb_prop in H. destruct H. split; now apply map_id_no_writes.
    - split; apply map_strip_no_writes. }
  destruct Hp as [Hp1 Hp2].
  pose proof (it_run_no_writes (ik_lru kd) (map strip pre) l Hp1) as W0.
  destruct (it_run (ik_lru kd) (map strip pre) l) as [[y0 rem0] w0]. cbn in W0. subst w0.
  pose proof (it_run_no_writes (ik_lru kd) (map strip pa) rem0 Hp2) as Wa.
  destruct (it_run (ik_lru kd) (map strip pa) rem0) as [[ya rema] wa]. cbn in Wa. subst wa.
  destruct (it_run (ik_lru kd) (map (fun r : req => (fst r, None)) pb) rem0) as [[yb remb] wb].
  reflexivity.
Qed.

Lemma with_items_id s : with_items s (items s) = s.
Proof. destruct s; reflexivity. Qed.

(** ** RawLRU *)
Definition l_read_only (o : lop) : bool :=
  match o with
  | LPeek _ | LPeekMut _ None | LContains _ | LLen | LCap | LIsEmpty | LGetMru | LGetMruMut None
  | LPeekLru | LPeekLruMut None | LPeekMru | LPeekMruMut None | LDebug => true
  | LIter kd pre pa _ => script_ro kd pre pa
  | _ => false
  end.

Theorem lstep_read_only s o : l_read_only o = true -> fst (fst (lstep s o)) = s /\ snd (lstep s o) = [].
Proof.
  destruct o; cbn [l_read_only]; try discriminate; try (intros _; split; reflexivity).
  - destruct w; [discriminate|]. intros _. cbn. unfold peek_mut.
    destruct (find k (items s)); cbn; rewrite ?with_items_id; auto.
  - destruct w; [discriminate|]. intros _. cbn. rewrite with_items_id. auto.
  - destruct w; [discriminate|]. intros _. cbn. rewrite with_items_id. auto.
  - destruct w; [discriminate|]. intros _. cbn. rewrite with_items_id. auto.
  - intros H. cbn. pose proof (iter_script_ro kd pre pa pb (items s) H) as E.
    destruct (iter_script kd pre pa pb (items s)) as [[[y0 ya] yb] l']. cbn in E. subst l'.
    cbn. rewrite with_items_id. auto.
Qed.

(** ** the Cache-trait part shared by the composite caches *)
Definition c_read_only (o : cop) : bool :=
  match o with
  | CPeek _ | CPeekMut _ None | CContains _ | CLen | CCap | CIsEmpty => true
  | _ => false
  end.

Lemma peek_mut_none s k : fst (peek_mut s k None) = s.
Proof. unfold peek_mut. destruct (find k (items s)); cbn; rewrite ?with_items_id; reflexivity. Qed.

Lemma peek_mut_snd s k w : snd (peek_mut s k w) = find k (items s).
Proof. unfold peek_mut. destruct (find k (items s)); reflexivity. Qed.

(** ** SegmentedCache *)
Definition s_read_only (o : sop) : bool :=
  match o with
  | STrait o => c_read_only o
  | SPeekSeg _ _ None | SPeekSeg _ _ (Some None) | SSegLen _ | SSegCap _ => true
  | _ => false
  end.

Lemma speek_mut_none s k : fst (speek_mut s k None) = s.
Proof.
  unfold speek_mut. pose proof (peek_mut_none (prot s) k) as E1. pose proof (peek_mut_snd (prot s) k None) as E2.
  destruct (peek_mut (prot s) k None) as [p1 [v|]]; cbn in *; subst.
  - now destruct s.
  - pose proof (peek_mut_none (prob s) k) as E3. destruct (peek_mut (prob s) k None) as [q1 r]. cbn in *. subst.
    now destruct s.
Qed.

Theorem sstep_read_only s o : s_read_only o = true -> exists out, sstep s o = Ok (s, out).
Proof.
  destruct o as [o|k v|p mru w|p|p|p|]; cbn [s_read_only]; try discriminate.
  - destruct o; cbn [c_read_only]; try discriminate; intros H; cbn [sstep sstep_trait]; eauto.
    destruct w; [discriminate|]. pose proof (speek_mut_none s k) as E.
    destruct (speek_mut s k None) as [s' r]. cbn in E. subst. eauto.
  - intros H. destruct w as [[w|]|]; [discriminate| |]; cbn [sstep]; eauto.
    destruct mru; cbn; unfold with_seg, seg; destruct p; cbn; rewrite with_items_id; destruct s; eauto.
  - intros _. cbn. eauto.
  - intros _. cbn. eauto.
Qed.

(** ** TwoQueueCache *)
Definition list_iter_ro (args : list Z) : bool :=
  match dec_iter args with
  | Some (kd, pre, pa, _) => script_ro kd pre pa
  | None => true
  end.

Definition q_read_only (o : qop) : bool :=
  match o with
  | QTrait o => c_read_only o
  | QListLen _ | QDebug => true
  | QIter _ args => list_iter_ro args
  end.

Lemma qpeek_mut_none s k : fst (qpeek_mut s k None) = s.
Proof.
  unfold qpeek_mut. pose proof (peek_mut_none (frequent s) k) as E1.
  destruct (peek_mut (frequent s) k None) as [p1 [v|]]; cbn in *; subst.
  - now destruct s.
  - pose proof (peek_mut_none (recent s) k) as E3. destruct (peek_mut (recent s) k None) as [q1 r]. cbn in *. subst.
    now destruct s.
Qed.

Lemma run_list_iter_ro l args l' out :
  list_iter_ro args = true -> run_list_iter l args = Some (l', out) -> l' = l.
Proof.
  unfold list_iter_ro, run_list_iter. destruct (dec_iter args) as [[[[kd pre] pa] pb]|]; [|discriminate].
  intros H. pose proof (iter_script_ro kd pre pa pb (items l) H) as E.
  destruct (iter_script kd pre pa pb (items l)) as [[[y0 ya] yb] l2]. cbn in E. subst l2.
  intros X; inversion X; subst. apply with_items_id.
Qed.

Lemma qwith_list_same s i l : qlist s i = Some l -> qwith_list s i l = s.
Proof.
  unfold qlist, qwith_list.
  destruct (Z.eqb i 0); [|destruct (Z.eqb i 1); [|destruct (Z.eqb i 2); [|discriminate]]];
    intros E; inversion E; subst; now destruct s.
Qed.

Theorem qstep_read_only s o : q_read_only o = true -> exists out, qstep s o = Ok (s, out).
Proof.
  destruct o as [o|i| |i args]; cbn [q_read_only qstep]; eauto.
  - destruct o; cbn [c_read_only]; try discriminate; intros H; cbn [qstep_trait]; eauto.
    destruct w; [discriminate|]. pose proof (qpeek_mut_none s k) as E.
    destruct (qpeek_mut s k None) as [s' r]. cbn in E. subst. eauto.
  - intros H. destruct (qlist s i) as [l|] eqn:El; eauto.
    destruct (run_list_iter l args) as [[l' out]|] eqn:Er; eauto.
    rewrite (run_list_iter_ro _ _ _ _ H Er). rewrite (qwith_list_same _ _ _ El). eauto.
Qed.

(** ** AdaptiveCache *)
Definition a_read_only (o : aop) : bool :=
  match o with
  | ATrait o => c_read_only o
  | APartition | AListLen _ => true
  | AIter _ args => list_iter_ro args
  end.

Lemma apeek_mut_none s k : fst (apeek_mut s k None) = s.
Proof.
  unfold apeek_mut. pose proof (peek_mut_none (t1 s) k) as E1.
  destruct (peek_mut (t1 s) k None) as [p1 [v|]]; cbn in *; subst.
  - now destruct s.
  - pose proof (peek_mut_none (t2 s) k) as E3. destruct (peek_mut (t2 s) k None) as [q1 r]. cbn in *. subst.
    now destruct s.
Qed.

Lemma awith_list_same s i l : alist s i = Some l -> awith_list s i l = s.
Proof.
  unfold alist, awith_list.
  destruct (Z.eqb i 0); [|destruct (Z.eqb i 1); [|destruct (Z.eqb i 2); [|destruct (Z.eqb i 3); [|discriminate]]]];
    intros E; inversion E; subst; now destruct s.
Qed.

Theorem astep_read_only s o : a_read_only o = true -> exists out, astep s o = Ok (s, out).
Proof.
  destruct o as [o| |i|i args]; cbn [a_read_only astep]; eauto.
  - destruct o; cbn [c_read_only]; try discriminate; intros H; cbn [astep_trait]; eauto.
    destruct w; [discriminate|]. pose proof (apeek_mut_none s k) as E.
    destruct (apeek_mut s k None) as [s' r]. cbn in E. subst. eauto.
  - intros H. destruct (alist s i) as [l|] eqn:El; eauto.
    destruct (run_list_iter l args) as [[l' out]|] eqn:Er; eauto.
    rewrite (run_list_iter_ro _ _ _ _ H Er). rewrite (awith_list_same _ _ _ El). eauto.
Qed.

(** ** WTinyLFUCache: the estimator is part of the state, so it is untouched too *)
Lemma wpeek_mut_none s k : fst (wpeek_mut s k None) = s.
Proof.
  unfold wpeek_mut. pose proof (peek_mut_none (wt_lru s) k) as E1.
  destruct (peek_mut (wt_lru s) k None) as [p1 [v|]]; cbn in *; subst.
  - now destruct s.
  - pose proof (speek_mut_none (wt_slru s) k) as E3. destruct (speek_mut (wt_slru s) k None) as [q1 r].
    cbn in *. subst. now destruct s.
Qed.

Theorem wstep_read_only s o : c_read_only o = true -> exists out, wstep_trait s o = Ok (s, out).
Proof.
  destruct o; cbn [c_read_only]; try discriminate; intros H; cbn [wstep_trait]; eauto.
  destruct w; [discriminate|]. pose proof (wpeek_mut_none s k) as E.
  destruct (wpeek_mut s k None) as [s' r]. cbn in E. subst. eauto.
Qed.

(** ** inserting read-only calls anywhere changes no later result and not the final state *)
Theorem insertion_invisible {S O : Type} (step : S -> O -> res (S * list Z)) (ro : O -> bool) :
  (forall s o, ro o = true -> exists out, step s o = Ok (s, out)) ->
  forall (h1 rs h2 : list O) (s0 : S),
    forallb ro rs = true ->
    (* same final state (or the same panic) *)
    runM step s0 (h1 ++ rs ++ h2) = runM step s0 (h1 ++ h2) /\
    (* and every call of [h2] returns what it returned without the inserted calls *)
    (forall s1, runM step s0 h1 = Ok s1 ->
                skipn (length rs) (outsM step s1 (rs ++ h2)) = outsM step s1 h2).
Proof.
  intros Hro h1 rs h2 s0 Hall.
  assert (Hrs : forall s, runM step s rs = Ok s /\
                          skipn (length rs) (outsM step s (rs ++ h2)) = outsM step s h2).
  { induction rs as [|r rs IH]; intros s; cbn; [split; reflexivity|].
    cbn in Hall. apply andb_prop in Hall. destruct Hall as [Hr Hall].
    destruct (Hro s r Hr) as [out ->]. cbn. now apply IH. }
  split.
  - rewrite (runM_app step s0 h1 (rs ++ h2)), (runM_app step s0 h1 h2).
    destruct (runM step s0 h1) as [s1|n]; [|reflexivity].
    rewrite runM_app. now rewrite (proj1 (Hrs s1)).
  - intros s1 _. apply Hrs.
Qed.

(** RawLRU's step function in the shape of [runM] (it has no panic site) *)
Definition lstepM (s : lru) (o : lop) : res (lru * list Z) :=
  Ok (fst (fst (lstep s o)), snd (fst (lstep s o))).

Lemma lstepM_read_only s o : l_read_only o = true -> exists out, lstepM s o = Ok (s, out).
Proof.
  intros H. destruct (lstep_read_only s o H) as [E _]. unfold lstepM. rewrite E. eauto.
Qed.
