(** * WTinyLFUCache: invariant, totality, preservation. *)
From VF Require Import Base Iter Enc Lru LruStep Slru CacheStep Tiny WTiny TinyStep
  BaseFacts LruFacts Counts PrimFacts Tactics SlruFacts TinyFacts.
From Coq Require Import NArith.
Open Scope Z_scope.

Definition wt_inv (s : wtiny) : Prop :=
  tiny_ok (wt_tiny s) /\ (1 <= cap (wt_lru s))%nat /\ (llen (wt_lru s) <= cap (wt_lru s))%nat /\
  slru_inv (wt_slru s) /\
  forall x, (cntl (items (wt_lru s)) x + scnt (wt_slru s) x <= 1)%nat.

Definition w_same_cfg (s s' : wtiny) : Prop :=
  cap (wt_lru s') = cap (wt_lru s) /\ same_caps (wt_slru s) (wt_slru s') /\ wt_kh s' = wt_kh s.

Lemma key_hash_lt m k : (key_hash m k < two64)%N.
Proof.
  unfold key_hash.
  destruct m as [|p|p]; try (unfold two64; lia);
    try (destruct p; try (unfold two64; lia));
    unfold wrap64; apply N.mod_upper_bound; discriminate.
Qed.

From VF Require Import Tactics.

Ltac winv_split := split; [|split; [|split; [|split]]].

(** putting a pair into the main cache, window given *)
Lemma main_put_ok (s : wtiny) (l1 : lru) ck cv :
  tiny_ok (wt_tiny s) -> (1 <= cap l1)%nat -> (llen l1 <= cap l1)%nat -> slru_inv (wt_slru s) ->
  cap l1 = cap (wt_lru s) ->
  (forall x, (cntl (items l1) x + scnt (wt_slru s) x + ind (Z.eqb ck x) <= 1)%nat) ->
  exists m' r, sput (wt_slru s) ck cv = Ok (m', r) /\
               wt_inv (wt_with s (wt_tiny s) l1 m') /\ w_same_cfg s (wt_with s (wt_tiny s) l1 m').
Proof.
  intros Ht Hc Hl Hm Hcap Hd.
  destruct (sput_ok (wt_slru s) ck cv Hm) as (m' & r & E & Hi & Hcp & Hle & _).
  exists m', r. split; [exact E|]. split.
  - winv_split; cbn [wt_tiny wt_lru wt_slru wt_with]; auto.
    intros x. pose proof (Hd x). pose proof (Hle x). lia.
  - repeat split; cbn [wt_tiny wt_lru wt_slru wt_with wt_kh]; auto; apply Hcp.
Qed.

Lemma wt_admit_ok s l1 ck cv :
  tiny_ok (wt_tiny s) -> (1 <= cap l1)%nat -> (llen l1 <= cap l1)%nat -> slru_inv (wt_slru s) ->
  cap l1 = cap (wt_lru s) ->
  (forall x, (cntl (items l1) x + scnt (wt_slru s) x + ind (Z.eqb ck x) <= 1)%nat) ->
  exists s' r, wt_admit s l1 ck cv = Ok (s', r) /\ wt_inv s' /\ w_same_cfg s s'.
Proof.
  intros Ht Hc Hl Hm Hcap Hd. unfold wt_admit.
  destruct (main_put_ok s l1 ck cv Ht Hc Hl Hm Hcap Hd) as (m' & r & E & Hi & Hcfg).
  destruct (Nat.ltb (slen (wt_slru s)) (scap (wt_slru s))).
  - rewrite E. cbn [bind]. eauto.
  - destruct (peek_lru (prob (wt_slru s))) as [[vk vv]|].
    + destruct (tl_lt_ok (wt_tiny s) (key_hash (wt_kh s) ck) (key_hash (wt_kh s) vk) Ht
                  (key_hash_lt _ _) (key_hash_lt _ _)) as [b ->]. cbn [bind].
      destruct b.
      * do 2 eexists; split; [reflexivity|]. split.
        -- winv_split; cbn [wt_tiny wt_lru wt_slru wt_with]; auto.
           intros x. pose proof (Hd x). lia.
        -- repeat split; cbn [wt_tiny wt_lru wt_slru wt_with wt_kh]; auto.
      * rewrite E. cbn [bind]. eauto.
    + rewrite E. cbn [bind]. eauto.
Qed.

Lemma scontains_false m k : scontains m k = false -> scnt m k = 0%nat.
Proof.
  unfold scontains, contains, scnt. rewrite !mem_cntl. intros H.
  apply Bool.orb_false_iff in H. destruct H as [H1 H2].
  apply Bool.negb_false_iff in H1, H2. apply Nat.eqb_eq in H1, H2. lia.
Qed.

Lemma wput_ok s k v :
  wt_inv s -> exists s' r, wput s k v = Ok (s', r) /\ wt_inv s' /\ w_same_cfg s s'.
Proof.
  intros (Ht & Hc & Hl & Hm & Hd). unfold wput.
  pose proof Hm as (Hc1 & Hc2 & Hl1 & Hl2 & Hdm). unfold scnt in Hd.
  destruct (remove_spec (wt_lru s) k) as [[Hf ->]|(old & Hf & ->)].
  - (* not in the window *)
    destruct (scontains (wt_slru s) k) eqn:Esc.
    + destruct (sput_ok (wt_slru s) k v Hm) as (m' & r & -> & Hi & Hcp & Hle & _). cbn [bind].
      do 2 eexists; split; [reflexivity|]. split.
      * winv_split; cbn [wt_tiny wt_lru wt_slru wt_with]; auto.
        destruct Hi as (_ & _ & _ & _ & Hdm'). unfold scnt in *.
        intros x. pose proof (Hd x). pose proof (Hle x). pose proof (Hdm' x).
        apply cntl_find_none in Hf. eqb_cases; lia.
      * repeat split; cbn [wt_tiny wt_lru wt_slru wt_with wt_kh]; auto; apply Hcp.
    + apply scontains_false in Esc.
      destruct (put_spec (wt_lru s) k v Hc Hl) as
          [(o & Hf2 & _)|[(_ & Hlt & ->)|(_ & Hfull & rest & ek & ev & Hit & ->)]]; try congruence.
      * do 2 eexists; split; [reflexivity|]. split.
        -- winv_split; cbn [wt_tiny wt_lru wt_slru wt_with]; auto; norm; try lia.
           intros x. pose proof (Hd x). unfold scnt in *. norm. eqb_cases; lia.
        -- repeat split; cbn [wt_tiny wt_lru wt_slru wt_with wt_kh]; auto.
      * apply wt_admit_ok; auto; norm; try lia.
        intros x. pose proof (Hd x). unfold scnt in *. norm. eqb_cases; lia.
  - (* window hit: the key moves into the protected segment *)
    pose proof (cntl_find_some _ _ _ Hf) as Hpos.
    pose proof (length_remove_key_in _ _ Hpos) as Hlen.
    destruct (Nat.leb_spec (cap (prot (wt_slru s))) (llen (prot (wt_slru s)))) as [Hfull|Hroom].
    + destruct (remove_lru_spec (prot (wt_slru s))) as [[Hit ->]|(rest & [ek ev] & Hit & ->)].
      { exfalso. unfold llen in *. rewrite Hit in *. cbn in *. lia. }
      set (l1 := with_items (wt_lru s) (remove_key k (items (wt_lru s)))).
      assert (Hek : find ek (items l1) = None).
      { apply cntl_zero_find. subst l1. pose proof (Hd ek). unfold scnt in *. norm. eqb_cases; lia. }
      assert (Hc' : (1 <= cap l1)%nat) by (subst l1; norm; lia).
      assert (Hl' : (llen l1 < cap l1)%nat) by (subst l1; norm; lia).
      destruct (put_spec l1 ek ev Hc' ltac:(lia)) as
          [(o & Hf2 & _)|[(_ & Hlt & ->)|(_ & Hfl & _)]]; [congruence| |lia].
      cbn [bind].
      set (m1 := mkSlru (prob (wt_slru s)) (with_items (prot (wt_slru s)) rest)).
      assert (Hm1 : slru_inv m1).
      { subst m1. repeat split; norm; try lia. intros x. pose proof (Hdm x). norm. lia. }
      pose proof (sput_protected_ok m1 k v Hm1) as (Pi & Pc & _ & _ & Ple).
      destruct (sput_protected m1 k v) as [m2 r2]. cbn [fst] in *.
      do 2 eexists; split; [reflexivity|]. split.
      * winv_split; cbn [wt_tiny wt_lru wt_slru wt_with]; auto; subst l1; norm; try lia.
        subst m1. unfold scnt in *. proj.
        intros x. pose proof (Hd x). pose proof (Ple x). pose proof (Hdm x). norm.
        eqb_cases; lia.
      * repeat split; cbn [wt_tiny wt_lru wt_slru wt_with wt_kh]; auto; subst m1; apply Pc.
    + cbn [bind].
      pose proof (sput_protected_ok (wt_slru s) k v Hm) as (Pi & Pc & _ & _ & Ple).
      destruct (sput_protected (wt_slru s) k v) as [m2 r2]. cbn [fst] in *.
      do 2 eexists; split; [reflexivity|]. split.
      * winv_split; cbn [wt_tiny wt_lru wt_slru wt_with]; auto; norm; try lia.
        unfold scnt in *. intros x. pose proof (Hd x). pose proof (Ple x). norm. eqb_cases; lia.
      * repeat split; cbn [wt_tiny wt_lru wt_slru wt_with wt_kh]; auto; apply Pc.
Qed.

Lemma wt_record_ok s k : wt_inv s -> exists t', wt_record s k = Ok t' /\ tiny_ok t'.
Proof.
  intros (Ht & _). unfold wt_record.
  apply tl_increment_ok; [now apply tl_try_reset_ok|apply key_hash_lt].
Qed.

Lemma wget_mut_ok s k w :
  wt_inv s -> exists s' r, wget_mut s k w = Ok (s', r) /\ wt_inv s' /\ w_same_cfg s s'.
Proof.
  intros Hinv. pose proof Hinv as (Ht & Hc & Hl & Hm & Hd). unfold wget_mut.
  destruct (wt_record_ok s k Hinv) as (t' & -> & Ht'). cbn [bind].
  destruct (get_mut_spec (wt_lru s) k w) as [[Hf ->]|(v & Hf & ->)].
  - destruct (sget_mut_ok (wt_slru s) k w Hm) as (m' & r & -> & Hi & Hcp & Heq). cbn [bind].
    do 2 eexists; split; [reflexivity|]. split.
    + winv_split; cbn [wt_tiny wt_lru wt_slru wt_with]; auto.
      intros x. rewrite Heq. apply Hd.
    + repeat split; cbn [wt_tiny wt_lru wt_slru wt_with wt_kh]; auto; apply Hcp.
  - do 2 eexists; split; [reflexivity|]. split.
    + winv_split; cbn [wt_tiny wt_lru wt_slru wt_with]; auto; norm; try lia.
      intros x. pose proof (Hd x). norm. eqb_cases; lia.
    + repeat split; cbn [wt_tiny wt_lru wt_slru wt_with wt_kh]; auto.
Qed.

Lemma wpeek_mut_ok s k w :
  wt_inv s -> wt_inv (fst (wpeek_mut s k w)) /\ w_same_cfg s (fst (wpeek_mut s k w)).
Proof.
  intros (Ht & Hc & Hl & Hm & Hd). unfold wpeek_mut.
  destruct (peek_mut_spec (wt_lru s) k w) as [[Hf ->]|(v & Hf & ->)].
  - pose proof (speek_mut_ok (wt_slru s) k w Hm) as (Pi & Pc & Pe).
    destruct (speek_mut (wt_slru s) k w) as [m' r]. cbn [fst] in *. split.
    + winv_split; cbn [wt_tiny wt_lru wt_slru wt_with]; auto.
      intros x. rewrite Pe. apply Hd.
    + repeat split; cbn [wt_tiny wt_lru wt_slru wt_with wt_kh]; auto; apply Pc.
  - cbn [fst]. split.
    + winv_split; cbn [wt_tiny wt_lru wt_slru wt_with]; auto; norm; try lia.
      intros x. pose proof (Hd x). now norm.
    + repeat split; cbn [wt_tiny wt_lru wt_slru wt_with wt_kh]; auto.
Qed.

Lemma wremove_ok s k :
  wt_inv s -> wt_inv (fst (wremove s k)) /\ w_same_cfg s (fst (wremove s k)).
Proof.
  intros (Ht & Hc & Hl & Hm & Hd). unfold wremove.
  destruct (remove_spec (wt_lru s) k) as [[Hf ->]|(v & Hf & ->)].
  - pose proof (sremove_ok (wt_slru s) k Hm) as (Pi & Pc & Pe).
    destruct (sremove (wt_slru s) k) as [m' r]. cbn [fst] in *. split.
    + winv_split; cbn [wt_tiny wt_lru wt_slru wt_with]; auto.
      intros x. pose proof (Hd x). pose proof (Pe x). lia.
    + repeat split; cbn [wt_tiny wt_lru wt_slru wt_with wt_kh]; auto; apply Pc.
  - cbn [fst]. split.
    + winv_split; cbn [wt_tiny wt_lru wt_slru wt_with]; auto; norm; try lia.
      intros x. pose proof (Hd x). norm. lia.
    + repeat split; cbn [wt_tiny wt_lru wt_slru wt_with wt_kh]; auto.
Qed.

Lemma wpurge_ok s : wt_inv s -> wt_inv (wpurge s) /\ w_same_cfg s (wpurge s).
Proof.
  intros (Ht & Hc & Hl & Hm & Hd). unfold wpurge. split.
  - winv_split; cbn [wt_tiny wt_lru wt_slru wt_with].
    + now apply tl_clear_ok.
    + unfold purge. cbn. exact Hc.
    + unfold purge. cbn. lia.
    + destruct Hm as (Hc1 & Hc2 & Hl1 & Hl2 & Hdm). unfold spurge, purge. cbn [fst].
      repeat split; norm; try lia. intros x. norm. lia.
    + intros x. unfold scnt, spurge, purge. cbn [fst]. norm. lia.
  - repeat split; cbn [wt_tiny wt_lru wt_slru wt_with wt_kh]; auto.
Qed.

Theorem wstep_trait_ok s o :
  wt_inv s -> exists s' out, wstep_trait s o = Ok (s', out) /\ wt_inv s' /\ w_same_cfg s s'.
Proof.
  intros Hinv. assert (Hsame : w_same_cfg s s) by (repeat split).
  destruct o; cbn [wstep_trait]; try (do 2 eexists; split; [reflexivity|split; assumption]).
  - destruct (wput_ok s k v Hinv) as (s' & r & -> & Hi & Hc). cbn [bind]. eauto.
  - unfold wget. destruct (wget_mut_ok s k None Hinv) as (s' & r & -> & Hi & Hc). cbn [bind]. eauto.
  - destruct (wget_mut_ok s k w Hinv) as (s' & r & -> & Hi & Hc). cbn [bind]. eauto.
  - pose proof (wpeek_mut_ok s k w Hinv) as [P Q]. destruct (wpeek_mut s k w) as [s' r]. eauto.
  - pose proof (wremove_ok s k Hinv) as [P Q]. destruct (wremove s k) as [s' r]. eauto.
  - pose proof (wpurge_ok s Hinv) as [P Q]. eauto.
Qed.

Lemma wclone_id s : wt_inv s -> wclone s = s.
Proof.
  intros (Ht & Hc & Hl & Hm & Hd). unfold wclone.
  destruct Hm as (Hc1 & Hc2 & Hl1 & Hl2 & Hdm).
  rewrite (clone_seg (wt_lru s)); [|exact Hl|intros x; pose proof (Hd x); lia].
  unfold sclone.
  rewrite (clone_seg (prob (wt_slru s))); [|exact Hl1|intros x; pose proof (Hdm x); lia].
  rewrite (clone_seg (prot (wt_slru s))); [|exact Hl2|intros x; pose proof (Hdm x); lia].
  destruct s as [t l [p q] kh]; reflexivity.
Qed.

Lemma winit_inv cfg s :
  winit cfg = Some s ->
  (match cfg with wc :: fc :: pc :: _ => wc + fc + pc <= 2 ^ 32 | _ => True end) -> wt_inv s.
Proof.
  unfold winit. destruct cfg as [|wc [|fc [|pc [|samples [|kh rest]]]]]; try discriminate.
  destruct (Z.leb_spec wc 0); [discriminate|]. destruct (Z.leb_spec fc 0); [discriminate|].
  destruct (Z.leb_spec pc 0); [discriminate|]. cbn [orb].
  destruct (tinit (wc + fc + pc :: samples :: rest)) as [t|] eqn:Et; [|discriminate].
  intros E Hsz; inversion E; subst; clear E.
  winv_split; cbn [wt_tiny wt_lru wt_slru].
  - unfold tinit in Et. destruct rest as [|exp [|locs sds]]; try discriminate.
    destruct (_ || _); [discriminate|].
    destruct (bloom_geometry_ok (Nz exp) (Nz locs)) eqn:G; [|discriminate]. cbn [negb] in Et.
    eapply tl_new_ok; [|exact G|exact Et]. unfold Nz.
    change (2 ^ 32)%N with (Z.to_N (2 ^ 32)). lia.
  - cbn. lia.
  - cbn. lia.
  - apply slru_new_inv; lia.
  - intros x. unfold scnt. cbn. rewrite !cntl_nil. lia.
Qed.
