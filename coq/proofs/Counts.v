(** * Counting keys: [cntl l x] is the number of entries of [l] with key [x].
    "A key is held in at most one partition" is [forall x, cntl A x + cntl B x + ... <= 1],
    which [lia] handles once the effect of each list operation on [cntl] is known. *)
From VF Require Import Base Lru BaseFacts.

Definition cntl (l : list entry) (x : key) : nat := count_occ Z.eq_dec (keys l) x.

(** indicator *)
Definition ind (b : bool) : nat := if b then 1%nat else 0%nat.

Lemma cntl_nil x : cntl [] x = 0%nat.
Proof. reflexivity. Qed.

Lemma cntl_cons k v l x : cntl ((k, v) :: l) x = (ind (Z.eqb k x) + cntl l x)%nat.
Proof.
  unfold cntl, keys. cbn. destruct (Z.eq_dec k x) as [->|Hn].
  - rewrite Z.eqb_refl. reflexivity.
  - destruct (Z.eqb_spec k x); [contradiction|reflexivity].
Qed.

Lemma cntl_app a b x : cntl (a ++ b) x = (cntl a x + cntl b x)%nat.
Proof. unfold cntl, keys. rewrite map_app. apply count_occ_app. Qed.

Lemma cntl_in l x : (0 < cntl l x)%nat <-> In x (keys l).
Proof. unfold cntl. symmetry. apply count_occ_In. Qed.

Lemma cntl_notin l x : cntl l x = 0%nat <-> ~ In x (keys l).
Proof. unfold cntl. symmetry. apply count_occ_not_In. Qed.

Lemma cntl_nodup l : NoDup (keys l) <-> forall x, (cntl l x <= 1)%nat.
Proof. unfold cntl. apply NoDup_count_occ. Qed.

Lemma cntl_find_some k v l : find k l = Some v -> (0 < cntl l k)%nat.
Proof. intros H. apply cntl_in. eapply find_in_keys; eauto. Qed.

Lemma cntl_find_none k l : find k l = None -> cntl l k = 0%nat.
Proof. intros H. apply cntl_notin. now apply find_none_notin. Qed.

Lemma cntl_zero_find k l : cntl l k = 0%nat -> find k l = None.
Proof. intros H. apply find_none_notin. now apply cntl_notin. Qed.

Lemma cntl_pos_find k l : (0 < cntl l k)%nat -> exists v, find k l = Some v.
Proof.
  intros H. destruct (find k l) eqn:E; [eauto|]. apply cntl_find_none in E. lia.
Qed.

Lemma cntl_remove_key k l x :
  cntl (remove_key k l) x = (cntl l x - ind (Z.eqb k x))%nat.
Proof.
  induction l as [|[k' v'] t IH]; [reflexivity|].
  cbn [remove_key]. destruct (Z.eqb_spec k k') as [->|Hn].
  - rewrite cntl_cons. destruct (Z.eqb k' x); cbn; lia.
  - rewrite !cntl_cons, IH.
    destruct (Z.eqb_spec k x) as [->|Hx]; cbn [ind]; [|lia].
    destruct (Z.eqb_spec k' x); [congruence|]. cbn. lia.
Qed.

Lemma cntl_set_val k w l x : cntl (set_val k w l) x = cntl l x.
Proof. unfold cntl. now rewrite keys_set_val. Qed.

Lemma cntl_set_val_opt k w l x : cntl (set_val_opt k w l) x = cntl l x.
Proof. unfold cntl. now rewrite keys_set_val_opt. Qed.

Lemma cntl_same_keys a b x : keys a = keys b -> cntl a x = cntl b x.
Proof. unfold cntl. now intros ->. Qed.

Lemma length_remove_key_in k l : (0 < cntl l k)%nat -> S (length (remove_key k l)) = length l.
Proof.
  intros H. apply cntl_in in H. rewrite length_remove_key.
  rewrite (length_remove1_in _ _ H). apply length_keys.
Qed.

Lemma length_remove_key_notin k l : cntl l k = 0%nat -> length (remove_key k l) = length l.
Proof. intros H. apply cntl_notin in H. now rewrite remove_key_notin. Qed.

Lemma ind_eqb_refl k : ind (Z.eqb k k) = 1%nat.
Proof. now rewrite Z.eqb_refl. Qed.

Lemma ind_eqb_neq a b : a <> b -> ind (Z.eqb a b) = 0%nat.
Proof. intros H. destruct (Z.eqb_spec a b); [contradiction|reflexivity]. Qed.

Lemma ind_le b : (ind b <= 1)%nat.
Proof. destruct b; cbn; lia. Qed.

(** [mem] / [contains] *)
Lemma mem_cntl k l : mem k l = negb (Nat.eqb (cntl l k) 0).
Proof.
  unfold mem. destruct (find k l) eqn:E.
  - apply cntl_find_some in E. destruct (Nat.eqb_spec (cntl l k) 0); [lia|reflexivity].
  - apply cntl_find_none in E. now rewrite E.
Qed.
