(** * TwoQueueCache: invariant, totality, preservation. *)
From VF Require Import Base Iter Enc Lru LruStep TwoQ CacheStep BaseFacts LruFacts Counts PrimFacts Tactics.

Definition twoq_inv (s : twoq) : Prop :=
  (1 <= qsize s)%nat /\ cap (recent s) = qsize s /\ cap (frequent s) = qsize s /\
  (1 <= cap (ghost s))%nat /\
  (llen (recent s) + llen (frequent s) <= qsize s)%nat /\ (llen (ghost s) <= cap (ghost s))%nat /\
  forall x, (cntl (items (recent s)) x + cntl (items (frequent s)) x + cntl (items (ghost s)) x <= 1)%nat.

Definition q_same_cfg (s s' : twoq) : Prop :=
  qsize s' = qsize s /\ qrecent_size s' = qrecent_size s /\ cap (ghost s') = cap (ghost s).

Lemma evict_resident_spec s b :
  (1 <= llen (recent s) + llen (frequent s))%nat ->
  exists rest vk vv,
    (items (recent s) = rest ++ [(vk, vv)] /\
     evict_resident s b = Ok (with_items (recent s) rest, frequent s, (vk, vv))) \/
    (items (frequent s) = rest ++ [(vk, vv)] /\
     evict_resident s b = Ok (recent s, with_items (frequent s) rest, (vk, vv))).
Proof.
  intros Hne. unfold evict_resident. destruct b.
  - destruct (remove_lru_in_spec (recent s)) as [[Hit ->]|(rest & [vk vv] & Hit & ->)].
    + destruct (remove_lru_in_spec (frequent s)) as [[Hit2 ->]|(rest & [vk vv] & Hit2 & ->)].
      * unfold llen in Hne. rewrite Hit, Hit2 in Hne. cbn in Hne. lia.
      * exists rest, vk, vv. right. auto.
    + exists rest, vk, vv. left. auto.
  - destruct (remove_lru_in_spec (frequent s)) as [[Hit ->]|(rest & [vk vv] & Hit & ->)].
    + destruct (remove_lru_in_spec (recent s)) as [[Hit2 ->]|(rest & [vk vv] & Hit2 & ->)].
      * unfold llen in Hne. rewrite Hit, Hit2 in Hne. cbn in Hne. lia.
      * exists rest, vk, vv. left. auto.
    + exists rest, vk, vv. right. auto.
Qed.

Ltac leaf H := first [ contra | do 2 eexists; split; [reflexivity|]; split; [fin H|repeat split] ].

Lemma qput_ok s k v :
  twoq_inv s -> exists s' r, qput s k v = Ok (s', r) /\ twoq_inv s' /\ q_same_cfg s s'.
Proof.
  intros Hinv. pose proof Hinv as (Hs & Hcr & Hcf & Hcg & Hrf & Hg & Hd).
  pose proof (Hd k) as Hdk.
  unfold qput.
  step_prim; [|leaf Hd].
  step_prim; [|step_prim; [leaf Hd|contra]].
  unfold contains. rewrite mem_cntl.
  destruct (Nat.eqb_spec (cntl (items (ghost s)) k) 0) as [Hgk|Hgk]; cbn [negb].
  - (* brand-new key *)
    destruct (Nat.ltb_spec (llen (frequent s) + llen (recent s)) (qsize s)) as [Hroom|Hfull].
    + step_prim; [leaf Hd|contra].
    + destruct (evict_resident_spec s (Nat.leb (qrecent_size s) (llen (recent s)))) as
          (rest & vk & vv & [[Hit ->]|[Hit ->]]); [lia| |]; proj.
      * step_prim; [|contra]. proj. step_prim; leaf Hd.
      * step_prim; [|contra]. proj. step_prim; leaf Hd.
  - (* ghost hit *)
    destruct (Nat.leb_spec (qsize s) (llen (recent s) + llen (frequent s))) as [Hfull|Hroom].
    + destruct (evict_resident_spec s (Nat.ltb (qrecent_size s) (llen (recent s)))) as
          (rest & vk & vv & [[Hit ->]|[Hit ->]]); [lia| |]; proj.
      * step_prim.
        -- step_prim; [contra|]. step_prim; [leaf Hd|contra].
        -- step_prim.
           ++ step_prim; [leaf Hd|contra].
           ++ step_prim; [leaf Hd|contra].
      * step_prim.
        -- step_prim; [contra|]. step_prim; [leaf Hd|contra].
        -- step_prim.
           ++ step_prim; [leaf Hd|contra].
           ++ step_prim; [leaf Hd|contra].
    + step_prim; [contra|]. step_prim; [leaf Hd|contra].
Qed.

Lemma qget_mut_ok s k w :
  twoq_inv s -> exists s' r, qget_mut s k w = Ok (s', r) /\ twoq_inv s' /\ q_same_cfg s s'.
Proof.
  intros Hinv. pose proof Hinv as (Hs & Hcr & Hcf & Hcg & Hrf & Hg & Hd).
  pose proof (Hd k) as Hdk. unfold qget_mut.
  step_prim; [|leaf Hd].
  step_prim; [leaf Hd|]. step_prim; [leaf Hd|contra].
Qed.

Lemma qpeek_mut_ok s k w :
  twoq_inv s -> twoq_inv (fst (qpeek_mut s k w)) /\ q_same_cfg s (fst (qpeek_mut s k w)).
Proof.
  intros Hinv. pose proof Hinv as (Hs & Hcr & Hcf & Hcg & Hrf & Hg & Hd). unfold qpeek_mut.
  step_prim.
  - step_prim; proj; (split; [fin Hd|repeat split]).
  - proj. split; [fin Hd|repeat split].
Qed.

Lemma qremove_ok s k :
  twoq_inv s -> twoq_inv (fst (qremove s k)) /\ q_same_cfg s (fst (qremove s k)).
Proof.
  intros Hinv. pose proof Hinv as (Hs & Hcr & Hcf & Hcg & Hrf & Hg & Hd). unfold qremove.
  step_prim.
  - step_prim.
    + step_prim; proj; (split; [fin Hd|repeat split]).
    + proj. split; [fin Hd|repeat split].
  - proj. split; [fin Hd|repeat split].
Qed.

Lemma qpurge_ok s : twoq_inv s -> twoq_inv (qpurge s) /\ q_same_cfg s (qpurge s).
Proof.
  intros (Hs & Hcr & Hcf & Hcg & Hrf & Hg & Hd). unfold qpurge, purge. proj.
  split; [fin Hd|repeat split].
Qed.

Theorem qstep_trait_ok s o :
  twoq_inv s -> exists s' out, qstep_trait s o = Ok (s', out) /\ twoq_inv s' /\ q_same_cfg s s'.
Proof.
  intros Hinv. assert (Hsame : q_same_cfg s s) by (repeat split).
  destruct o; cbn [qstep_trait]; try (do 2 eexists; split; [reflexivity|split; assumption]).
  - destruct (qput_ok s k v Hinv) as (s' & r & -> & Hi & Hc). cbn [bind]. eauto.
  - unfold qget. destruct (qget_mut_ok s k None Hinv) as (s' & r & -> & Hi & Hc). cbn [bind]. eauto.
  - destruct (qget_mut_ok s k w Hinv) as (s' & r & -> & Hi & Hc). cbn [bind]. eauto.
  - pose proof (qpeek_mut_ok s k w Hinv) as [P Q]. destruct (qpeek_mut s k w) as [s' r]. eauto.
  - pose proof (qremove_ok s k Hinv) as [P Q]. destruct (qremove s k) as [s' r]. eauto.
  - pose proof (qpurge_ok s Hinv) as [P Q]. eauto.
Qed.

(** the per-list iterators only write values *)
Lemma run_list_iter_keys l args l' out :
  run_list_iter l args = Some (l', out) -> keys (items l') = keys (items l) /\ cap l' = cap l.
Proof.
  unfold run_list_iter. destruct (dec_iter args) as [[[[kd pre] pa] pb]|]; [|discriminate].
  pose proof (keys_iter_script kd pre pa pb (items l)) as K.
  destruct (iter_script kd pre pa pb (items l)) as [[[y0 ya] yb] l2]. cbn in K.
  intros E; inversion E; subst. cbn. auto.
Qed.

Lemma qwith_list_inv s i l l' :
  twoq_inv s -> qlist s i = Some l -> keys (items l') = keys (items l) -> cap l' = cap l ->
  twoq_inv (qwith_list s i l') /\ q_same_cfg s (qwith_list s i l').
Proof.
  intros (Hs & Hcr & Hcf & Hcg & Hrf & Hg & Hd) Hl Hk Hc.
  pose proof (length_of_keys_eq _ _ Hk) as Hlen.
  assert (Hcnt : forall x, cntl (items l') x = cntl (items l) x)
    by (intros x; now apply cntl_same_keys).
  unfold qlist in Hl. unfold qwith_list.
  destruct (Z.eqb i 0); [|destruct (Z.eqb i 1); [|destruct (Z.eqb i 2); [|discriminate]]];
    inversion Hl; subst l;
    (split; [|repeat split; proj; congruence]);
    repeat split; proj; unfold llen in *; try lia; try congruence;
    intros x; pose proof (Hd x); rewrite Hcnt; lia.
Qed.

(** every operation returns normally and preserves the invariant *)
Theorem qstep_ok s o :
  twoq_inv s -> exists s' out, qstep s o = Ok (s', out) /\ twoq_inv s' /\ q_same_cfg s s'.
Proof.
  intros Hinv. assert (Hsame : q_same_cfg s s) by (repeat split).
  destruct o as [o|i| |i args]; cbn [qstep]; eauto using qstep_trait_ok.
  destruct (qlist s i) as [l|] eqn:El; eauto.
  destruct (run_list_iter l args) as [[l' out']|] eqn:Er; eauto.
  destruct (run_list_iter_keys _ _ _ _ Er) as [Hk Hc].
  destruct (qwith_list_inv s i l l' Hinv El Hk Hc) as [P Q]. eauto.
Qed.

Lemma twoq_new_inv size rs es : (1 <= size)%nat -> (1 <= es)%nat -> twoq_inv (twoq_new size rs es).
Proof. intros. repeat split; cbn; try lia. intros x. rewrite !cntl_nil. lia. Qed.
