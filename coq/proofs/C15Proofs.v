(** * C15 — the eviction callback fires exactly once per departing entry, never otherwise.

    [departed l l'] is defined independently of the step function: the entries of the list
    before the call whose key is no longer in the list after the call, least recent first,
    with the value they had before the call. *)
From VF Require Import Base Iter Enc Lru LruStep BaseFacts LruFacts.

Arguments touch : simpl never.
Arguments keys : simpl never.

Definition departed (l l' : list entry) : list entry :=
  filter (fun e => negb (mem (fst e) l')) (rev l).

Lemma filter_all_false {A} (f : A -> bool) l : (forall x, In x l -> f x = false) -> filter f l = [].
Proof.
  induction l as [|x l IH]; intros H; cbn; [reflexivity|].
  rewrite (H x (or_introl eq_refl)). apply IH. intros y Hy. apply H. now right.
Qed.

Lemma filter_all_true {A} (f : A -> bool) l : (forall x, In x l -> f x = true) -> filter f l = l.
Proof.
  induction l as [|x l IH]; intros H; cbn; [reflexivity|].
  rewrite (H x (or_introl eq_refl)). f_equal. apply IH. intros y Hy. apply H. now right.
Qed.

Lemma departed_none l l' : (forall e, In e l -> In (fst e) (keys l')) -> departed l l' = [].
Proof.
  intros H. unfold departed. apply filter_all_false. intros e He. apply in_rev in He.
  apply Bool.negb_false_iff. apply mem_true_iff. auto.
Qed.

Lemma departed_same_keys l l' : keys l' = keys l -> departed l l' = [].
Proof.
  intros E. apply departed_none. intros e He. rewrite E. unfold keys. now apply in_map.
Qed.

Lemma departed_all l : departed l [] = rev l.
Proof. unfold departed. apply filter_all_true. intros; reflexivity. Qed.

Lemma departed_last rest e l' :
  (forall x, In x rest -> In (fst x) (keys l')) -> ~ In (fst e) (keys l') ->
  departed (rest ++ [e]) l' = [e].
Proof.
  intros Hrest He. unfold departed. rewrite rev_app_distr. cbn.
  apply mem_false_iff in He. rewrite He. cbn. f_equal.
  apply filter_all_false. intros x Hx. apply in_rev in Hx.
  apply Bool.negb_false_iff. apply mem_true_iff. auto.
Qed.

Lemma in_keys_of_in (e : entry) l : In e l -> In (fst e) (keys l).
Proof. unfold keys. apply in_map. Qed.

Lemma departed_remove k v l :
  NoDup (keys l) -> find k l = Some v -> departed l (remove_key k l) = [(k, v)].
Proof.
  intros Hnd Hf. unfold departed.
  assert (Hf' : forall e, In e l -> negb (mem (fst e) (remove_key k l)) = Z.eqb (fst e) k).
  { intros e He. destruct (Z.eqb_spec (fst e) k) as [E|E].
    - rewrite E. unfold mem. now rewrite find_remove_key_same.
    - unfold mem. rewrite find_remove_key_other by assumption.
      destruct (find (fst e) l) eqn:F; [reflexivity|].
      apply find_none_notin in F. exfalso. apply F. now apply in_keys_of_in. }
  rewrite (filter_ext_in _ (fun e => Z.eqb (fst e) k)).
  2:{ intros e He. apply Hf'. now apply in_rev. }
  clear Hf'. revert Hnd Hf. induction l as [|[k' v'] t IH]; intros Hnd Hf; [discriminate|].
  cbn [rev]. rewrite filter_app. cbn [filter fst]. cbn in Hf.
  rewrite keys_cons in Hnd. inversion Hnd as [|? ? Hni Hnd']; subst. cbn [fst] in Hni.
  destruct (Z.eqb_spec k k') as [->|Hne].
  - inversion Hf; subst. rewrite Z.eqb_refl.
    rewrite filter_all_false; [reflexivity|].
    intros x Hx. apply in_rev in Hx. apply Z.eqb_neq. intros E. apply Hni. rewrite <- E. now apply in_keys_of_in.
  - destruct (Z.eqb_spec k' k); [congruence|]. rewrite app_nil_r. now apply IH.
Qed.

Lemma nodup_app_disjoint (a b : list key) x : NoDup (a ++ b) -> In x a -> In x b -> False.
Proof.
  induction a as [|y a IH]; cbn; [tauto|].
  intros Hnd [E|Hin] Hb; inversion Hnd; subst.
  - apply H1. apply in_or_app. now right.
  - auto.
Qed.

Lemma departed_firstn n l :
  NoDup (keys l) -> departed l (firstn n l) = rev (skipn n l).
Proof.
  intros Hnd. unfold departed.
  rewrite <- (firstn_skipn n l) at 1. rewrite rev_app_distr, filter_app.
  rewrite <- (firstn_skipn n l) in Hnd. rewrite keys_app in Hnd.
  rewrite filter_all_true, filter_all_false; [apply app_nil_r| |].
  - intros x Hx. apply in_rev in Hx. apply Bool.negb_false_iff, mem_true_iff. now apply in_keys_of_in.
  - intros x Hx. apply in_rev in Hx. apply Bool.negb_true_iff, mem_false_iff.
    intros Hin. apply in_keys_of_in in Hx. eapply nodup_app_disjoint; eauto.
Qed.

(** ** the theorem *)
Definition cb_expected (s s' : lru) : list entry := cbl s (departed (items s) (items s')).

Lemma cbl_nil s : cbl s [] = [].
Proof. unfold cbl. destruct (hascb s); reflexivity. Qed.

Lemma put_cb s k v :
  lru_inv s -> snd (put s k v) = cb_expected s (fst (fst (put s k v))).
Proof.
  intros [Hnd Hlen]. unfold put, cb_expected.
  destruct (find k (items s)) as [old|] eqn:Ef; cbn [fst snd items with_items].
  - rewrite departed_none; [now rewrite cbl_nil|].
    intros e He. rewrite keys_touch.
    destruct (Z.eq_dec (fst e) k) as [->|Hn]; [now left|right].
    apply in_remove1_neq; [exact Hn|now apply in_keys_of_in].
  - destruct (Nat.eqb (cap s) 0); cbn [fst snd items].
    { rewrite departed_same_keys by reflexivity. now rewrite cbl_nil. }
    destruct (Nat.eqb (llen s) (cap s)).
    + destruct (split_last (items s)) as [[rest [ek ev]]|] eqn:Es; cbn [fst snd items with_items].
      * apply split_last_app in Es. rewrite Es in *.
        rewrite departed_last; [reflexivity| |].
        -- intros x Hx. rewrite keys_cons. right. now apply in_keys_of_in.
        -- rewrite keys_cons. cbn [fst]. intros [E|Hin].
           ++ apply find_none_notin in Ef. apply Ef. rewrite keys_app. apply in_or_app. right. now left.
           ++ rewrite keys_app in Hnd. cbn in Hnd. apply NoDup_remove_2 in Hnd. apply Hnd.
              rewrite app_nil_r. exact Hin.
      * rewrite departed_none; [now rewrite cbl_nil|].
        intros e He. rewrite keys_cons. right. now apply in_keys_of_in.
    + cbn [fst snd items with_items]. rewrite departed_none; [now rewrite cbl_nil|].
      intros e He. rewrite keys_cons. right. now apply in_keys_of_in.
Qed.

Theorem callback_exact s o :
  lru_inv s -> snd (lstep s o) = cb_expected s (fst (fst (lstep s o))).
Proof.
  intros Hinv. pose proof Hinv as [Hnd Hlen].
  assert (Hsame : forall l, keys l = keys (items s) -> [] = cbl s (departed (items s) l)).
  { intros l E. rewrite departed_same_keys by exact E. now rewrite cbl_nil. }
  unfold cb_expected.
  destruct o; cbn [lstep]; try (cbn [fst snd]; apply Hsame; reflexivity).
  - (* put *) pose proof (put_cb s k v Hinv) as P. destruct (put s k v) as [[s' r] cb]. exact P.
  - (* get *) unfold get. destruct (find k (items s)) eqn:E; cbn [fst snd items with_items]; [|now apply Hsame].
    rewrite departed_none; [now rewrite cbl_nil|]. intros e He. rewrite keys_touch.
    destruct (Z.eq_dec (fst e) k) as [->|Hn]; [now left|right].
    apply in_remove1_neq; [exact Hn|now apply in_keys_of_in].
  - (* get_mut *) unfold get_mut. destruct (find k (items s)) eqn:E; cbn [fst snd items with_items]; [|now apply Hsame].
    rewrite departed_none; [now rewrite cbl_nil|]. intros e He. rewrite keys_set_val_opt, keys_touch.
    destruct (Z.eq_dec (fst e) k) as [->|Hn]; [now left|right].
    apply in_remove1_neq; [exact Hn|now apply in_keys_of_in].
  - (* peek_mut *) unfold peek_mut. destruct (find k (items s)); cbn [fst snd items with_items]; apply Hsame;
      [apply keys_set_val_opt|reflexivity].
  - (* remove *) unfold remove. destruct (find k (items s)) eqn:E; cbn [fst snd items with_items]; [|now apply Hsame].
    now rewrite (departed_remove k v).
  - (* purge *) unfold purge. cbn [fst snd items with_items]. now rewrite departed_all.
  - (* resize *) unfold resize. destruct (Nat.eqb n (cap s)); cbn [fst snd items]; [now apply Hsame|].
    now rewrite departed_firstn.
  - (* get_lru *) unfold get_lru. destruct (split_last (items s)) as [[rest e]|] eqn:E; cbn [fst snd items with_items];
      [|now apply Hsame].
    apply split_last_app in E. rewrite E. rewrite departed_none; [now rewrite cbl_nil|].
    intros x Hx. apply in_app_or in Hx. rewrite keys_cons. destruct Hx as [Hx|[<-|[]]]; [right|now left].
    now apply in_keys_of_in.
  - (* get_lru_mut *) unfold get_lru_mut.
    destruct (split_last (items s)) as [[rest e]|] eqn:E; cbn [fst snd items with_items]; [|now apply Hsame].
    apply split_last_app in E. rewrite E. rewrite departed_none; [now rewrite cbl_nil|].
    intros x Hx. rewrite keys_set_hd. apply in_app_or in Hx. rewrite keys_cons.
    destruct Hx as [Hx|[<-|[]]]; [right|now left]. now apply in_keys_of_in.
  - (* get_mru_mut *) cbn. apply Hsame. apply keys_set_hd.
  - (* peek_or_put *) unfold peek_or_put. destruct (find k (items s)); cbn [fst snd]; [now apply Hsame|].
    pose proof (put_cb s k v Hinv) as P. destruct (put s k v) as [[s' r] cb]. exact P.
  - (* peek_mut_or_put *) unfold peek_mut_or_put. destruct (find k (items s)); cbn [fst snd items with_items].
    + apply Hsame. apply keys_set_val_opt.
    + pose proof (put_cb s k v Hinv) as P. destruct (put s k v) as [[s' r] cb]. exact P.
  - (* contains_or_put *) unfold contains_or_put. destruct (mem k (items s)); cbn [fst snd]; [now apply Hsame|].
    pose proof (put_cb s k v Hinv) as P. destruct (put s k v) as [[s' r] cb]. exact P.
  - (* peek_lru_mut *) cbn. apply Hsame. apply keys_set_last.
  - (* peek_mru_mut *) cbn. apply Hsame. apply keys_set_hd.
  - (* remove_lru *) unfold remove_lru.
    destruct (split_last (items s)) as [[rest e]|] eqn:E; cbn [fst snd items with_items]; [|now apply Hsame].
    apply split_last_app in E. rewrite E in *. rewrite departed_last; [reflexivity| |].
    + intros x Hx. now apply in_keys_of_in.
    + rewrite keys_app in Hnd. cbn in Hnd. apply NoDup_remove_2 in Hnd. now rewrite app_nil_r in Hnd.
  - (* iter *)
    pose proof (keys_iter_script kd pre pa pb (items s)) as K.
    destruct (iter_script kd pre pa pb (items s)) as [[[y0 ya] yb] l']. cbn in K |- *. now apply Hsame.
  - (* clone *) rewrite clone_id by exact Hinv. cbn. now apply Hsame.
Qed.

(** ** consequences *)
Definition entry_eq_dec : forall a b : entry, {a = b} + {a <> b}.
Proof. decide equality; apply Z.eq_dec. Defined.

Lemma in_cbl s l e : In e (cbl s l) -> In e l.
Proof. unfold cbl. destruct (hascb s); [auto|intros []]. Qed.

Lemma cb_only_departed s o e :
  lru_inv s -> In e (snd (lstep s o)) ->
  In e (items s) /\ ~ In (fst e) (keys (items (fst (fst (lstep s o))))).
Proof.
  intros Hinv Hin. rewrite (callback_exact s o Hinv) in Hin. unfold cb_expected in Hin. apply in_cbl in Hin.
  unfold departed in Hin. apply filter_In in Hin. destruct Hin as [H1 H2].
  split; [now apply in_rev|]. apply Bool.negb_true_iff in H2. now apply mem_false_iff.
Qed.

Lemma nodup_keys_nodup (l : list entry) : NoDup (keys l) -> NoDup l.
Proof.
  induction l as [|e l IH]; intros H; [constructor|]. rewrite keys_cons in H. inversion H; subst.
  constructor; [|auto]. intros Hin. apply H2. now apply in_keys_of_in.
Qed.

Lemma count_occ_filter_nodup (f : entry -> bool) (l : list entry) e :
  NoDup l -> In e l -> f e = true -> count_occ entry_eq_dec (filter f l) e = 1%nat.
Proof.
  intros Hnd Hin Hf.
  assert (Hin' : In e (filter f l)) by (apply filter_In; auto).
  assert (Hnd' : NoDup (filter f l)) by now apply NoDup_filter.
  apply (proj1 (NoDup_count_occ' entry_eq_dec _) Hnd' e Hin').
Qed.

Lemma cb_exactly_once s o e :
  lru_inv s -> hascb s = true -> In e (items s) ->
  ~ In (fst e) (keys (items (fst (fst (lstep s o))))) ->
  count_occ entry_eq_dec (snd (lstep s o)) e = 1%nat.
Proof.
  intros Hinv Hcb Hin Hout. rewrite (callback_exact s o Hinv). unfold cb_expected, cbl. rewrite Hcb.
  unfold departed. apply count_occ_filter_nodup.
  - apply NoDup_rev. apply nodup_keys_nodup. apply Hinv.
  - rewrite <- in_rev. exact Hin.
  - apply Bool.negb_true_iff. now apply mem_false_iff.
Qed.

Lemma cb_none_when_keys_stay s o :
  lru_inv s -> keys (items (fst (fst (lstep s o)))) = keys (items s) -> snd (lstep s o) = [].
Proof.
  intros Hinv E. rewrite (callback_exact s o Hinv). unfold cb_expected. rewrite departed_same_keys by exact E. apply cbl_nil.
Qed.
