(** * AdaptiveCache: invariant, totality, preservation. *)
From VF Require Import Base Iter Enc Lru LruStep Arc CacheStep BaseFacts LruFacts Counts PrimFacts Tactics TwoQFacts.

Definition arc_inv (s : arc) : Prop :=
  (1 <= asize s)%nat /\ cap (t1 s) = asize s /\ cap (b1 s) = asize s /\ cap (t2 s) = asize s /\
  cap (b2 s) = asize s /\ (ap s <= asize s)%nat /\
  (llen (t1 s) + llen (t2 s) <= asize s)%nat /\ (llen (b1 s) <= asize s)%nat /\
  (llen (b2 s) <= asize s)%nat /\
  forall x, (cntl (items (t1 s)) x + cntl (items (b1 s)) x + cntl (items (t2 s)) x +
             cntl (items (b2 s)) x <= 1)%nat.

Definition asum (s : arc) (x : key) : nat :=
  (cntl (items (t1 s)) x + cntl (items (b1 s)) x + cntl (items (t2 s)) x + cntl (items (b2 s)) x)%nat.

Ltac aleaf := first [ contra | eexists; split; [reflexivity|]; fin True ].

(** [replace] on a cache with at least one resident entry: exactly one resident entry
    becomes a ghost (a ghost list that is full forgets its own LRU) *)
Lemma areplace_ok s b :
  arc_inv s -> (1 <= llen (t1 s) + llen (t2 s))%nat ->
  exists s', areplace s b = Ok s' /\ arc_inv s' /\ asize s' = asize s /\ ap s' = ap s /\
             (llen (t1 s') + llen (t2 s') + 1 = llen (t1 s) + llen (t2 s))%nat /\
             (forall x, (asum s' x <= asum s x)%nat).
Proof.
  intros (Hs & Hc1 & Hc2 & Hc3 & Hc4 & Hp & Hr & Hg1 & Hg2 & Hd) Hne.
  unfold areplace, asum.
  match goal with |- context [if ?c then _ else _] => destruct c eqn:Ec end.
  - step_prim.
    + (* recent empty: then the test sent us here because frequent is empty too *)
      exfalso. norm.
      apply Bool.orb_true_iff in Ec. destruct Ec as [Ec|Ec].
      * apply Bool.andb_true_iff in Ec. destruct Ec as [Ec _]. apply Nat.ltb_lt in Ec. cbn in Ec. lia.
      * apply Nat.eqb_eq in Ec. cbn in Hne. lia.
    + step_prim; aleaf.
  - apply Bool.orb_false_iff in Ec. destruct Ec as [_ Ec]. apply Nat.eqb_neq in Ec.
    step_prim; [contra|]. step_prim; aleaf.
Qed.

Definition a_same_cfg (s s' : arc) : Prop := asize s' = asize s.

Ltac aleaf2 := first [ contra | do 2 eexists; split; [reflexivity|]; split; [fin True|proj; congruence] ].

(** maybe-[replace]: used on all three miss paths *)
Lemma maybe_replace_ok s (full : bool) b :
  arc_inv s -> (full = true -> (1 <= llen (t1 s) + llen (t2 s))%nat) ->
  exists s', (if full then areplace s b else Ok s) = Ok s' /\ arc_inv s' /\ asize s' = asize s /\
             ap s' = ap s /\ (forall x, (asum s' x <= asum s x)%nat) /\
             (if full then (llen (t1 s') + llen (t2 s') + 1 = llen (t1 s) + llen (t2 s))%nat
              else s' = s).
Proof.
  intros Hinv Hne. destruct full.
  - destruct (areplace_ok s b Hinv (Hne eq_refl)) as (s' & E & Hi & Hsz & Hp & Hl & Hle).
    exists s'. repeat split; auto. all: apply Hi.
  - exists s. split; [reflexivity|]. split; [exact Hinv|]. repeat split; auto.
Qed.

Lemma cond_trim_facts (c : bool) l :
  let l' := if c then fst (fst (remove_lru l)) else l in
  cap l' = cap l /\ (llen l' <= llen l)%nat /\ forall x, (cntl (items l') x <= cntl (items l) x)%nat.
Proof.
  destruct c; cbn zeta; [|repeat split; lia].
  destruct (remove_lru_spec l) as [[Hit ->]|(rest & [vk vv] & Hit & ->)]; cbn [fst].
  - repeat split; lia.
  - repeat split; norm; try lia. intros x. norm. lia.
Qed.

Lemma aput_ok s k v :
  arc_inv s -> exists s' r, aput s k v = Ok (s', r) /\ arc_inv s' /\ a_same_cfg s s'.
Proof.
  intros Hinv. pose proof Hinv as (Hs & Hc1 & Hc2 & Hc3 & Hc4 & Hp & Hr & Hg1 & Hg2 & Hd).
  pose proof (Hd k) as Hdk. unfold aput, a_same_cfg.
  step_prim; [|step_prim; aleaf2].
  step_prim; [|aleaf2].
  unfold contains. rewrite !mem_cntl.
  destruct (Nat.eqb_spec (cntl (items (b1 s)) k) 0) as [Hb1|Hb1]; cbn [negb].
  - destruct (Nat.eqb_spec (cntl (items (b2 s)) k) 0) as [Hb2|Hb2]; cbn [negb].
    + (* brand-new key *)
      destruct (maybe_replace_ok s (Nat.leb (asize s) (llen (t1 s) + llen (t2 s))) false Hinv)
        as (s1 & -> & Hi1 & Hsz1 & Hp1 & Hle1 & Hres1).
      { intros E. apply Nat.leb_le in E. lia. }
      proj. unfold asum in Hle1.
      pose proof Hi1 as (Hs' & Hc1' & Hc2' & Hc3' & Hc4' & Hp' & Hr' & Hg1' & Hg2' & Hd').
      assert (Hroom : (llen (t1 s1) + llen (t2 s1) < asize s)%nat).
      { destruct (Nat.leb_spec (asize s) (llen (t1 s) + llen (t2 s))); [lia|subst s1; lia]. }
      clear Hres1.
      assert (Hk1 : find k (items (t1 s1)) = None).
      { apply cntl_zero_find. pose proof (Hle1 k). norm. lia. }
      destruct (put_spec (t1 s1) k v ltac:(lia) ltac:(lia))
        as [(old & Hf1 & _)|[(_ & _ & ->)|(_ & Hfull & _)]]; [congruence| |lia].
      (* the two ghost trims *)
      pose proof (cond_trim_facts (Nat.ltb (asize s - ap s) (llen (b1 s))) (b1 s1)) as (Ta & Tb & Tc).
      pose proof (cond_trim_facts (Nat.ltb (ap s) (llen (b2 s))) (b2 s1)) as (Ua & Ub & Uc).
      cbn zeta in *.
      set (b1' := if Nat.ltb (asize s - ap s) (llen (b1 s)) then _ else _) in *.
      set (b2' := if Nat.ltb (ap s) (llen (b2 s)) then _ else _) in *.
      clearbody b1' b2'.
      do 2 eexists; split; [reflexivity|]. split; [fin True|reflexivity].
    + (* ghost hit in frequent_evict *)
      step_prim; [contra|].
      match goal with |- context [mkArc (asize s) ?p' (t1 s) (b1 s) (t2 s) ?b2'] =>
        set (s1 := mkArc (asize s) p' (t1 s) (b1 s) (t2 s) b2') end.
      assert (Hi1 : arc_inv s1).
      { subst s1. destruct (Nat.leb (ap s) _); fin True. }
      destruct (maybe_replace_ok s1 (Nat.leb (asize s) (llen (t1 s) + llen (t2 s))) true Hi1)
        as (s2 & -> & Hi2 & Hsz2 & Hp2 & Hle2 & Hres2).
      { intros E. apply Nat.leb_le in E. subst s1. proj. lia. }
      unfold asum in Hle2. subst s1. proj.
      pose proof Hi2 as (Hs' & Hc1' & Hc2' & Hc3' & Hc4' & Hp' & Hr' & Hg1' & Hg2' & Hd').
      assert (Hroom : (llen (t1 s2) + llen (t2 s2) < asize s)%nat).
      { destruct (Nat.leb_spec (asize s) (llen (t1 s) + llen (t2 s))); proj; [lia|subst s2; proj; lia]. }
      clear Hres2.
      step_prim; [|contra]. aleaf2.
  - (* ghost hit in recent_evict *)
    step_prim; [contra|].
    match goal with |- context [mkArc (asize s) ?p' (t1 s) ?b1' (t2 s) (b2 s)] =>
      set (s1 := mkArc (asize s) p' (t1 s) b1' (t2 s) (b2 s)) end.
    assert (Hi1 : arc_inv s1).
    { subst s1. match goal with |- context [Nat.leb (asize s) ?x] => destruct (Nat.leb_spec (asize s) x) end; fin True. }
    destruct (maybe_replace_ok s1 (Nat.leb (asize s) (llen (t1 s) + llen (t2 s))) false Hi1)
      as (s2 & -> & Hi2 & Hsz2 & Hp2 & Hle2 & Hres2).
    { intros E. apply Nat.leb_le in E. subst s1. proj. lia. }
    unfold asum in Hle2. subst s1. proj.
    pose proof Hi2 as (Hs' & Hc1' & Hc2' & Hc3' & Hc4' & Hp' & Hr' & Hg1' & Hg2' & Hd').
    assert (Hroom : (llen (t1 s2) + llen (t2 s2) < asize s)%nat).
    { destruct (Nat.leb_spec (asize s) (llen (t1 s) + llen (t2 s))); proj; [lia|subst s2; proj; lia]. }
    clear Hres2.
    step_prim; [|contra]. aleaf2.
Qed.

Lemma aget_mut_ok s k w :
  arc_inv s -> exists s' r, aget_mut s k w = Ok (s', r) /\ arc_inv s' /\ a_same_cfg s s'.
Proof.
  intros Hinv. pose proof Hinv as (Hs & Hc1 & Hc2 & Hc3 & Hc4 & Hp & Hr & Hg1 & Hg2 & Hd).
  pose proof (Hd k) as Hdk. unfold aget_mut, a_same_cfg.
  step_prim.
  - step_prim; aleaf2.
  - step_prim; aleaf2.
Qed.

Lemma apeek_mut_ok s k w :
  arc_inv s -> arc_inv (fst (apeek_mut s k w)) /\ a_same_cfg s (fst (apeek_mut s k w)).
Proof.
  intros Hinv. pose proof Hinv as (Hs & Hc1 & Hc2 & Hc3 & Hc4 & Hp & Hr & Hg1 & Hg2 & Hd).
  unfold apeek_mut, a_same_cfg.
  step_prim.
  - step_prim; proj; (split; [fin True|reflexivity]).
  - proj. split; [fin True|reflexivity].
Qed.

Lemma aremove_ok s k :
  arc_inv s -> arc_inv (fst (aremove s k)) /\ a_same_cfg s (fst (aremove s k)).
Proof.
  intros Hinv. pose proof Hinv as (Hs & Hc1 & Hc2 & Hc3 & Hc4 & Hp & Hr & Hg1 & Hg2 & Hd).
  unfold aremove, a_same_cfg.
  step_prim; [|proj; split; [fin True|reflexivity]].
  step_prim; [|proj; split; [fin True|reflexivity]].
  step_prim; [|proj; split; [fin True|reflexivity]].
  step_prim; proj; (split; [fin True|reflexivity]).
Qed.

Lemma apurge_ok s : arc_inv s -> arc_inv (apurge s) /\ a_same_cfg s (apurge s).
Proof.
  intros (Hs & Hc1 & Hc2 & Hc3 & Hc4 & Hp & Hr & Hg1 & Hg2 & Hd). unfold apurge, purge, a_same_cfg. proj.
  split; [fin True|reflexivity].
Qed.

Theorem astep_trait_ok s o :
  arc_inv s -> exists s' out, astep_trait s o = Ok (s', out) /\ arc_inv s' /\ a_same_cfg s s'.
Proof.
  intros Hinv. assert (Hsame : a_same_cfg s s) by reflexivity.
  destruct o; cbn [astep_trait]; try (do 2 eexists; split; [reflexivity|split; assumption]).
  - destruct (aput_ok s k v Hinv) as (s' & r & -> & Hi & Hc). cbn [bind]. eauto.
  - unfold aget. destruct (aget_mut_ok s k None Hinv) as (s' & r & -> & Hi & Hc). cbn [bind]. eauto.
  - destruct (aget_mut_ok s k w Hinv) as (s' & r & -> & Hi & Hc). cbn [bind]. eauto.
  - pose proof (apeek_mut_ok s k w Hinv) as [P Q]. destruct (apeek_mut s k w) as [s' r]. eauto.
  - pose proof (aremove_ok s k Hinv) as [P Q]. destruct (aremove s k) as [s' r]. eauto.
  - pose proof (apurge_ok s Hinv) as [P Q]. eauto.
Qed.

Lemma awith_list_inv s i l l' :
  arc_inv s -> alist s i = Some l -> keys (items l') = keys (items l) -> cap l' = cap l ->
  arc_inv (awith_list s i l') /\ a_same_cfg s (awith_list s i l').
Proof.
  intros (Hs & Hc1 & Hc2 & Hc3 & Hc4 & Hp & Hr & Hg1 & Hg2 & Hd) Hl Hk Hc.
  pose proof (length_of_keys_eq _ _ Hk) as Hlen.
  assert (Hcnt : forall x, cntl (items l') x = cntl (items l) x)
    by (intros x; now apply cntl_same_keys).
  unfold alist in Hl. unfold awith_list, a_same_cfg.
  destruct (Z.eqb i 0); [|destruct (Z.eqb i 1); [|destruct (Z.eqb i 2); [|destruct (Z.eqb i 3); [|discriminate]]]];
    inversion Hl; subst l;
    (split; [|reflexivity]);
    repeat split; proj; unfold llen in *; try lia; try congruence;
    intros x; pose proof (Hd x); rewrite Hcnt; lia.
Qed.

Theorem astep_ok s o :
  arc_inv s -> exists s' out, astep s o = Ok (s', out) /\ arc_inv s' /\ a_same_cfg s s'.
Proof.
  intros Hinv. assert (Hsame : a_same_cfg s s) by reflexivity.
  destruct o as [o| |i|i args]; cbn [astep]; eauto using astep_trait_ok.
  destruct (alist s i) as [l|] eqn:El; eauto.
  destruct (run_list_iter l args) as [[l' out']|] eqn:Er; eauto.
  destruct (run_list_iter_keys _ _ _ _ Er) as [Hk Hc].
  destruct (awith_list_inv s i l l' Hinv El Hk Hc) as [P Q]. eauto.
Qed.

Lemma arc_new_inv size : (1 <= size)%nat -> arc_inv (arc_new size).
Proof. intros. repeat split; cbn; try lia. intros x. rewrite !cntl_nil. lia. Qed.
