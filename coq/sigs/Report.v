From Coq Require Import String List Bool.
Import ListNotations.
From VFS Require Import SigDefs SigsGen Sigs.
Eval vm_compute in (bad_sigs sigs).
Eval vm_compute in (bad_markers items markers).
Eval vm_compute in (bad_clones items clones).
