(** * C19 — API soundness as a decidable condition on the signature table.

    What is decided: a *sufficient condition on the signatures*, per public method and per
    unsafe marker impl, for "safe code cannot keep a reference across a later mutation / past the
    cache / twice mutably" and "Send/Sync only when the contents justify it".  What is trusted:
    the translator, rustc's borrow checker (a program that keeps a reference beyond the lifetime
    its signature states is rejected), and that the function bodies justify the stated
    lifetimes (C03's subject). *)
From Coq Require Import String List Bool.
Import ListNotations.
From VFS Require Import SigDefs.
Open Scope string_scope.

Definition sig_public (s : sig) : bool :=
  match s_vis s with VPub | VTraitImpl | VTraitDecl => true | _ => false end.

Definition str_in (x : string) (l : list string) : bool := existsb (String.eqb x) l.

Definition opt_eqb (a : option string) (b : string) : bool :=
  match a with Some x => String.eqb x b | None => false end.

(** one reference / lifetime occurrence of the return type is tied to the borrow of the receiver:
    - elided: Rust's elision rule gives it the receiver's lifetime when the receiver is a reference;
    - named and declared by the fn itself: it must be the receiver's own named lifetime — a
      lifetime parameter that only the output (or another argument) mentions is chosen by the
      caller, so the result may outlive the borrow of the cache;
    - named and not declared by the fn: a lifetime of the impl block (the iterator's own ['a]),
      fixed when the value was created;
    and a [&mut] may only come out of a [&mut self] (or a consumed [self]). *)
Definition out_ok (s : sig) (o : option string * bool) : bool :=
  let '(lt, mu) := o in
  (match lt with
   | None => true
   | Some l =>
     if String.eqb l "static" then true
     else if str_in l (s_fn_lifetimes s) then
       match s_recv s with
       | RRef => opt_eqb (s_recv_lt s) l
       | _ => str_in l (s_param_lifetimes s)
       end
     else true
   end)
  && (if mu then match s_recv s with RRef => s_recv_mut s | _ => true end else true).

Definition sig_sound_b (s : sig) : bool := negb (sig_public s) || forallb (out_ok s) (s_outs s).

Definition find_item (items : list item) (ty : string) : option item :=
  find (fun i => String.eqb (i_type i) ty) items.

(** [unsafe impl Send/Sync]: an iterator that hands out [&K] / [&V] gives the receiving thread a
    shared reference, so the bound must be [Sync]; one that hands out [&mut V] moves exclusive
    access, so [V: Send] (for [Sync]: [V: Sync]); a cache owns its keys and values: [Send] needs
    both [Send], [Sync] needs both [Sync].  Every other type parameter of the impl is something the
    type owns as well (the hash builder [S], the eviction callback [E]): [Send] needs it [Send];
    [Sync] needs it [Sync] — the hash builder is used through [&self] by every look-up — except the
    eviction callback, which is only ever reached through [&mut self] (as the content of a mutex):
    for it [Send] is enough. *)
Definition other_ok (k : mkind) (o : string * bool * bool) : bool :=
  let '(name, sd, sy) := o in
  match k with
  | MSend => sd
  | MSync => sy || (String.eqb name "E" && sd)
  end.

Definition marker_sound_b (items : list item) (m : marker) : bool :=
  forallb (other_ok (m_kind m)) (m_others m) &&
  match find_item items (m_type m) with
  | Some i =>
    (implb (i_shares_k i) (m_k_sync m)) && (implb (i_shares_v i) (m_v_sync m)) &&
    (implb (i_mut_v i) (match m_kind m with MSend => m_v_send m | MSync => m_v_sync m end))
  | None =>
    match m_kind m with
    | MSend => m_k_send m && m_v_send m
    | MSync => m_k_sync m && m_v_sync m
    end
  end.

(** a type that hands out [&mut V] must not be [Clone] / [Copy]: a copy would hand the same
    exclusive reference out a second time *)
Definition clone_sound_b (items : list item) (ty : string) : bool :=
  match find_item items ty with Some i => negb (i_mut_v i) | None => true end.

Definition bad_sigs (l : list sig) : list (string * string * string) :=
  map (fun s => (s_file s, s_type s, s_name s)) (filter (fun s => negb (sig_sound_b s)) l).
Definition bad_markers (items : list item) (l : list marker) : list (string * bool) :=
  map (fun m => (m_type m, match m_kind m with MSend => true | MSync => false end))
      (filter (fun m => negb (marker_sound_b items m)) l).

Definition bad_clones (items : list item) (l : list string) : list string :=
  filter (fun ty => negb (clone_sound_b items ty)) l.

(** the criterion as a proposition, and the boolean reflects it *)
Inductive tied (s : sig) : option string * bool -> Prop :=
| tied_elided mu : (mu = true -> s_recv s = RRef -> s_recv_mut s = true) -> tied s (None, mu)
| tied_static mu : (mu = true -> s_recv s = RRef -> s_recv_mut s = true) -> tied s (Some "static", mu)
| tied_receiver l mu :
    s_recv s = RRef -> s_recv_lt s = Some l ->
    (mu = true -> s_recv_mut s = true) -> tied s (Some l, mu)
| tied_argument l mu : s_recv s <> RRef -> In l (s_param_lifetimes s) -> tied s (Some l, mu)
| tied_impl_level l mu :
    ~ In l (s_fn_lifetimes s) -> (mu = true -> s_recv s = RRef -> s_recv_mut s = true) -> tied s (Some l, mu).

Lemma str_in_In x l : str_in x l = true <-> In x l.
Proof.
  unfold str_in. rewrite existsb_exists. split.
  - intros (y & Hy & E). apply String.eqb_eq in E. now subst.
  - intros H. exists x. split; [exact H|apply String.eqb_refl].
Qed.

Theorem sig_sound_tied s :
  sig_sound_b s = true -> sig_public s = true -> forall o, In o (s_outs s) -> tied s o.
Proof.
  unfold sig_sound_b. intros H Hp o Ho. rewrite Hp in H. cbn in H.
  rewrite forallb_forall in H. specialize (H o Ho). destruct o as [lt mu]. unfold out_ok in H.
  apply andb_prop in H. destruct H as [H1 H2].
  assert (Hmu : mu = true -> s_recv s = RRef -> s_recv_mut s = true).
  { intros -> E. rewrite E in H2. exact H2. }
  destruct lt as [l|]; [|now constructor].
  destruct (String.eqb l "static") eqn:Es; [apply String.eqb_eq in Es; subst; now constructor|].
  destruct (str_in l (s_fn_lifetimes s)) eqn:Ef.
  - destruct (s_recv s) eqn:Er.
    + apply tied_argument; [congruence|now apply str_in_In].
    + apply tied_argument; [congruence|now apply str_in_In].
    + unfold opt_eqb in H1. destruct (s_recv_lt s) as [x|] eqn:El; [|discriminate].
      apply String.eqb_eq in H1. subst x. apply tied_receiver; auto.
  - apply tied_impl_level; [|exact Hmu]. intros Hin. apply str_in_In in Hin. congruence.
Qed.
