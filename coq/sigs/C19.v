(** * C19 — API soundness: borrows and Send/Sync markers cannot be abused from safe code.
    Statements only, over the table regenerated from the Rust sources on every run. *)
From Coq Require Import String List Bool.
Import ListNotations.
From VFS Require Import SigDefs SigsGen Sigs.

(** every public method / trait method that hands out a reference or an iterator ties every
    lifetime of its result to the borrow of the receiver, and a [&mut] only comes out of [&mut self] *)
Theorem C19_signatures_sound : forallb sig_sound_b sigs = true.
Proof. vm_compute. reflexivity. Qed.

(** every [unsafe impl Send / Sync] asks of K and V what the type hands out *)
Theorem C19_markers_sound : forallb (marker_sound_b items) markers = true.
Proof. vm_compute. reflexivity. Qed.

(** no type that hands out [&mut V] can be duplicated *)
Theorem C19_no_clone_of_mutable_iterators : forallb (clone_sound_b items) clones = true.
Proof. vm_compute. reflexivity. Qed.

(** the table is not empty (a translator that finds nothing proves nothing) *)
Theorem C19_table_nontrivial :
  (Nat.leb 40 (length (filter sig_public sigs)) && Nat.leb 10 (length markers) && Nat.leb 8 (length items)) = true.
Proof. vm_compute. reflexivity. Qed.

(** what the boolean means *)
Theorem C19_criterion : forall s,
  sig_sound_b s = true -> sig_public s = true -> forall o, In o (s_outs s) -> tied s o.
Proof. exact sig_sound_tied. Qed.

Print Assumptions C19_signatures_sound.
Print Assumptions C19_markers_sound.
Print Assumptions C19_no_clone_of_mutable_iterators.
Print Assumptions C19_table_nontrivial.
Print Assumptions C19_criterion.
