(** * C19 — the signature table: record types filled in by tools/sig_extract.py. *)
From Coq Require Import String List Bool.
Import ListNotations.

Inductive vis := VPub | VCrate | VTraitImpl | VTraitDecl | VPrivate.
Inductive recv := RNone | RValue | RRef.
Inductive mkind := MSend | MSync.

Record sig := mkSig {
  s_file : string;
  s_type : string;                      (* the type of the impl block / trait *)
  s_trait : option string;
  s_name : string;
  s_vis : vis;
  s_fn_lifetimes : list string;         (* lifetime parameters declared by the fn itself *)
  s_recv : recv;
  s_recv_lt : option string;            (* the receiver's named lifetime, None = elided *)
  s_recv_mut : bool;
  s_param_lifetimes : list string;      (* named lifetimes of the other parameters *)
  s_outs : list (option string * bool)  (* every reference / lifetime in the return type: (lifetime, None = elided; is &mut) *)
}.

Record marker := mkMarker {
  m_file : string;
  m_type : string;
  m_kind : mkind;
  m_k_send : bool; m_k_sync : bool; m_v_send : bool; m_v_sync : bool;  (* bounds of the unsafe impl on K and V *)
  m_others : list (string * bool * bool)   (* every other type parameter of the impl: (name, bound by Send, bound by Sync) *)
}.

(** what an iterator type hands out: &K, &V, &mut V *)
Record item := mkItem { i_type : string; i_shares_k : bool; i_shares_v : bool; i_mut_v : bool }.
