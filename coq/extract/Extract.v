(** Extraction of the executable model to OCaml.  Only [ExtrOcamlBasic] is used:
    [bool], [option], [unit], [list], [prod], [sumbool], [sumor] map to the OCaml built-ins;
    [nat], [positive], [N], [Z] stay the extracted inductive types; no [Extract Constant]. *)
Require Extraction.
Require Import ExtrOcamlBasic.
From VF Require Import Base Univ.
Cd "../ocaml/gen".
Separate Extraction Univ.uinit Univ.ustep Univ.usnap Univ.uretained Univ.uleaked
  BinInt.Z.add BinInt.Z.mul BinInt.Z.opp BinInt.Z.div_eucl BinInt.Z.eqb BinInt.Z.ltb BinInt.Z.of_nat.
Cd "../../coq".
