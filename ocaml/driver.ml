(* Model runner: replays the traces written by the Rust harness in the model extracted from
   Coq (Univ.uinit / ustep / usnap) and reports the first step of every case at which the
   implementation's result or snapshot differs from the model's.

   Trace format (one record per line, integers in decimal):
     C <case id> <kind> <cfg ...>             start of a case
     O <op ...> | <result ...> | <snapshot ...> one call on the real cache
   Every other line is ignored.  *)

open BinNums

(* ---- OCaml int / decimal string <-> extracted Z ---- *)
let rec pos_of_int (n : int) : positive =
  if n = 1 then Coq_xH
  else if n land 1 = 0 then Coq_xO (pos_of_int (n lsr 1))
  else Coq_xI (pos_of_int (n lsr 1))

let z_of_int (n : int) : coq_Z =
  if n = 0 then Z0 else if n > 0 then Zpos (pos_of_int n) else Zneg (pos_of_int (-n))

let z_pow10_18 = z_of_int 1_000_000_000_000_000_000

let rec z_of_digits (s : string) : coq_Z =
  let l = String.length s in
  if l <= 18 then z_of_int (int_of_string s)
  else
    let hi = String.sub s 0 (l - 18) and lo = String.sub s (l - 18) 18 in
    (* strip leading zeros of lo for int_of_string *)
    BinInt.Z.add (BinInt.Z.mul (z_of_digits hi) z_pow10_18) (z_of_int (int_of_string ("0" ^ lo) ))

let z_of_string (s : string) : coq_Z =
  if String.length s > 0 && s.[0] = '-' then
    BinInt.Z.opp (z_of_digits (String.sub s 1 (String.length s - 1)))
  else z_of_digits s

let rec int_of_pos (p : positive) : int =
  match p with
  | Coq_xH -> 1
  | Coq_xO q -> 2 * int_of_pos q
  | Coq_xI q -> 2 * int_of_pos q + 1

let rec pos_bits (p : positive) : int =
  match p with Coq_xH -> 1 | Coq_xO q | Coq_xI q -> 1 + pos_bits q

let rec z_to_string (z : coq_Z) : string =
  match z with
  | Z0 -> "0"
  | Zpos p when pos_bits p <= 61 -> string_of_int (int_of_pos p)
  | Zneg p when pos_bits p <= 61 -> string_of_int (- (int_of_pos p))
  | Zneg p -> "-" ^ z_to_string (Zpos p)
  | Zpos _ ->
    let (q, r) = BinInt.Z.div_eucl z z_pow10_18 in
    let rs = z_to_string r in
    z_to_string q ^ String.make (18 - String.length rs) '0' ^ rs

let zl_to_string (l : coq_Z list) : string =
  "[" ^ String.concat " " (Stdlib.List.map z_to_string l) ^ "]"

(* ---- parsing ---- *)
let split_ws (s : string) : string list =
  Stdlib.List.filter (fun t -> t <> "") (String.split_on_char ' ' s)

let parse_ints (s : string) : coq_Z list = Stdlib.List.map z_of_string (split_ws s)

(* ---- main loop ---- *)
let () =
  let path = Sys.argv.(1) in
  let maxdiv = if Array.length Sys.argv > 2 then int_of_string Sys.argv.(2) else 50 in
  let ic = open_in path in
  let cases = ref 0 and steps = ref 0 and diverged = ref 0 and bad_cases = ref 0 in
  let cur_case = ref "" in
  let state : Univ.ustate option ref = ref None in
  let alive = ref false in       (* model still in lock-step with the implementation in this case *)
  let stepno = ref 0 in
  let seen = Hashtbl.create 100003 in
  let report field m i opstr =
    incr diverged;
    if !diverged <= maxdiv then
      Printf.printf "DIVERGE case=%s step=%d field=%s op=[%s] model=%s impl=%s\n"
        !cur_case !stepno field opstr m i
  in
  (try
     while true do
       let line = input_line ic in
       let n = String.length line in
       if n >= 2 && line.[0] = 'C' && line.[1] = ' ' then begin
         match split_ws (String.sub line 2 (n - 2)) with
         | id :: kind :: cfg ->
           incr cases;
           cur_case := id;
           stepno := 0;
           let cfgz = Stdlib.List.map z_of_string cfg in
           (match Univ.uinit (z_of_string kind) cfgz with
            | Some s -> state := Some s; alive := true
            | None ->
              state := None; alive := false; incr bad_cases;
              report "init" "rejected" ("kind=" ^ kind ^ " cfg=" ^ String.concat " " cfg) "")
         | _ -> ()
       end
       else if n >= 2 && line.[0] = 'O' && line.[1] = ' ' && !alive then begin
         incr stepno;
         incr steps;
         match String.split_on_char '|' (String.sub line 2 (n - 2)) with
         | [ops; outs; cbs; accts; snaps] ->
           let op = parse_ints ops and iout = parse_ints outs and icb = parse_ints cbs
           and isnap = parse_ints snaps and iacct = parse_ints accts in
           (match !state with
            | None -> ()
            | Some s ->
              (match Univ.ustep s op with
               | None ->
                 alive := false; incr bad_cases;
                 report "decode" "undecodable-op" (String.trim outs) (String.trim ops)
               | Some ((s', mout), mcb) ->
                 state := Some s';
                 let msnap = Univ.usnap s' in
                 if mout <> iout then begin
                   alive := false; incr bad_cases;
                   report "out" (zl_to_string mout) (zl_to_string iout) (String.trim ops)
                 end
                 else if mcb <> icb then begin
                   alive := false; incr bad_cases;
                   report "cb" (zl_to_string mcb) (zl_to_string icb) (String.trim ops)
                 end
                 else if msnap <> isnap then begin
                   alive := false; incr bad_cases;
                   report "snap" (zl_to_string msnap) (zl_to_string isnap) (String.trim ops)
                 end
                 else if (match op, iacct with
                          | [o], _ when o = z_of_int 99 -> false
                          | _, [_dk; _dv; dd; live] ->
                            (* ownership ledger: no object dropped twice, and the tracked keys and values still
                               alive are exactly one key and one value per retained entry of the model *)
                            dd <> Z0 || live <> BinInt.Z.add (BinInt.Z.mul (z_of_int 2) (BinInt.Z.of_nat (Univ.uretained s'))) (BinInt.Z.of_nat (Univ.uleaked s'))
                          | _ -> false) then begin
                   alive := false; incr bad_cases;
                   report "ledger"
                     ("[dd=0 live=" ^ z_to_string (BinInt.Z.mul (z_of_int 2) (BinInt.Z.of_nat (Univ.uretained s'))) ^ "]")
                     (zl_to_string iacct) (String.trim ops)
                 end
                 else begin
                   let h = Hashtbl.hash_param 256 1024 msnap in
                   if not (Hashtbl.mem seen h) then Hashtbl.add seen h ()
                 end))
         | _ ->
           alive := false; incr bad_cases;
           report "format" "" line ""
       end
     done
   with End_of_file -> ());
  close_in ic;
  Printf.printf "SUMMARY cases=%d steps=%d diverged_cases=%d distinct_model_states=%d\n"
    !cases !steps !bad_cases (Hashtbl.length seen);
  exit (if !bad_cases > 0 then 3 else 0)
