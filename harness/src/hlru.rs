//! Subject: RawLRU observed at the level of node addresses (kind 9, the heap model of C03).
//! Operations are those of `LruSubj`; the snapshot adds, for every linked node, its address renamed
//! in order of first appearance (sentinels 0 and 1; a node that leaves the chain loses its name),
//! then the renamed node addresses of the index in increasing order, then the audit flag.
use crate::lru::LruSubj;
use crate::subj::*;
use crate::types::*;
use caches::{Cache, RawLRU};
use std::cell::RefCell;
use std::collections::HashMap;

pub struct HLruSubj {
    pub inner: LruSubj<caches::DefaultEvictCallback, VHasher>,
    names: RefCell<(HashMap<usize, i128>, i128)>,
}

impl HLruSubj {
    pub fn new(cap: usize, hmode: u64) -> Self {
        let c = RawLRU::<TKey, TVal, caches::DefaultEvictCallback, VHasher>::with_hasher(cap, VHasher::from_mode(hmode)).unwrap();
        HLruSubj { inner: LruSubj { c }, names: RefCell::new((HashMap::new(), 2)) }
    }
}

impl Subject for HLruSubj {
    fn apply(&mut self, op: &[i128]) -> Ints {
        let r = self.inner.apply(op);
        if op[0] == 25 {
            // x = x.clone(): the model allocates the clone's two sentinels, then one node per entry in the
            // order Clone inserts them (least recent first); every old node is gone
            let a = self.inner.c.verif_audit();
            let mut st = self.names.borrow_mut();
            st.0.clear();
            st.1 += 2;
            for (addr, _, _, _) in a.fwd.iter().rev() {
                let n = st.1;
                st.1 += 1;
                st.0.insert(*addr, n);
            }
        }
        r
    }
    fn weak_audit(&self, limit: usize) -> Ints {
        self.inner.weak_audit(limit)
    }
    fn snapshot(&self) -> Ints {
        let c = &self.inner.c;
        let (ok, _) = audit(c);
        let a = c.verif_audit();
        let mut st = self.names.borrow_mut();
        let (old, mut next) = (std::mem::take(&mut st.0), st.1);
        let mut now: HashMap<usize, i128> = HashMap::new();
        let mut out = vec![a.cap as i128, a.fwd.len() as i128];
        // new nodes are named in the order the model allocates them: a call links at most one new node,
        // and it is linked at the front
        for (addr, _, k, v) in a.fwd.iter() {
            let name = match old.get(addr) {
                Some(n) => *n,
                None => {
                    let n = next;
                    next += 1;
                    n
                }
            };
            now.insert(*addr, name);
            out.push(k.id as i128);
            out.push(v.v as i128);
            out.push(name);
        }
        let mut idx: Vec<i128> = a.index.iter().map(|(_, n)| *now.get(n).unwrap_or(&-1)).collect();
        idx.sort_unstable();
        out.extend(idx);
        out.push(ok as i128);
        *st = (now, next);
        out
    }
}

/// resident keys of a kind-9 snapshot `cap n (k v addr)* ...`
pub fn resident(snap: &Ints) -> Vec<u64> {
    let mut out = Vec::new();
    if snap.len() >= 2 {
        let n = snap[1] as usize;
        for i in 0..n {
            if 2 + 3 * i < snap.len() {
                out.push(snap[2 + 3 * i] as u64);
            }
        }
    }
    out
}

// ---------------------------------------------------------------------------------------------
// kind 11: SegmentedCache at the level of node addresses (node names are global: a node keeps its name
// when it is promoted or demoted)

pub struct HSlruSubj {
    pub inner: crate::comp::SlruSubj,
    names: RefCell<(HashMap<usize, i128>, i128)>,
}

impl HSlruSubj {
    pub fn new(pc: usize, fc: usize, hmode: u64) -> Self {
        let c = caches::SegmentedCacheBuilder::new(pc, fc)
            .set_probationary_hasher(VHasher::from_mode(hmode))
            .set_protected_hasher(VHasher::from_mode(hmode + 1))
            .finalize::<TKey, TVal>()
            .unwrap();
        // two lists: four sentinels are allocated before the first node
        HSlruSubj { inner: crate::comp::SlruSubj { c }, names: RefCell::new((HashMap::new(), 4)) }
    }
}

impl Subject for HSlruSubj {
    fn apply(&mut self, op: &[i128]) -> Ints {
        let r = self.inner.apply(op);
        if op[0] == 25 {
            let (prob, prot) = self.inner.c.verif_parts();
            rename_after_clone(&self.names, &[prob, prot]);
        }
        r
    }
    fn weak_audit(&self, limit: usize) -> Ints {
        self.inner.weak_audit(limit)
    }
    fn snapshot(&self) -> Ints {
        let (prob, prot) = self.inner.c.verif_parts();
        let (ok_a, _) = audit(prob);
        let (ok_b, _) = audit(prot);
        let mut st = self.names.borrow_mut();
        let (old, mut next) = (std::mem::take(&mut st.0), st.1);
        let mut now: HashMap<usize, i128> = HashMap::new();
        let mut out = vec![prob.cap() as i128, prot.cap() as i128];
        let audits = [prob.verif_audit(), prot.verif_audit()];
        // names first (probationary, then protected), then the two list snapshots
        for a in audits.iter() {
            for (addr, _, _, _) in a.fwd.iter() {
                let name = match old.get(addr) {
                    Some(n) => *n,
                    None => {
                        let n = next;
                        next += 1;
                        n
                    }
                };
                now.insert(*addr, name);
            }
        }
        for a in audits.iter() {
            out.push(a.fwd.len() as i128);
            for (addr, _, k, v) in a.fwd.iter() {
                out.push(k.id as i128);
                out.push(v.v as i128);
                out.push(*now.get(addr).unwrap());
            }
            let mut idx: Vec<i128> = a.index.iter().map(|(_, n)| *now.get(n).unwrap_or(&-1)).collect();
            idx.sort_unstable();
            out.extend(idx);
        }
        out.push((ok_a && ok_b) as i128);
        *st = (now, next);
        out
    }
}

/// resident keys of a kind-11 snapshot
pub fn slru_resident(snap: &Ints) -> Vec<u64> {
    let mut out = Vec::new();
    let mut i = 2;
    for _ in 0..2 {
        if i >= snap.len() {
            break;
        }
        let n = snap[i] as usize;
        i += 1;
        for j in 0..n {
            if i + 3 * j < snap.len() {
                out.push(snap[i + 3 * j] as u64);
            }
        }
        i += 3 * n + n;
    }
    out
}


// ---------------------------------------------------------------------------------------------
// kinds 12, 13, 14: TwoQueueCache, AdaptiveCache, WTinyLFUCache at the level of node addresses

type InnerList = RawLRU<TKey, TVal, caches::DefaultEvictCallback, VHasher>;

/// `x = x.clone()`: the model allocates, list by list in the order `Clone` copies them, two sentinels and then
/// one node per entry in insertion order (least recent first); every node of the original is gone
fn rename_after_clone(names: &RefCell<(HashMap<usize, i128>, i128)>, lists: &[&InnerList]) {
    let mut st = names.borrow_mut();
    st.0.clear();
    for l in lists {
        let a = l.verif_audit();
        st.1 += 2;
        for (addr, _, _, _) in a.fwd.iter().rev() {
            let n = st.1;
            st.1 += 1;
            st.0.insert(*addr, n);
        }
    }
}

/// names (global across the lists, first appearance in the given list order), then per list
/// `n (k v name)*n` and the n index names in increasing order; returns whether every list passed its audit
fn named_lists(names: &RefCell<(HashMap<usize, i128>, i128)>, lists: &[&InnerList], out: &mut Ints) -> bool {
    let mut ok = true;
    for l in lists {
        ok &= audit(*l).0;
    }
    let audits: Vec<_> = lists.iter().map(|l| l.verif_audit()).collect();
    let mut st = names.borrow_mut();
    let (old, mut next) = (std::mem::take(&mut st.0), st.1);
    let mut now: HashMap<usize, i128> = HashMap::new();
    for a in audits.iter() {
        for (addr, _, _, _) in a.fwd.iter() {
            let name = match old.get(addr) {
                Some(n) => *n,
                None => {
                    let n = next;
                    next += 1;
                    n
                }
            };
            now.insert(*addr, name);
        }
    }
    for a in audits.iter() {
        out.push(a.fwd.len() as i128);
        for (addr, _, k, v) in a.fwd.iter() {
            out.push(k.id as i128);
            out.push(v.v as i128);
            out.push(*now.get(addr).unwrap());
        }
        let mut idx: Vec<i128> = a.index.iter().map(|(_, n)| *now.get(n).unwrap_or(&-1)).collect();
        idx.sort_unstable();
        out.extend(idx);
    }
    *st = (now, next);
    ok
}

/// the layer-L shape of a named snapshot (`hdr` header numbers, then per list `n (k v)*n`), for the generators
pub fn named_to_plain(snap: &Ints, hdr: usize, nlists: usize) -> Ints {
    let mut out: Ints = snap.iter().take(hdr).cloned().collect();
    let mut i = hdr;
    for _ in 0..nlists {
        if i >= snap.len() {
            out.push(0);
            continue;
        }
        let n = snap[i] as usize;
        i += 1;
        out.push(n as i128);
        for j in 0..n {
            if i + 3 * j + 1 < snap.len() {
                out.push(snap[i + 3 * j]);
                out.push(snap[i + 3 * j + 1]);
            }
        }
        i += 3 * n + n;
    }
    out
}

/// resident keys of a snapshot made of `hdr` header numbers and `nlists` named lists
pub fn named_resident(snap: &Ints, hdr: usize, nlists: usize) -> Vec<u64> {
    let mut out = Vec::new();
    let mut i = hdr;
    for _ in 0..nlists {
        if i >= snap.len() {
            break;
        }
        let n = snap[i] as usize;
        i += 1;
        for j in 0..n {
            if i + 3 * j < snap.len() {
                out.push(snap[i + 3 * j] as u64);
            }
        }
        i += 3 * n + n;
    }
    out
}

pub struct HTwoQSubj {
    pub inner: crate::comp::TwoQSubj,
    names: RefCell<(HashMap<usize, i128>, i128)>,
}
impl HTwoQSubj {
    pub fn new(inner: crate::comp::TwoQSubj) -> Self {
        HTwoQSubj { inner, names: RefCell::new((HashMap::new(), 6)) }
    }
}
impl Subject for HTwoQSubj {
    fn apply(&mut self, op: &[i128]) -> Ints {
        self.inner.apply(op)
    }
    fn weak_audit(&self, limit: usize) -> Ints {
        self.inner.weak_audit(limit)
    }
    fn snapshot(&self) -> Ints {
        let (r, f, g, rs) = self.inner.c.verif_parts();
        let mut out = vec![self.inner.c.cap() as i128, rs as i128, g.cap() as i128];
        let ok = named_lists(&self.names, &[r, f, g], &mut out);
        let caps = r.cap() == self.inner.c.cap() && f.cap() == self.inner.c.cap();
        out.push((ok && caps) as i128);
        out
    }
}

pub struct HArcSubj {
    pub inner: crate::comp::ArcSubj,
    names: RefCell<(HashMap<usize, i128>, i128)>,
}
impl HArcSubj {
    pub fn new(inner: crate::comp::ArcSubj) -> Self {
        HArcSubj { inner, names: RefCell::new((HashMap::new(), 8)) }
    }
}
impl Subject for HArcSubj {
    fn apply(&mut self, op: &[i128]) -> Ints {
        self.inner.apply(op)
    }
    fn weak_audit(&self, limit: usize) -> Ints {
        self.inner.weak_audit(limit)
    }
    fn snapshot(&self) -> Ints {
        let (t1, b1, t2, b2) = self.inner.c.verif_parts();
        let mut out = vec![self.inner.c.cap() as i128, self.inner.c.partition() as i128];
        let ok = named_lists(&self.names, &[t1, b1, t2, b2], &mut out);
        let n = self.inner.c.cap();
        let caps = t1.cap() == n && b1.cap() == n && t2.cap() == n && b2.cap() == n;
        out.push((ok && caps) as i128);
        out
    }
}

pub struct HWTinySubj {
    pub inner: crate::lfu::WTinySubj,
    names: RefCell<(HashMap<usize, i128>, i128)>,
}
impl HWTinySubj {
    pub fn new(inner: crate::lfu::WTinySubj) -> Self {
        HWTinySubj { inner, names: RefCell::new((HashMap::new(), 6)) }
    }
}
impl Subject for HWTinySubj {
    fn apply(&mut self, op: &[i128]) -> Ints {
        let r = self.inner.apply(op);
        if op[0] == 25 {
            let (_, w, m) = self.inner.c.verif_parts();
            let (prob, prot) = m.verif_parts();
            rename_after_clone(&self.names, &[w, prob, prot]);
        }
        r
    }
    fn weak_audit(&self, limit: usize) -> Ints {
        self.inner.weak_audit(limit)
    }
    fn snapshot(&self) -> Ints {
        let (t, w, m) = self.inner.c.verif_parts();
        let (prob, prot) = m.verif_parts();
        let mut out = vec![w.cap() as i128, prob.cap() as i128, prot.cap() as i128];
        let ok = named_lists(&self.names, &[w, prob, prot], &mut out);
        out.push(ok as i128);
        crate::lfu::tiny_snapshot(&t.verif_state(), &mut out);
        out
    }
    fn cfg_override(&self) -> Option<Ints> {
        self.inner.cfg_override()
    }
}
