//! Subject: RawLRU observed at the level of node addresses (kind 9, the heap model of C03).
//! Operations are those of `LruSubj`; the snapshot adds, for every linked node, its address renamed
//! in order of first appearance (sentinels 0 and 1; a node that leaves the chain loses its name),
//! then the renamed node addresses of the index in increasing order, then the audit flag.
use crate::lru::LruSubj;
use crate::subj::*;
use crate::types::*;
use caches::RawLRU;
use std::cell::RefCell;
use std::collections::HashMap;

pub struct HLruSubj {
    pub inner: LruSubj<caches::DefaultEvictCallback, VHasher>,
    names: RefCell<(HashMap<usize, i128>, i128)>,
}

impl HLruSubj {
    pub fn new(cap: usize, hmode: u64) -> Self {
        let c = RawLRU::<TKey, TVal, caches::DefaultEvictCallback, VHasher>::with_hasher(cap, VHasher::from_mode(hmode)).unwrap();
        HLruSubj { inner: LruSubj { c }, names: RefCell::new((HashMap::new(), 2)) }
    }
}

impl Subject for HLruSubj {
    fn apply(&mut self, op: &[i128]) -> Ints {
        self.inner.apply(op)
    }
    fn snapshot(&self) -> Ints {
        let c = &self.inner.c;
        let (ok, _) = audit(c);
        let a = c.verif_audit();
        let mut st = self.names.borrow_mut();
        let (old, mut next) = (std::mem::take(&mut st.0), st.1);
        let mut now: HashMap<usize, i128> = HashMap::new();
        let mut out = vec![a.cap as i128, a.fwd.len() as i128];
        // new nodes are named in the order the model allocates them: a call links at most one new node,
        // and it is linked at the front
        for (addr, _, k, v) in a.fwd.iter() {
            let name = match old.get(addr) {
                Some(n) => *n,
                None => {
                    let n = next;
                    next += 1;
                    n
                }
            };
            now.insert(*addr, name);
            out.push(k.id as i128);
            out.push(v.v as i128);
            out.push(name);
        }
        let mut idx: Vec<i128> = a.index.iter().map(|(_, n)| *now.get(n).unwrap_or(&-1)).collect();
        idx.sort_unstable();
        out.extend(idx);
        out.push(ok as i128);
        *st = (now, next);
        out
    }
}

/// resident keys of a kind-9 snapshot `cap n (k v addr)* ...`
pub fn resident(snap: &Ints) -> Vec<u64> {
    let mut out = Vec::new();
    if snap.len() >= 2 {
        let n = snap[1] as usize;
        for i in 0..n {
            if 2 + 3 * i < snap.len() {
                out.push(snap[2 + 3 * i] as u64);
            }
        }
    }
    out
}
