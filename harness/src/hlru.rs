//! Subject: RawLRU observed at the level of node addresses (kind 9, the heap model of C03).
//! Operations are those of `LruSubj`; the snapshot adds, for every linked node, its address renamed
//! in order of first appearance (sentinels 0 and 1; a node that leaves the chain loses its name),
//! then the renamed node addresses of the index in increasing order, then the audit flag.
use crate::lru::LruSubj;
use crate::subj::*;
use crate::types::*;
use caches::{Cache, RawLRU};
use std::cell::RefCell;
use std::collections::HashMap;

pub struct HLruSubj {
    pub inner: LruSubj<caches::DefaultEvictCallback, VHasher>,
    names: RefCell<(HashMap<usize, i128>, i128)>,
}

impl HLruSubj {
    pub fn new(cap: usize, hmode: u64) -> Self {
        let c = RawLRU::<TKey, TVal, caches::DefaultEvictCallback, VHasher>::with_hasher(cap, VHasher::from_mode(hmode)).unwrap();
        HLruSubj { inner: LruSubj { c }, names: RefCell::new((HashMap::new(), 2)) }
    }
}

impl Subject for HLruSubj {
    fn apply(&mut self, op: &[i128]) -> Ints {
        self.inner.apply(op)
    }
    fn snapshot(&self) -> Ints {
        let c = &self.inner.c;
        let (ok, _) = audit(c);
        let a = c.verif_audit();
        let mut st = self.names.borrow_mut();
        let (old, mut next) = (std::mem::take(&mut st.0), st.1);
        let mut now: HashMap<usize, i128> = HashMap::new();
        let mut out = vec![a.cap as i128, a.fwd.len() as i128];
        // new nodes are named in the order the model allocates them: a call links at most one new node,
        // and it is linked at the front
        for (addr, _, k, v) in a.fwd.iter() {
            let name = match old.get(addr) {
                Some(n) => *n,
                None => {
                    let n = next;
                    next += 1;
                    n
                }
            };
            now.insert(*addr, name);
            out.push(k.id as i128);
            out.push(v.v as i128);
            out.push(name);
        }
        let mut idx: Vec<i128> = a.index.iter().map(|(_, n)| *now.get(n).unwrap_or(&-1)).collect();
        idx.sort_unstable();
        out.extend(idx);
        out.push(ok as i128);
        *st = (now, next);
        out
    }
}

/// resident keys of a kind-9 snapshot `cap n (k v addr)* ...`
pub fn resident(snap: &Ints) -> Vec<u64> {
    let mut out = Vec::new();
    if snap.len() >= 2 {
        let n = snap[1] as usize;
        for i in 0..n {
            if 2 + 3 * i < snap.len() {
                out.push(snap[2 + 3 * i] as u64);
            }
        }
    }
    out
}

// ---------------------------------------------------------------------------------------------
// kind 11: SegmentedCache at the level of node addresses (node names are global: a node keeps its name
// when it is promoted or demoted)

pub struct HSlruSubj {
    pub inner: crate::comp::SlruSubj,
    names: RefCell<(HashMap<usize, i128>, i128)>,
}

impl HSlruSubj {
    pub fn new(pc: usize, fc: usize, hmode: u64) -> Self {
        let c = caches::SegmentedCacheBuilder::new(pc, fc)
            .set_probationary_hasher(VHasher::from_mode(hmode))
            .set_protected_hasher(VHasher::from_mode(hmode + 1))
            .finalize::<TKey, TVal>()
            .unwrap();
        // two lists: four sentinels are allocated before the first node
        HSlruSubj { inner: crate::comp::SlruSubj { c }, names: RefCell::new((HashMap::new(), 4)) }
    }
}

impl Subject for HSlruSubj {
    fn apply(&mut self, op: &[i128]) -> Ints {
        self.inner.apply(op)
    }
    fn snapshot(&self) -> Ints {
        let (prob, prot) = self.inner.c.verif_parts();
        let (ok_a, _) = audit(prob);
        let (ok_b, _) = audit(prot);
        let mut st = self.names.borrow_mut();
        let (old, mut next) = (std::mem::take(&mut st.0), st.1);
        let mut now: HashMap<usize, i128> = HashMap::new();
        let mut out = vec![prob.cap() as i128, prot.cap() as i128];
        let audits = [prob.verif_audit(), prot.verif_audit()];
        // names first (probationary, then protected), then the two list snapshots
        for a in audits.iter() {
            for (addr, _, _, _) in a.fwd.iter() {
                let name = match old.get(addr) {
                    Some(n) => *n,
                    None => {
                        let n = next;
                        next += 1;
                        n
                    }
                };
                now.insert(*addr, name);
            }
        }
        for a in audits.iter() {
            out.push(a.fwd.len() as i128);
            for (addr, _, k, v) in a.fwd.iter() {
                out.push(k.id as i128);
                out.push(v.v as i128);
                out.push(*now.get(addr).unwrap());
            }
            let mut idx: Vec<i128> = a.index.iter().map(|(_, n)| *now.get(n).unwrap_or(&-1)).collect();
            idx.sort_unstable();
            out.extend(idx);
        }
        out.push((ok_a && ok_b) as i128);
        *st = (now, next);
        out
    }
}

/// resident keys of a kind-11 snapshot
pub fn slru_resident(snap: &Ints) -> Vec<u64> {
    let mut out = Vec::new();
    let mut i = 2;
    for _ in 0..2 {
        if i >= snap.len() {
            break;
        }
        let n = snap[i] as usize;
        i += 1;
        for j in 0..n {
            if i + 3 * j < snap.len() {
                out.push(snap[i + 3 * j] as u64);
            }
        }
        i += 3 * n + n;
    }
    out
}
