//! History generators.  Every choice comes from the Rng passed in.
use crate::prng::Rng;
use crate::subj::Ints;

/// Key chooser skewed towards keys that matter: resident keys (from the last snapshot),
/// keys seen recently (likely evicted / ghosts), and fresh keys from a small universe.
pub struct KeyGen {
    pub universe: u64,
    pub recent: Vec<u64>,
}
impl KeyGen {
    pub fn new(universe: u64) -> Self {
        KeyGen { universe, recent: Vec::with_capacity(64) }
    }
    pub fn pick(&mut self, r: &mut Rng, resident: &[u64]) -> u64 {
        let c = r.below(100);
        let k = if c < 45 && !resident.is_empty() {
            *r.pick(resident)
        } else if c < 75 && !self.recent.is_empty() {
            *r.pick(&self.recent)
        } else {
            r.below(self.universe)
        };
        if self.recent.len() >= 32 {
            let i = r.below(32) as usize;
            self.recent[i] = k;
        } else {
            self.recent.push(k);
        }
        k
    }
}

/// Shaping of the `--big` histories: caches of hundreds of entries only fill (and their ghost lists, protected
/// and frequent segments only grow) when most calls insert or hit; so three calls in ten become the put of
/// a key that walks through the universe, one in ten a hit on a resident key, and purge / removals / a resize
/// below the original capacity are re-rolled nine times in ten (`destructive` names them for the cache type).
pub struct BigBias {
    pub next: u64,
    pub universe: u64,
}
impl BigBias {
    pub fn new(universe: u64) -> Self {
        BigBias { next: 0, universe }
    }
    pub fn shape(&mut self, r: &mut Rng, vg: &mut ValGen, op: Ints, resident: &[u64], destructive: &[i128], cap0: u64) -> Ints {
        let c = r.below(100);
        if c < 30 {
            let k = self.next % self.universe;
            self.next += 1 + r.below(2);
            return vec![0, k as i128, vg.next()];
        }
        if c < 40 && !resident.is_empty() {
            return vec![1, *r.pick(resident) as i128];
        }
        let shrink = op[0] == 11 && destructive.contains(&11) && (op[1] as u64) < cap0;
        if ((destructive.contains(&op[0]) && op[0] != 11) || shrink) && !r.chance(1, 10) {
            return vec![8];
        }
        op
    }
}

pub struct ValGen(pub u64);
impl ValGen {
    pub fn next(&mut self) -> i128 {
        self.0 += 1;
        self.0 as i128
    }
}

pub fn wopt(r: &mut Rng, vg: &mut ValGen) -> (i128, i128) {
    if r.chance(2, 3) {
        (1, vg.next())
    } else {
        (0, 0)
    }
}

/// iterator script arguments: `kind npre na nb` + triples, for a list of length `len`
pub fn iter_args(r: &mut Rng, vg: &mut ValGen, kinds: &[i128], len: usize) -> Ints {
    let kind = *r.pick(kinds);
    let total = r.range(0, len as u64 + 2) as usize;
    let npre = r.range(0, total as u64) as usize;
    let na = total - npre;
    let cloneable = matches!(kind, 0 | 1 | 4 | 5 | 6 | 7 | 10);
    let nb = if cloneable { r.range(0, (len + 2 - npre.min(len + 2)) as u64) as usize } else { 0 };
    let mutable = matches!(kind, 2 | 3 | 8 | 9 | 11);
    let mut v = vec![kind, npre as i128, na as i128, nb as i128];
    for _ in 0..(npre + na + nb) {
        v.push(r.below(2) as i128);
        if mutable {
            let (f, w) = wopt(r, vg);
            v.push(f);
            v.push(w);
        } else {
            v.push(0);
            v.push(0);
        }
    }
    v
}

/// resident keys of a RawLRU snapshot `cap n (k v)* wf`
pub fn lru_resident(snap: &Ints) -> Vec<u64> {
    let mut out = Vec::new();
    if snap.len() >= 2 {
        let n = snap[1] as usize;
        for i in 0..n {
            out.push(snap[2 + 2 * i] as u64);
        }
    }
    out
}

/// one random RawLRU operation
pub fn lru_op(r: &mut Rng, kg: &mut KeyGen, vg: &mut ValGen, snap: &Ints, cap0: u64) -> Ints {
    let res = lru_resident(snap);
    let c = r.below(1000);
    let k = kg.pick(r, &res) as i128;
    match c {
        0..=279 => vec![0, k, vg.next()],
        280..=379 => vec![1, k],
        380..=429 => {
            let (f, w) = wopt(r, vg);
            vec![2, k, f, w]
        }
        430..=469 => vec![3, k],
        470..=509 => {
            let (f, w) = wopt(r, vg);
            vec![4, k, f, w]
        }
        510..=539 => vec![5, k],
        540..=599 => vec![6, k],
        600..=604 => vec![7],
        605..=619 => vec![8],
        620..=629 => vec![9],
        630..=639 => vec![10],
        640..=664 => {
            // resize: mostly near the original capacity, sometimes 0
            let n = match r.below(10) {
                0 => 0,
                1 => cap0 + r.below(4),
                _ => r.range(0, cap0 + 1),
            };
            vec![11, n as i128]
        }
        665..=689 => vec![12],
        690..=699 => vec![13],
        700..=719 => {
            let (f, w) = wopt(r, vg);
            vec![14, f, w]
        }
        720..=734 => {
            let (f, w) = wopt(r, vg);
            vec![15, f, w]
        }
        735..=764 => vec![16, k, vg.next()],
        765..=794 => {
            let v = vg.next();
            let (f, w) = wopt(r, vg);
            vec![17, k, v, f, w]
        }
        795..=824 => vec![18, k, vg.next()],
        825..=839 => vec![19],
        840..=854 => {
            let (f, w) = wopt(r, vg);
            vec![20, f, w]
        }
        855..=864 => vec![21],
        865..=879 => {
            let (f, w) = wopt(r, vg);
            vec![22, f, w]
        }
        880..=909 => vec![23],
        910..=969 => {
            let mut v = vec![24];
            v.extend(iter_args(r, vg, &[0, 1, 2, 3, 4, 5, 6, 7, 8, 9, 10, 11], res.len()));
            v
        }
        970..=989 => vec![25],
        _ => vec![26],
    }
}

/// resident + ghost keys of a composite snapshot: `hdr` header ints, then `nlists` entry lists
pub fn multi_resident(snap: &Ints, hdr: usize, nlists: usize) -> (Vec<Vec<u64>>, usize) {
    let mut lists = Vec::new();
    let mut i = hdr;
    for _ in 0..nlists {
        let mut l = Vec::new();
        if i < snap.len() {
            let n = snap[i] as usize;
            i += 1;
            for j in 0..n {
                l.push(snap[i + 2 * j] as u64);
            }
            i += 2 * n;
        }
        lists.push(l);
    }
    (lists, i)
}

/// one random Cache-trait operation
pub fn trait_op(r: &mut Rng, kg: &mut KeyGen, vg: &mut ValGen, res: &[u64]) -> Ints {
    let k = kg.pick(r, res) as i128;
    match r.below(100) {
        0..=39 => vec![0, k, vg.next()],
        40..=57 => vec![1, k],
        58..=65 => {
            let (f, w) = wopt(r, vg);
            vec![2, k, f, w]
        }
        66..=71 => vec![3, k],
        72..=77 => {
            let (f, w) = wopt(r, vg);
            vec![4, k, f, w]
        }
        78..=82 => vec![5, k],
        83..=93 => vec![6, k],
        94 => vec![7],
        95..=96 => vec![8],
        97 => vec![9],
        _ => vec![10],
    }
}

pub fn slru_op(r: &mut Rng, kg: &mut KeyGen, vg: &mut ValGen, snap: &Ints) -> Ints {
    let (lists, _) = multi_resident(snap, 2, 2);
    let res: Vec<u64> = lists.concat();
    match r.below(100) {
        0..=74 => trait_op(r, kg, vg, &res),
        75..=82 => vec![30, kg.pick(r, &res) as i128, vg.next()],
        83..=90 => {
            let c = 31 + r.below(8) as i128;
            if (c - 31) % 2 == 1 {
                let (f, w) = wopt(r, vg);
                vec![c, f, w]
            } else {
                vec![c]
            }
        }
        91..=94 => vec![39 + r.below(2) as i128],
        95..=97 => vec![41 + r.below(4) as i128],
        _ => vec![25],
    }
}

pub fn list_iter_op(r: &mut Rng, vg: &mut ValGen, lists: &[Vec<u64>]) -> Ints {
    let li = r.below(lists.len() as u64) as usize;
    let mut v = vec![60, li as i128];
    v.extend(iter_args(r, vg, &[0, 1, 2, 3, 4, 5, 6, 7, 8, 9], lists[li].len()));
    v
}

pub fn twoq_op(r: &mut Rng, kg: &mut KeyGen, vg: &mut ValGen, snap: &Ints) -> Ints {
    let (lists, _) = multi_resident(snap, 3, 3);
    // ghosts are interesting keys too
    let res: Vec<u64> = lists.concat();
    match r.below(100) {
        0..=87 => trait_op(r, kg, vg, &res),
        88..=90 => vec![50 + r.below(3) as i128],
        91 => vec![26],
        _ => list_iter_op(r, vg, &lists),
    }
}

pub fn arc_op(r: &mut Rng, kg: &mut KeyGen, vg: &mut ValGen, snap: &Ints) -> Ints {
    let (lists, _) = multi_resident(snap, 2, 4);
    let res: Vec<u64> = lists.concat();
    match r.below(100) {
        0..=87 => trait_op(r, kg, vg, &res),
        88..=91 => vec![70 + r.below(5) as i128],
        _ => list_iter_op(r, vg, &lists),
    }
}

pub fn wtiny_op(r: &mut Rng, kg: &mut KeyGen, vg: &mut ValGen, snap: &Ints) -> Ints {
    let (lists, _) = multi_resident(snap, 3, 3);
    let res: Vec<u64> = lists.concat();
    match r.below(100) {
        0..=91 => trait_op(r, kg, vg, &res),
        92..=95 => vec![100 + r.below(4) as i128],
        _ => vec![25],
    }
}

/// hashes that matter: small values, colliding low bits, the extremes
pub fn pick_hash(r: &mut Rng, pool: &mut Vec<u64>) -> u64 {
    let c = r.below(100);
    let h = if c < 55 && !pool.is_empty() {
        *r.pick(pool)
    } else if c < 70 {
        r.below(16)
    } else if c < 75 {
        *r.pick(&[0u64, u64::MAX, 1 << 63, (1 << 32) - 1, 1 << 32, u64::MAX - 1])
    } else {
        r.next()
    };
    if pool.len() < 12 {
        pool.push(h);
    } else if r.chance(1, 4) {
        let i = r.below(12) as usize;
        pool[i] = h;
    }
    h
}

pub fn tiny_op(r: &mut Rng, pool: &mut Vec<u64>) -> Ints {
    let h = pick_hash(r, pool) as i128;
    let id = r.below(12) as i128;
    match r.below(100) {
        0..=39 => vec![80, h],
        40..=49 => vec![81, id],
        50..=54 => {
            let n = r.range(0, 4);
            let mut v = vec![82];
            for _ in 0..n {
                v.push(pick_hash(r, pool) as i128);
            }
            v
        }
        55..=57 => {
            let n = r.range(0, 3);
            let mut v = vec![83, n as i128];
            for _ in 0..n {
                v.push(r.below(12) as i128);
            }
            v
        }
        58..=69 => vec![84, h],
        70..=74 => vec![85, id],
        75..=80 => vec![86],
        81 => vec![87],
        82..=86 => vec![88, h],
        87..=89 => vec![89, id],
        90..=97 => vec![90, id, r.below(12) as i128],
        _ => vec![91],
    }
}

pub fn extreme_i64(r: &mut Rng) -> i128 {
    let base = *r.pick(&[i64::MAX as i128, i64::MIN as i128, 1i128 << 62, -(1i128 << 62), (1i128 << 62) + (1i128 << 61)]);
    let d = r.below(3) as i128;
    (base + if base > 0 { -d } else { d }).clamp(i64::MIN as i128, i64::MAX as i128)
}

pub fn sampled_op(r: &mut Rng, pool: &mut Vec<u64>) -> Ints {
    let h = pick_hash(r, pool) as i128;
    let id = r.below(10) as i128;
    let cost = match r.below(20) {
        0 | 1 => 0,
        2 | 3 => -(r.below(50) as i128),
        4 | 5 => r.below(1 << 40) as i128,
        // the ends of the i64 range: costs are arbitrary i64 values and the accounting wraps
        6 => extreme_i64(r),
        _ => r.below(60) as i128,
    };
    match r.below(100) {
        0..=29 => vec![110, h, cost],
        30..=37 => vec![111, id, cost],
        38..=49 => vec![112, h, cost],
        50..=53 => vec![113, id, cost],
        54..=65 => vec![114, h],
        66..=69 => vec![115, id],
        70 => vec![116],
        71..=74 => vec![117, if r.chance(1, 6) { extreme_i64(r) } else { r.below(2000) as i128 - 500 }],
        75..=77 => vec![118],
        78..=89 => vec![119, cost],
        _ => {
            let nin = r.range(0, 4);
            let mut v = vec![120, nin as i128];
            for _ in 0..nin {
                // half of the input pairs name a key from the pool (probably tracked, with a
                // possibly stale cost), the others a key that cannot be tracked
                if r.chance(1, 2) {
                    v.push(pick_hash(r, pool) as i128);
                } else {
                    v.push(r.below(1000) as i128 + 100_000);
                }
                v.push(r.below(50) as i128);
            }
            v
        }
    }
}
