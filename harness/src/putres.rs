//! PutResult as a subject: the hand-written PartialEq / Clone / Copy of lib.rs on generated pairs.
use crate::subj::{Ints, Subject};
use caches::PutResult;

pub struct PutResSubj;

fn dec(a: &[i128]) -> PutResult<u64, u64> {
    match a[0] {
        0 => PutResult::Put,
        1 => PutResult::Update(a[1] as u64),
        2 => PutResult::Evicted { key: a[1] as u64, value: a[2] as u64 },
        _ => PutResult::EvictedAndUpdate { evicted: (a[1] as u64, a[2] as u64), update: a[3] as u64 },
    }
}

/// equality of results is equality of their payloads, whatever the payload type says about itself: a result
/// holding a NaN is not equal to itself (also when compared through the same reference), one holding equal floats
/// is; checked on the same shape as `a`, with an f64 value / an f64 key
fn payload_equality_is_structural(a: &[i128]) -> bool {
    let nan = f64::NAN;
    let mk = |v: f64| -> PutResult<u64, f64> {
        match a[0] {
            0 => PutResult::Put,
            1 => PutResult::Update(v),
            2 => PutResult::Evicted { key: a[1] as u64, value: v },
            _ => PutResult::EvictedAndUpdate { evicted: (a[1] as u64, v), update: 1.5 },
        }
    };
    let x = mk(nan);
    let y = mk(2.5);
    let z = mk(2.5);
    let xr = &x;
    #[allow(clippy::eq_op)]
    let nan_ok = if a[0] == 0 { xr == xr } else { !(xr == xr) && xr != xr && !(x == mk(nan)) };
    let mkk = |k: f64| -> PutResult<f64, u64> {
        match a[0] {
            0 => PutResult::Put,
            1 => PutResult::Update(7),
            2 => PutResult::Evicted { key: k, value: 7 },
            _ => PutResult::EvictedAndUpdate { evicted: (k, 7), update: 8 },
        }
    };
    let kx = mkk(nan);
    let kxr = &kx;
    #[allow(clippy::eq_op)]
    let knan_ok = if a[0] >= 2 { !(kxr == kxr) } else { kxr == kxr };
    nan_ok && knan_ok && y == z && (&y) == (&y)
}

impl Subject for PutResSubj {
    fn apply(&mut self, op: &[i128]) -> Ints {
        // [130 ta xa ya za tb xb yb zb]
        let a = dec(&op[1..5]);
        let b = dec(&op[5..9]);
        let c = a.clone();
        let d = a; // Copy
        #[allow(clippy::eq_op)]
        let refl = (a == a) && payload_equality_is_structural(&op[1..5]);
        vec![(a == b) as i128, (b == a) as i128, (c == a) as i128, (d == a) as i128, refl as i128, (a != b) as i128]
    }
    fn snapshot(&self) -> Ints {
        vec![]
    }
}

pub fn gen_op(r: &mut crate::prng::Rng) -> Ints {
    let mut one = |r: &mut crate::prng::Rng| -> Vec<i128> {
        vec![r.below(4) as i128, r.below(3) as i128, r.below(3) as i128, r.below(3) as i128]
    };
    let a = one(r);
    // half of the pairs are equal or differ in exactly one field
    let b = match r.below(4) {
        0 => a.clone(),
        1 => {
            let mut b = a.clone();
            let i = r.below(4) as usize;
            b[i] = (b[i] + 1) % if i == 0 { 4 } else { 3 };
            b
        }
        _ => one(r),
    };
    let mut v = vec![130];
    v.extend(a);
    v.extend(b);
    v
}
