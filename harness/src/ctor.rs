//! Constructors, builders and conversions as a subject (C05): argument grids including 0, boundary
//! ratios, NaN, infinities and out-of-range values.  [140 which args..] -> [0 sizes..] | [1 code payload]
use crate::subj::{Ints, Subject};
use crate::types::*;
use caches::lru::CacheError;
use caches::Cache;

#[derive(Default)]
pub struct CtorSubj {
    rewrite: Option<Ints>,
}

fn cache_err(e: CacheError) -> Ints {
    match e {
        CacheError::InvalidSize(n) => vec![1, 1, n as i128],
        CacheError::InvalidRecentRatio(r) => vec![1, 2, r.to_bits() as i128],
        CacheError::InvalidGhostRatio(r) => vec![1, 3, r.to_bits() as i128],
    }
}
/// The error types of the LFU constructors are not nameable from outside the crate (they are re-exported
/// from private modules), so they are classified by their Display text; `fp` is the false positive ratio
/// that was passed in (its bits are the payload when the message shows that very number).
fn lfu_err(e: &dyn std::fmt::Display, fp: f64) -> Ints {
    let s = format!("{}", e);
    let num = |p: &str| -> i128 { s[p.len()..].trim().parse::<i128>().unwrap_or(-1) };
    let table: [(&str, i128); 5] = [
        ("invalid window cache size:", 4),
        ("invalid protected cache size:", 5),
        ("invalid probationary cache size:", 6),
        ("invalid number of samples:", 7),
        ("invalid count main sketch width:", 9),
    ];
    for (p, c) in table.iter() {
        if s.starts_with(p) {
            return vec![1, *c, num(p)];
        }
    }
    let p = "invalid false positive ratio:";
    if s.starts_with(p) {
        let shown = s[p.len()..].split(',').next().unwrap_or("").trim().to_string();
        return vec![1, 8, if shown == format!("{}", fp) { fp.to_bits() as i128 } else { -1 }];
    }
    vec![1, 10, 0]
}

impl Subject for CtorSubj {
    fn apply(&mut self, op: &[i128]) -> Ints {
        let u = |i: usize| op[i] as usize;
        let f = |i: usize| f64::from_bits(op[i] as u64);
        if op[0] == 141 {
            return builder_script(op);
        }
        if op[0] == 142 {
            let (out, rec) = conversion(op);
            self.rewrite = Some(rec);
            return out;
        }
        match op[1] {
            1 => match caches::RawLRU::<TKey, TVal>::new(u(2)) {
                Ok(c) => vec![0, c.cap() as i128],
                Err(e) => cache_err(e),
            },
            2 => match caches::SegmentedCache::<TKey, TVal>::new(u(2), u(3)) {
                Ok(c) => {
                    let (prob, prot) = c.verif_parts();
                    if prob.cap() != u(2) || prot.cap() != u(3) {
                        return vec![-6];
                    }
                    vec![0, c.probationary_cap() as i128, c.protected_cap() as i128]
                }
                Err(e) => cache_err(e),
            },
            3 => match caches::TwoQueueCache::<TKey, TVal>::with_2q_parameters(u(2), f(3), f(4)) {
                Ok(c) => twoq_out(&c),
                Err(e) => cache_err(e),
            },
            4 => match caches::TwoQueueCacheBuilder::new(u(2)).set_recent_ratio(f(3)).set_ghost_ratio(f(4)).finalize::<TKey, TVal>() {
                Ok(c) => twoq_out(&c),
                Err(e) => cache_err(e),
            },
            5 => match caches::AdaptiveCache::<TKey, TVal>::new(u(2)) {
                Ok(c) => {
                    let (t1, b1, t2, b2) = c.verif_parts();
                    if [t1.cap(), b1.cap(), t2.cap(), b2.cap()] != [u(2); 4] {
                        return vec![-6];
                    }
                    vec![0, c.cap() as i128]
                }
                Err(e) => cache_err(e),
            },
            6 => match caches::WTinyLFUCache::<u64, u64>::with_sizes(u(2), u(3), u(4), u(5)) {
                Ok(c) => std::iter::once(0).chain(wt_sizes(&c)).collect(),
                Err(e) => lfu_err(&e, 0.01),
            },
            7 => match caches::WTinyLFUCache::<u64, u64>::new(u(2), u(3)) {
                Ok(c) => std::iter::once(0).chain(wt_sizes(&c)).collect(),
                Err(e) => lfu_err(&e, 0.01),
            },
            8 => match caches::lfu::TinyLFU::<u64>::new(u(2), u(3), f(4)) {
                Ok(_) => vec![0],
                Err(e) => lfu_err(&e, f(4)),
            },
            9 => match caches::TwoQueueCache::<TKey, TVal>::new(u(2)) {
                Ok(c) => twoq_out(&c),
                Err(e) => cache_err(e),
            },
            10 => match caches::TwoQueueCache::<TKey, TVal>::with_recent_ratio(u(2), f(3)) {
                Ok(c) => twoq_out(&c),
                Err(e) => cache_err(e),
            },
            11 => match caches::TwoQueueCache::<TKey, TVal>::with_ghost_ratio(u(2), f(3)) {
                Ok(c) => twoq_out(&c),
                Err(e) => cache_err(e),
            },
            12 => match caches::RawLRU::<TKey, TVal, caches::DefaultEvictCallback, VHasher>::with_hasher(u(2), VHasher::from_mode(2)) {
                Ok(c) => vec![0, c.cap() as i128],
                Err(e) => cache_err(e),
            },
            13 => match caches::RawLRU::<TKey, TVal, RecCb>::with_on_evict_cb(u(2), RecCb) {
                Ok(c) => vec![0, c.cap() as i128],
                Err(e) => cache_err(e),
            },
            14 => match caches::RawLRU::<TKey, TVal, RecCb, VHasher>::with_on_evict_cb_and_hasher(u(2), RecCb, VHasher::from_mode(3)) {
                Ok(c) => vec![0, c.cap() as i128],
                Err(e) => cache_err(e),
            },
            _ => vec![-4],
        }
    }
    fn snapshot(&self) -> Ints {
        vec![]
    }
    fn take_op_rewrite(&mut self) -> Option<Ints> {
        self.rewrite.take()
    }
}

/// `[142 src (k v)*]`: build the source collection from the pairs, record its iteration order (that is what
/// the model gets: `[142 src (k v)* in iteration order]`), convert it into a RawLRU; result `cap n (k v)*`
/// most recent first.  src: 0 FromIterator, 1 &[..], 2 &mut [..], 3 [..; N] (N <= 4), 4 Vec, 5 VecDeque,
/// 6 LinkedList, 7 HashSet, 8 BTreeSet, 9 BinaryHeap, 10 HashMap, 11 BTreeMap, 12 FromIterator over a
/// filtered iterator (size_hint().0 == 0)
fn conversion(op: &[i128]) -> (Ints, Ints) {
    use caches::RawLRU;
    use std::collections::{BTreeMap, BTreeSet, BinaryHeap, HashMap, HashSet, LinkedList, VecDeque};
    let src = op[1];
    let mut pairs: Vec<(u64, u64)> = op[2..].chunks(2).filter(|c| c.len() == 2).map(|c| (c[0] as u64, c[1] as u64)).collect();
    if src == 3 {
        pairs.truncate(4);
    }
    let order: Vec<(u64, u64)>;
    let c: RawLRU<u64, u64> = match src {
        0 => {
            order = pairs.clone();
            pairs.into_iter().collect()
        }
        1 => {
            order = pairs.clone();
            RawLRU::from(&pairs[..])
        }
        2 => {
            order = pairs.clone();
            RawLRU::from(&mut pairs[..])
        }
        3 => {
            order = pairs.clone();
            match pairs.len() {
                0 => RawLRU::from([] as [(u64, u64); 0]),
                1 => RawLRU::from([pairs[0]]),
                2 => RawLRU::from([pairs[0], pairs[1]]),
                3 => RawLRU::from([pairs[0], pairs[1], pairs[2]]),
                _ => RawLRU::from([pairs[0], pairs[1], pairs[2], pairs[3]]),
            }
        }
        4 => {
            order = pairs.clone();
            RawLRU::from(pairs)
        }
        5 => {
            let d: VecDeque<(u64, u64)> = pairs.into_iter().collect();
            order = d.iter().cloned().collect();
            RawLRU::from(d)
        }
        6 => {
            let d: LinkedList<(u64, u64)> = pairs.into_iter().collect();
            order = d.iter().cloned().collect();
            RawLRU::from(d)
        }
        // (in the no_std build the crate's HashSet / HashMap are hashbrown's, which the harness does not link:
        //  there the two hash collections go through their iterators)
        7 => {
            let d: HashSet<(u64, u64)> = pairs.into_iter().collect();
            order = d.iter().cloned().collect();
            #[cfg(feature = "std")]
            let c = RawLRU::from(d);
            #[cfg(not(feature = "std"))]
            let c = d.into_iter().collect();
            c
        }
        8 => {
            let d: BTreeSet<(u64, u64)> = pairs.into_iter().collect();
            order = d.iter().cloned().collect();
            RawLRU::from(d)
        }
        9 => {
            let d: BinaryHeap<(u64, u64)> = pairs.into_iter().collect();
            order = d.iter().cloned().collect();
            RawLRU::from(d)
        }
        10 => {
            let d: HashMap<u64, u64> = pairs.into_iter().collect();
            order = d.iter().map(|(k, v)| (*k, *v)).collect();
            #[cfg(feature = "std")]
            let c = RawLRU::from(d);
            #[cfg(not(feature = "std"))]
            let c = d.into_iter().collect();
            c
        }
        11 => {
            let d: BTreeMap<u64, u64> = pairs.into_iter().collect();
            order = d.iter().map(|(k, v)| (*k, *v)).collect();
            RawLRU::from(d)
        }
        _ => {
            order = pairs.clone();
            pairs.into_iter().filter(|_| true).collect()
        }
    };
    // the structure a conversion builds is audited like every other list (C03): a well-formed chain between
    // the sentinels, walked both ways, that agrees with the index (one entry per node, keyed by the node's own key)
    if !well_formed(&c) {
        return (vec![-6], {
            let mut rec = vec![142, src];
            for (k, v) in order {
                rec.push(k as i128);
                rec.push(v as i128);
            }
            rec
        });
    }
    let mut out = vec![c.cap() as i128, c.len() as i128];
    for (k, v) in c.iter() {
        out.push(*k as i128);
        out.push(*v as i128);
    }
    let mut rec = vec![142, src];
    for (k, v) in order {
        rec.push(k as i128);
        rec.push(v as i128);
    }
    (out, rec)
}

fn well_formed<E, S>(c: &caches::RawLRU<u64, u64, E, S>) -> bool {
    let a = c.verif_audit();
    let mut ok = a.walks_terminated && a.sentinels_closed && a.head != a.tail && a.head != 0 && a.tail != 0;
    let fwd: Vec<usize> = a.fwd.iter().map(|x| x.0).collect();
    let mut bwd = a.bwd.clone();
    bwd.reverse();
    ok &= fwd == bwd && a.len == fwd.len() && a.index.len() == a.len;
    let mut nodes = fwd.clone();
    nodes.sort_unstable();
    nodes.dedup();
    ok &= nodes.len() == fwd.len() && !fwd.contains(&a.head) && !fwd.contains(&a.tail);
    // every index entry: the KeyRef points at the key field of the node it maps to, which is linked
    for (kref, node) in &a.index {
        ok &= a.fwd.iter().any(|x| x.0 == *node && x.1 == *kref);
    }
    // keys pairwise distinct
    let mut keys: Vec<u64> = a.fwd.iter().map(|x| *x.2).collect();
    keys.sort_unstable();
    keys.dedup();
    ok && keys.len() == a.fwd.len()
}

fn twoq_out<RH: std::hash::BuildHasher, FH: std::hash::BuildHasher, GH: std::hash::BuildHasher>(
    c: &caches::TwoQueueCache<TKey, TVal, RH, FH, GH>,
) -> Ints {
    let p = c.verif_parts();
    // the two resident queues are each as large as the whole cache (either may hold every entry)
    if p.0.cap() != c.cap() || p.1.cap() != c.cap() {
        return vec![-6];
    }
    vec![0, c.cap() as i128, p.3 as i128, p.2.cap() as i128]
}

/// `[141 which mode init.. (setter arg)*]`: a builder, constructed by `default()` (mode 0) or `new(init..)`
/// (mode 1), then any sequence of its setters (hasher setters get a fresh default hasher: the builder keeps
/// its type), then `finalize()` (or `from_builder`, alternating on the script length)
fn builder_script(op: &[i128]) -> Ints {
    use caches::DefaultHashBuilder as DH;
    let which = op[1];
    let mode = op[2];
    let nargs = if mode == 0 { 0 } else { match which { 1 => 1, 2 => 2, 3 => 1, 4 => 4, _ => 0 } };
    if op.len() < 3 + nargs || (op.len() - 3 - nargs) % 2 != 0 {
        return vec![-4];
    }
    let init = &op[3..3 + nargs];
    let script: Vec<(i128, i128)> = op[3 + nargs..].chunks(2).map(|c| (c[0], c[1])).collect();
    let via_from = script.len() % 2 == 1;
    let us = |x: i128| x as usize;
    let fl = |x: i128| f64::from_bits(x as u64);
    match which {
        1 => {
            let mut b = if mode == 0 { caches::TwoQueueCacheBuilder::default() } else { caches::TwoQueueCacheBuilder::new(us(init[0])) };
            for (s, a) in script {
                b = match s {
                    1 => b.set_size(us(a)),
                    2 => b.set_recent_ratio(fl(a)),
                    3 => b.set_ghost_ratio(fl(a)),
                    4 => b.set_recent_hasher(DH::default()),
                    5 => b.set_frequent_hasher(DH::default()),
                    6 => b.set_ghost_hasher(DH::default()),
                    _ => return vec![-4],
                };
            }
            let r = if via_from { caches::TwoQueueCache::<TKey, TVal>::from_builder(b) } else { b.finalize::<TKey, TVal>() };
            match r {
                Ok(c) => twoq_out(&c),
                Err(e) => cache_err(e),
            }
        }
        2 => {
            let mut b = if mode == 0 { caches::SegmentedCacheBuilder::default() } else { caches::SegmentedCacheBuilder::new(us(init[0]), us(init[1])) };
            for (s, a) in script {
                b = match s {
                    1 => b.set_probationary_size(us(a)),
                    2 => b.set_protected_size(us(a)),
                    3 => b.set_probationary_hasher(DH::default()),
                    4 => b.set_protected_hasher(DH::default()),
                    _ => return vec![-4],
                };
            }
            let r = if via_from { caches::SegmentedCache::<TKey, TVal>::from_builder(b) } else { b.finalize::<TKey, TVal>() };
            match r {
                Ok(c) => vec![0, c.probationary_cap() as i128, c.protected_cap() as i128],
                Err(e) => cache_err(e),
            }
        }
        3 => {
            let mut b = if mode == 0 { caches::AdaptiveCacheBuilder::default() } else { caches::AdaptiveCacheBuilder::new(us(init[0])) };
            for (s, a) in script {
                b = match s {
                    1 => b.set_size(us(a)),
                    2 => b.set_recent_hasher(DH::default()),
                    3 => b.set_frequent_hasher(DH::default()),
                    4 => b.set_recent_evict_hasher(DH::default()),
                    5 => b.set_frequent_evict_hasher(DH::default()),
                    _ => return vec![-4],
                };
            }
            let r = if via_from { caches::AdaptiveCache::<TKey, TVal>::from_builder(b) } else { b.finalize::<TKey, TVal>() };
            match r {
                Ok(c) => vec![0, c.cap() as i128],
                Err(e) => cache_err(e),
            }
        }
        4 => {
            let mut fp = 0.01f64;
            let mut b: caches::WTinyLFUCacheBuilder<u64> = if mode == 0 {
                caches::WTinyLFUCacheBuilder::default()
            } else {
                caches::WTinyLFUCacheBuilder::new(us(init[0]), us(init[1]), us(init[2]), us(init[3]))
            };
            for (s, a) in script {
                b = match s {
                    1 => b.set_samples(us(a)),
                    2 => b.set_window_cache_size(us(a)),
                    3 => b.set_protected_cache_size(us(a)),
                    4 => b.set_probationary_cache_size(us(a)),
                    5 => {
                        fp = fl(a);
                        b.set_false_positive_ratio(fl(a))
                    }
                    6 => b.set_window_hasher(DH::default()),
                    7 => b.set_protected_hasher(DH::default()),
                    8 => b.set_probationary_hasher(DH::default()),
                    9 => b.set_key_hasher(caches::lfu::DefaultKeyHasher::<u64>::default()),
                    _ => return vec![-4],
                };
            }
            let r = if via_from { caches::WTinyLFUCache::<u64, u64>::from_builder(b) } else { b.finalize::<u64>() };
            match r {
                Ok(c) => std::iter::once(0).chain(wt_sizes(&c)).collect(),
                Err(e) => lfu_err(&e, fp),
            }
        }
        _ => vec![-4],
    }
}

fn wt_sizes<KH, FH: std::hash::BuildHasher, RH: std::hash::BuildHasher, WH: std::hash::BuildHasher>(
    c: &caches::WTinyLFUCache<u64, u64, KH, FH, RH, WH>,
) -> Vec<i128>
where
    KH: caches::lfu::KeyHasher<u64>,
{
    let (_, lru, slru) = c.verif_parts();
    vec![lru.cap() as i128, slru.protected_cap() as i128, slru.probationary_cap() as i128]
}

const SIZES: [u64; 12] = [0, 1, 2, 3, 4, 7, 10, 99, 100, 128, 1000, 4097];
const RATIOS: [f64; 16] = [0.0, -0.0, 0.25, 1.0 / 3.0, 0.5, 0.999999, 1.0, 1.0000001, -1.0, -1e-300, 1e-300,
    f64::NAN, f64::INFINITY, f64::NEG_INFINITY, 0.1, 0.75];

/// the whole grid as a list of operations (deterministic), then random extras
pub fn grid() -> Vec<Ints> {
    let mut v: Vec<Ints> = Vec::new();
    for &s in &SIZES {
        v.push(vec![140, 1, s as i128]);
        v.push(vec![140, 5, s as i128]);
        for &t in &[0u64, 1, 2, 5] {
            v.push(vec![140, 2, s as i128, t as i128]);
            v.push(vec![140, 2, t as i128, s as i128]);
            v.push(vec![140, 7, s as i128, t as i128]);
        }
    }
    for &s in &[0u64, 1, 2, 3, 4, 7, 10, 128, 4097] {
        for &r in &RATIOS {
            for &g in &RATIOS {
                v.push(vec![140, 3, s as i128, r.to_bits() as i128, g.to_bits() as i128]);
                v.push(vec![140, 4, s as i128, r.to_bits() as i128, g.to_bits() as i128]);
            }
        }
    }
    for &s in &SIZES {
        v.push(vec![140, 9, s as i128]);
        v.push(vec![140, 12, s as i128]);
        v.push(vec![140, 13, s as i128]);
        v.push(vec![140, 14, s as i128]);
        for &r in &RATIOS {
            v.push(vec![140, 10, s as i128, r.to_bits() as i128]);
            v.push(vec![140, 11, s as i128, r.to_bits() as i128]);
        }
    }
    // sizes beyond every small-integer width (u8, u16) and beyond any "reasonable preallocation" threshold
    for &s in &[255u64, 256, 65535, 65536, 70001, 131072] {
        v.push(vec![140, 1, s as i128]);
        v.push(vec![140, 2, s as i128, 3]);
        v.push(vec![140, 2, 3, s as i128]);
        v.push(vec![140, 5, s as i128]);
        v.push(vec![140, 9, s as i128]);
        v.push(vec![140, 3, s as i128, RATIOS[2].to_bits() as i128, RATIOS[15].to_bits() as i128]);
        v.push(vec![140, 4, s as i128, RATIOS[15].to_bits() as i128, RATIOS[2].to_bits() as i128]);
        v.push(vec![140, 6, 3, s as i128, 5, 8]);
    }
    // products size * ratio that are a hair off an integer in binary64 (50 * 0.58 = 28.999999999999996,
    // 5 * (0.3 - 0.1) = 0.9999999999999999): floor must be taken in double precision, on the exact product
    for &s in &[5u64, 7, 10, 50, 100, 1000] {
        for k in 1..100u64 {
            for r in [k as f64 / 100.0, (k as f64 / 10.0 - 0.1) / 10.0] {
                if !(r > 0.0 && r <= 1.0) {
                    continue;
                }
                let p = s as f64 * r;
                let d = (p - p.round()).abs();
                if d > 0.0 && d < 1e-9 {
                    let other = RATIOS[4].to_bits() as i128;
                    v.push(vec![140, 3, s as i128, r.to_bits() as i128, r.to_bits() as i128]);
                    v.push(vec![140, 4, s as i128, r.to_bits() as i128, other]);
                    v.push(vec![140, 10, s as i128, r.to_bits() as i128]);
                    v.push(vec![140, 11, s as i128, r.to_bits() as i128]);
                }
            }
        }
    }
    // every conversion: empty, one pair, a repeated key, more pairs than any small capacity
    for src in 0..=12i128 {
        for pairs in [&[][..], &[1, 10][..], &[1, 10, 1, 11][..], &[1, 10, 2, 20, 1, 11, 3, 30][..], &[5, 50, 4, 40, 3, 30, 2, 20, 1, 10, 5, 51][..]] {
            let mut o = vec![142, src];
            o.extend(pairs.iter().map(|x| *x as i128));
            v.push(o);
        }
    }
    // every builder: default() / new(..) alone, and each setter once after new(..)
    // (TinyLFUBuilder is not nameable outside the crate: TinyLFU::new is its only public use)
    for which in 1..=4i128 {
        let init: Vec<i128> = match which { 1 => vec![4], 2 => vec![2, 3], 3 => vec![4], _ => vec![1, 2, 3, 8] };
        let nset = match which { 1 => 6, 2 => 4, 3 => 5, _ => 9 };
        v.push(vec![141, which, 0]);
        let mut base = vec![141, which, 1];
        base.extend(init.iter());
        v.push(base.clone());
        for s in 1..=nset {
            for &a in &[0i128, 1, 5] {
                let mut o = base.clone();
                o.push(s);
                o.push(a);
                v.push(o.clone());
                // ... and the same from default()
                v.push(vec![141, which, 0, s, a]);
            }
            // ratios only where a ratio is expected (a size of 2^62 does not fit in memory: outside C05)
            if !matches!((which, s), (1, 2) | (1, 3) | (4, 5)) {
                continue;
            }
            for &r in &[0.5f64, 0.0, 1.0, f64::NAN, -0.25, 2.0] {
                let mut o = base.clone();
                o.push(s);
                o.push(r.to_bits() as i128);
                v.push(o);
            }
        }
    }
    for &w in &[0u64, 1, 3] {
        for &p in &[0u64, 1, 3] {
            for &q in &[0u64, 1, 3] {
                for &sm in &[0u64, 1, 8] {
                    v.push(vec![140, 6, w as i128, p as i128, q as i128, sm as i128]);
                }
            }
        }
    }
    for &s in &[0u64, 1, 2, 16, 1000] {
        for &sm in &[0u64, 1, 8] {
            for &r in &RATIOS {
                v.push(vec![140, 8, s as i128, sm as i128, r.to_bits() as i128]);
            }
            for &r in &[0.01f64, 1e-9, 0.5, 0.999] {
                v.push(vec![140, 8, s as i128, sm as i128, r.to_bits() as i128]);
            }
        }
    }
    v
}

pub fn random_op(r: &mut crate::prng::Rng) -> Ints {
    let size = if r.chance(1, 4) { r.below(5) } else { r.below(5000) } as i128;
    let ratio = |r: &mut crate::prng::Rng| -> i128 {
        match r.below(6) {
            0 => RATIOS[r.below(16) as usize].to_bits() as i128,
            1 => (r.next() as i128) & 0xFFFF_FFFF_FFFF_FFFF,           // arbitrary bit pattern
            _ => ((r.below(1_000_001) as f64) / 1_000_000.0).to_bits() as i128,
        }
    };
    if r.chance(1, 5) {
        // a conversion: a few pairs over a small key range (repeated keys matter: the last value wins)
        let mut o = vec![142, r.below(13) as i128];
        let n = if r.chance(1, 8) { 0 } else { r.below(9) };
        let span = 1 + r.below(8);
        for _ in 0..n {
            o.push(r.below(span) as i128);
            o.push(1000 + r.below(100) as i128);
        }
        return o;
    }
    if r.chance(2, 5) {
        // a builder script: the setters in any order and multiplicity
        let which = 1 + r.below(4) as i128;
        let nset = match which { 1 => 6, 2 => 4, 3 => 5, _ => 9 };
        let small = |r: &mut crate::prng::Rng| -> i128 { if r.chance(1, 5) { 0 } else { r.below(40) as i128 } };
        let mut o = vec![141, which, r.below(2) as i128];
        if o[2] == 1 {
            let n = match which { 1 => 1, 2 => 2, 3 => 1, _ => 4 };
            for _ in 0..n {
                o.push(small(r));
            }
        }
        // three scripts in four are mostly valid: every field set to a valid value at least once (in a random
        // order), then a few more setters; the rest is unconstrained
        let valid = r.chance(3, 4);
        let is_ratio = |which: i128, s: i128| matches!((which, s), (1, 2) | (1, 3) | (4, 5));
        let good = |r: &mut crate::prng::Rng, which: i128, s: i128| -> i128 {
            if is_ratio(which, s) {
                let x = if which == 4 { (1 + r.below(999_998)) as f64 / 1_000_000.0 } else { r.below(1_000_001) as f64 / 1_000_000.0 };
                x.to_bits() as i128
            } else {
                1 + r.below(40) as i128
            }
        };
        if valid {
            let mut order: Vec<i128> = (1..=nset as i128).collect();
            for i in (1..order.len()).rev() {
                let j = r.below(i as u64 + 1) as usize;
                order.swap(i, j);
            }
            for s in order {
                o.push(s);
                let v = good(r, which, s);
                o.push(v);
            }
        }
        for _ in 0..r.below(6) {
            let s = 1 + r.below(nset) as i128;
            o.push(s);
            let v = if valid && !r.chance(1, 8) { good(r, which, s) } else if is_ratio(which, s) { ratio(r) } else { small(r) };
            o.push(v);
        }
        return o;
    }
    match r.below(8) {
        5 => vec![140, 9, size],
        6 => vec![140, 10 + r.below(2) as i128, size, ratio(r)],
        7 => vec![140, 12 + r.below(3) as i128, size],
        0 => vec![140, 3, size, ratio(r), ratio(r)],
        1 => vec![140, 4, size, ratio(r), ratio(r)],
        2 => vec![140, 7, size, r.below(3) as i128],
        3 => vec![140, 8, r.below(70) as i128, r.below(3) as i128, ratio(r)],
        _ => vec![140, 2, r.below(4) as i128, r.below(4) as i128],
    }
}
