//! Constructors, builders and conversions as a subject (C05): argument grids including 0, boundary
//! ratios, NaN, infinities and out-of-range values.  [140 which args..] -> [0 sizes..] | [1 code payload]
use crate::subj::{Ints, Subject};
use crate::types::*;
use caches::lru::CacheError;
use caches::Cache;

pub struct CtorSubj;

fn cache_err(e: CacheError) -> Ints {
    match e {
        CacheError::InvalidSize(n) => vec![1, 1, n as i128],
        CacheError::InvalidRecentRatio(r) => vec![1, 2, r.to_bits() as i128],
        CacheError::InvalidGhostRatio(r) => vec![1, 3, r.to_bits() as i128],
    }
}
/// The error types of the LFU constructors are not nameable from outside the crate (they are re-exported
/// from private modules), so they are classified by their Display text; `fp` is the false positive ratio
/// that was passed in (its bits are the payload when the message shows that very number).
fn lfu_err(e: &dyn std::fmt::Display, fp: f64) -> Ints {
    let s = format!("{}", e);
    let num = |p: &str| -> i128 { s[p.len()..].trim().parse::<i128>().unwrap_or(-1) };
    let table: [(&str, i128); 5] = [
        ("invalid window cache size:", 4),
        ("invalid protected cache size:", 5),
        ("invalid probationary cache size:", 6),
        ("invalid number of samples:", 7),
        ("invalid count main sketch width:", 9),
    ];
    for (p, c) in table.iter() {
        if s.starts_with(p) {
            return vec![1, *c, num(p)];
        }
    }
    let p = "invalid false positive ratio:";
    if s.starts_with(p) {
        let shown = s[p.len()..].split(',').next().unwrap_or("").trim().to_string();
        return vec![1, 8, if shown == format!("{}", fp) { fp.to_bits() as i128 } else { -1 }];
    }
    vec![1, 10, 0]
}

impl Subject for CtorSubj {
    fn apply(&mut self, op: &[i128]) -> Ints {
        let u = |i: usize| op[i] as usize;
        let f = |i: usize| f64::from_bits(op[i] as u64);
        match op[1] {
            1 => match caches::RawLRU::<TKey, TVal>::new(u(2)) {
                Ok(c) => vec![0, c.cap() as i128],
                Err(e) => cache_err(e),
            },
            2 => match caches::SegmentedCache::<TKey, TVal>::new(u(2), u(3)) {
                Ok(c) => vec![0, c.probationary_cap() as i128, c.protected_cap() as i128],
                Err(e) => cache_err(e),
            },
            3 => match caches::TwoQueueCache::<TKey, TVal>::with_2q_parameters(u(2), f(3), f(4)) {
                Ok(c) => {
                    let p = c.verif_parts();
                    vec![0, c.cap() as i128, p.3 as i128, p.2.cap() as i128]
                }
                Err(e) => cache_err(e),
            },
            4 => match caches::TwoQueueCacheBuilder::new(u(2)).set_recent_ratio(f(3)).set_ghost_ratio(f(4)).finalize::<TKey, TVal>() {
                Ok(c) => {
                    let p = c.verif_parts();
                    vec![0, c.cap() as i128, p.3 as i128, p.2.cap() as i128]
                }
                Err(e) => cache_err(e),
            },
            5 => match caches::AdaptiveCache::<TKey, TVal>::new(u(2)) {
                Ok(c) => vec![0, c.cap() as i128],
                Err(e) => cache_err(e),
            },
            6 => match caches::WTinyLFUCache::<u64, u64>::with_sizes(u(2), u(3), u(4), u(5)) {
                Ok(c) => std::iter::once(0).chain(wt_sizes(&c)).collect(),
                Err(e) => lfu_err(&e, 0.01),
            },
            7 => match caches::WTinyLFUCache::<u64, u64>::new(u(2), u(3)) {
                Ok(c) => std::iter::once(0).chain(wt_sizes(&c)).collect(),
                Err(e) => lfu_err(&e, 0.01),
            },
            8 => match caches::lfu::TinyLFU::<u64>::new(u(2), u(3), f(4)) {
                Ok(_) => vec![0],
                Err(e) => lfu_err(&e, f(4)),
            },
            _ => vec![-4],
        }
    }
    fn snapshot(&self) -> Ints {
        vec![]
    }
}

fn wt_sizes<KH, FH: std::hash::BuildHasher, RH: std::hash::BuildHasher, WH: std::hash::BuildHasher>(
    c: &caches::WTinyLFUCache<u64, u64, KH, FH, RH, WH>,
) -> Vec<i128>
where
    KH: caches::lfu::KeyHasher<u64>,
{
    let (_, lru, slru) = c.verif_parts();
    vec![lru.cap() as i128, slru.protected_cap() as i128, slru.probationary_cap() as i128]
}

const SIZES: [u64; 12] = [0, 1, 2, 3, 4, 7, 10, 99, 100, 128, 1000, 4097];
const RATIOS: [f64; 16] = [0.0, -0.0, 0.25, 1.0 / 3.0, 0.5, 0.999999, 1.0, 1.0000001, -1.0, -1e-300, 1e-300,
    f64::NAN, f64::INFINITY, f64::NEG_INFINITY, 0.1, 0.75];

/// the whole grid as a list of operations (deterministic), then random extras
pub fn grid() -> Vec<Ints> {
    let mut v: Vec<Ints> = Vec::new();
    for &s in &SIZES {
        v.push(vec![140, 1, s as i128]);
        v.push(vec![140, 5, s as i128]);
        for &t in &[0u64, 1, 2, 5] {
            v.push(vec![140, 2, s as i128, t as i128]);
            v.push(vec![140, 2, t as i128, s as i128]);
            v.push(vec![140, 7, s as i128, t as i128]);
        }
    }
    for &s in &[0u64, 1, 2, 3, 4, 7, 10, 128, 4097] {
        for &r in &RATIOS {
            for &g in &RATIOS {
                v.push(vec![140, 3, s as i128, r.to_bits() as i128, g.to_bits() as i128]);
                v.push(vec![140, 4, s as i128, r.to_bits() as i128, g.to_bits() as i128]);
            }
        }
    }
    for &w in &[0u64, 1, 3] {
        for &p in &[0u64, 1, 3] {
            for &q in &[0u64, 1, 3] {
                for &sm in &[0u64, 1, 8] {
                    v.push(vec![140, 6, w as i128, p as i128, q as i128, sm as i128]);
                }
            }
        }
    }
    for &s in &[0u64, 1, 2, 16, 1000] {
        for &sm in &[0u64, 1, 8] {
            for &r in &RATIOS {
                v.push(vec![140, 8, s as i128, sm as i128, r.to_bits() as i128]);
            }
            for &r in &[0.01f64, 1e-9, 0.5, 0.999] {
                v.push(vec![140, 8, s as i128, sm as i128, r.to_bits() as i128]);
            }
        }
    }
    v
}

pub fn random_op(r: &mut crate::prng::Rng) -> Ints {
    let size = if r.chance(1, 4) { r.below(5) } else { r.below(5000) } as i128;
    let ratio = |r: &mut crate::prng::Rng| -> i128 {
        match r.below(6) {
            0 => RATIOS[r.below(16) as usize].to_bits() as i128,
            1 => (r.next() as i128) & 0xFFFF_FFFF_FFFF_FFFF,           // arbitrary bit pattern
            _ => ((r.below(1_000_001) as f64) / 1_000_000.0).to_bits() as i128,
        }
    };
    match r.below(5) {
        0 => vec![140, 3, size, ratio(r), ratio(r)],
        1 => vec![140, 4, size, ratio(r), ratio(r)],
        2 => vec![140, 7, size, r.below(3) as i128],
        3 => vec![140, 8, r.below(70) as i128, r.below(3) as i128, ratio(r)],
        _ => vec![140, 2, r.below(4) as i128, r.below(4) as i128],
    }
}
