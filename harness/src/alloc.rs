//! Counting, poisoning, quarantining global allocator.
//!
//! * counts live blocks and bytes, so that a leak (or a double free that the system allocator
//!   tolerates) is visible as a non-zero balance after a cache is dropped;
//! * fills every freed small block with 0xDD and parks it in a quarantine ring instead of
//!   releasing it, so that a read after free yields poison (and shows up as a wrong key/value)
//!   and a write after free is detected when the block finally leaves the ring.
use std::alloc::{GlobalAlloc, Layout, System};
use std::sync::atomic::{AtomicBool, AtomicIsize, AtomicUsize, Ordering};

pub struct VAlloc;

pub static LIVE_BLOCKS: AtomicIsize = AtomicIsize::new(0);
pub static LIVE_BYTES: AtomicIsize = AtomicIsize::new(0);
pub static POISON_DAMAGE: AtomicUsize = AtomicUsize::new(0);
pub static QUARANTINE_ON: AtomicBool = AtomicBool::new(true);

const RING: usize = 8192;
const MAX_Q: usize = 512;
const POISON: u8 = 0xDD;

struct Slot {
    ptr: *mut u8,
    size: usize,
    align: usize,
}
static mut SLOTS: [Slot; RING] = {
    const E: Slot = Slot { ptr: std::ptr::null_mut(), size: 0, align: 0 };
    [E; RING]
};
static mut NEXT: usize = 0;
static LOCK: AtomicBool = AtomicBool::new(false);

fn lock() {
    while LOCK
        .compare_exchange_weak(false, true, Ordering::Acquire, Ordering::Relaxed)
        .is_err()
    {
        std::hint::spin_loop();
    }
}
fn unlock() {
    LOCK.store(false, Ordering::Release);
}

unsafe impl GlobalAlloc for VAlloc {
    unsafe fn alloc(&self, layout: Layout) -> *mut u8 {
        let p = System.alloc(layout);
        if p.is_null() && layout.size() != 0 {
            oom(layout.size());
        }
        if !p.is_null() {
            LIVE_BLOCKS.fetch_add(1, Ordering::Relaxed);
            LIVE_BYTES.fetch_add(layout.size() as isize, Ordering::Relaxed);
            if TRACK.load(Ordering::Relaxed) {
                lock();
                tab_insert(p as usize);
                unlock();
            }
        }
        p
    }
    unsafe fn dealloc(&self, ptr: *mut u8, layout: Layout) {
        LIVE_BLOCKS.fetch_sub(1, Ordering::Relaxed);
        LIVE_BYTES.fetch_sub(layout.size() as isize, Ordering::Relaxed);
        lock();
        tab_remove(ptr as usize);
        unlock();
        if layout.size() == 0 || layout.size() > MAX_Q || !QUARANTINE_ON.load(Ordering::Relaxed) {
            System.dealloc(ptr, layout);
            return;
        }
        std::ptr::write_bytes(ptr, POISON, layout.size());
        lock();
        let i = NEXT;
        NEXT = (NEXT + 1) % RING;
        let old = std::mem::replace(
            &mut SLOTS[i],
            Slot { ptr, size: layout.size(), align: layout.align() },
        );
        unlock();
        if !old.ptr.is_null() {
            let bytes = std::slice::from_raw_parts(old.ptr, old.size);
            if bytes.iter().any(|b| *b != POISON) {
                POISON_DAMAGE.fetch_add(1, Ordering::Relaxed);
            }
            System.dealloc(old.ptr, Layout::from_size_align_unchecked(old.size, old.align));
        }
    }
    unsafe fn realloc(&self, ptr: *mut u8, layout: Layout, new_size: usize) -> *mut u8 {
        let p = System.realloc(ptr, layout, new_size);
        if p.is_null() && new_size != 0 {
            oom(new_size);
        }
        if !p.is_null() {
            lock();
            if tab_remove(ptr as usize) {
                tab_insert(p as usize);
            }
            unlock();
            LIVE_BYTES.fetch_add(new_size as isize - layout.size() as isize, Ordering::Relaxed);
        }
        p
    }
}

/// where the current case goes when an allocation fails (`<out>.abort`, set once by main)
pub static OOM_PATH: std::sync::OnceLock<String> = std::sync::OnceLock::new();
static IN_OOM: AtomicBool = AtomicBool::new(false);
/// An allocation the system refuses makes `handle_alloc_error` abort the process: the case that asked
/// for it is saved in replay format and the process exits with status 78, like a panic that cannot unwind.
fn oom(size: usize) {
    if IN_OOM.swap(true, Ordering::Relaxed) {
        return;
    }
    TRACK.store(false, Ordering::Relaxed);
    if let Some(path) = OOM_PATH.get() {
        let text = crate::runner::CUR.try_lock().map(|c| c.clone()).unwrap_or_default();
        let _ = std::fs::write(path, format!("{}# allocation of {} bytes refused\n", text, size));
        std::process::exit(78);
    }
}

/// ring position now (start of a case)
pub fn q_mark() -> usize {
    unsafe { NEXT }
}
/// check the blocks parked in the ring since `mark` for damage (without releasing them);
/// adds the damage found on blocks that already left the ring
pub fn scan_quarantine(mark: usize) -> usize {
    lock();
    let mut bad = 0;
    unsafe {
        let mut i = mark;
        let mut steps = 0;
        while i != NEXT && steps < RING {
            let s = &SLOTS[i];
            if !s.ptr.is_null() {
                let bytes = std::slice::from_raw_parts(s.ptr, s.size);
                if bytes.iter().any(|b| *b != POISON) {
                    bad += 1;
                }
            }
            i = (i + 1) % RING;
            steps += 1;
        }
    }
    unlock();
    bad + POISON_DAMAGE.swap(0, Ordering::Relaxed)
}

// ---- ownership tracking: which live blocks were allocated while a subject call was running ----
pub static TRACK: AtomicBool = AtomicBool::new(false);
const TAB: usize = 1 << 17;
const EMPTY: usize = 0;
const TOMB: usize = usize::MAX;
static mut TABLE: [usize; TAB] = [EMPTY; TAB];
static mut TAB_LIVE: usize = 0;
static mut TAB_USED: usize = 0;
static mut USED_IDX: [u32; TAB / 2 + 1] = [0; TAB / 2 + 1];
pub static TAB_OVERFLOW: AtomicBool = AtomicBool::new(false);

#[inline]
fn slot_of(p: usize) -> usize {
    (p >> 4).wrapping_mul(0x9E37_79B9_7F4A_7C15) >> (64 - 17)
}
unsafe fn tab_insert(p: usize) {
    if TAB_USED * 2 >= TAB {
        TAB_OVERFLOW.store(true, Ordering::Relaxed);
        return;
    }
    let mut i = slot_of(p);
    loop {
        let s = TABLE[i];
        if s == EMPTY {
            TABLE[i] = p;
            USED_IDX[TAB_USED] = i as u32;
            TAB_USED += 1;
            TAB_LIVE += 1;
            return;
        }
        if s == TOMB {
            TABLE[i] = p;
            TAB_LIVE += 1;
            return;
        }
        i = (i + 1) & (TAB - 1);
    }
}
unsafe fn tab_remove(p: usize) -> bool {
    if TAB_LIVE == 0 {
        return false;
    }
    let mut i = slot_of(p);
    loop {
        let s = TABLE[i];
        if s == EMPTY {
            return false;
        }
        if s == p {
            TABLE[i] = TOMB;
            TAB_LIVE -= 1;
            return true;
        }
        i = (i + 1) & (TAB - 1);
    }
}
/// is `p` the start of a live block that was allocated inside a subject call?
pub fn is_tracked_live(p: usize) -> bool {
    if p == 0 || p == usize::MAX {
        return false;
    }
    lock();
    let r = unsafe {
        let mut i = slot_of(p);
        loop {
            let s = TABLE[i];
            if s == EMPTY {
                break false;
            }
            if s == p {
                break true;
            }
            i = (i + 1) & (TAB - 1);
        }
    };
    unlock();
    r
}
/// forget everything (start of a case)
pub fn tab_reset() {
    lock();
    unsafe {
        for j in 0..TAB_USED {
            TABLE[USED_IDX[j] as usize] = EMPTY;
        }
        TAB_LIVE = 0;
        TAB_USED = 0;
    }
    TAB_OVERFLOW.store(false, Ordering::Relaxed);
    unlock();
}
/// number of live blocks that were allocated inside subject calls
pub fn tracked_blocks() -> usize {
    unsafe { TAB_LIVE }
}
pub fn track(on: bool) -> bool {
    TRACK.swap(on, Ordering::Relaxed)
}

pub fn live_blocks() -> isize {
    LIVE_BLOCKS.load(Ordering::Relaxed)
}
pub fn live_bytes() -> isize {
    LIVE_BYTES.load(Ordering::Relaxed)
}
