//! Subject: `RawLRU<TKey, ()>` - an LRU *set*.  A zero-sized value type is a legal instantiation that the tracked pair
//! never reaches (a path guarded by `size_of::<V>()`).  The values the model expects are kept beside the cache, one
//! tracked `TVal` per retained key (pruned after every call to the keys the cache still holds), so that results,
//! snapshots and the ledger have the shape of kind 0 and the histories are replayed in the same model.
use crate::subj::*;
use crate::types::*;
use caches::{Cache, PutResult, RawLRU, ResizableCache};
use std::collections::HashMap;

pub struct ZLruSubj {
    pub c: RawLRU<TKey, ()>,
    pub side: HashMap<u64, TVal>,
}

pub const OPS: [i128; 16] = [0, 1, 3, 5, 6, 7, 8, 9, 10, 11, 12, 13, 19, 21, 23, 26];

impl ZLruSubj {
    pub fn new(cap: usize) -> Self {
        ZLruSubj { c: RawLRU::new(cap).unwrap(), side: HashMap::new() }
    }
    fn val(&self, k: u64) -> i128 {
        self.side.get(&k).map(|v| v.v as i128).unwrap_or(-3)
    }
}

impl Subject for ZLruSubj {
    fn apply(&mut self, op: &[i128]) -> Ints {
        let k = |i: usize| op[i] as u64;
        let out = match op[0] {
            0 => {
                let r = self.c.put(TKey::new(k(1)), ());
                let out = match &r {
                    PutResult::Put => vec![0],
                    PutResult::Update(()) => vec![1, self.val(k(1))],
                    // (a cache of capacity 0 hands the pair itself back)
                    PutResult::Evicted { key, .. } if key.id == k(1) => vec![2, key.id as i128, op[2]],
                    PutResult::Evicted { key, .. } => vec![2, key.id as i128, self.val(key.id)],
                    PutResult::EvictedAndUpdate { evicted, .. } => vec![3, evicted.0.id as i128, self.val(evicted.0.id), self.val(k(1))],
                };
                drop(r);
                self.side.insert(k(1), TVal::new(k(2)));
                out
            }
            1 => match self.c.get(&KQ(k(1))) {
                Some(()) => vec![1, self.val(k(1))],
                None => vec![0],
            },
            3 => match self.c.peek(&KQ(k(1))) {
                Some(()) => vec![1, self.val(k(1))],
                None => vec![0],
            },
            5 => vec![self.c.contains(&KQ(k(1))) as i128],
            6 => match self.c.remove(&KQ(k(1))) {
                Some(()) => vec![1, self.val(k(1))],
                None => vec![0],
            },
            7 => {
                self.c.purge();
                vec![]
            }
            8 => vec![self.c.len() as i128],
            9 => vec![self.c.cap() as i128],
            10 => vec![self.c.is_empty() as i128],
            11 => vec![self.c.resize(k(1) as usize) as i128],
            12 => match self.c.get_lru().map(|(k, _)| k.id) {
                Some(id) => vec![1, id as i128, self.val(id)],
                None => vec![0],
            },
            13 => match self.c.get_mru().map(|(k, _)| k.id) {
                Some(id) => vec![1, id as i128, self.val(id)],
                None => vec![0],
            },
            19 => match self.c.peek_lru().map(|(k, _)| k.id) {
                Some(id) => vec![1, id as i128, self.val(id)],
                None => vec![0],
            },
            21 => match self.c.peek_mru().map(|(k, _)| k.id) {
                Some(id) => vec![1, id as i128, self.val(id)],
                None => vec![0],
            },
            23 => match self.c.remove_lru().map(|(k, _)| k.id) {
                Some(id) => vec![1, id as i128, self.val(id)],
                None => vec![0],
            },
            26 => {
                let s = format!("{:?}", self.c);
                let want = format!("RawLRU {{ len: {}, cap: {} }}", self.c.len(), self.c.cap());
                if s == want {
                    vec![self.c.len() as i128, self.c.cap() as i128]
                } else {
                    vec![-5]
                }
            }
            _ => vec![-4],
        };
        // the values kept beside the cache follow what it retains
        let keep: std::collections::HashSet<u64> = self.c.keys().map(|k| k.id).collect();
        self.side.retain(|k, _| keep.contains(k));
        out
    }
    fn snapshot(&self) -> Ints {
        let a = self.c.verif_audit();
        let mut out = vec![self.c.cap() as i128, a.fwd.len() as i128];
        for x in &a.fwd {
            out.push(x.2.id as i128);
            out.push(self.val(x.2.id));
        }
        let mut bwd = a.bwd.clone();
        bwd.reverse();
        let fwd: Vec<usize> = a.fwd.iter().map(|x| x.0).collect();
        let mut idx: Vec<usize> = a.index.iter().map(|x| x.1).collect();
        idx.sort_unstable();
        let mut sorted = fwd.clone();
        sorted.sort_unstable();
        let ok = a.walks_terminated && a.sentinels_closed && fwd == bwd && idx == sorted && a.len == fwd.len()
            && a.index.iter().all(|(ka, na)| a.fwd.iter().any(|x| x.0 == *na && x.1 == *ka));
        out.push(ok as i128);
        out
    }
}

// ---------------------------------------------------------------- the composite caches over (TKey, ())
use caches::{AdaptiveCache, SegmentedCache, TwoQueueCache};

/// `n (k v)*` of one list (values from beside the cache) and whether the list is a well-formed chain matching its index
pub fn zsnap_list<E, S>(c: &RawLRU<TKey, (), E, S>, side: &HashMap<u64, TVal>, out: &mut Ints, keys: &mut Vec<u64>) -> bool {
    let a = c.verif_audit();
    out.push(a.fwd.len() as i128);
    for x in &a.fwd {
        out.push(x.2.id as i128);
        out.push(side.get(&x.2.id).map(|v| v.v as i128).unwrap_or(-3));
        keys.push(x.2.id);
    }
    let mut bwd = a.bwd.clone();
    bwd.reverse();
    let fwd: Vec<usize> = a.fwd.iter().map(|x| x.0).collect();
    let mut idx: Vec<usize> = a.index.iter().map(|x| x.1).collect();
    idx.sort_unstable();
    let mut sorted = fwd.clone();
    sorted.sort_unstable();
    a.walks_terminated && a.sentinels_closed && fwd == bwd && idx == sorted && a.len == fwd.len()
        && a.index.iter().all(|(ka, na)| a.fwd.iter().any(|x| x.0 == *na && x.1 == *ka))
}

/// what the generic subject needs from each cache type
pub trait ZComp: Cache<TKey, ()> {
    const KIND: u32;
    /// kind-specific snapshot (header, lists, flag), the keys of every list appended to `keys`
    fn zsnap(&self, side: &HashMap<u64, TVal>, keys: &mut Vec<u64>) -> Ints;
    /// operations beyond the Cache trait
    fn extra(&mut self, op: &[i128]) -> Option<ZOut>;
    /// configuration as the model needs it, when it is only known after construction (sketch seeds, Bloom geometry)
    fn zcfg(&self) -> Option<Ints> {
        None
    }
    const OPS: &'static [i128];
}
pub enum ZOut {
    Ints(Ints),
    Put(PutResult<TKey, ()>),
}

impl ZComp for SegmentedCache<TKey, ()> {
    const KIND: u32 = 1;
    const OPS: &'static [i128] = &[0, 1, 3, 5, 6, 7, 8, 9, 10, 30, 41, 42, 43, 44];
    fn zsnap(&self, side: &HashMap<u64, TVal>, keys: &mut Vec<u64>) -> Ints {
        let (prob, prot) = self.verif_parts();
        let mut out = vec![prob.cap() as i128, prot.cap() as i128];
        let a = zsnap_list(prob, side, &mut out, keys);
        let b = zsnap_list(prot, side, &mut out, keys);
        out.push((a && b) as i128);
        out
    }
    fn extra(&mut self, op: &[i128]) -> Option<ZOut> {
        Some(match op[0] {
            30 => ZOut::Put(self.put_protected(TKey::new(op[1] as u64), ())),
            41 => ZOut::Ints(vec![self.protected_len() as i128]),
            42 => ZOut::Ints(vec![self.probationary_len() as i128]),
            43 => ZOut::Ints(vec![self.probationary_cap() as i128]),
            44 => ZOut::Ints(vec![self.protected_cap() as i128]),
            _ => return None,
        })
    }
}
impl ZComp for TwoQueueCache<TKey, ()> {
    const KIND: u32 = 2;
    const OPS: &'static [i128] = &[0, 1, 3, 5, 6, 7, 8, 9, 10, 50, 51, 52];
    fn zsnap(&self, side: &HashMap<u64, TVal>, keys: &mut Vec<u64>) -> Ints {
        let (r, f, g, rs) = self.verif_parts();
        let mut out = vec![self.cap() as i128, rs as i128, g.cap() as i128];
        let a = zsnap_list(r, side, &mut out, keys);
        let b = zsnap_list(f, side, &mut out, keys);
        let c = zsnap_list(g, side, &mut out, keys);
        let caps = r.cap() == self.cap() && f.cap() == self.cap();
        out.push((a && b && c && caps) as i128);
        out
    }
    fn extra(&mut self, op: &[i128]) -> Option<ZOut> {
        Some(ZOut::Ints(match op[0] {
            50 => vec![self.recent_len() as i128],
            51 => vec![self.frequent_len() as i128],
            52 => vec![self.ghost_len() as i128],
            _ => return None,
        }))
    }
}
impl ZComp for AdaptiveCache<TKey, ()> {
    const KIND: u32 = 3;
    const OPS: &'static [i128] = &[0, 1, 3, 5, 6, 7, 8, 9, 10, 70, 71, 72, 73, 74];
    fn zsnap(&self, side: &HashMap<u64, TVal>, keys: &mut Vec<u64>) -> Ints {
        let (t1, b1, t2, b2) = self.verif_parts();
        let mut out = vec![self.cap() as i128, self.partition() as i128];
        let a = zsnap_list(t1, side, &mut out, keys);
        let b = zsnap_list(b1, side, &mut out, keys);
        let c = zsnap_list(t2, side, &mut out, keys);
        let d = zsnap_list(b2, side, &mut out, keys);
        let n = self.cap();
        let caps = t1.cap() == n && b1.cap() == n && t2.cap() == n && b2.cap() == n;
        out.push((a && b && c && d && caps) as i128);
        out
    }
    fn extra(&mut self, op: &[i128]) -> Option<ZOut> {
        Some(ZOut::Ints(match op[0] {
            70 => vec![self.partition() as i128],
            71 => vec![self.recent_len() as i128],
            72 => vec![self.frequent_len() as i128],
            73 => vec![self.recent_evict_len() as i128],
            74 => vec![self.frequent_evict_len() as i128],
            _ => return None,
        }))
    }
}

pub struct ZCompSubj<C: ZComp> {
    pub c: C,
    pub side: HashMap<u64, TVal>,
}
impl<C: ZComp> ZCompSubj<C> {
    pub fn new(c: C) -> Self {
        ZCompSubj { c, side: HashMap::new() }
    }
    fn val(&self, k: u64) -> i128 {
        self.side.get(&k).map(|v| v.v as i128).unwrap_or(-3)
    }
    fn put_out(&self, r: &PutResult<TKey, ()>, k: u64, v: i128) -> Ints {
        match r {
            PutResult::Put => vec![0],
            PutResult::Update(()) => vec![1, self.val(k)],
            PutResult::Evicted { key, .. } if key.id == k => vec![2, key.id as i128, v],
            PutResult::Evicted { key, .. } => vec![2, key.id as i128, self.val(key.id)],
            PutResult::EvictedAndUpdate { evicted, .. } => vec![3, evicted.0.id as i128, self.val(evicted.0.id), self.val(k)],
        }
    }
}
impl<C: ZComp> Subject for ZCompSubj<C> {
    fn apply(&mut self, op: &[i128]) -> Ints {
        let k = |i: usize| op[i] as u64;
        let out = match op[0] {
            0 => {
                let r = self.c.put(TKey::new(k(1)), ());
                let out = self.put_out(&r, k(1), op[2]);
                drop(r);
                self.side.insert(k(1), TVal::new(k(2)));
                out
            }
            1 => match self.c.get(&KQ(k(1))) {
                Some(()) => vec![1, self.val(k(1))],
                None => vec![0],
            },
            3 => match self.c.peek(&KQ(k(1))) {
                Some(()) => vec![1, self.val(k(1))],
                None => vec![0],
            },
            5 => vec![self.c.contains(&KQ(k(1))) as i128],
            6 => match self.c.remove(&KQ(k(1))) {
                Some(()) => vec![1, self.val(k(1))],
                None => vec![0],
            },
            7 => {
                self.c.purge();
                vec![]
            }
            8 => vec![self.c.len() as i128],
            9 => vec![self.c.cap() as i128],
            10 => vec![self.c.is_empty() as i128],
            _ => match self.c.extra(op) {
                Some(ZOut::Ints(v)) => v,
                Some(ZOut::Put(r)) => {
                    let out = self.put_out(&r, k(1), op[2]);
                    drop(r);
                    self.side.insert(k(1), TVal::new(k(2)));
                    out
                }
                None => vec![-4],
            },
        };
        // the values kept beside the cache follow what it retains (ghost entries included)
        let mut keys = Vec::new();
        let _ = self.c.zsnap(&self.side, &mut keys);
        let keep: std::collections::HashSet<u64> = keys.into_iter().collect();
        self.side.retain(|k, _| keep.contains(k));
        out
    }
    fn snapshot(&self) -> Ints {
        let mut keys = Vec::new();
        self.c.zsnap(&self.side, &mut keys)
    }
    fn cfg_override(&self) -> Option<Ints> {
        self.c.zcfg()
    }
}

// ---------------------------------------------------------------- WTinyLFUCache over (TKey, ())
use crate::lfu::VKeyHasher;
pub type ZWTiny = caches::WTinyLFUCache<TKey, (), VKeyHasher, VHasher, VHasher, VHasher>;
/// the key-hasher mode of the W-TinyLFU under test (the cache does not hand its key hasher back)
pub static ZW_KH: std::sync::atomic::AtomicU64 = std::sync::atomic::AtomicU64::new(0);

pub fn mk_zwtiny(w: usize, prot: usize, prob: usize, samples: usize, fp: f64, khmode: u64, hmode: u64) -> ZWTiny {
    ZW_KH.store(khmode, std::sync::atomic::Ordering::Relaxed);
    caches::WTinyLFUCacheBuilder::with_hashers(
        VKeyHasher(khmode),
        VHasher::from_mode(hmode),
        VHasher::from_mode(hmode + 1),
        VHasher::from_mode(hmode + 2),
    )
    .set_window_cache_size(w)
    .set_protected_cache_size(prot)
    .set_probationary_cache_size(prob)
    .set_samples(samples)
    .set_false_positive_ratio(fp)
    .finalize::<()>()
    .unwrap()
}

impl ZComp for ZWTiny {
    const KIND: u32 = 4;
    const OPS: &'static [i128] = &[0, 1, 3, 5, 6, 7, 8, 9, 10, 100, 101, 102, 103];
    fn zsnap(&self, side: &HashMap<u64, TVal>, keys: &mut Vec<u64>) -> Ints {
        let (t, w, m) = self.verif_parts();
        let (prob, prot) = m.verif_parts();
        let mut out = vec![w.cap() as i128, prob.cap() as i128, prot.cap() as i128];
        let a = zsnap_list(w, side, &mut out, keys);
        let b = zsnap_list(prob, side, &mut out, keys);
        let c = zsnap_list(prot, side, &mut out, keys);
        out.push((a && b && c) as i128);
        crate::lfu::tiny_snapshot(&t.verif_state(), &mut out);
        out
    }
    fn extra(&mut self, op: &[i128]) -> Option<ZOut> {
        Some(ZOut::Ints(match op[0] {
            100 => vec![self.window_cache_len() as i128],
            101 => vec![self.window_cache_cap() as i128],
            102 => vec![self.main_cache_len() as i128],
            103 => vec![self.main_cache_cap() as i128],
            _ => return None,
        }))
    }
    fn zcfg(&self) -> Option<Ints> {
        let (t, w, m) = self.verif_parts();
        let (prob, prot) = m.verif_parts();
        let st = t.verif_state();
        let mut cfg = vec![
            w.cap() as i128,
            prot.cap() as i128,
            prob.cap() as i128,
            st.samples as i128,
            ZW_KH.load(std::sync::atomic::Ordering::Relaxed) as i128,
            st.bloom_size_exp as i128,
            st.bloom_set_locs as i128,
        ];
        cfg.extend(st.sketch_seeds.iter().map(|x| *x as i128));
        Some(cfg)
    }
}
