//! Executes histories on real subjects and writes the trace the model runner replays.
use crate::alloc;
use crate::prng::Rng;
use crate::subj::{Ints, Subject};
use crate::types::*;
use std::collections::BTreeMap;
use std::io::Write;
use std::panic::{catch_unwind, AssertUnwindSafe};

/// progress beacon for the watchdog thread (main.rs): a counter bumped before every call into the
/// subject and the text of the current case so far (replay format)
pub static BEAT: std::sync::atomic::AtomicU64 = std::sync::atomic::AtomicU64::new(0);
pub static PANIC_DEPTH: std::sync::atomic::AtomicU32 = std::sync::atomic::AtomicU32::new(0);
pub static DONE: std::sync::atomic::AtomicBool = std::sync::atomic::AtomicBool::new(false);
pub static CUR: std::sync::Mutex<String> = std::sync::Mutex::new(String::new());
pub fn beat_case(head: &str) {
    if let Ok(mut c) = CUR.lock() {
        c.clear();
        c.push_str(head);
    }
    BEAT.fetch_add(1, std::sync::atomic::Ordering::Relaxed);
}
pub fn beat_op(op: &[i128]) {
    if let Ok(mut c) = CUR.lock() {
        c.push_str("O ");
        c.push_str(&join(op));
        c.push('\n');
    }
    BEAT.fetch_add(1, std::sync::atomic::Ordering::Relaxed);
}

pub struct Trace {
    pub out: std::io::BufWriter<std::fs::File>,
    pub cases: u64,
    pub steps: u64,
    pub panics: u64,
    pub op_hist: BTreeMap<String, u64>,
    pub samples: Vec<String>,
}

fn join(v: &[i128]) -> String {
    let mut s = String::with_capacity(v.len() * 4);
    for (i, x) in v.iter().enumerate() {
        if i > 0 {
            s.push(' ');
        }
        s.push_str(&x.to_string());
    }
    s
}

impl Trace {
    pub fn create(path: &str) -> Self {
        let f = std::fs::File::create(path).expect("create trace");
        Trace {
            out: std::io::BufWriter::with_capacity(1 << 20, f),
            cases: 0,
            steps: 0,
            panics: 0,
            op_hist: BTreeMap::new(),
            samples: Vec::new(),
        }
    }
    pub fn count(&mut self, tag: &str) {
        *self.op_hist.entry(tag.to_string()).or_insert(0) += 1;
    }
    pub fn finish(mut self, stats_path: &str) {
        self.out.flush().unwrap();
        let mut s = String::new();
        s.push_str(&format!("cases {}\nsteps {}\npanics {}\n", self.cases, self.steps, self.panics));
        for (k, v) in &self.op_hist {
            s.push_str(&format!("hist {} {}\n", k, v));
        }
        for x in &self.samples {
            s.push_str(&format!("sample {}\n", x));
        }
        std::fs::write(stats_path, s).unwrap();
    }
}

/// One case: construct, run the ops, drop.  `next_op` sees the last snapshot.
/// Every call runs under catch_unwind; a panic ends the case (the subject is leaked).
pub fn run_case(
    t: &mut Trace,
    id: &str,
    kind: u32,
    cfg: &[i128],
    meta: &str,
    mk: &dyn Fn() -> Box<dyn Subject>,
    next_op: &mut dyn FnMut(usize, &Ints) -> Option<Ints>,
    tag: &dyn Fn(&[i128]) -> String,
) -> Option<Ints> {
    ledger_reset();
    crate::types::SALT.store(0, std::sync::atomic::Ordering::Relaxed);
    crate::types::CLONE_MERGE.store(false, std::sync::atomic::Ordering::Relaxed);
    alloc::tab_reset();
    let qmark = alloc::q_mark();
    let tracked = |f: &mut dyn FnMut()| {
        alloc::track(true);
        let r = catch_unwind(AssertUnwindSafe(|| f()));
        alloc::track(false);
        PANIC_DEPTH.store(0, std::sync::atomic::Ordering::Relaxed);
        r
    };
    beat_case(&format!("C {} {} {}\n{}", id, kind, join(cfg), if meta.is_empty() { String::new() } else { format!("X {}\n", meta) }));
    let mut made: Option<Box<dyn Subject>> = None;
    let mk_r = tracked(&mut || made = Some(mk()));
    let mut subj = match mk_r.map(|_| made.take().unwrap()) {
        Ok(s) => s,
        Err(_) => {
            writeln!(t.out, "C {} {} {}", id, kind, join(cfg)).unwrap();
            writeln!(t.out, "O 98 | -1000 | 0 | 0 0 0 0 | ").unwrap();
            t.panics += 1;
            return None;
        }
    };
    t.cases += 1;
    let cfg_o = subj.cfg_override();
    let cfg: &[i128] = match &cfg_o {
        Some(c) => c,
        None => cfg,
    };
    writeln!(t.out, "C {} {} {}", id, kind, join(cfg)).unwrap();
    if !meta.is_empty() {
        writeln!(t.out, "X {}", meta).unwrap();
    }
    let mut snap = subj.snapshot();
    let mut longest = snap.len();
    crate::subj::AUDIT_BAD.store(false, std::sync::atomic::Ordering::Relaxed);
    let _ = ledger_drain();
    let mut sample = String::new();
    let mut i = 0usize;
    loop {
        let op = match next_op(i, &snap) {
            Some(op) => op,
            None => break,
        };
        i += 1;
        t.steps += 1;
        let tg = tag(&op);
        t.count(&tg);
        if t.samples.len() < 3 && sample.len() < 400 {
            sample.push_str(&format!("[{}] ", join(&op)));
        }
        beat_op(&op);
        let mut res: Option<Ints> = None;
        let r = tracked(&mut || res = Some(subj.apply(&op))).map(|_| res.take().unwrap());
        let op = match subj.take_op_rewrite() {
            Some(o) => o,
            None => op,
        };
        match r {
            Ok(out) => {
                let (dk, dv, dd, cb) = ledger_drain();
                snap = subj.snapshot();
                longest = longest.max(snap.len());
                let mut cbs: Ints = vec![cb.len() as i128];
                for (k, v) in cb {
                    cbs.push(k as i128);
                    cbs.push(v as i128);
                }
                writeln!(
                    t.out,
                    "O {} | {} | {} | {} {} {} {} | {}",
                    join(&op),
                    join(&out),
                    join(&cbs),
                    dk,
                    dv,
                    dd,
                    ledger_live(),
                    join(&snap)
                )
                .unwrap();
                if crate::subj::AUDIT_BAD.swap(false, std::sync::atomic::Ordering::Relaxed) {
                    // the structural audit failed: the line above records it; the object is leaked, not used again
                    t.out.flush().unwrap();
                    std::mem::forget(subj);
                    if t.samples.len() < 3 {
                        t.samples.push(sample);
                    }
                    return None;
                }
            }
            Err(_) => {
                t.panics += 1;
                // the call panicked inside the library (no panic is injected in these runs): what did it leave
                // behind?  `-1001` then the weak audit of every internal list (`code chain_len index_len`)
                let wa = catch_unwind(AssertUnwindSafe(|| subj.weak_audit(1 << 16))).unwrap_or_else(|_| vec![9, 0, 0]);
                let mut post: Ints = vec![-1001];
                post.extend(wa);
                writeln!(t.out, "O {} | -1000 | 0 | 0 0 0 0 | {}", join(&op), join(&post)).unwrap();
                std::mem::forget(subj);
                if t.samples.len() < 3 {
                    t.samples.push(sample);
                }
                return None;
            }
        }
    }
    // final drop of the cache: everything retained must be released exactly once
    beat_op(&[99]);
    let mut subj = Some(subj);
    // how full the lists of this history ever were (a snapshot is a few header numbers and two numbers per entry,
    // ghosts included): printed with the operation histogram, so that a slice that never fills shows
    let pairs = longest / 2;
    let bucket = [4usize, 16, 64, 256, 1024].iter().find(|b| pairs <= **b).map(|b| format!("fullest-state<={}-entries", b)).unwrap_or_else(|| "fullest-state>1024-entries".to_string());
    t.count(&bucket);
    let final_snap = snap.clone();
    drop(snap);
    let r = tracked(&mut || drop(subj.take()));
    let (dk, dv, dd, cb) = ledger_drain();
    let live = ledger_live();
    let blocks = if alloc::TAB_OVERFLOW.load(std::sync::atomic::Ordering::Relaxed) {
        0
    } else {
        alloc::tracked_blocks()
    };
    let poison = alloc::scan_quarantine(qmark);
    match r {
        Ok(()) => writeln!(
            t.out,
            "O 99 | {} {} {} {} {} {} | {} | 0 0 0 0 | ",
            dk,
            dv,
            dd,
            live,
            blocks,
            poison,
            cb.len()
        )
        .unwrap(),
        Err(_) => {
            t.panics += 1;
            writeln!(t.out, "O 99 | -1000 | 0 | 0 0 0 0 | ").unwrap()
        }
    }
    if t.samples.len() < 3 {
        t.samples.push(sample);
    }
    Some(final_snap)
}

/// Breadth-first closure of the reachable states of a small configuration: for every state
/// reached (identified by its snapshot) and every operation of `alphabet`, the shortest
/// history reaching the state followed by that operation is run as one case.
pub fn bfs(
    t: &mut Trace,
    idp: &str,
    kind: u32,
    cfg: &[i128],
    meta: &str,
    mk: &dyn Fn() -> Box<dyn Subject>,
    alphabet: &[Ints],
    max_states: usize,
    shard: (u64, u64),
    tag: &dyn Fn(&[i128]) -> String,
) -> usize {
    use std::collections::{HashSet, VecDeque};
    let mut seen: HashSet<Ints> = HashSet::new();
    let mut queue: VecDeque<Vec<Ints>> = VecDeque::new();
    // the initial state
    {
        let mut sink = Trace::create("/dev/null");
        if let Some(s0) = run_case(&mut sink, "init", kind, cfg, meta, mk, &mut scripted(vec![]), tag) {
            seen.insert(s0);
            queue.push_back(vec![]);
        }
    }
    let mut n = 0u64;
    let mut sink = Trace::create("/dev/null");
    while let Some(h) = queue.pop_front() {
        for o in alphabet {
            let mut ops = h.clone();
            ops.push(o.clone());
            n += 1;
            // every shard explores the whole space (state discovery needs all cases) but only
            // writes its own share of the cases
            let mine = n % shard.1 == shard.0;
            let id = format!("{}-b{}", idp, n);
            let fin = if mine {
                run_case(t, &id, kind, cfg, meta, mk, &mut scripted(ops.clone()), tag)
            } else {
                run_case(&mut sink, &id, kind, cfg, meta, mk, &mut scripted(ops.clone()), tag)
            };
            if let Some(fs) = fin {
                if seen.len() < max_states && seen.insert(fs) {
                    queue.push_back(ops);
                }
            }
        }
    }
    seen.len()
}

/// A fixed list of operations as a `next_op` closure.
pub fn scripted(ops: Vec<Ints>) -> impl FnMut(usize, &Ints) -> Option<Ints> {
    move |i, _| ops.get(i).cloned()
}

pub fn rng_for(seed: u64, stream: u64) -> Rng {
    Rng::new(seed.wrapping_mul(0x2545_F491_4F6C_DD1D).wrapping_add(stream))
}
