//! Executes histories on real subjects and writes the trace the model runner replays.
use crate::alloc;
use crate::prng::Rng;
use crate::subj::{Ints, Subject};
use crate::types::*;
use std::collections::BTreeMap;
use std::io::Write;
use std::panic::{catch_unwind, AssertUnwindSafe};

pub struct Trace {
    pub out: std::io::BufWriter<std::fs::File>,
    pub cases: u64,
    pub steps: u64,
    pub panics: u64,
    pub op_hist: BTreeMap<String, u64>,
    pub samples: Vec<String>,
}

fn join(v: &[i128]) -> String {
    let mut s = String::with_capacity(v.len() * 4);
    for (i, x) in v.iter().enumerate() {
        if i > 0 {
            s.push(' ');
        }
        s.push_str(&x.to_string());
    }
    s
}

impl Trace {
    pub fn create(path: &str) -> Self {
        let f = std::fs::File::create(path).expect("create trace");
        Trace {
            out: std::io::BufWriter::with_capacity(1 << 20, f),
            cases: 0,
            steps: 0,
            panics: 0,
            op_hist: BTreeMap::new(),
            samples: Vec::new(),
        }
    }
    pub fn count(&mut self, tag: &str) {
        *self.op_hist.entry(tag.to_string()).or_insert(0) += 1;
    }
    pub fn finish(mut self, stats_path: &str) {
        self.out.flush().unwrap();
        let mut s = String::new();
        s.push_str(&format!("cases {}\nsteps {}\npanics {}\n", self.cases, self.steps, self.panics));
        for (k, v) in &self.op_hist {
            s.push_str(&format!("hist {} {}\n", k, v));
        }
        for x in &self.samples {
            s.push_str(&format!("sample {}\n", x));
        }
        std::fs::write(stats_path, s).unwrap();
    }
}

/// One case: construct, run the ops, drop.  `next_op` sees the last snapshot.
/// Every call runs under catch_unwind; a panic ends the case (the subject is leaked).
pub fn run_case(
    t: &mut Trace,
    id: &str,
    kind: u32,
    cfg: &[i128],
    meta: &str,
    mk: &dyn Fn() -> Box<dyn Subject>,
    next_op: &mut dyn FnMut(usize, &Ints) -> Option<Ints>,
    tag: &dyn Fn(&[i128]) -> String,
) {
    ledger_reset();
    alloc::tab_reset();
    let tracked = |f: &mut dyn FnMut()| {
        alloc::track(true);
        let r = catch_unwind(AssertUnwindSafe(|| f()));
        alloc::track(false);
        r
    };
    let mut made: Option<Box<dyn Subject>> = None;
    let mk_r = tracked(&mut || made = Some(mk()));
    let mut subj = match mk_r.map(|_| made.take().unwrap()) {
        Ok(s) => s,
        Err(_) => {
            writeln!(t.out, "C {} {} {}", id, kind, join(cfg)).unwrap();
            writeln!(t.out, "O 98 | -1000 | 0 | 0 0 0 0 | ").unwrap();
            t.panics += 1;
            return;
        }
    };
    t.cases += 1;
    writeln!(t.out, "C {} {} {}", id, kind, join(cfg)).unwrap();
    if !meta.is_empty() {
        writeln!(t.out, "X {}", meta).unwrap();
    }
    let mut snap = subj.snapshot();
    let _ = ledger_drain();
    let mut sample = String::new();
    let mut i = 0usize;
    loop {
        let op = match next_op(i, &snap) {
            Some(op) => op,
            None => break,
        };
        i += 1;
        t.steps += 1;
        let tg = tag(&op);
        t.count(&tg);
        if t.samples.len() < 3 && sample.len() < 400 {
            sample.push_str(&format!("[{}] ", join(&op)));
        }
        let mut res: Option<Ints> = None;
        let r = tracked(&mut || res = Some(subj.apply(&op))).map(|_| res.take().unwrap());
        match r {
            Ok(out) => {
                let (dk, dv, dd, cb) = ledger_drain();
                snap = subj.snapshot();
                let mut cbs: Ints = vec![cb.len() as i128];
                for (k, v) in cb {
                    cbs.push(k as i128);
                    cbs.push(v as i128);
                }
                writeln!(
                    t.out,
                    "O {} | {} | {} | {} {} {} {} | {}",
                    join(&op),
                    join(&out),
                    join(&cbs),
                    dk,
                    dv,
                    dd,
                    ledger_live(),
                    join(&snap)
                )
                .unwrap();
            }
            Err(_) => {
                t.panics += 1;
                writeln!(t.out, "O {} | -1000 | 0 | 0 0 0 0 | ", join(&op)).unwrap();
                std::mem::forget(subj);
                if t.samples.len() < 3 {
                    t.samples.push(sample);
                }
                return;
            }
        }
    }
    // final drop of the cache: everything retained must be released exactly once
    let mut subj = Some(subj);
    drop(snap);
    let r = tracked(&mut || drop(subj.take()));
    let (dk, dv, dd, cb) = ledger_drain();
    let live = ledger_live();
    let blocks = if alloc::TAB_OVERFLOW.load(std::sync::atomic::Ordering::Relaxed) {
        0
    } else {
        alloc::tracked_blocks()
    };
    let poison = alloc::scan_quarantine();
    match r {
        Ok(()) => writeln!(
            t.out,
            "O 99 | {} {} {} {} {} {} | {} | 0 0 0 0 | ",
            dk,
            dv,
            dd,
            live,
            blocks,
            poison,
            cb.len()
        )
        .unwrap(),
        Err(_) => {
            t.panics += 1;
            writeln!(t.out, "O 99 | -1000 | 0 | 0 0 0 0 | ").unwrap()
        }
    }
    if t.samples.len() < 3 {
        t.samples.push(sample);
    }
}

/// A fixed list of operations as a `next_op` closure.
pub fn scripted(ops: Vec<Ints>) -> impl FnMut(usize, &Ints) -> Option<Ints> {
    move |i, _| ops.get(i).cloned()
}

pub fn rng_for(seed: u64, stream: u64) -> Rng {
    Rng::new(seed.wrapping_mul(0x2545_F491_4F6C_DD1D).wrapping_add(stream))
}
