//! Instrumented key / value / hasher / callback types.
use std::borrow::Borrow;
use std::cell::RefCell;
use std::collections::HashSet;
use std::hash::{BuildHasher, Hash, Hasher};

/// Ledger of drop-tracked objects (per thread).
#[derive(Default)]
pub struct Ledger {
    next_serial: u64,
    live: HashSet<u64>,
    /// (is_key, serial) dropped since the last drain
    pub dropped_keys: u64,
    pub dropped_vals: u64,
    pub double_drops: u64,
    /// callback log since the last drain
    pub cb: Vec<(u64, u64)>,
    /// panic injection: when `Some(n)`, the n-th (0-based) call into user code panics
    pub fuse: Option<u64>,
    pub user_calls: u64,
    /// calls of each kind completed since `set_fuse` (0 build_hasher, 1 hash, 2 eq, 3 clone, 4 drop key,
    /// 5 drop value, 6 callback)
    pub by_kind: [u64; 7],
    /// kind of the call the fuse fired in, with the per-kind counts at that moment
    pub fired: Option<(u8, [u64; 7])>,
}

thread_local! {
    pub static LEDGER: RefCell<Ledger> = RefCell::new(Ledger::default());
}

pub fn ledger_reset() {
    LEDGER.with(|l| *l.borrow_mut() = Ledger::default());
}
pub fn ledger_live() -> usize {
    LEDGER.with(|l| l.borrow().live.len())
}
/// (keys dropped, values dropped, double drops, callback log) since the last drain
pub fn ledger_drain() -> (u64, u64, u64, Vec<(u64, u64)>) {
    LEDGER.with(|l| {
        let mut l = l.borrow_mut();
        let r = (l.dropped_keys, l.dropped_vals, l.double_drops, std::mem::take(&mut l.cb));
        l.dropped_keys = 0;
        l.dropped_vals = 0;
        r
    })
}
pub fn double_drops() -> u64 {
    LEDGER.with(|l| l.borrow().double_drops)
}
/// the ledger's own allocations are not the subject's
struct Pause(bool);
impl Pause {
    fn new() -> Self {
        Pause(crate::alloc::track(false))
    }
}
impl Drop for Pause {
    fn drop(&mut self) {
        crate::alloc::track(self.0);
    }
}
fn fresh(is_key: bool) -> u64 {
    let _ = is_key;
    let _p = Pause::new();
    LEDGER.with(|l| {
        let mut l = l.borrow_mut();
        l.next_serial += 1;
        let s = l.next_serial;
        l.live.insert(s);
        s
    })
}
fn released(serial: u64, is_key: bool) {
    let _p = Pause::new();
    // `try_with`: a thread-local may already be gone during thread teardown
    let _ = LEDGER.try_with(|l| {
        if let Ok(mut l) = l.try_borrow_mut() {
            if !l.live.remove(&serial) {
                l.double_drops += 1;
            }
            if is_key {
                l.dropped_keys += 1;
            } else {
                l.dropped_vals += 1;
            }
        }
    });
}
/// one call into user code (Hash, Eq, Clone, Drop, callback, build_hasher): panics when the fuse says so
pub fn user_call(kind: u8) {
    let fire = LEDGER
        .try_with(|l| {
            if let Ok(mut l) = l.try_borrow_mut() {
                let n = l.user_calls;
                l.user_calls += 1;
                if l.fuse == Some(n) {
                    l.fuse = None;
                    l.fired = Some((kind, l.by_kind));
                    return true;
                }
                l.by_kind[kind as usize] += 1;
            }
            false
        })
        .unwrap_or(false);
    if fire {
        panic!("injected user-code panic");
    }
}
pub fn set_fuse(n: Option<u64>) {
    LEDGER.with(|l| {
        let mut l = l.borrow_mut();
        l.fuse = n;
        l.user_calls = 0;
        l.by_kind = [0; 7];
        l.fired = None;
    })
}
/// where the fuse fired since the last `set_fuse`, if it did
pub fn fired() -> Option<(u8, [u64; 7])> {
    LEDGER.with(|l| l.borrow().fired)
}
/// whether Drop of keys and values counts as a call into user code (only the fault slice turns it on)
pub static DROP_IS_USER_CALL: std::sync::atomic::AtomicBool = std::sync::atomic::AtomicBool::new(false);
fn drop_call(kind: u8) {
    if DROP_IS_USER_CALL.load(std::sync::atomic::Ordering::Relaxed) && !std::thread::panicking() {
        user_call(kind);
    }
}
pub fn user_calls() -> u64 {
    LEDGER.with(|l| l.borrow().user_calls)
}

/// Key: equality and hash on `id` only; `serial` identifies the object.
pub struct TKey {
    pub id: u64,
    pub serial: u64,
}
impl TKey {
    pub fn new(id: u64) -> Self {
        TKey { id, serial: fresh(true) }
    }
}
/// (lruliar slice, op 95) while set, `TKey::clone` maps the keys 2i and 2i+1 to the same key: a `Clone` that does not
/// preserve distinctness (a key that resets a revision field when cloned), in safe code
pub static CLONE_MERGE: std::sync::atomic::AtomicBool = std::sync::atomic::AtomicBool::new(false);
impl Clone for TKey {
    fn clone(&self) -> Self {
        user_call(3);
        if CLONE_MERGE.load(std::sync::atomic::Ordering::Relaxed) {
            return TKey::new(self.id & !1);
        }
        TKey::new(self.id)
    }
}
impl Drop for TKey {
    fn drop(&mut self) {
        // released first: a second drop of the same object is then seen as one even if this one panics
        released(self.serial, true);
        drop_call(4);
    }
}
impl PartialEq for TKey {
    fn eq(&self, o: &Self) -> bool {
        user_call(2);
        self.id == o.id
    }
}
impl Eq for TKey {}
impl Hash for TKey {
    fn hash<H: Hasher>(&self, h: &mut H) {
        user_call(1);
        self.id.hash(h)
    }
}
/// borrowed form used for every lookup: `&KQ` instead of `&TKey`
#[repr(transparent)]
pub struct KQ(pub u64);
impl PartialEq for KQ {
    fn eq(&self, o: &Self) -> bool {
        user_call(2);
        self.0 == o.0
    }
}
impl Eq for KQ {}
impl Hash for KQ {
    fn hash<H: Hasher>(&self, h: &mut H) {
        user_call(1);
        self.0.hash(h)
    }
}
impl Borrow<KQ> for TKey {
    fn borrow(&self) -> &KQ {
        // KQ is repr(transparent) over u64
        unsafe { &*(&self.id as *const u64 as *const KQ) }
    }
}

/// Value: `v` is what the model sees; `serial` identifies the object.
pub struct TVal {
    pub v: u64,
    pub serial: u64,
}
impl TVal {
    pub fn new(v: u64) -> Self {
        TVal { v, serial: fresh(false) }
    }
}
impl Clone for TVal {
    fn clone(&self) -> Self {
        user_call(3);
        TVal::new(self.v)
    }
}
impl Drop for TVal {
    fn drop(&mut self) {
        released(self.serial, false);
        drop_call(5);
    }
}

/// Recording eviction callback.  `on_evict` is generic over unconstrained `K, V`; the harness
/// only ever instantiates it with `TKey`/`TVal` (checked by size and a magic comparison is not
/// possible, so the cast is guarded by the size check only).
#[derive(Clone, Default)]
pub struct RecCb;
impl caches::OnEvictCallback for RecCb {
    fn on_evict<K, V>(&self, key: &K, val: &V) {
        assert_eq!(std::mem::size_of::<K>(), std::mem::size_of::<TKey>());
        assert_eq!(std::mem::size_of::<V>(), std::mem::size_of::<TVal>());
        let (k, v) = unsafe { (&*(key as *const K as *const TKey), &*(val as *const V as *const TVal)) };
        let (k, v) = (k.id, v.v);
        {
            let _p = Pause::new();
            LEDGER.with(|l| l.borrow_mut().cb.push((k, v)));
        }
        user_call(6);
    }
}

/// One BuildHasher type with five behaviours.
#[derive(Clone)]
pub enum VHasher {
    Sip(std::collections::hash_map::RandomState),
    /// SipHash with fixed keys (the fault slice: injections are identified by call index, so runs must repeat)
    Sip0,
    Identity,
    Zero,
    Fnv,
    /// identity hash xor a global salt that the history changes between calls (op 96): the hash of a stored key
    /// changes while it is stored, as with a key whose `Hash` reads interior state.  Safe code, so C03 covers it.
    Liar,
}
/// the salt of `VHasher::Liar`
pub static SALT: std::sync::atomic::AtomicU64 = std::sync::atomic::AtomicU64::new(0);
impl VHasher {
    pub fn from_mode(m: u64) -> Self {
        if m == 5 {
            return VHasher::Liar;
        }
        match m % 5 {
            0 | 1 if DROP_IS_USER_CALL.load(std::sync::atomic::Ordering::Relaxed) => VHasher::Sip0,
            0 | 1 => VHasher::Sip(std::collections::hash_map::RandomState::new()),
            2 => VHasher::Identity,
            3 => VHasher::Zero,
            _ => VHasher::Fnv,
        }
    }
}
pub enum VH {
    Sip(std::collections::hash_map::DefaultHasher),
    Identity(u64),
    Zero,
    Fnv(u64),
    Liar(u64),
}
impl BuildHasher for VHasher {
    type Hasher = VH;
    fn build_hasher(&self) -> VH {
        user_call(0);
        match self {
            VHasher::Sip(s) => VH::Sip(s.build_hasher()),
            VHasher::Sip0 => VH::Sip(std::collections::hash_map::DefaultHasher::new()),
            VHasher::Identity => VH::Identity(0),
            VHasher::Zero => VH::Zero,
            VHasher::Fnv => VH::Fnv(0xcbf2_9ce4_8422_2325),
            VHasher::Liar => VH::Liar(0),
        }
    }
}
impl Hasher for VH {
    fn finish(&self) -> u64 {
        match self {
            VH::Sip(h) => h.finish(),
            VH::Identity(x) => *x,
            VH::Zero => 0,
            VH::Fnv(x) => *x,
            VH::Liar(x) => *x ^ SALT.load(std::sync::atomic::Ordering::Relaxed),
        }
    }
    fn write(&mut self, bytes: &[u8]) {
        match self {
            VH::Sip(h) => h.write(bytes),
            VH::Identity(x) => {
                for b in bytes {
                    *x = (*x << 8) | (*b as u64);
                }
            }
            VH::Zero => {}
            VH::Liar(x) => {
                for b in bytes {
                    *x = (*x << 8) | (*b as u64);
                }
            }
            VH::Fnv(x) => {
                for b in bytes {
                    *x ^= *b as u64;
                    *x = x.wrapping_mul(0x0000_0100_0000_01b3);
                }
            }
        }
    }
}
