//! Subjects: SegmentedCache, TwoQueueCache, AdaptiveCache over TKey/TVal with VHasher.
use crate::iter_dispatch;
use crate::subj::*;
use crate::types::*;
use caches::{AdaptiveCache, Cache, SegmentedCache, TwoQueueCache};

/// the Cache-trait operations, shared by every cache type
pub fn trait_op<C: Cache<TKey, TVal>>(c: &mut C, op: &[i128]) -> Option<Ints> {
    let k = |i: usize| op[i] as u64;
    Some(match op[0] {
        0 => put_res(c.put(TKey::new(k(1)), TVal::new(k(2)))),
        1 => opt_v(c.get(&KQ(k(1))).map(|v| v.v)),
        2 => opt_v(c.get_mut(&KQ(k(1))).map(|v| {
            let old = v.v;
            if let Some(w) = w_of(op[2], op[3]) {
                v.v = w;
            }
            old
        })),
        3 => opt_v(c.peek(&KQ(k(1))).map(|v| v.v)),
        4 => opt_v(c.peek_mut(&KQ(k(1))).map(|v| {
            let old = v.v;
            if let Some(w) = w_of(op[2], op[3]) {
                v.v = w;
            }
            old
        })),
        5 => vec![c.contains(&KQ(k(1))) as i128],
        6 => opt_v(c.remove(&KQ(k(1))).map(|v| v.v)),
        7 => {
            c.purge();
            vec![]
        }
        8 => vec![c.len() as i128],
        9 => vec![c.cap() as i128],
        10 => vec![c.is_empty() as i128],
        _ => return None,
    })
}

fn kvm(o: Option<(&TKey, &mut TVal)>, f: i128, w: i128) -> Ints {
    opt_kv(o.map(|(k, v)| {
        let old = v.v;
        if let Some(w) = w_of(f, w) {
            v.v = w;
        }
        (k.id, old)
    }))
}
fn kv(o: Option<(&TKey, &TVal)>) -> Ints {
    opt_kv(o.map(|(k, v)| (k.id, v.v)))
}

// ---------------------------------------------------------------- SegmentedCache
pub struct SlruSubj<A = VHasher, B = VHasher> {
    pub c: SegmentedCache<TKey, TVal, A, B>,
}
impl<A: std::hash::BuildHasher + Clone, B: std::hash::BuildHasher + Clone> Subject for SlruSubj<A, B> {
    fn apply(&mut self, op: &[i128]) -> Ints {
        if let Some(r) = trait_op(&mut self.c, op) {
            return r;
        }
        let c = &mut self.c;
        match op[0] {
            30 => put_res(c.put_protected(TKey::new(op[1] as u64), TVal::new(op[2] as u64))),
            31 => kv(c.peek_lru_from_probationary()),
            32 => kvm(c.peek_lru_mut_from_probationary(), op[1], op[2]),
            33 => kv(c.peek_mru_from_probationary()),
            34 => kvm(c.peek_mru_mut_from_probationary(), op[1], op[2]),
            35 => kv(c.peek_lru_from_protected()),
            36 => kvm(c.peek_lru_mut_from_protected(), op[1], op[2]),
            37 => kv(c.peek_mru_from_protected()),
            38 => kvm(c.peek_mru_mut_from_protected(), op[1], op[2]),
            39 => opt_kv(c.remove_lru_from_probationary().map(|(k, v)| (k.id, v.v))),
            40 => opt_kv(c.remove_lru_from_protected().map(|(k, v)| (k.id, v.v))),
            41 => vec![c.protected_len() as i128],
            42 => vec![c.probationary_len() as i128],
            43 => vec![c.probationary_cap() as i128],
            44 => vec![c.protected_cap() as i128],
            25 => {
                let c2 = c.clone();
                // the clone answers every accessor like the original at this moment
                if (c2.cap(), c2.len(), c2.is_empty(), c2.protected_cap(), c2.probationary_cap(), c2.protected_len(), c2.probationary_len())
                    != (c.cap(), c.len(), c.is_empty(), c.protected_cap(), c.probationary_cap(), c.protected_len(), c.probationary_len())
                {
                    return vec![-7];
                }
                // Clone::clone_from into a cache that has moved on: afterwards it answers like the source
                {
                    let mut d = c.clone();
                    let _ = d.put(TKey::new(u64::MAX - 7), TVal::new(7));
                    d.clone_from(c);
                    if (d.cap(), d.len(), d.protected_len(), d.probationary_len()) != (c.cap(), c.len(), c.protected_len(), c.probationary_len())
                        || d.contains(&KQ(u64::MAX - 7))
                        || d.peek_lru_from_probationary().map(|(k, v)| (k.id, v.v)) != c.peek_lru_from_probationary().map(|(k, v)| (k.id, v.v))
                        || d.peek_mru_from_protected().map(|(k, v)| (k.id, v.v)) != c.peek_mru_from_protected().map(|(k, v)| (k.id, v.v))
                    {
                        return vec![-7];
                    }
                }
                let old = std::mem::replace(c, c2);
                let n = old.len() as u64;
                let before = ledger_drain();
                drop(old);
                let after = ledger_drain();
                let ok = after.0 == n && after.1 == n && after.2 == before.2;
                LEDGER.with(|l| {
                    let mut l = l.borrow_mut();
                    l.dropped_keys += before.0;
                    l.dropped_vals += before.1;
                });
                if ok {
                    vec![]
                } else {
                    vec![-6]
                }
            }
            _ => vec![-4],
        }
    }
    fn snapshot(&self) -> Ints {
        let (prob, prot) = self.c.verif_parts();
        let mut out = vec![prob.cap() as i128, prot.cap() as i128];
        let a = snap_list(prob, &mut out);
        let b = snap_list(prot, &mut out);
        out.push((a && b) as i128);
        out
    }
    fn weak_audit(&self, limit: usize) -> Ints {
        let (prob, prot) = self.c.verif_parts();
        let mut out = vec![];
        weak_audit_list(prob, limit, &mut out);
        weak_audit_list(prot, limit, &mut out);
        out
    }
}
use caches::Cache as _;

// ---------------------------------------------------------------- TwoQueueCache
pub struct TwoQSubj<A = VHasher, B = VHasher, C = VHasher> {
    pub c: TwoQueueCache<TKey, TVal, A, B, C>,
}
impl<A: std::hash::BuildHasher, B: std::hash::BuildHasher, C: std::hash::BuildHasher> Subject for TwoQSubj<A, B, C> {
    fn apply(&mut self, op: &[i128]) -> Ints {
        if let Some(r) = trait_op(&mut self.c, op) {
            return r;
        }
        let c = &mut self.c;
        match op[0] {
            50 => vec![c.recent_len() as i128],
            51 => vec![c.frequent_len() as i128],
            52 => vec![c.ghost_len() as i128],
            26 => {
                let s = format!("{:?}", c);
                let want = format!("TwoQueueCache {{ len: {}, cap: {} }}", c.len(), c.cap());
                if s == want {
                    vec![c.len() as i128, c.cap() as i128]
                } else {
                    vec![-5]
                }
            }
            60 => {
                let kind = op[2];
                match op[1] {
                    0 => iter_dispatch!(
                        kind, &op[3..], c, recent_iter, recent_iter_lru, recent_iter_mut, recent_iter_lru_mut,
                        recent_keys, recent_keys_lru, recent_values, recent_values_lru, recent_values_mut,
                        recent_values_lru_mut
                    ),
                    1 => iter_dispatch!(
                        kind, &op[3..], c, frequent_iter, frequent_iter_lru, frequent_iter_mut,
                        frequent_iter_lru_mut, frequent_keys, frequent_keys_lru, frequent_values,
                        frequent_values_lru, frequent_values_mut, frequent_values_lru_mut
                    ),
                    _ => iter_dispatch!(
                        kind, &op[3..], c, ghost_iter, ghost_iter_lru, ghost_iter_mut, ghost_iter_lru_mut,
                        ghost_keys, ghost_keys_lru, ghost_values, ghost_values_lru, ghost_values_mut,
                        ghost_values_lru_mut
                    ),
                }
            }
            _ => vec![-4],
        }
    }
    fn snapshot(&self) -> Ints {
        let (r, f, g, rs) = self.c.verif_parts();
        let mut out = vec![self.c.cap() as i128, rs as i128, g.cap() as i128];
        let a = snap_list(r, &mut out);
        let b = snap_list(f, &mut out);
        let c = snap_list(g, &mut out);
        // the inner resident lists are built with the total size as their capacity
        let caps = r.cap() == self.c.cap() && f.cap() == self.c.cap();
        out.push((a && b && c && caps) as i128);
        out
    }
    fn weak_audit(&self, limit: usize) -> Ints {
        let (r, f, g, _) = self.c.verif_parts();
        let mut out = vec![];
        weak_audit_list(r, limit, &mut out);
        weak_audit_list(f, limit, &mut out);
        weak_audit_list(g, limit, &mut out);
        out
    }
}

// ---------------------------------------------------------------- AdaptiveCache
pub struct ArcSubj<A = VHasher, B = VHasher, C = VHasher, D = VHasher> {
    pub c: AdaptiveCache<TKey, TVal, A, B, C, D>,
}
impl<A: std::hash::BuildHasher, B: std::hash::BuildHasher, C: std::hash::BuildHasher, D: std::hash::BuildHasher> Subject
    for ArcSubj<A, B, C, D>
{
    fn apply(&mut self, op: &[i128]) -> Ints {
        if let Some(r) = trait_op(&mut self.c, op) {
            return r;
        }
        let c = &mut self.c;
        match op[0] {
            70 => vec![c.partition() as i128],
            71 => vec![c.recent_len() as i128],
            72 => vec![c.frequent_len() as i128],
            73 => vec![c.recent_evict_len() as i128],
            74 => vec![c.frequent_evict_len() as i128],
            60 => {
                let kind = op[2];
                match op[1] {
                    0 => iter_dispatch!(
                        kind, &op[3..], c, recent_iter, recent_iter_lru, recent_iter_mut, recent_iter_lru_mut,
                        recent_keys, recent_keys_lru, recent_values, recent_values_lru, recent_values_mut,
                        recent_values_lru_mut
                    ),
                    1 => iter_dispatch!(
                        kind, &op[3..], c, recent_evict_iter, recent_evict_iter_lru, recent_evict_iter_mut,
                        recent_evict_iter_lru_mut, recent_evict_keys, recent_evict_keys_lru,
                        recent_evict_values, recent_evict_values_lru, recent_evict_values_mut,
                        recent_evict_values_lru_mut
                    ),
                    2 => iter_dispatch!(
                        kind, &op[3..], c, frequent_iter, frequent_iter_lru, frequent_iter_mut,
                        frequent_iter_lru_mut, frequent_keys, frequent_keys_lru, frequent_values,
                        frequent_values_lru, frequent_values_mut, frequent_values_lru_mut
                    ),
                    _ => iter_dispatch!(
                        kind, &op[3..], c, frequent_evict_iter, frequent_evict_iter_lru,
                        frequent_evict_iter_mut, frequent_evict_iter_lru_mut, frequent_evict_keys,
                        frequent_evict_keys_lru, frequent_evict_values, frequent_evict_values_lru,
                        frequent_evict_values_mut, frequent_evict_values_lru_mut
                    ),
                }
            }
            _ => vec![-4],
        }
    }
    fn snapshot(&self) -> Ints {
        let (t1, b1, t2, b2) = self.c.verif_parts();
        let mut out = vec![self.c.cap() as i128, self.c.partition() as i128];
        let a = snap_list(t1, &mut out);
        let b = snap_list(b1, &mut out);
        let c = snap_list(t2, &mut out);
        let d = snap_list(b2, &mut out);
        let n = self.c.cap();
        let caps = t1.cap() == n && b1.cap() == n && t2.cap() == n && b2.cap() == n;
        out.push((a && b && c && d && caps) as i128);
        out
    }
    fn weak_audit(&self, limit: usize) -> Ints {
        let (t1, b1, t2, b2) = self.c.verif_parts();
        let mut out = vec![];
        weak_audit_list(t1, limit, &mut out);
        weak_audit_list(b1, limit, &mut out);
        weak_audit_list(t2, limit, &mut out);
        weak_audit_list(b2, limit, &mut out);
        out
    }
}
