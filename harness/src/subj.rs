//! The interface between history generators / runners and the real caches.
pub type Ints = Vec<i128>;

pub trait Subject {
    /// execute one encoded operation on the real object, return the encoded result
    fn apply(&mut self, op: &[i128]) -> Ints;
    /// canonical snapshot (address-free)
    fn snapshot(&self) -> Ints;
    /// configuration as the model needs it, when it is only known after construction
    /// (sketch seeds, Bloom geometry)
    fn cfg_override(&self) -> Option<Ints> {
        None
    }
    /// the operation as it should be recorded, when the subject had to add data to it
    /// (hash of a key under the real KeyHasher, pairs appended by fill_sample)
    fn take_op_rewrite(&mut self) -> Option<Ints> {
        None
    }
    /// audit of the weak invariant that must survive a panic in user code: per internal list
    /// `code chain_len index_len` (code 0 = fine); `limit` bounds the walks
    fn weak_audit(&self, _limit: usize) -> Ints {
        vec![]
    }
}

pub fn opt_v(o: Option<u64>) -> Ints {
    match o {
        Some(v) => vec![1, v as i128],
        None => vec![0],
    }
}
pub fn opt_kv(o: Option<(u64, u64)>) -> Ints {
    match o {
        Some((k, v)) => vec![1, k as i128, v as i128],
        None => vec![0],
    }
}

use crate::types::{TKey, TVal};
use caches::PutResult;
pub fn put_res(r: PutResult<TKey, TVal>) -> Ints {
    let out = match &r {
        PutResult::Put => vec![0],
        PutResult::Update(v) => vec![1, v.v as i128],
        PutResult::Evicted { key, value } => vec![2, key.id as i128, value.v as i128],
        PutResult::EvictedAndUpdate { evicted, update } => {
            vec![3, evicted.0.id as i128, evicted.1.v as i128, update.v as i128]
        }
    };
    // dropped while `out` is a live local: if a Drop panics (fault slices) unwinding frees `out`; a value that
    // is already in the return slot would be lost
    drop(r);
    out
}
pub fn opt_put_res(r: Option<PutResult<TKey, TVal>>) -> Ints {
    match r {
        None => vec![0],
        Some(r) => {
            let mut v = vec![1];
            v.extend(put_res(r));
            v
        }
    }
}
pub fn w_of(f: i128, w: i128) -> Option<u64> {
    if f == 0 {
        None
    } else {
        Some(w as u64)
    }
}

/// iterator request: (back, optional write)
#[derive(Clone, Copy, Debug)]
pub struct Req {
    pub back: bool,
    pub w: Option<u64>,
}
pub fn dec_reqs(n: usize, a: &[i128]) -> (Vec<Req>, &[i128]) {
    let mut v = Vec::new();
    for i in 0..n {
        v.push(Req { back: a[3 * i] != 0, w: w_of(a[3 * i + 1], a[3 * i + 2]) });
    }
    (v, &a[3 * n..])
}

/// Runs an iterator script: `pre` on `it`; then a clone is taken when `cl` is given;
/// `pa` continues on the original, `pb` on the clone, alternating calls between the two so
/// that shared state between them would be visible.  Checks size_hint/len/count after every step.
pub fn run_iter<I, T>(
    mut it: I,
    pre: &[Req],
    pa: &[Req],
    pb: &[Req],
    cl: Option<&dyn Fn(&I) -> I>,
    enc: &mut dyn FnMut(T, Option<u64>) -> Ints,
) -> Ints
where
    I: DoubleEndedIterator<Item = T> + ExactSizeIterator,
{
    fn one<I, T>(it: &mut I, r: &Req, enc: &mut dyn FnMut(T, Option<u64>) -> Ints) -> Ints
    where
        I: DoubleEndedIterator<Item = T> + ExactSizeIterator,
    {
        let y = if r.back { it.next_back() } else { it.next() };
        let len = it.len();
        let hint_ok = it.size_hint() == (len, Some(len));
        let mut out = match y {
            None => vec![0],
            Some(t) => {
                let mut v = vec![1];
                v.extend(enc(t, r.w));
                v
            }
        };
        // a size_hint that disagrees with len() is reported as an impossible length
        out.push(if hint_ok { len as i128 } else { -7 });
        out
    }
    let mut out = Vec::new();
    for r in pre {
        out.extend(one(&mut it, r, enc));
    }
    let mut it2 = cl.map(|f| f(&it));
    let mut oa = Vec::new();
    let mut ob = Vec::new();
    let n = pa.len().max(pb.len());
    for i in 0..n {
        if i < pa.len() {
            oa.extend(one(&mut it, &pa[i], enc));
        }
        if i < pb.len() {
            if let Some(it2) = it2.as_mut() {
                let r = Req { back: pb[i].back, w: None };
                ob.extend(one(it2, &r, enc));
            }
        }
    }
    // count() must agree with len()
    let l = it.len();
    if it.count() != l {
        oa.push(-8);
    }
    if let Some(it2) = it2 {
        let l = it2.len();
        if it2.count() != l {
            ob.push(-8);
        }
    }
    out.extend(oa);
    out.extend(ob);
    out
}

/// the consuming adapters an iterator type may override (`last`, `count`, `nth`, `nth_back`, `fold`) must agree
/// with what stepping through `next()` yields, on a fresh iterator and after one step from either end
#[macro_export]
macro_rules! iter_fin_ok {
    ($c:expr, $m:ident, $enc:ident) => {{
        let a: Vec<$crate::subj::Ints> = {
            let mut v = Vec::new();
            let mut it = $c.$m();
            while let Some(t) = it.next() {
                v.push($enc(t, None));
            }
            v
        };
        let n = a.len();
        let last = $c.$m().last().map(|t| $enc(t, None));
        let count = $c.$m().count();
        let nth1 = $c.$m().nth(1).map(|t| $enc(t, None));
        let nthb1 = $c.$m().nth_back(1).map(|t| $enc(t, None));
        let mut folded = Vec::new();
        $c.$m().fold((), |_, t| folded.push($enc(t, None)));
        let mut it = $c.$m();
        it.next();
        let last_after_front = it.last().map(|t| $enc(t, None));
        let mut it = $c.$m();
        it.next_back();
        let last_after_back = it.last().map(|t| $enc(t, None));
        let mut it = $c.$m();
        it.next();
        let count_after_front = it.count();
        let mut rfolded = Vec::new();
        $c.$m().rfold((), |_, t| rfolded.push($enc(t, None)));
        rfolded.reverse();
        let rev_first = $c.$m().rev().next().map(|t| $enc(t, None));
        let fresh_len = $c.$m().len();
        let mut it = $c.$m();
        let skipped = it.nth(0).map(|t| $enc(t, None));
        let len_after_nth = it.len();
        // long skips: the middle, just past it, the last entry, one past the end; from both ends; and what is left after
        let mut nth_ok = true;
        for j in [n / 2, n / 2 + 1, (2 * n) / 3 + 1, n.saturating_sub(2), n.saturating_sub(1), n] {
            let mut it = $c.$m();
            let y = it.nth(j).map(|t| $enc(t, None));
            nth_ok &= y == a.get(j).cloned() && it.len() == n.saturating_sub(j + 1);
            let z = it.next().map(|t| $enc(t, None));
            nth_ok &= z == a.get(j + 1).cloned();
            let mut it = $c.$m();
            let y = it.nth_back(j).map(|t| $enc(t, None));
            nth_ok &= y == (if j < n { Some(a[n - 1 - j].clone()) } else { None }) && it.len() == n.saturating_sub(j + 1);
            let z = it.next_back().map(|t| $enc(t, None));
            nth_ok &= z == (if j + 1 < n { Some(a[n - 2 - j].clone()) } else { None });
        }
        // skip / step_by / take are built on nth and next
        let stepped: Vec<$crate::subj::Ints> = $c.$m().step_by(3).map(|t| $enc(t, None)).collect();
        nth_ok &= stepped == a.iter().step_by(3).cloned().collect::<Vec<_>>();
        let skipped_many: Vec<$crate::subj::Ints> = $c.$m().skip(n / 2 + 1).map(|t| $enc(t, None)).collect();
        nth_ok &= skipped_many == a.iter().skip(n / 2 + 1).cloned().collect::<Vec<_>>();
        nth_ok
            && rfolded == a
            && rev_first == a.last().cloned()
            && fresh_len == n
            && skipped == a.first().cloned()
            && len_after_nth == n.saturating_sub(1)
            && last == a.last().cloned()
            && count == n
            && nth1 == a.get(1).cloned()
            && nthb1 == (if n >= 2 { Some(a[n - 2].clone()) } else { None })
            && folded == a
            && last_after_front == (if n >= 2 { a.last().cloned() } else { None })
            && last_after_back == (if n >= 2 { Some(a[n - 2].clone()) } else { None })
            && count_after_front == n.saturating_sub(1)
    }};
}

/// dispatch an iterator script over the ten iterator constructors of a list
#[macro_export]
macro_rules! iter_dispatch {
    ($kind:expr, $args:expr, $c:expr,
     $iter:ident, $iter_lru:ident, $iter_mut:ident, $iter_lru_mut:ident,
     $keys:ident, $keys_lru:ident, $values:ident, $values_lru:ident,
     $values_mut:ident, $values_lru_mut:ident) => {{
        use $crate::subj::{dec_reqs, run_iter, Ints};
        use $crate::types::{TKey, TVal};
        let a: &[i128] = $args;
        let (npre, na, nb) = (a[0] as usize, a[1] as usize, a[2] as usize);
        let (pre, rest) = dec_reqs(npre, &a[3..]);
        let (pa, rest) = dec_reqs(na, rest);
        let (pb, _) = dec_reqs(nb, rest);
        let mut kv = |t: (&TKey, &TVal), _w: Option<u64>| -> Ints { vec![t.0.id as i128, t.1.v as i128] };
        let mut kvm = |t: (&TKey, &mut TVal), w: Option<u64>| -> Ints {
            let old = t.1.v;
            if let Some(w) = w {
                t.1.v = w;
            }
            vec![t.0.id as i128, old as i128]
        };
        let mut k = |t: &TKey, _w: Option<u64>| -> Ints { vec![t.id as i128] };
        let mut v = |t: &TVal, _w: Option<u64>| -> Ints { vec![t.v as i128] };
        let mut vm = |t: &mut TVal, w: Option<u64>| -> Ints {
            let old = t.v;
            if let Some(w) = w {
                t.v = w;
            }
            vec![old as i128]
        };
        match $kind {
            0 => {
                let mut r = run_iter($c.$iter(), &pre, &pa, &pb, Some(&|i| i.clone()), &mut kv);
                if !$crate::iter_fin_ok!($c, $iter, kv) {
                    r.push(-8);
                }
                r
            }
            1 => {
                let mut r = run_iter($c.$iter_lru(), &pre, &pa, &pb, Some(&|i| i.clone()), &mut kv);
                if !$crate::iter_fin_ok!($c, $iter_lru, kv) {
                    r.push(-8);
                }
                r
            }
            2 => {
                let mut r = run_iter($c.$iter_mut(), &pre, &pa, &pb, None, &mut kvm);
                if !$crate::iter_fin_ok!($c, $iter_mut, kvm) {
                    r.push(-8);
                }
                r
            }
            3 => {
                let mut r = run_iter($c.$iter_lru_mut(), &pre, &pa, &pb, None, &mut kvm);
                if !$crate::iter_fin_ok!($c, $iter_lru_mut, kvm) {
                    r.push(-8);
                }
                r
            }
            4 => {
                let mut r = run_iter($c.$keys(), &pre, &pa, &pb, Some(&|i| i.clone()), &mut k);
                if !$crate::iter_fin_ok!($c, $keys, k) {
                    r.push(-8);
                }
                r
            }
            5 => {
                let mut r = run_iter($c.$keys_lru(), &pre, &pa, &pb, Some(&|i| i.clone()), &mut k);
                if !$crate::iter_fin_ok!($c, $keys_lru, k) {
                    r.push(-8);
                }
                r
            }
            6 => {
                let mut r = run_iter($c.$values(), &pre, &pa, &pb, Some(&|i| i.clone()), &mut v);
                if !$crate::iter_fin_ok!($c, $values, v) {
                    r.push(-8);
                }
                r
            }
            7 => {
                let mut r = run_iter($c.$values_lru(), &pre, &pa, &pb, Some(&|i| i.clone()), &mut v);
                if !$crate::iter_fin_ok!($c, $values_lru, v) {
                    r.push(-8);
                }
                r
            }
            8 => {
                let mut r = run_iter($c.$values_mut(), &pre, &pa, &pb, None, &mut vm);
                if !$crate::iter_fin_ok!($c, $values_mut, vm) {
                    r.push(-8);
                }
                r
            }
            9 => {
                let mut r = run_iter($c.$values_lru_mut(), &pre, &pa, &pb, None, &mut vm);
                if !$crate::iter_fin_ok!($c, $values_lru_mut, vm) {
                    r.push(-8);
                }
                r
            }
            _ => vec![-9],
        }
    }};
}

/// set by `audit` when a list is not a well-formed chain matching its index: the runner then ends the
/// history at that call (going on with a corrupted list is undefined behaviour and would only bury the
/// first failure under hangs and aborts)
pub static AUDIT_BAD: std::sync::atomic::AtomicBool = std::sync::atomic::AtomicBool::new(false);

/// Structural audit of one RawLRU through the verification hook.
/// Returns (well-formed, entries most-recent first).
pub fn audit<E, S>(c: &caches::RawLRU<TKey, TVal, E, S>) -> (bool, Vec<(u64, u64)>) {
    let a = c.verif_audit();
    let mut ok = a.walks_terminated && a.sentinels_closed && a.head != a.tail && a.head != 0 && a.tail != 0;
    let fwd_nodes: Vec<usize> = a.fwd.iter().map(|x| x.0).collect();
    let mut bwd = a.bwd.clone();
    bwd.reverse();
    ok &= fwd_nodes == bwd;
    ok &= a.len == a.fwd.len();
    // nodes pairwise distinct, none is a sentinel
    let mut sorted = fwd_nodes.clone();
    sorted.sort_unstable();
    sorted.dedup();
    ok &= sorted.len() == fwd_nodes.len();
    ok &= !fwd_nodes.contains(&a.head) && !fwd_nodes.contains(&a.tail);
    // index = chain, and every KeyRef points at the key field of its own node
    ok &= a.index.len() == a.fwd.len();
    let mut idx_nodes: Vec<usize> = a.index.iter().map(|x| x.1).collect();
    idx_nodes.sort_unstable();
    ok &= idx_nodes == sorted;
    for (kaddr, naddr) in &a.index {
        match a.fwd.iter().find(|x| x.0 == *naddr) {
            Some(n) => ok &= n.1 == *kaddr,
            None => ok = false,
        }
    }
    let ents = a.fwd.iter().map(|x| (x.2.id, x.3.v)).collect();
    if !ok {
        AUDIT_BAD.store(true, std::sync::atomic::Ordering::Relaxed);
    }
    (ok, ents)
}

pub fn snap_list<E, S>(c: &caches::RawLRU<TKey, TVal, E, S>, out: &mut Ints) -> bool {
    let (ok, ents) = audit(c);
    out.push(ents.len() as i128);
    for (k, v) in ents {
        out.push(k as i128);
        out.push(v as i128);
    }
    ok
}


/// The invariant that has to survive a panic in user code (C18): both walks end at the other sentinel
/// without meeting a freed block, they agree, no node is linked twice, and every index entry points at a
/// linked node through the key stored in that node.  Nodes that are linked but not indexed are allowed
/// (they leak).  Returns `code chain_len index_len`: 0 fine, 1 a walk met a freed block (dangling),
/// 2 a walk did not terminate / sentinels damaged, 3 walks disagree, 4 a node linked twice or a sentinel
/// linked, 5 an index entry whose node is not linked or freed, 6 an index key that is not the key field of a
/// linked node of this list, 7 a node indexed twice.  (After a panic a composite cache can hold one key in two
/// lists; `HashMap::insert` of an equal key then keeps the old KeyRef, which points into the other, still linked
/// node with the equal key: harmless, since a node without an index entry of its own is never freed.)
pub fn weak_audit_list<E, S>(c: &caches::RawLRU<TKey, TVal, E, S>, limit: usize, out: &mut Ints) {
    let a = c.verif_audit_checked(limit, &|p| crate::alloc::is_tracked_live(p));
    let fwd_nodes: Vec<usize> = a.fwd.iter().map(|x| x.0).collect();
    let mut bwd = a.bwd.clone();
    bwd.reverse();
    let mut sorted = fwd_nodes.clone();
    sorted.sort_unstable();
    sorted.dedup();
    let mut idx_nodes: Vec<usize> = a.index.iter().map(|x| x.1).collect();
    idx_nodes.sort_unstable();
    let idx_total = idx_nodes.len();
    idx_nodes.dedup();
    let code = if a.dangling.is_some() {
        1
    } else if !a.walks_terminated || !a.sentinels_closed || a.head == a.tail {
        2
    } else if fwd_nodes != bwd {
        3
    } else if sorted.len() != fwd_nodes.len() || fwd_nodes.contains(&a.head) || fwd_nodes.contains(&a.tail) {
        4
    } else if idx_nodes.len() != idx_total {
        7
    } else if a.index.iter().any(|(_, n)| sorted.binary_search(n).is_err() || !crate::alloc::is_tracked_live(*n)) {
        5
    } else if a.index.iter().any(|(kaddr, _)| !a.fwd.iter().any(|x| x.1 == *kaddr)) {
        6
    } else {
        0
    };
    out.push(code);
    out.push(a.fwd.len() as i128);
    out.push(a.index.len() as i128);
}
