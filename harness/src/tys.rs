//! Subjects over other key / value types than the tracked pair: a tracked key with a plain value, a plain key
//! with a tracked value, heap-owning `String`s on either side.  A code path chosen by the types (drop glue,
//! size, alignment) is not reached by `TKey`/`TVal` alone.  These histories are judged on the implementation
//! only (kind 16): the ownership ledger, the block balance at drop, the poison.
use crate::subj::*;
use crate::types::*;
use caches::{AdaptiveCache, Cache, PutResult, RawLRU, ResizableCache, SegmentedCache, TwoQueueCache, WTinyLFUCache};
use std::hash::Hash;

pub trait Mk: Sized {
    /// 1 when the ledger follows the objects of this type
    const TRACKED: i128;
    fn mk(id: u64) -> Self;
    fn id(&self) -> u64;
}
impl Mk for TKey {
    const TRACKED: i128 = 1;
    fn mk(id: u64) -> Self {
        TKey::new(id)
    }
    fn id(&self) -> u64 {
        self.id
    }
}
impl Mk for TVal {
    const TRACKED: i128 = 1;
    fn mk(id: u64) -> Self {
        TVal::new(id)
    }
    fn id(&self) -> u64 {
        self.v
    }
}
impl Mk for u64 {
    const TRACKED: i128 = 0;
    fn mk(id: u64) -> Self {
        id
    }
    fn id(&self) -> u64 {
        *self
    }
}
impl Mk for u8 {
    const TRACKED: i128 = 0;
    fn mk(id: u64) -> Self {
        id as u8
    }
    fn id(&self) -> u64 {
        *self as u64
    }
}
impl Mk for String {
    const TRACKED: i128 = 0;
    fn mk(id: u64) -> Self {
        format!("a heap-allocated string, number {:020}", id)
    }
    fn id(&self) -> u64 {
        self[self.len() - 20..].parse().unwrap()
    }
}
/// a value with a large alignment and no drop glue
#[derive(Clone, Copy)]
#[repr(align(64))]
pub struct Wide(pub u64, pub [u64; 9]);
impl Mk for Wide {
    const TRACKED: i128 = 0;
    fn mk(id: u64) -> Self {
        Wide(id, [id; 9])
    }
    fn id(&self) -> u64 {
        if self.1 != [self.0; 9] {
            u64::MAX
        } else {
            self.0
        }
    }
}

pub struct TySubj<C, K, V> {
    pub c: C,
    /// keys the cache owns (ghost lists included)
    pub retained: fn(&C) -> usize,
    pub resize: Option<fn(&mut C, usize) -> u64>,
    pub clone: Option<fn(&C) -> C>,
    pub _p: std::marker::PhantomData<(K, V)>,
}

fn pr<K: Mk, V: Mk>(r: PutResult<K, V>) -> Ints {
    match &r {
        PutResult::Put => vec![0],
        PutResult::Update(v) => vec![1, v.id() as i128],
        PutResult::Evicted { key, value } => vec![2, key.id() as i128, value.id() as i128],
        PutResult::EvictedAndUpdate { evicted, update } => vec![3, evicted.0.id() as i128, evicted.1.id() as i128, update.id() as i128],
    }
}

impl<K: Mk + Hash + Eq, V: Mk, C: Cache<K, V>> Subject for TySubj<C, K, V> {
    fn apply(&mut self, op: &[i128]) -> Ints {
        let c = &mut self.c;
        let k = |i: usize| K::mk(op[i] as u64);
        match op[0] {
            0 => pr(c.put(k(1), V::mk(op[2] as u64))),
            1 => opt_v(c.get(&k(1)).map(|v| v.id())),
            2 => opt_v(c.get_mut(&k(1)).map(|v| {
                let old = v.id();
                if let Some(w) = w_of(op[2], op[3]) {
                    *v = V::mk(w);
                }
                old
            })),
            3 => opt_v(c.peek(&k(1)).map(|v| v.id())),
            4 => opt_v(c.peek_mut(&k(1)).map(|v| {
                let old = v.id();
                if let Some(w) = w_of(op[2], op[3]) {
                    *v = V::mk(w);
                }
                old
            })),
            5 => vec![c.contains(&k(1)) as i128],
            6 => opt_v(c.remove(&k(1)).map(|v| v.id())),
            7 => {
                c.purge();
                vec![]
            }
            8 => vec![c.len() as i128],
            9 => vec![c.cap() as i128],
            10 => vec![c.is_empty() as i128],
            11 => match self.resize {
                Some(f) => vec![f(c, op[1] as usize) as i128],
                None => vec![-4],
            },
            25 => match self.clone {
                Some(f) => {
                    let c2 = f(c);
                    if (c2.len(), c2.cap()) != (c.len(), c.cap()) {
                        return vec![-7];
                    }
                    // the original is dropped, the history goes on with the clone
                    *c = c2;
                    vec![]
                }
                None => vec![-4],
            },
            _ => vec![-4],
        }
    }
    fn snapshot(&self) -> Ints {
        vec![K::TRACKED, V::TRACKED, (self.retained)(&self.c) as i128, self.c.len() as i128]
    }
}

fn boxed<C: Cache<K, V> + 'static, K: Mk + Hash + Eq + 'static, V: Mk + 'static>(
    c: C,
    retained: fn(&C) -> usize,
    resize: Option<fn(&mut C, usize) -> u64>,
    clone: Option<fn(&C) -> C>,
) -> Box<dyn Subject> {
    Box::new(TySubj { c, retained, resize, clone, _p: std::marker::PhantomData::<(K, V)> })
}

fn mk_for<K: Mk + Hash + Eq + Clone + 'static, V: Mk + Clone + 'static>(cache: u64, size: usize) -> Box<dyn Subject> {
    let size = size.max(1);
    match cache {
        0 => boxed::<_, K, V>(
            RawLRU::<K, V>::new(size).unwrap(),
            |c| c.len(),
            Some(|c, n| c.resize(n)),
            Some(|c| c.clone()),
        ),
        1 => boxed::<_, K, V>(
            SegmentedCache::<K, V>::new(size, size + 1).unwrap(),
            |c| c.len(),
            None,
            Some(|c| c.clone()),
        ),
        2 => boxed::<_, K, V>(
            TwoQueueCache::<K, V>::new(size + 1).unwrap(),
            |c| c.recent_len() + c.frequent_len() + c.ghost_len(),
            None,
            None,
        ),
        3 => boxed::<_, K, V>(
            AdaptiveCache::<K, V>::new(size).unwrap(),
            |c| c.recent_len() + c.frequent_len() + c.recent_evict_len() + c.frequent_evict_len(),
            None,
            None,
        ),
        _ => boxed::<_, K, V>(
            WTinyLFUCache::<K, V>::with_sizes(1, size, size, 16).unwrap(),
            |c| c.len(),
            None,
            Some(|c| c.clone()),
        ),
    }
}

pub const N_INST: u64 = 6;
/// `inst`: which (K, V); `cache`: RawLRU, SegmentedCache, TwoQueueCache, AdaptiveCache, WTinyLFUCache
pub fn mk_typed(inst: u64, cache: u64, size: usize) -> Box<dyn Subject> {
    match inst {
        0 => mk_for::<TKey, u64>(cache, size),
        1 => mk_for::<u64, TVal>(cache, size),
        2 => mk_for::<String, u64>(cache, size),
        3 => mk_for::<u8, String>(cache, size),
        4 => mk_for::<TKey, Wide>(cache, size),
        _ => mk_for::<String, TVal>(cache, size),
    }
}
