//! Subjects: WTinyLFUCache, TinyLFU, SampledLFU.
use crate::comp::trait_op;
use crate::subj::*;
use crate::types::*;
use caches::lfu::{KeyHasher, SampledLFU, TinyLFU, VerifTinyLFUState};
use caches::{Cache, WTinyLFUCache, WTinyLFUCacheBuilder};
use std::borrow::Borrow;
use std::hash::{Hash, Hasher};

/// KeyHasher with a known function of the key id (the model computes the same):
/// 0 identity, 1 multiplicative, 2 constant zero
#[derive(Clone)]
pub struct VKeyHasher(pub u64);
struct Capture(u64);
impl Hasher for Capture {
    fn finish(&self) -> u64 {
        self.0
    }
    fn write(&mut self, bytes: &[u8]) {
        let mut b = [0u8; 8];
        b[..bytes.len().min(8)].copy_from_slice(&bytes[..bytes.len().min(8)]);
        self.0 = u64::from_le_bytes(b);
    }
    fn write_u64(&mut self, i: u64) {
        self.0 = i;
    }
}
pub fn kh_fun(mode: u64, id: u64) -> u64 {
    match mode {
        0 => id,
        1 => id.wrapping_mul(11400714819323198485),
        _ => 0,
    }
}
impl KeyHasher<TKey> for VKeyHasher {
    fn hash_key<Q>(&self, key: &Q) -> u64
    where
        TKey: Borrow<Q>,
        Q: Hash + Eq + ?Sized,
    {
        let mut c = Capture(0);
        key.hash(&mut c);
        kh_fun(self.0, c.finish())
    }
}

pub fn tiny_snapshot(st: &VerifTinyLFUState, out: &mut Ints) {
    out.push(st.w as i128);
    out.push(st.samples as i128);
    out.push(st.bloom_size_exp as i128);
    out.push(st.bloom_mask as i128);
    out.push(st.bloom_set_locs as i128);
    out.push(st.bloom_shift as i128);
    out.push(st.bloom_bitset.len() as i128);
    out.extend(st.bloom_bitset.iter().map(|x| *x as i128));
    out.push(st.sketch_mask as i128);
    out.push(st.sketch_seeds.len() as i128);
    out.extend(st.sketch_seeds.iter().map(|x| *x as i128));
    out.push(st.sketch_rows.len() as i128);
    for r in &st.sketch_rows {
        out.push(r.len() as i128);
        out.extend(r.iter().map(|x| *x as i128));
    }
}

// ---------------------------------------------------------------- WTinyLFUCache
pub struct WTinySubj {
    pub c: WTinyLFUCache<TKey, TVal, VKeyHasher, VHasher, VHasher, VHasher>,
    pub khmode: u64,
    /// the sizes and the number of samples that were asked for (the model is configured with these, not with
    /// what the constructed cache reports)
    pub req: [usize; 4],
}
pub fn mk_wtiny(w: usize, prot: usize, prob: usize, samples: usize, fp: f64, khmode: u64, hmode: u64) -> WTinySubj {
    let c = WTinyLFUCacheBuilder::with_hashers(
        VKeyHasher(khmode),
        VHasher::from_mode(hmode),
        VHasher::from_mode(hmode + 1),
        VHasher::from_mode(hmode + 2),
    )
    .set_window_cache_size(w)
    .set_protected_cache_size(prot)
    .set_probationary_cache_size(prob)
    .set_samples(samples)
    .set_false_positive_ratio(fp)
    .finalize::<TVal>()
    .unwrap();
    WTinySubj { c, khmode, req: [w, prot, prob, samples] }
}
impl Subject for WTinySubj {
    fn apply(&mut self, op: &[i128]) -> Ints {
        if let Some(r) = trait_op(&mut self.c, op) {
            return r;
        }
        let c = &mut self.c;
        match op[0] {
            100 => vec![c.window_cache_len() as i128],
            101 => vec![c.window_cache_cap() as i128],
            102 => vec![c.main_cache_len() as i128],
            103 => vec![c.main_cache_cap() as i128],
            25 => {
                let c2 = c.clone();
                // the clone answers every accessor like the original at this moment
                if (c2.cap(), c2.len(), c2.is_empty(), c2.window_cache_cap(), c2.window_cache_len(), c2.main_cache_cap(), c2.main_cache_len())
                    != (c.cap(), c.len(), c.is_empty(), c.window_cache_cap(), c.window_cache_len(), c.main_cache_cap(), c.main_cache_len())
                {
                    return vec![-7];
                }
                // ... and its estimator answers like the original's, key by key (same key hasher, same counters)
                {
                    let (t1, _, _) = c.verif_parts();
                    let (t2, _, _) = c2.verif_parts();
                    if (0..24u64).any(|k| t1.estimate(&KQ(k)) != t2.estimate(&KQ(k)) || t1.contains(&KQ(k)) != t2.contains(&KQ(k))) {
                        return vec![-7];
                    }
                }
                // Clone::clone_from into a cache that has moved on: afterwards it answers like the source
                {
                    let mut d = c.clone();
                    let _ = d.put(TKey::new(u64::MAX - 7), TVal::new(7));
                    d.clone_from(c);
                    let (t1, _, _) = c.verif_parts();
                    let (t2, _, _) = d.verif_parts();
                    if (d.cap(), d.len(), d.window_cache_len(), d.main_cache_len()) != (c.cap(), c.len(), c.window_cache_len(), c.main_cache_len())
                        || d.contains(&KQ(u64::MAX - 7))
                        || t1.verif_state() != t2.verif_state()
                    {
                        return vec![-7];
                    }
                }
                let old = std::mem::replace(c, c2);
                let n = old.len() as u64;
                let before = ledger_drain();
                drop(old);
                let after = ledger_drain();
                let ok = after.0 == n && after.1 == n && after.2 == before.2;
                LEDGER.with(|l| {
                    let mut l = l.borrow_mut();
                    l.dropped_keys += before.0;
                    l.dropped_vals += before.1;
                });
                if ok {
                    vec![]
                } else {
                    vec![-6]
                }
            }
            _ => vec![-4],
        }
    }
    fn snapshot(&self) -> Ints {
        let (t, w, m) = self.c.verif_parts();
        let (prob, prot) = m.verif_parts();
        let mut out = vec![w.cap() as i128, prob.cap() as i128, prot.cap() as i128];
        let a = snap_list(w, &mut out);
        let b = snap_list(prob, &mut out);
        let c = snap_list(prot, &mut out);
        out.push((a && b && c) as i128);
        tiny_snapshot(&t.verif_state(), &mut out);
        out
    }
    fn weak_audit(&self, limit: usize) -> Ints {
        let (_, w, m) = self.c.verif_parts();
        let (prob, prot) = m.verif_parts();
        let mut out = vec![];
        weak_audit_list(w, limit, &mut out);
        weak_audit_list(prob, limit, &mut out);
        weak_audit_list(prot, limit, &mut out);
        out
    }
    fn cfg_override(&self) -> Option<Ints> {
        let (t, w, m) = self.c.verif_parts();
        let (prob, prot) = m.verif_parts();
        let st = t.verif_state();
        let _ = (w, prot, prob);
        let mut cfg = vec![
            self.req[0] as i128,
            self.req[1] as i128,
            self.req[2] as i128,
            self.req[3] as i128,
            self.khmode as i128,
            st.bloom_size_exp as i128,
            st.bloom_set_locs as i128,
        ];
        cfg.extend(st.sketch_seeds.iter().map(|x| *x as i128));
        Some(cfg)
    }
}

// ---------------------------------------------------------------- TinyLFU
pub struct TinySubj {
    pub t: TinyLFU<TKey>,
    pub size: usize,
    pub samples: usize,
    rewrite: Option<Ints>,
}
pub fn mk_tiny(size: usize, samples: usize, fp: f64) -> TinySubj {
    TinySubj { t: TinyLFU::<TKey>::new(size, samples, fp).unwrap(), size, samples, rewrite: None }
}
impl Subject for TinySubj {
    fn apply(&mut self, op: &[i128]) -> Ints {
        let t = &mut self.t;
        let h = |i: usize| op[i] as u64;
        match op[0] {
            80 => {
                t.increment_hashed_key(h(1));
                vec![]
            }
            81 => {
                let k = KQ(h(1));
                let hk = t.hash_key(&k);
                self.rewrite = Some(vec![81, op[1], hk as i128]);
                t.increment(&k);
                vec![]
            }
            82 => {
                let hs: Vec<u64> = op[1..].iter().map(|x| *x as u64).collect();
                t.increment_hashed_keys(&hs);
                vec![]
            }
            83 => {
                // `83 n id1..idn [h1..hn]`: the hashes are (re)computed with the real KeyHasher
                let n = op[1] as usize;
                let ks: Vec<KQ> = op[2..2 + n].iter().map(|i| KQ(*i as u64)).collect();
                let mut rw: Ints = op[..2 + n].to_vec();
                for k in &ks {
                    rw.push(t.hash_key(k) as i128);
                }
                self.rewrite = Some(rw);
                let refs: Vec<&KQ> = ks.iter().collect();
                t.increment_keys(&refs);
                vec![]
            }
            84 => vec![t.estimate_hashed_key(h(1)) as i128],
            85 => {
                let k = KQ(h(1));
                self.rewrite = Some(vec![85, op[1], t.hash_key(&k) as i128]);
                vec![t.estimate(&k) as i128]
            }
            86 => {
                t.try_reset();
                vec![]
            }
            87 => {
                t.clear();
                vec![]
            }
            88 => vec![t.contains_hash(h(1)) as i128],
            89 => {
                let k = KQ(h(1));
                self.rewrite = Some(vec![89, op[1], t.hash_key(&k) as i128]);
                vec![t.contains(&k) as i128]
            }
            90 => {
                let (a, b) = (KQ(h(1)), KQ(h(2)));
                self.rewrite = Some(vec![90, op[1], op[2], t.hash_key(&a) as i128, t.hash_key(&b) as i128]);
                vec![
                    t.eq(&a, &b) as i128,
                    t.le(&a, &b) as i128,
                    t.lt(&a, &b) as i128,
                    t.gt(&a, &b) as i128,
                    t.ge(&a, &b) as i128,
                ]
            }
            91 => {
                let c = t.clone();
                // same counters, and the same answers key by key (the key hasher is part of the object)
                let mut same = c.verif_state() == t.verif_state()
                    && (0..24u64).all(|k| c.estimate(&KQ(k)) == t.estimate(&KQ(k)) && c.contains(&KQ(k)) == t.contains(&KQ(k)));
                // Clone::clone_from into an estimator that has moved on: afterwards it is the source again
                let mut d = t.clone();
                d.increment_hashed_key(0x9e37_79b9_7f4a_7c15);
                d.increment_hashed_key(0x9e37_79b9_7f4a_7c15);
                d.increment_hashed_key(3);
                d.clone_from(t);
                same &= d.verif_state() == t.verif_state();
                *t = c;
                if same {
                    vec![]
                } else {
                    vec![-6]
                }
            }
            _ => vec![-4],
        }
    }
    fn snapshot(&self) -> Ints {
        let mut out = Vec::new();
        tiny_snapshot(&self.t.verif_state(), &mut out);
        out
    }
    fn cfg_override(&self) -> Option<Ints> {
        let st = self.t.verif_state();
        let mut cfg = vec![
            self.size as i128,
            self.samples as i128,
            st.bloom_size_exp as i128,
            st.bloom_set_locs as i128,
        ];
        cfg.extend(st.sketch_seeds.iter().map(|x| *x as i128));
        Some(cfg)
    }
    fn take_op_rewrite(&mut self) -> Option<Ints> {
        self.rewrite.take()
    }
}

// ---------------------------------------------------------------- SampledLFU
pub struct SampledSubj {
    pub s: SampledLFU<TKey>,
    rewrite: Option<Ints>,
}
pub fn mk_sampled(max_cost: i64, samples: usize, ctor: u64) -> SampledSubj {
    // all seven constructors; with the default hasher / key hasher types they build the same type
    // (0, 2, 4 take the default number of samples, 5)
    use caches::lfu::DefaultKeyHasher as DK;
    use caches::DefaultHashBuilder as DH;
    let s = match ctor {
        0 if samples == 5 => SampledLFU::<TKey>::new(max_cost),
        2 if samples == 5 => SampledLFU::<TKey>::with_hasher(max_cost, DH::default()),
        3 => SampledLFU::<TKey>::with_samples_and_hasher(max_cost, samples, DH::default()),
        4 if samples == 5 => SampledLFU::<TKey>::with_key_hasher(max_cost, DK::<TKey>::default()),
        5 => SampledLFU::<TKey>::with_samples_and_key_hasher(max_cost, samples, DK::<TKey>::default()),
        6 => SampledLFU::<TKey>::with_samples_and_key_hasher_and_hasher(max_cost, samples, DK::<TKey>::default(), DH::default()),
        _ => SampledLFU::<TKey>::with_samples(max_cost, samples),
    };
    SampledSubj { s, rewrite: None }
}
impl Subject for SampledSubj {
    fn apply(&mut self, op: &[i128]) -> Ints {
        let s = &mut self.s;
        match op[0] {
            110 => {
                s.increment_hashed_key(op[1] as u64, op[2] as i64);
                vec![]
            }
            111 => {
                let k = KQ(op[1] as u64);
                self.rewrite = Some(vec![111, op[1], op[2], s.hash_key(&k) as i128]);
                s.increment(&k, op[2] as i64);
                vec![]
            }
            112 => vec![s.update_hashed_key(op[1] as u64, op[2] as i64) as i128],
            113 => {
                let k = KQ(op[1] as u64);
                self.rewrite = Some(vec![113, op[1], op[2], s.hash_key(&k) as i128]);
                vec![s.update(&k, op[2] as i64) as i128]
            }
            114 => match s.remove_hashed_key(op[1] as u64) {
                Some(c) => vec![1, c as i128],
                None => vec![0],
            },
            115 => {
                let k = KQ(op[1] as u64);
                self.rewrite = Some(vec![115, op[1], s.hash_key(&k) as i128]);
                match s.remove(&k) {
                    Some(c) => vec![1, c as i128],
                    None => vec![0],
                }
            }
            116 => {
                s.clear();
                vec![]
            }
            117 => {
                s.update_max_cost(op[1] as i64);
                vec![]
            }
            118 => vec![s.get_max_cost() as i128],
            119 => vec![s.room_left(op[1] as i64) as i128],
            120 => {
                let nin = op[1] as usize;
                let input: Vec<(u64, i64)> = (0..nin).map(|i| (op[2 + 2 * i] as u64, op[3 + 2 * i] as i64)).collect();
                // the vector handed over has spare capacity that varies with the call (a reused buffer, a
                // `with_capacity` guess): what comes back must not depend on it
                let spare = [0usize, 1, 3, 16, 64][(op.iter().map(|x| (*x & 0xffff) as usize).sum::<usize>()) % 5];
                let mut handed: Vec<(u64, i64)> = Vec::with_capacity(nin + spare);
                handed.extend(input.iter().cloned());
                let out = s.fill_sample(handed);
                let prefix_ok = out.len() >= input.len() && out[..input.len()] == input[..];
                let app = if prefix_ok { &out[input.len()..] } else { &out[..] };
                let mut rw: Ints = op[..2 + 2 * nin].to_vec();
                rw.push(app.len() as i128);
                for (k, c) in app {
                    rw.push(*k as i128);
                    rw.push(*c as i128);
                }
                self.rewrite = Some(rw);
                vec![prefix_ok as i128]
            }
            _ => vec![-4],
        }
    }
    fn snapshot(&self) -> Ints {
        let (used, samples, mut pairs) = self.s.verif_state();
        pairs.sort();
        let mut out = vec![self.s.get_max_cost() as i128, used as i128, samples as i128, pairs.len() as i128];
        for (k, c) in pairs {
            out.push(k as i128);
            out.push(c as i128);
        }
        out
    }
    fn take_op_rewrite(&mut self) -> Option<Ints> {
        self.rewrite.take()
    }
}
