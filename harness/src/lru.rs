//! Subject: RawLRU<TKey, TVal, E, S>, the whole public API.
use crate::iter_dispatch;
use crate::subj::*;
use crate::types::*;
use caches::{Cache, OnEvictCallback, RawLRU, ResizableCache};
use std::hash::BuildHasher;

pub struct LruSubj<E, S> {
    pub c: RawLRU<TKey, TVal, E, S>,
}

impl<E: OnEvictCallback + Clone, S: BuildHasher + Clone> Subject for LruSubj<E, S> {
    fn apply(&mut self, op: &[i128]) -> Ints {
        let c = &mut self.c;
        let k = |i: usize| op[i] as u64;
        match op[0] {
            0 => put_res(c.put(TKey::new(k(1)), TVal::new(k(2)))),
            1 => opt_v(c.get(&KQ(k(1))).map(|v| v.v)),
            2 => opt_v(c.get_mut(&KQ(k(1))).map(|v| {
                let old = v.v;
                if let Some(w) = w_of(op[2], op[3]) {
                    v.v = w;
                }
                old
            })),
            3 => opt_v(c.peek(&KQ(k(1))).map(|v| v.v)),
            4 => opt_v(c.peek_mut(&KQ(k(1))).map(|v| {
                let old = v.v;
                if let Some(w) = w_of(op[2], op[3]) {
                    v.v = w;
                }
                old
            })),
            5 => vec![c.contains(&KQ(k(1))) as i128],
            6 => opt_v(c.remove(&KQ(k(1))).map(|v| v.v)),
            7 => {
                c.purge();
                vec![]
            }
            8 => vec![c.len() as i128],
            9 => vec![c.cap() as i128],
            10 => vec![c.is_empty() as i128],
            // (liar slice) cloning a key merges neighbouring keys / is faithful again
            95 => {
                crate::types::CLONE_MERGE.store(op[1] != 0, std::sync::atomic::Ordering::Relaxed);
                vec![]
            }
            // (liar slice) from now on every key hashes differently
            96 => {
                crate::types::SALT.store(op[1] as u64, std::sync::atomic::Ordering::Relaxed);
                vec![]
            }
            11 => vec![c.resize(k(1) as usize) as i128],
            12 => opt_kv(c.get_lru().map(|(k, v)| (k.id, v.v))),
            13 => opt_kv(c.get_mru().map(|(k, v)| (k.id, v.v))),
            14 => opt_kv(c.get_lru_mut().map(|(k, v)| {
                let old = v.v;
                if let Some(w) = w_of(op[1], op[2]) {
                    v.v = w;
                }
                (k.id, old)
            })),
            15 => opt_kv(c.get_mru_mut().map(|(k, v)| {
                let old = v.v;
                if let Some(w) = w_of(op[1], op[2]) {
                    v.v = w;
                }
                (k.id, old)
            })),
            16 => {
                let (a, b) = c.peek_or_put(TKey::new(k(1)), TVal::new(k(2)));
                let mut o = opt_v(a.map(|v| v.v));
                o.extend(opt_put_res(b));
                o
            }
            17 => {
                let (a, b) = c.peek_mut_or_put(TKey::new(k(1)), TVal::new(k(2)));
                let mut o = opt_v(a.map(|v| {
                    let old = v.v;
                    if let Some(w) = w_of(op[3], op[4]) {
                        v.v = w;
                    }
                    old
                }));
                o.extend(opt_put_res(b));
                o
            }
            18 => {
                let (a, b) = c.contains_or_put(TKey::new(k(1)), TVal::new(k(2)));
                let mut o = vec![a as i128];
                o.extend(opt_put_res(b));
                o
            }
            19 => opt_kv(c.peek_lru().map(|(k, v)| (k.id, v.v))),
            20 => opt_kv(c.peek_lru_mut().map(|(k, v)| {
                let old = v.v;
                if let Some(w) = w_of(op[1], op[2]) {
                    v.v = w;
                }
                (k.id, old)
            })),
            21 => opt_kv(c.peek_mru().map(|(k, v)| (k.id, v.v))),
            22 => opt_kv(c.peek_mru_mut().map(|(k, v)| {
                let old = v.v;
                if let Some(w) = w_of(op[1], op[2]) {
                    v.v = w;
                }
                (k.id, old)
            })),
            23 => opt_kv(c.remove_lru().map(|(k, v)| (k.id, v.v))),
            24 => {
                let kind = op[1];
                match kind {
                    10 => {
                        // IntoIterator for &RawLRU
                        let mut o2 = op.to_vec();
                        o2[1] = 0;
                        let r = &*c;
                        struct W<'a, E, S>(&'a RawLRU<TKey, TVal, E, S>);
                        impl<'a, E: OnEvictCallback, S: BuildHasher> W<'a, E, S> {
                            fn it(&self) -> caches::lru::MRUIter<'a, TKey, TVal> {
                                self.0.into_iter()
                            }
                        }
                        let w = W(r);
                        let a: &[i128] = &o2[2..];
                        let (npre, na, nb) = (a[0] as usize, a[1] as usize, a[2] as usize);
                        let (pre, rest) = dec_reqs(npre, &a[3..]);
                        let (pa, rest) = dec_reqs(na, rest);
                        let (pb, _) = dec_reqs(nb, rest);
                        let mut kv = |t: (&TKey, &TVal), _w: Option<u64>| -> Ints {
                            vec![t.0.id as i128, t.1.v as i128]
                        };
                        run_iter(w.it(), &pre, &pa, &pb, Some(&|i| i.clone()), &mut kv)
                    }
                    11 => {
                        let a: &[i128] = &op[2..];
                        let (npre, na, nb) = (a[0] as usize, a[1] as usize, a[2] as usize);
                        let (pre, rest) = dec_reqs(npre, &a[3..]);
                        let (pa, rest) = dec_reqs(na, rest);
                        let (pb, _) = dec_reqs(nb, rest);
                        let mut kvm = |t: (&TKey, &mut TVal), w: Option<u64>| -> Ints {
                            let old = t.1.v;
                            if let Some(w) = w {
                                t.1.v = w;
                            }
                            vec![t.0.id as i128, old as i128]
                        };
                        let it = (&mut *c).into_iter();
                        run_iter(it, &pre, &pa, &pb, None, &mut kvm)
                    }
                    _ => iter_dispatch!(
                        kind, &op[2..], c, iter, iter_lru, iter_mut, iter_lru_mut, keys, keys_lru,
                        values, values_lru, values_mut, values_lru_mut
                    ),
                }
            }
            25 => {
                let c2 = c.clone();
                // the clone answers every accessor like the original at this moment
                // (with a Clone of the key that merges keys - lruliar slice - the clone legitimately holds fewer entries)
                let merging = crate::types::CLONE_MERGE.load(std::sync::atomic::Ordering::Relaxed);
                if !merging && (c2.cap(), c2.len(), c2.is_empty()) != (c.cap(), c.len(), c.is_empty()) {
                    return vec![-7];
                }
                // Clone::clone_from into a cache that has moved on: afterwards it is the source again
                if !merging {
                    let mut d = c.clone();
                    if let Some(n) = d.cap().checked_add(1) {
                        d.resize(n);
                    }
                    d.clone_from(c);
                    let a: Vec<(u64, u64)> = c.iter().map(|(k, v)| (k.id, v.v)).collect();
                    let b: Vec<(u64, u64)> = d.iter().map(|(k, v)| (k.id, v.v)).collect();
                    if (d.cap(), d.len()) != (c.cap(), c.len()) || a != b {
                        return vec![-7];
                    }
                }
                // the original is dropped here: exercise independence of the clone
                let old = std::mem::replace(c, c2);
                let n = old.len() as u64;
                let before = ledger_drain();
                drop(old);
                let after = ledger_drain();
                // dropping the original must release exactly its own n keys and n values
                let ok = after.0 == n && after.1 == n && after.2 == before.2;
                // give the in-call counts back to the ledger (clone itself drops nothing)
                LEDGER.with(|l| {
                    let mut l = l.borrow_mut();
                    l.dropped_keys += before.0;
                    l.dropped_vals += before.1;
                    l.cb.extend(before.3.iter().cloned());
                    l.cb.extend(after.3.iter().cloned());
                });
                if ok {
                    vec![]
                } else {
                    vec![-6]
                }
            }
            26 => {
                let s = format!("{:?}", c);
                let want = format!("RawLRU {{ len: {}, cap: {} }}", c.len(), c.cap());
                if s == want {
                    vec![c.len() as i128, c.cap() as i128]
                } else {
                    vec![-5]
                }
            }
            _ => vec![-4],
        }
    }

    fn snapshot(&self) -> Ints {
        let mut out = vec![self.c.cap() as i128];
        let ok = snap_list(&self.c, &mut out);
        out.push(ok as i128);
        out
    }
    fn weak_audit(&self, limit: usize) -> Ints {
        let mut out = vec![];
        weak_audit_list(&self.c, limit, &mut out);
        out
    }
}
