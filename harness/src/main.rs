#![allow(dead_code)]
//! vharness: runs generated and enumerated histories on the real caches of /repo and writes
//! the trace that the extracted Coq model replays.
//!
//!   vharness <slice> --seed N --n CASES --len MAXLEN --out trace.txt [--shard i/m] [--bfs DEPTH]
mod alloc;
mod comp;
mod ctor;
mod fault;
mod gen;
mod hlru;
mod lfu;
mod lru;
mod prng;
mod putres;
mod runner;
mod subj;
mod types;
mod tys;
mod zst;

use runner::*;
use subj::*;
use types::*;

#[global_allocator]
static GLOBAL: alloc::VAlloc = alloc::VAlloc;

pub struct Args {
    pub slice: String,
    pub seed: u64,
    pub n: u64,
    pub len: u64,
    pub out: String,
    pub shard: (u64, u64),
    pub bfs: u64,
    pub corpus: Option<String>,
    /// C17: every history is run five times, once per BuildHasher (case i uses stream i/5, hasher i%5)
    pub hgroup: bool,
    /// large capacities (hundreds of entries), so that lists fill up and churn at sizes the small configurations
    /// never reach
    pub big: bool,
    /// W-TinyLFU: tiny caches, a handful of keys, long sample windows and long histories, so that the 4-bit counters
    /// saturate and estimates of 15 and 16 meet in the admission test
    pub hot: bool,
}

fn parse_args() -> Args {
    let a: Vec<String> = std::env::args().collect();
    let mut r = Args {
        slice: a.get(1).cloned().unwrap_or_default(),
        seed: 1,
        n: 100,
        len: 100,
        out: "trace.txt".into(),
        shard: (0, 1),
        bfs: 0,
        corpus: None,
        hgroup: false,
        big: false,
        hot: false,
    };
    let mut i = 2;
    while i < a.len() {
        let v = a.get(i + 1).cloned().unwrap_or_default();
        match a[i].as_str() {
            "--seed" => r.seed = v.parse().unwrap(),
            "--n" => r.n = v.parse().unwrap(),
            "--len" => r.len = v.parse().unwrap(),
            "--out" => r.out = v,
            "--bfs" => r.bfs = v.parse().unwrap(),
            "--corpus" => r.corpus = Some(v),
            "--hgroup" => r.hgroup = v != "0",
            "--big" => r.big = v != "0",
            "--hot" => r.hot = v != "0",
            "--shard" => {
                let p: Vec<&str> = v.split('/').collect();
                r.shard = (p[0].parse().unwrap(), p[1].parse().unwrap());
            }
            x => panic!("unknown argument {}", x),
        }
        i += 2;
    }
    r
}

/// (is this case mine, rng stream, forced hasher) for case number `i`
fn case_plan(a: &Args, i: u64) -> (bool, u64, Option<u64>) {
    if a.hgroup {
        ((i / 5) % a.shard.1 == a.shard.0, i / 5, Some(i % 5))
    } else {
        (i % a.shard.1 == a.shard.0, i, None)
    }
}

fn tag(op: &[i128]) -> String {
    format!("op{}", op[0])
}

/// the four constructors of RawLRU: `ctor` 0 = new, 1 = with_hasher, 2 = with_on_evict_cb,
/// 3 = with_on_evict_cb_and_hasher
pub fn mk_lru(cap: usize, ctor: u64, hmode: u64) -> Box<dyn Subject> {
    use caches::RawLRU;
    match ctor {
        0 => Box::new(lru::LruSubj { c: RawLRU::<TKey, TVal>::new(cap).unwrap() }),
        1 => Box::new(lru::LruSubj {
            c: RawLRU::<TKey, TVal, caches::DefaultEvictCallback, VHasher>::with_hasher(cap, VHasher::from_mode(hmode)).unwrap(),
        }),
        2 => Box::new(lru::LruSubj { c: RawLRU::<TKey, TVal, RecCb>::with_on_evict_cb(cap, RecCb).unwrap() }),
        _ => Box::new(lru::LruSubj {
            c: RawLRU::<TKey, TVal, RecCb, VHasher>::with_on_evict_cb_and_hasher(cap, RecCb, VHasher::from_mode(hmode)).unwrap(),
        }),
    }
}

fn slice_lru(a: &Args, t: &mut Trace) {
    let caps: [u64; 10] = [1, 1, 2, 2, 3, 3, 4, 5, 8, 16];
    for i in 0..a.n {
        let (mine, stream, hforce) = case_plan(a, i);
        if !mine {
            continue;
        }
        let mut r = rng_for(a.seed, stream);
        let cap = if a.big { *r.pick(&[20u64, 28, 100, 257, 300, 513]) } else if r.chance(1, 40) { 128 } else { *r.pick(&caps) };
        let ctor = r.below(4);
        let ctor = if a.hgroup { if ctor >= 2 { 3 } else { 1 } } else { ctor };
        let hmode = r.below(5);
        let hmode = hforce.unwrap_or(hmode);
        let len = r.range(a.len / 4 + 1, a.len) as usize;
        let mut kg = gen::KeyGen::new(cap + 3);
        let mut vg = gen::ValGen(1000);
        let mut bias = gen::BigBias::new(2 * cap + 7);
        let big = a.big;
        let cfg = [cap as i128, (ctor >= 2) as i128];
        let id = format!("lru-s{}-i{}", a.seed, i);
        let meta = format!("ctor={} hasher={}", ctor, hmode);
        run_case(
            t,
            &id,
            0,
            &cfg,
            &meta,
            &|| mk_lru(cap as usize, ctor, hmode),
            &mut |step, snap| {
                if step >= len {
                    None
                } else {
                    let op = gen::lru_op(&mut r, &mut kg, &mut vg, snap, cap);
                    Some(if big { bias.shape(&mut r, &mut vg, op, &gen::lru_resident(snap), &[6, 7, 11, 23], cap) } else { op })
                }
            },
            &tag,
        );
    }
}


/// RawLRU<TKey, ()> (zst.rs): the histories of an LRU set, replayed in the model of kind 0
fn slice_lruzst(a: &Args, t: &mut Trace) {
    let caps: [u64; 8] = [1, 2, 2, 3, 3, 4, 5, 8];
    for i in 0..a.n {
        let (mine, stream, _) = case_plan(a, i);
        if !mine {
            continue;
        }
        let mut r = rng_for(a.seed, stream + 18_000_000);
        let cap = *r.pick(&caps);
        let len = r.range(a.len / 4 + 1, a.len) as usize;
        let mut kg = gen::KeyGen::new(cap + 3);
        let mut vg = gen::ValGen(1000);
        let cfg = [cap as i128, 0];
        let id = format!("lruzst-s{}-i{}", a.seed, i);
        run_case(
            t,
            &id,
            0,
            &cfg,
            "zst=1",
            &|| Box::new(zst::ZLruSubj::new(cap as usize)),
            &mut |step, snap| {
                if step >= len {
                    None
                } else {
                    let op = gen::lru_op(&mut r, &mut kg, &mut vg, snap, cap);
                    Some(if zst::OPS.contains(&op[0]) { op } else { vec![0, op.get(1).cloned().unwrap_or(0).max(0) % (cap as i128 + 3), vg.next()] })
                }
            },
            &tag,
        );
    }
}

/// SegmentedCache / TwoQueueCache / AdaptiveCache over (TKey, ()), built by the plain constructors, replayed in the
/// models of kinds 1-3 (zst.rs)
fn slice_compzst(a: &Args, t: &mut Trace) {
    use caches::{AdaptiveCache, SegmentedCache, TwoQueueCache};
    for i in 0..a.n {
        let (mine, stream, _) = case_plan(a, i);
        if !mine {
            continue;
        }
        let mut r = rng_for(a.seed, stream + 19_000_000);
        let which = 1 + (i % 4) as u32;
        let len = r.range(a.len / 4 + 1, a.len) as usize;
        let mut vg = gen::ValGen(1000);
        let id = format!("compzst-s{}-i{}", a.seed, i);
        match which {
            4 => {
                let (w, prot, prob) = (r.range(1, 3), r.range(1, 3), r.range(1, 3));
                let samples = *r.pick(&[1u64, 2, 3, 5, 8, 16, 64, 300]);
                let fpi = r.below(FPS.len() as u64) as usize;
                let khmode = r.below(3);
                let hmode = r.below(5);
                let mut kg = gen::KeyGen::new(w + prot + prob + 4);
                let ops: &[i128] = <zst::ZWTiny as zst::ZComp>::OPS;
                let meta = format!("zst=1 w={} prot={} prob={} samples={} fpi={} kh={} hasher={}", w, prot, prob, samples, fpi, khmode, hmode);
                run_case(t, &id, 4, &[], &meta,
                    &|| Box::new(zst::ZCompSubj::new(zst::mk_zwtiny(w as usize, prot as usize, prob as usize, samples as usize, FPS[fpi], khmode, hmode))),
                    &mut |step, snap| if step >= len { None } else {
                        let op = gen::wtiny_op(&mut r, &mut kg, &mut vg, snap);
                        Some(if ops.contains(&op[0]) { op } else { vec![0, r.below(w + prot + prob + 4) as i128, vg.next()] })
                    }, &tag);
            }
            1 => {
                let (pc, fc) = (r.range(1, 4), r.range(1, 4));
                let mut kg = gen::KeyGen::new(pc + fc + 3);
                let ops: &[i128] = <SegmentedCache<TKey, ()> as zst::ZComp>::OPS;
                run_case(t, &id, 1, &[pc as i128, fc as i128], "zst=1 via=1",
                    &|| Box::new(zst::ZCompSubj::new(SegmentedCache::<TKey, ()>::new(pc as usize, fc as usize).unwrap())),
                    &mut |step, snap| if step >= len { None } else {
                        let op = gen::slru_op(&mut r, &mut kg, &mut vg, snap);
                        Some(if ops.contains(&op[0]) { op } else { vec![0, r.below(pc + fc + 3) as i128, vg.next()] })
                    }, &tag);
            }
            2 => {
                let size = r.range(2, 8) as usize;
                let (rs, es) = twoq_quotas(size, 0.25, 0.5);
                if es == 0 {
                    continue;
                }
                let mut kg = gen::KeyGen::new(size as u64 + es as u64 + 3);
                let ops: &[i128] = <TwoQueueCache<TKey, ()> as zst::ZComp>::OPS;
                run_case(t, &id, 2, &[size as i128, rs as i128, es as i128], "zst=1 via=1",
                    &|| Box::new(zst::ZCompSubj::new(TwoQueueCache::<TKey, ()>::new(size).unwrap())),
                    &mut |step, snap| if step >= len { None } else {
                        let op = gen::twoq_op(&mut r, &mut kg, &mut vg, snap);
                        Some(if ops.contains(&op[0]) { op } else { vec![0, r.below(size as u64 + es as u64 + 3) as i128, vg.next()] })
                    }, &tag);
            }
            _ => {
                let size = r.range(1, 6) as usize;
                let mut kg = gen::KeyGen::new(2 * size as u64 + 3);
                let ops: &[i128] = <AdaptiveCache<TKey, ()> as zst::ZComp>::OPS;
                run_case(t, &id, 3, &[size as i128], "zst=1 via=1",
                    &|| Box::new(zst::ZCompSubj::new(AdaptiveCache::<TKey, ()>::new(size).unwrap())),
                    &mut |step, snap| if step >= len { None } else {
                        let op = gen::arc_op(&mut r, &mut kg, &mut vg, snap);
                        Some(if ops.contains(&op[0]) { op } else { vec![0, r.below(2 * size as u64 + 3) as i128, vg.next()] })
                    }, &tag);
            }
        }
    }
}

/// RawLRU under a hasher whose answers change while keys are stored (`VHasher::Liar`, op 96 changes the salt): what a
/// key with interior state read by its `Hash` does, in safe code.  The index then loses and duplicates keys, so no model
/// predicts the results; the histories are judged on the implementation only: the structural audit after every call,
/// the weak audit after a panic of the library's own `unwrap`s, the ledger, the poison, the blocks at drop (C03, C04)
fn slice_lruliar(a: &Args, t: &mut Trace) {
    let caps: [u64; 8] = [1, 2, 2, 3, 3, 4, 5, 8];
    for i in 0..a.n {
        let (mine, stream, _) = case_plan(a, i);
        if !mine {
            continue;
        }
        let mut r = rng_for(a.seed, stream + 96_000_000);
        let cap = *r.pick(&caps);
        let ctor = if r.chance(1, 2) { 1 } else { 3 };
        let len = r.range(a.len / 4 + 1, a.len) as usize;
        let mut kg = gen::KeyGen::new(cap + 3);
        let mut vg = gen::ValGen(1000);
        let cfg = [cap as i128, (ctor >= 2) as i128];
        let id = format!("lruliar-s{}-i{}", a.seed, i);
        let meta = format!("ctor={} hasher=5", ctor);
        run_case(
            t,
            &id,
            17,
            &cfg,
            &meta,
            &|| Box::new(LiarSubj(mk_lru(cap as usize, ctor, 5))),
            &mut |step, snap| {
                if step >= len {
                    None
                } else if r.chance(1, 10) {
                    Some(vec![96, *r.pick(&[0u64, 1, 2, 3, 8, 1 << 40, u64::MAX]) as i128])
                } else if r.chance(1, 25) {
                    // a Clone of the key that merges neighbouring keys, switched on or off; clones follow soon (op 25)
                    Some(vec![95, r.below(2) as i128])
                } else if r.chance(1, 20) {
                    Some(vec![25])
                } else {
                    // (a shrinking `resize` loops on `remove_lru` until the index is small enough: with an index that
                    // cannot find the least recent key it need not end - non-termination is among the outcomes the
                    // standard library allows for a key whose hash changes; it is not a memory error)
                    let op = gen::lru_op(&mut r, &mut kg, &mut vg, &vec![], cap);
                    Some(if op[0] == 11 { vec![8] } else { op })
                }
            },
            &tag,
        );
    }
}

/// a subject whose snapshot is the weak audit of its lists (`code chain_len index_len` per list): what is left of
/// the structure when the index cannot be trusted
pub struct LiarSubj(pub Box<dyn Subject>);
impl Subject for LiarSubj {
    fn apply(&mut self, op: &[i128]) -> Ints {
        self.0.apply(op)
    }
    fn snapshot(&self) -> Ints {
        let w = self.0.weak_audit(1 << 16);
        if w.first() != Some(&0) {
            // damaged: the line is written, the object is leaked and not used again
            crate::subj::AUDIT_BAD.store(true, std::sync::atomic::Ordering::Relaxed);
        }
        w
    }
    fn weak_audit(&self, limit: usize) -> Ints {
        self.0.weak_audit(limit)
    }
}

/// RawLRU with resize to huge capacities (usize::MAX, 2^63, ...): "resize to any value" of C05.  The layer-L
/// model keeps capacities in unary, so these histories are judged on the implementation only (no panic,
/// bounds, accounting: the monitors of C05 / C01)
fn slice_lruhuge(a: &Args, t: &mut Trace) {
    let caps: [u64; 6] = [1, 2, 3, 4, 8, 16];
    for i in 0..a.n {
        let (mine, stream, hforce) = case_plan(a, i);
        if !mine {
            continue;
        }
        let mut r = rng_for(a.seed, stream + 77_000_000);
        let cap = *r.pick(&caps);
        let ctor = r.below(4);
        let hmode = hforce.unwrap_or(r.below(5));
        let len = r.range(a.len / 4 + 1, a.len) as usize;
        let mut kg = gen::KeyGen::new(cap + 3);
        let mut vg = gen::ValGen(1000);
        let cfg = [cap as i128, (ctor >= 2) as i128];
        let id = format!("lruhuge-s{}-i{}", a.seed, i);
        let meta = format!("ctor={} hasher={}", ctor, hmode);
        run_case(
            t,
            &id,
            0,
            &cfg,
            &meta,
            &|| mk_lru(cap as usize, ctor, hmode),
            &mut |step, snap| {
                if step >= len {
                    return None;
                }
                let op = gen::lru_op(&mut r, &mut kg, &mut vg, snap, cap);
                if op[0] == 11 && r.chance(2, 3) {
                    let n = *r.pick(&[u64::MAX, u64::MAX - 1, 1u64 << 63, (1u64 << 32) + 1, 1_000_000_007, cap, 0]);
                    return Some(vec![11, n as i128]);
                }
                Some(op)
            },
            &tag,
        );
    }
}

/// the history a generator produces on a live object (the generators look at the last snapshot)
fn gen_history(mk: &dyn Fn() -> Box<dyn Subject>, len: usize, next: &mut dyn FnMut(&Ints) -> Ints) -> Option<Vec<Ints>> {
    ledger_reset();
    let mut ops = Vec::new();
    let r = std::panic::catch_unwind(std::panic::AssertUnwindSafe(|| {
        let mut subj = mk();
        let mut snap = subj.snapshot();
        for _ in 0..len {
            let op = next(&snap);
            let _ = subj.apply(&op);
            let op = subj.take_op_rewrite().unwrap_or(op);
            snap = subj.snapshot();
            ops.push(op);
        }
    }));
    runner::PANIC_DEPTH.store(0, std::sync::atomic::Ordering::Relaxed);
    subj::AUDIT_BAD.store(false, std::sync::atomic::Ordering::Relaxed);
    r.ok().map(|_| ops)
}

/// C18: panic injection into every call the library makes into user code (Hash, Eq, Clone, Drop, BuildHasher,
/// eviction callback).  `--n` histories of `--len` operations; for `--corpus <k>`-many (default 4) operations
/// of each history, and for its final drop, every call index is injected in turn; half of the runs get a
/// second injection later in the history.
fn slice_fault(a: &Args, t: &mut Trace) {
    types::DROP_IS_USER_CALL.store(true, std::sync::atomic::Ordering::Relaxed);
    let targets: usize = a.corpus.as_ref().and_then(|s| s.parse().ok()).unwrap_or(4);
    for i in 0..a.n {
        let (mine, stream, hforce) = case_plan(a, i);
        if !mine {
            continue;
        }
        let kind = (i % 5) as u32;
        let mut r = rng_for(a.seed, stream + 7_000_000);
        // deterministic hashers only (identity, constant, FNV): the call index of an injection must mean the same on replay
        let hmode = hforce.unwrap_or(2 + r.below(3));
        let len = r.range(a.len / 2 + 1, a.len) as usize;
        let mut vg = gen::ValGen(1000);
        // configuration and generator per cache type
        let (cfg, meta, mk, mut next): (Vec<i128>, String, Box<dyn Fn() -> Box<dyn Subject>>, Box<dyn FnMut(&mut prng::Rng, &mut gen::ValGen, &Ints) -> Ints>) = match kind {
            0 => {
                let cap = r.range(1, 4);
                let ctor = if r.chance(1, 2) { 3 } else { 1 };
                let mut kg = gen::KeyGen::new(cap + 3);
                (
                    vec![cap as i128, (ctor >= 2) as i128],
                    format!("ctor={} hasher={}", ctor, hmode),
                    Box::new(move || mk_lru(cap as usize, ctor, hmode)),
                    Box::new(move |r, vg, snap| loop {
                        let op = gen::lru_op(r, &mut kg, vg, snap, cap);
                        if op[0] != 24 {
                            return op;
                        }
                    }),
                )
            }
            1 => {
                let pc = r.range(1, 3);
                let fc = r.range(1, 3);
                let mut kg = gen::KeyGen::new(pc + fc + 3);
                (
                    vec![pc as i128, fc as i128],
                    format!("hasher={}", hmode),
                    Box::new(move || mk_slru(pc as usize, fc as usize, hmode)),
                    Box::new(move |r, vg, snap| gen::slru_op(r, &mut kg, vg, snap)),
                )
            }
            2 => {
                let size = r.range(1, 6) as usize;
                let mut rri = r.below(RATIOS.len() as u64) as usize;
                let mut gri = r.below(RATIOS.len() as u64) as usize;
                let mut tries = 0;
                while twoq_quotas(size, RATIOS[rri], RATIOS[gri]).1 == 0 {
                    gri = (gri + 1) % RATIOS.len();
                    tries += 1;
                    if tries > RATIOS.len() {
                        rri = 0;
                        gri = 3;
                    }
                }
                let (rs, es) = twoq_quotas(size, RATIOS[rri], RATIOS[gri]);
                let mut kg = gen::KeyGen::new(size as u64 + es as u64 + 3);
                (
                    vec![size as i128, rs as i128, es as i128],
                    format!("hasher={} rri={} gri={}", hmode, rri, gri),
                    Box::new(move || mk_twoq(size, RATIOS[rri], RATIOS[gri], hmode)),
                    Box::new(move |r, vg, snap| gen::twoq_op(r, &mut kg, vg, snap)),
                )
            }
            3 => {
                let size = r.range(1, 5) as usize;
                let mut kg = gen::KeyGen::new(2 * size as u64 + 3);
                (
                    vec![size as i128],
                    format!("hasher={}", hmode),
                    Box::new(move || mk_arc(size, hmode)),
                    Box::new(move |r, vg, snap| gen::arc_op(r, &mut kg, vg, snap)),
                )
            }
            _ => {
                let (w, prot, prob) = (r.range(1, 3), r.range(1, 3), r.range(1, 3));
                let samples = *r.pick(&[1u64, 2, 3, 5, 8, 16, 64]);
                let fpi = r.below(FPS.len() as u64) as usize;
                let khmode = r.below(3);
                let mut kg = gen::KeyGen::new(w + prot + prob + 4);
                (
                    vec![],
                    format!("w={} prot={} prob={} samples={} fpi={} kh={} hasher={}", w, prot, prob, samples, fpi, khmode, hmode),
                    Box::new(move || Box::new(lfu::mk_wtiny(w as usize, prot as usize, prob as usize, samples as usize, FPS[fpi], khmode, hmode)) as Box<dyn Subject>),
                    Box::new(move |r, vg, snap| gen::wtiny_op(r, &mut kg, vg, snap)),
                )
            }
        };
        let ops = match gen_history(&*mk, len, &mut |snap| next(&mut r, &mut vg, snap)) {
            Some(o) => o,
            None => continue,
        };
        let counts = match fault::dry_run(&*mk, &ops) {
            Some(c) => c,
            None => continue,
        };
        // the operations to inject into: those with the most user calls first would bias; take a random subset
        let mut js: Vec<usize> = (0..ops.len()).filter(|j| counts[*j] > 0).collect();
        while js.len() > targets {
            let k = r.below(js.len() as u64) as usize;
            js.remove(k);
        }
        js.push(ops.len());
        let mut n = 0;
        for j in js {
            for call in 0..counts[j] {
                let mut faults = vec![(j, call)];
                if j + 1 < ops.len() && r.chance(1, 2) {
                    let j2 = r.range(j as u64 + 1, ops.len() as u64) as usize;
                    faults.push((j2, r.below(counts[j2].max(1) + 2)));
                }
                let id = format!("fault-s{}-i{}-{}", a.seed, i, n);
                n += 1;
                t.count(&format!("kind{}", kind));
                fault::run_fault_case(t, &id, kind, &cfg, &meta, &*mk, &ops, &faults);
            }
        }
    }
}

/// kind 10: RawLRU histories with one injected panic each (and the same history without), every line compared
/// with layer F of the model
fn slice_flru(a: &Args, t: &mut Trace) {
    types::DROP_IS_USER_CALL.store(true, std::sync::atomic::Ordering::Relaxed);
    let targets: usize = a.corpus.as_ref().and_then(|s| s.parse().ok()).unwrap_or(3);
    for i in 0..a.n {
        let (mine, stream, hforce) = case_plan(a, i);
        if !mine {
            continue;
        }
        let mut r = rng_for(a.seed, stream + 9_000_000);
        let cap = r.range(1, 4);
        let hmode = hforce.unwrap_or(2 + r.below(3));
        let len = r.range(a.len / 2 + 1, a.len) as usize;
        let mut kg = gen::KeyGen::new(cap + 3);
        let mut vg = gen::ValGen(1000);
        let mk = move || Box::new(fault::FLruSubj::new(cap as usize, hmode, len + 8)) as Box<dyn Subject>;
        let ops = match gen_history(&mk, len, &mut |snap| {
            let fake: Ints = {
                let res = hlru::resident(snap);
                let mut v = vec![cap as i128, res.len() as i128];
                for k in res {
                    v.push(k as i128);
                    v.push(0);
                }
                v
            };
            loop {
                let op = gen::lru_op(&mut r, &mut kg, &mut vg, &fake, cap);
                if !matches!(op[0], 24 | 25 | 26) {
                    return op;
                }
            }
        }) {
            Some(o) => o,
            None => continue,
        };
        let counts = match fault::dry_run(&mk, &ops) {
            Some(c) => c,
            None => continue,
        };
        let id0 = format!("flru-s{}-i{}", a.seed, i);
        fault::run_flru_case(t, &format!("{}-n", id0), cap as usize, hmode, &ops, None);
        let mut js: Vec<usize> = (0..ops.len()).filter(|j| counts[*j] > 0).collect();
        while js.len() > targets {
            let k = r.below(js.len() as u64) as usize;
            js.remove(k);
        }
        let mut n = 0;
        for j in js {
            for call in 0..counts[j] {
                fault::run_flru_case(t, &format!("{}-{}", id0, n), cap as usize, hmode, &ops, Some((j, call)));
                n += 1;
            }
        }
    }
}

/// SegmentedCache at the level of node addresses (kind 11): the trait operations
fn slice_hslru(a: &Args, t: &mut Trace) {
    for i in 0..a.n {
        let (mine, stream, hforce) = case_plan(a, i);
        if !mine {
            continue;
        }
        let mut r = rng_for(a.seed, stream + 11_000_000);
        let pc = r.range(1, 4);
        let fc = r.range(1, 4);
        let hmode = hforce.unwrap_or(r.below(5));
        let len = r.range(a.len / 4 + 1, a.len) as usize;
        let mut kg = gen::KeyGen::new(pc + fc + 3);
        let mut vg = gen::ValGen(1000);
        let cfg = [pc as i128, fc as i128];
        let id = format!("hslru-s{}-i{}", a.seed, i);
        let meta = format!("hasher={}", hmode);
        run_case(
            t,
            &id,
            11,
            &cfg,
            &meta,
            &|| Box::new(hlru::HSlruSubj::new(pc as usize, fc as usize, hmode)),
            &mut |step, snap| {
                if step >= len {
                    return None;
                }
                // the whole SegmentedCache alphabet but Clone; the generator reads the kind-1 snapshot layout
                let res = hlru::slru_resident(snap);
                let fake: Ints = {
                    let mut v = vec![pc as i128, fc as i128, res.len() as i128];
                    for k in &res {
                        v.push(*k as i128);
                        v.push(0);
                    }
                    v.push(0);
                    v.push(1);
                    v
                };
                Some(gen::slru_op(&mut r, &mut kg, &mut vg, &fake))
            },
            &tag,
        );
    }
}

/// TwoQueueCache / AdaptiveCache / WTinyLFUCache at the level of node addresses (kinds 12, 13, 14): trait operations
fn slice_hcomp(a: &Args, t: &mut Trace, kind: u32) {
    for i in 0..a.n {
        let (mine, stream, hforce) = case_plan(a, i);
        if !mine {
            continue;
        }
        let mut r = rng_for(a.seed, stream + 1_000_000 * kind as u64);
        let hmode = hforce.unwrap_or(r.below(5));
        let len = r.range(a.len / 4 + 1, a.len) as usize;
        let mut vg = gen::ValGen(1000);
        match kind {
            12 => {
                let size = r.range(1, 7) as usize;
                let mut rri = r.below(RATIOS.len() as u64) as usize;
                let mut gri = r.below(RATIOS.len() as u64) as usize;
                let mut tries = 0;
                while twoq_quotas(size, RATIOS[rri], RATIOS[gri]).1 == 0 {
                    gri = (gri + 1) % RATIOS.len();
                    tries += 1;
                    if tries > RATIOS.len() {
                        rri = 0;
                        gri = 3;
                    }
                }
                let (rs, es) = twoq_quotas(size, RATIOS[rri], RATIOS[gri]);
                let mut kg = gen::KeyGen::new(size as u64 + es as u64 + 3);
                let cfg = [size as i128, rs as i128, es as i128];
                let id = format!("htwoq-s{}-i{}", a.seed, i);
                let meta = format!("hasher={} rri={} gri={}", hmode, rri, gri);
                run_case(t, &id, 12, &cfg, &meta,
                    &|| Box::new(hlru::HTwoQSubj::new(mk_twoq_raw(size, RATIOS[rri], RATIOS[gri], hmode))),
                    &mut |step, snap| if step >= len { None } else {
                        Some(gen::twoq_op(&mut r, &mut kg, &mut vg, &hlru::named_to_plain(snap, 3, 3)))
                    },
                    &tag);
            }
            13 => {
                let size = r.range(1, 6) as usize;
                let mut kg = gen::KeyGen::new(2 * size as u64 + 3);
                let cfg = [size as i128];
                let id = format!("harc-s{}-i{}", a.seed, i);
                let meta = format!("hasher={}", hmode);
                run_case(t, &id, 13, &cfg, &meta,
                    &|| Box::new(hlru::HArcSubj::new(mk_arc_raw(size, hmode))),
                    &mut |step, snap| if step >= len { None } else {
                        Some(gen::arc_op(&mut r, &mut kg, &mut vg, &hlru::named_to_plain(snap, 2, 4)))
                    },
                    &tag);
            }
            _ => {
                let (w, prot, prob) = (r.range(1, 3), r.range(1, 3), r.range(1, 3));
                let samples = *r.pick(&[1u64, 2, 3, 5, 8, 16, 64]);
                let fpi = r.below(FPS.len() as u64) as usize;
                let khmode = r.below(3);
                let mut kg = gen::KeyGen::new(w + prot + prob + 4);
                let id = format!("hwtiny-s{}-i{}", a.seed, i);
                let meta = format!("w={} prot={} prob={} samples={} fpi={} kh={} hasher={}", w, prot, prob, samples, fpi, khmode, hmode);
                run_case(t, &id, 14, &[], &meta,
                    &|| Box::new(hlru::HWTinySubj::new(lfu::mk_wtiny(w as usize, prot as usize, prob as usize, samples as usize, FPS[fpi], khmode, hmode))),
                    &mut |step, snap| if step >= len { None } else {
                        Some(gen::wtiny_op(&mut r, &mut kg, &mut vg, &hlru::named_to_plain(snap, 3, 3)))
                    },
                    &tag);
            }
        }
    }
}

/// RawLRU at the level of node addresses (kind 9): the operations the heap model covers
fn slice_hlru(a: &Args, t: &mut Trace) {
    let caps: [u64; 8] = [1, 1, 2, 2, 3, 4, 5, 8];
    for i in 0..a.n {
        let (mine, stream, hforce) = case_plan(a, i);
        if !mine {
            continue;
        }
        let mut r = rng_for(a.seed, stream);
        let cap = *r.pick(&caps);
        let hmode = hforce.unwrap_or(r.below(5));
        let len = r.range(a.len / 4 + 1, a.len) as usize;
        let mut kg = gen::KeyGen::new(cap + 3);
        let mut vg = gen::ValGen(1000);
        let cfg = [cap as i128];
        let id = format!("hlru-s{}-i{}", a.seed, i);
        let meta = format!("hasher={}", hmode);
        run_case(
            t,
            &id,
            9,
            &cfg,
            &meta,
            &|| Box::new(hlru::HLruSubj::new(cap as usize, hmode)),
            &mut |step, snap| {
                if step >= len {
                    return None;
                }
                // the alphabet of the heap model: everything but Debug
                let fake: Ints = {
                    let res = hlru::resident(snap);
                    let mut v = vec![cap as i128, res.len() as i128];
                    for k in res {
                        v.push(k as i128);
                        v.push(0);
                    }
                    v
                };
                loop {
                    let op = gen::lru_op(&mut r, &mut kg, &mut vg, &fake, cap);
                    if op[0] != 26 {
                        return Some(op);
                    }
                }
            },
            &tag,
        );
    }
}

pub fn mk_slru(pc: usize, fc: usize, hmode: u64) -> Box<dyn Subject> {
    let c = caches::SegmentedCacheBuilder::new(pc, fc)
        .set_probationary_hasher(VHasher::from_mode(hmode))
        .set_protected_hasher(VHasher::from_mode(hmode + 1))
        .finalize::<TKey, TVal>()
        .unwrap();
    Box::new(comp::SlruSubj { c })
}

/// 2Q through the builder; `rr`/`gr` are the ratios as f64 bit patterns
pub fn mk_twoq(size: usize, rr: f64, gr: f64, hmode: u64) -> Box<dyn Subject> {
    Box::new(mk_twoq_raw(size, rr, gr, hmode))
}
pub fn mk_twoq_raw(size: usize, rr: f64, gr: f64, hmode: u64) -> comp::TwoQSubj {
    let c = caches::TwoQueueCacheBuilder::new(size)
        .set_recent_ratio(rr)
        .set_ghost_ratio(gr)
        .set_recent_hasher(VHasher::from_mode(hmode))
        .set_frequent_hasher(VHasher::from_mode(hmode + 1))
        .set_ghost_hasher(VHasher::from_mode(hmode + 2))
        .finalize::<TKey, TVal>()
        .unwrap();
    comp::TwoQSubj { c }
}

pub fn mk_arc(size: usize, hmode: u64) -> Box<dyn Subject> {
    Box::new(mk_arc_raw(size, hmode))
}
pub fn mk_arc_raw(size: usize, hmode: u64) -> comp::ArcSubj {
    let c = caches::AdaptiveCacheBuilder::new(size)
        .set_recent_hasher(VHasher::from_mode(hmode))
        .set_recent_evict_hasher(VHasher::from_mode(hmode + 1))
        .set_frequent_hasher(VHasher::from_mode(hmode + 2))
        .set_frequent_evict_hasher(VHasher::from_mode(hmode + 3))
        .finalize::<TKey, TVal>()
        .unwrap();
    comp::ArcSubj { c }
}

const RATIOS: [f64; 7] = [0.0, 0.25, 0.5, 1.0, 1.0 / 3.0, 0.75, 0.1];

/// the same caches through the plain constructors (`new`, `with_recent_ratio`, `with_ghost_ratio`,
/// `with_2q_parameters`), which install the default hash builder: what a user who names no builder gets
pub fn mk_slru_plain(pc: usize, fc: usize) -> Box<dyn Subject> {
    Box::new(comp::SlruSubj { c: caches::SegmentedCache::<TKey, TVal>::new(pc, fc).unwrap() })
}
pub fn mk_twoq_plain(size: usize, rri: usize, gri: usize) -> Box<dyn Subject> {
    let c = match (rri, gri) {
        (1, 2) => caches::TwoQueueCache::<TKey, TVal>::new(size),
        (_, 2) => caches::TwoQueueCache::<TKey, TVal>::with_recent_ratio(size, RATIOS[rri]),
        (1, _) => caches::TwoQueueCache::<TKey, TVal>::with_ghost_ratio(size, RATIOS[gri]),
        _ => caches::TwoQueueCache::<TKey, TVal>::with_2q_parameters(size, RATIOS[rri], RATIOS[gri]),
    }
    .unwrap();
    Box::new(comp::TwoQSubj { c })
}
pub fn mk_arc_plain(size: usize) -> Box<dyn Subject> {
    Box::new(comp::ArcSubj { c: caches::AdaptiveCache::<TKey, TVal>::new(size).unwrap() })
}

/// sub-sizes of a 2Q cache as the constructor computes them (floor(size * ratio))
pub fn twoq_quotas(size: usize, rr: f64, gr: f64) -> (usize, usize) {
    (((size as f64) * rr).floor() as usize, ((size as f64) * gr).floor() as usize)
}

fn slice_comp(a: &Args, t: &mut Trace, which: u32) {
    for i in 0..a.n {
        let (mine, stream, hforce) = case_plan(a, i);
        if !mine {
            continue;
        }
        let mut r = rng_for(a.seed, stream + 1_000_000 * which as u64);
        let hmode = r.below(5);
        // one history in four runs on a cache built by a plain constructor (default hash builder) instead of
        // the builder; inside a hasher group the members differ in the hasher only ...
        // ... inside one the first member (a RandomState like the default) is the cache a plain constructor builds
        let via = if hforce == Some(0) || (hforce.is_none() && r.chance(1, 4)) { 1 } else { 0 };
        let hmode = hforce.unwrap_or(hmode);
        let len = r.range(a.len / 4 + 1, a.len) as usize;
        let mut vg = gen::ValGen(1000);
        match which {
            1 => {
                let pc = if a.big { *r.pick(&[20u64, 28, 32, 50, 60, 130, 257]) } else if r.chance(1, 30) { 20 } else { r.range(1, 4) };
                let fc = if a.big { *r.pick(&[1u64, 8, 28, 60, 130, 257]) } else if r.chance(1, 30) { 20 } else { r.range(1, 4) };
                let mut kg = gen::KeyGen::new(pc + fc + 3);
                let mut bias = gen::BigBias::new(2 * (pc + fc) + 7);
                let big = a.big;
                let cfg = [pc as i128, fc as i128];
                let id = format!("slru-s{}-i{}", a.seed, i);
                let meta = format!("hasher={} via={}", hmode, via);
                run_case(t, &id, 1, &cfg, &meta, &|| if via == 1 { mk_slru_plain(pc as usize, fc as usize) } else { mk_slru(pc as usize, fc as usize, hmode) },
                    &mut |step, snap| if step >= len { None } else { {
                        let op = gen::slru_op(&mut r, &mut kg, &mut vg, snap);
                        Some(if big { bias.shape(&mut r, &mut vg, op, &gen::multi_resident(snap, 2, 2).0.concat(), &[6, 7, 39, 40], 0) } else { op })
                    } },
                    &tag);
            }
            2 => {
                let size = if a.big { *r.pick(&[12u64, 28, 40, 100, 257, 400]) } else if r.chance(1, 30) { 64 } else { r.range(1, 8) } as usize;
                // pick ratios for which construction succeeds (ghost quota >= 1)
                let mut rri = r.below(RATIOS.len() as u64) as usize;
                let mut gri = r.below(RATIOS.len() as u64) as usize;
                let mut tries = 0;
                while twoq_quotas(size, RATIOS[rri], RATIOS[gri]).1 == 0 {
                    gri = (gri + 1) % RATIOS.len();
                    tries += 1;
                    if tries > RATIOS.len() {
                        rri = 0;
                        gri = 3;
                    }
                }
                let (rs, es) = twoq_quotas(size, RATIOS[rri], RATIOS[gri]);
                let mut kg = gen::KeyGen::new(size as u64 + es as u64 + 3);
                let mut bias = gen::BigBias::new(2 * (size as u64 + es as u64) + 7);
                let big = a.big;
                let cfg = [size as i128, rs as i128, es as i128];
                let id = format!("twoq-s{}-i{}", a.seed, i);
                let meta = format!("hasher={} rri={} gri={} via={}", hmode, rri, gri, via);
                run_case(t, &id, 2, &cfg, &meta, &|| if via == 1 { mk_twoq_plain(size, rri, gri) } else { mk_twoq(size, RATIOS[rri], RATIOS[gri], hmode) },
                    &mut |step, snap| if step >= len { None } else { {
                        let op = gen::twoq_op(&mut r, &mut kg, &mut vg, snap);
                        let res: Vec<u64> = gen::multi_resident(snap, 3, 3).0.into_iter().take(2).flatten().collect();
                        Some(if big { bias.shape(&mut r, &mut vg, op, &res, &[6, 7], 0) } else { op })
                    } },
                    &tag);
            }
            _ => {
                let size = if a.big { *r.pick(&[8u64, 12, 20, 28, 100, 257]) } else if r.chance(1, 30) { 32 } else { r.range(1, 6) } as usize;
                let mut kg = gen::KeyGen::new(2 * size as u64 + 3);
                let mut bias = gen::BigBias::new(3 * size as u64 + 7);
                let big = a.big;
                let cfg = [size as i128];
                let id = format!("arc-s{}-i{}", a.seed, i);
                let meta = format!("hasher={} via={}", hmode, via);
                run_case(t, &id, 3, &cfg, &meta, &|| if via == 1 { mk_arc_plain(size) } else { mk_arc(size, hmode) },
                    &mut |step, snap| if step >= len { None } else { {
                        let op = gen::arc_op(&mut r, &mut kg, &mut vg, snap);
                        let l = gen::multi_resident(snap, 2, 4).0;
                        let res: Vec<u64> = l[0].iter().chain(l[2].iter()).cloned().collect();
                        Some(if big { bias.shape(&mut r, &mut vg, op, &res, &[6, 7], 0) } else { op })
                    } },
                    &tag);
            }
        }
    }
}

const FPS: [f64; 5] = [0.01, 1e-9, 0.5, 0.999, 0.1];

fn slice_lfu(a: &Args, t: &mut Trace, which: u32) {
    for i in 0..a.n {
        let (mine, stream, hforce) = case_plan(a, i);
        if !mine {
            continue;
        }
        let mut r = rng_for(a.seed, stream + 1_000_000 * which as u64);
        let len = r.range(a.len / 4 + 1, a.len) as usize;
        match which {
            4 => {
                let (w, prot, prob) = if a.big {
                    (r.range(5, 20), *r.pick(&[100u64, 257]), *r.pick(&[60u64, 130]))
                } else if r.chance(1, 25) {
                    (r.range(1, 3), r.range(8, 20), r.range(2, 6))
                } else {
                    (r.range(1, 3), r.range(1, 3), r.range(1, 3))
                };
                let samples = if a.hot { *r.pick(&[300u64, 1000, 5000]) } else { *r.pick(&[1u64, 2, 3, 5, 8, 16, 64, 300, 1000]) };
                let (w, prot, prob) = if a.hot { (r.range(1, 2), r.range(1, 2), r.range(1, 2)) } else { (w, prot, prob) };
                let fpi = r.below(FPS.len() as u64) as usize;
                let khmode = r.below(3);
                let hmode = r.below(5);
                let hmode = hforce.unwrap_or(hmode);
                let mut kg = gen::KeyGen::new(w + prot + prob + if a.hot { 2 } else { 4 });
                let mut vg = gen::ValGen(1000);
                let mut bias = gen::BigBias::new(2 * (w + prot + prob) + 7);
                let big = a.big;
                let id = format!("wtiny-s{}-i{}", a.seed, i);
                let meta = format!("w={} prot={} prob={} samples={} fpi={} kh={} hasher={}", w, prot, prob, samples, fpi, khmode, hmode);
                run_case(t, &id, 4, &[], &meta,
                    &|| Box::new(lfu::mk_wtiny(w as usize, prot as usize, prob as usize, samples as usize, FPS[fpi], khmode, hmode)),
                    &mut |step, snap| if step >= len { None } else { {
                        let op = gen::wtiny_op(&mut r, &mut kg, &mut vg, snap);
                        Some(if big { bias.shape(&mut r, &mut vg, op, &gen::multi_resident(snap, 3, 3).0.concat(), &[6, 7], 0) } else { op })
                    } },
                    &tag);
            }
            5 => {
                let size = *r.pick(&[1u64, 2, 3, 4, 7, 8, 16, 33, 64]);
                let samples = *r.pick(&[1u64, 2, 3, 4, 7, 16, 64, 300, 1000]);
                let fpi = r.below(FPS.len() as u64) as usize;
                let mut pool = Vec::new();
                let id = format!("tiny-s{}-i{}", a.seed, i);
                let meta = format!("size={} samples={} fpi={}", size, samples, fpi);
                run_case(t, &id, 5, &[], &meta,
                    &|| Box::new(lfu::mk_tiny(size as usize, samples as usize, FPS[fpi])),
                    &mut |step, _| if step >= len { None } else { Some(gen::tiny_op(&mut r, &mut pool)) },
                    &tag);
            }
            _ => {
                let samples = r.range(0, 8);
                let ctor = r.below(7);
                // --big: sample sizes no collection can hold ("sample everything"); judged on the implementation only
                let ctor = if a.big { *r.pick(&[1u64, 3, 5, 6]) } else { ctor };
                let samples = if a.big {
                    *r.pick(&[u64::MAX, u64::MAX - 1, u64::MAX / 2, (u64::MAX / 2) + 1, 1 << 62, 1 << 59, (1 << 59) + 1, 1 << 40, 1 << 32])
                } else {
                    samples
                };
                let samples = if matches!(ctor, 0 | 2 | 4) { 5 } else { samples };
                let mc = if r.chance(1, 12) { gen::extreme_i64(&mut r) as i64 } else { r.below(500) as i64 - 50 };
                let mut pool = Vec::new();
                let id = format!("sampled-s{}-i{}", a.seed, i);
                let meta = format!("ctor={}", ctor);
                let cfg = [mc as i128, samples as i128];
                run_case(t, &id, 6, &cfg, &meta,
                    &|| Box::new(lfu::mk_sampled(mc, samples as usize, ctor)),
                    &mut |step, _| if step >= len { None } else { Some(gen::sampled_op(&mut r, &mut pool)) },
                    &tag);
            }
        }
    }
}

/// exhaustive closure of small RawLRU configurations (caps 1..=a.n)
fn slice_lru_bfs(a: &Args, t: &mut Trace) {
    for cap in 1..=a.n {
        let nk = cap + 2;
        let mut al: Vec<Ints> = Vec::new();
        for k in 0..nk as i128 {
            al.push(vec![0, k, 10 * k + 1]);
            al.push(vec![1, k]);
            al.push(vec![6, k]);
        }
        al.push(vec![0, 0, 2]);
        al.push(vec![2, 0, 1, 2]);
        al.push(vec![2, 1, 0, 0]);
        al.push(vec![3, 0]);
        al.push(vec![4, 1, 1, 12]);
        al.push(vec![5, 0]);
        al.push(vec![7]);
        al.push(vec![8]);
        al.push(vec![10]);
        for n in 0..=(cap + 1) as i128 {
            al.push(vec![11, n]);
        }
        al.push(vec![12]);
        al.push(vec![13]);
        al.push(vec![14, 1, 7]);
        al.push(vec![15, 0, 0]);
        al.push(vec![16, 0, 1]);
        al.push(vec![16, 1, 11]);
        al.push(vec![17, 0, 1, 1, 2]);
        al.push(vec![18, 1, 11]);
        al.push(vec![19]);
        al.push(vec![20, 1, 7]);
        al.push(vec![21]);
        al.push(vec![22, 0, 0]);
        al.push(vec![23]);
        al.push(vec![25]);
        al.push(vec![26]);
        // full forward traversal with every iterator kind
        for kind in 0..12i128 {
            let n = (cap + 1) as i128;
            let mut v = vec![24, kind, n, 0, 0];
            for i in 0..n {
                v.extend([i % 2, 0, 0]);
            }
            al.push(v);
        }
        let cfg = [cap as i128, 1];
        let id = format!("lrubfs-c{}", cap);
        let states = bfs(
            t,
            &id,
            0,
            &cfg,
            "ctor=3 hasher=3",
            &|| mk_lru(cap as usize, 3, 3),
            &al,
            a.len as usize,
            a.shard,
            &tag,
        );
        t.count(&format!("bfs_states_cap{}_{}", cap, states));
    }
}

/// breadth-first closure of the reachable states of small SegmentedCache / TwoQueueCache / AdaptiveCache
/// configurations (capacities 1 and 2, a key range two larger than everything the cache can remember): every
/// operation of the alphabet in every state reached, so the states a random history only meets by chance - a
/// cache whose residents are all gone while its ghost lists are not, a full segment of capacity 1, the first
/// call after purge - are all there.  `--n` bounds the sizes, `--len` the number of states per configuration.
fn slice_comp_bfs(a: &Args, t: &mut Trace) {
    let base = |nk: i128| -> Vec<Ints> {
        let mut al: Vec<Ints> = Vec::new();
        for k in 0..nk {
            al.push(vec![0, k, 10 * k + 1]);
            al.push(vec![1, k]);
            al.push(vec![6, k]);
        }
        al.push(vec![0, 0, 2]);
        al.push(vec![2, 0, 1, 7]);
        al.push(vec![2, 1, 0, 0]);
        al.push(vec![3, 0]);
        al.push(vec![3, 1]);
        al.push(vec![4, 0, 1, 9]);
        al.push(vec![4, 1, 0, 0]);
        al.push(vec![5, 0]);
        al.push(vec![5, 1]);
        al.push(vec![7]);
        al.push(vec![8]);
        al.push(vec![9]);
        al.push(vec![10]);
        al
    };
    let max_states = a.len as usize;
    let top = a.n.max(1).min(3);
    // SegmentedCache
    for pc in 1..=top.min(2) {
        for fc in 1..=top.min(2) {
            let mut al = base((pc + fc + 2) as i128);
            al.push(vec![30, 0, 5]);
            al.push(vec![30, 1, 6]);
            for c in [31i128, 33, 35, 37, 39, 40, 41, 42, 43, 44] {
                al.push(vec![c]);
            }
            al.push(vec![32, 1, 8]);
            al.push(vec![36, 1, 8]);
            al.push(vec![25]);
            let cfg = [pc as i128, fc as i128];
            let id = format!("slrubfs-{}-{}", pc, fc);
            let n = bfs(t, &id, 1, &cfg, "hasher=3", &|| mk_slru(pc as usize, fc as usize, 3), &al, max_states, a.shard, &tag);
            t.count(&format!("bfs_states_slru_{}_{}_{}", pc, fc, n));
        }
    }
    // TwoQueueCache: ratios 0.25 / 0.5 (the defaults), 0.5 / 0.5 and 0.0 / 1.0
    for size in 1..=top {
        for (rri, gri) in [(1usize, 2usize), (2, 2), (0, 3)] {
            let (rs, es) = twoq_quotas(size as usize, RATIOS[rri], RATIOS[gri]);
            if es == 0 {
                continue;
            }
            let mut al = base((size as usize + es + 2) as i128);
            for c in [50i128, 51, 52] {
                al.push(vec![c]);
            }
            let cfg = [size as i128, rs as i128, es as i128];
            let id = format!("twoqbfs-{}-{}-{}", size, rri, gri);
            let meta = format!("hasher=3 rri={} gri={}", rri, gri);
            let n = bfs(t, &id, 2, &cfg, &meta, &|| mk_twoq(size as usize, RATIOS[rri], RATIOS[gri], 3), &al, max_states, a.shard, &tag);
            t.count(&format!("bfs_states_twoq_{}_{}_{}_{}", size, rri, gri, n));
        }
    }
    // AdaptiveCache
    for size in 1..=top.min(2) {
        let mut al = base((2 * size + 2) as i128);
        for c in [70i128, 71, 72, 73, 74] {
            al.push(vec![c]);
        }
        let cfg = [size as i128];
        let id = format!("arcbfs-{}", size);
        let n = bfs(t, &id, 3, &cfg, "hasher=3", &|| mk_arc(size as usize, 3), &al, max_states, a.shard, &tag);
        t.count(&format!("bfs_states_arc_{}_{}", size, n));
    }
}

/// build the subject a case line describes: `kind`, `cfg` and the `X` meta line (`key=value` words)
pub fn mk_subject(kind: u32, cfg: &[i128], meta: &std::collections::HashMap<String, u64>) -> Box<dyn Subject> {
    let m = |k: &str| meta.get(k).cloned().unwrap_or(0);
    match kind {
        0 if m("zst") == 1 => Box::new(zst::ZLruSubj::new(cfg[0] as usize)),
        0 => {
            let ctor = if meta.contains_key("ctor") { m("ctor") } else if cfg[1] != 0 { 3 } else { 1 };
            mk_lru(cfg[0] as usize, ctor, m("hasher"))
        }
        1 if m("zst") == 1 => Box::new(zst::ZCompSubj::new(caches::SegmentedCache::<TKey, ()>::new(cfg[0] as usize, cfg[1] as usize).unwrap())),
        2 if m("zst") == 1 => Box::new(zst::ZCompSubj::new(caches::TwoQueueCache::<TKey, ()>::new(cfg[0] as usize).unwrap())),
        3 if m("zst") == 1 => Box::new(zst::ZCompSubj::new(caches::AdaptiveCache::<TKey, ()>::new(cfg[0] as usize).unwrap())),
        1 if m("via") == 1 => mk_slru_plain(cfg[0] as usize, cfg[1] as usize),
        1 => mk_slru(cfg[0] as usize, cfg[1] as usize, m("hasher")),
        2 if m("via") == 1 => mk_twoq_plain(cfg[0] as usize, m("rri") as usize, m("gri") as usize),
        3 if m("via") == 1 => mk_arc_plain(cfg[0] as usize),
        2 => {
            // find ratios that give the recorded quotas
            let size = cfg[0] as usize;
            if meta.contains_key("rri") {
                return mk_twoq(size, RATIOS[m("rri") as usize], RATIOS[m("gri") as usize], m("hasher"));
            }
            let rr = (cfg[1] as f64 + 0.5) / size as f64;
            let gr = (cfg[2] as f64 + 0.5) / size as f64;
            let (rr, gr) = (rr.min(1.0), gr.min(1.0));
            assert_eq!(twoq_quotas(size, rr, gr), (cfg[1] as usize, cfg[2] as usize));
            mk_twoq(size, rr, gr, m("hasher"))
        }
        3 => mk_arc(cfg[0] as usize, m("hasher")),
        4 if m("zst") == 1 => Box::new(zst::ZCompSubj::new(zst::mk_zwtiny(m("w") as usize, m("prot") as usize, m("prob") as usize,
            m("samples") as usize, FPS[m("fpi") as usize], m("kh"), m("hasher")))),
        4 => Box::new(lfu::mk_wtiny(m("w") as usize, m("prot") as usize, m("prob") as usize, m("samples") as usize,
            FPS[m("fpi") as usize], m("kh"), m("hasher"))),
        5 => Box::new(lfu::mk_tiny(m("size") as usize, m("samples") as usize, FPS[m("fpi") as usize])),
        6 => Box::new(lfu::mk_sampled(cfg[0] as i64, cfg[1] as usize, m("ctor"))),
        7 => Box::new(putres::PutResSubj),
        16 => tys::mk_typed(cfg[0] as u64, cfg[1] as u64, cfg[2] as usize),
        17 => Box::new(LiarSubj(mk_lru(cfg[0] as usize, m("ctor"), 5))),
        8 => Box::new(ctor::CtorSubj::default()),
        9 => Box::new(hlru::HLruSubj::new(cfg[0] as usize, m("hasher"))),
        11 => Box::new(hlru::HSlruSubj::new(cfg[0] as usize, cfg[1] as usize, m("hasher"))),
        12 => {
            let size = cfg[0] as usize;
            Box::new(hlru::HTwoQSubj::new(mk_twoq_raw(size, RATIOS[m("rri") as usize], RATIOS[m("gri") as usize], m("hasher"))))
        }
        13 => Box::new(hlru::HArcSubj::new(mk_arc_raw(cfg[0] as usize, m("hasher")))),
        14 => Box::new(hlru::HWTinySubj::new(lfu::mk_wtiny(m("w") as usize, m("prot") as usize, m("prob") as usize, m("samples") as usize,
            FPS[m("fpi") as usize], m("kh"), m("hasher")))),
        _ => panic!("unknown kind"),
    }
}

fn m_of(meta: &std::collections::HashMap<String, u64>, k: &str) -> u64 {
    meta.get(k).cloned().unwrap_or(0)
}

/// replay every case of a case file (same format as a trace; results in it are ignored)
fn slice_replay(a: &Args, t: &mut Trace) {
    let path = a.corpus.clone().expect("--corpus <file or dir>");
    let mut files = Vec::new();
    let md = std::fs::metadata(&path).expect("corpus path");
    if md.is_dir() {
        let mut stack = vec![std::path::PathBuf::from(&path)];
        while let Some(d) = stack.pop() {
            for e in std::fs::read_dir(&d).unwrap() {
                let e = e.unwrap().path();
                if e.is_dir() {
                    stack.push(e);
                } else if e.extension().map(|x| x == "case").unwrap_or(false) {
                    files.push(e);
                }
            }
        }
        files.sort();
    } else {
        files.push(std::path::PathBuf::from(&path));
    }
    struct Case {
        id: String,
        kind: u32,
        cfg: Ints,
        meta: String,
        ops: Vec<Ints>,
        drop_fault: Option<u64>,
    }
    for f in files {
        let text = std::fs::read_to_string(&f).unwrap();
        let mut cases: Vec<Case> = Vec::new();
        for line in text.lines() {
            let line = line.trim();
            if let Some(rest) = line.strip_prefix("C ") {
                let w: Vec<&str> = rest.split_whitespace().collect();
                cases.push(Case {
                    id: w[0].to_string(),
                    kind: w[1].parse().unwrap(),
                    cfg: w[2..].iter().map(|x| x.parse().unwrap()).collect(),
                    meta: String::new(),
                    ops: Vec::new(),
                    drop_fault: None,
                });
            } else if let Some(rest) = line.strip_prefix("X ") {
                if let Some(c) = cases.last_mut() {
                    c.meta = rest.to_string();
                }
            } else if let Some(rest) = line.strip_prefix("O ") {
                let opstr = rest.split('|').next().unwrap();
                let op: Ints = opstr.split_whitespace().map(|x| x.parse().unwrap()).collect();
                if op.first() == Some(&97) && op.len() == 3 && op[2] == 99 {
                    if let Some(c) = cases.last_mut() {
                        c.drop_fault = Some(op[1] as u64);
                    }
                    continue;
                }
                if op.first() == Some(&99) || op.first() == Some(&98) {
                    continue;
                }
                if let Some(c) = cases.last_mut() {
                    c.ops.push(op);
                }
            }
        }
        for (ci, c) in cases.iter().enumerate() {
            if (ci as u64) % a.shard.1 != a.shard.0 {
                continue;
            }
            let mut meta = std::collections::HashMap::new();
            for w in c.meta.split_whitespace() {
                if let Some((k, v)) = w.split_once('=') {
                    if let Ok(v) = v.parse::<u64>() {
                        meta.insert(k.to_string(), v);
                    }
                }
            }
            if c.kind == 10 {
                types::DROP_IS_USER_CALL.store(true, std::sync::atomic::Ordering::Relaxed);
                let mut ops: Vec<Ints> = Vec::new();
                let mut flt: Option<(usize, u64)> = None;
                for op in &c.ops {
                    if op.first() == Some(&97) && op.len() > 10 {
                        // 97 kind c0..c6 nidx idx.. op..: the call index is the sum of the counts
                        let nidx = op[9] as usize;
                        let call: i128 = op[2..9].iter().sum();
                        flt = Some((ops.len(), call as u64));
                        ops.push(op[10 + nidx..].to_vec());
                    } else {
                        ops.push(op.clone());
                    }
                }
                fault::run_flru_case(t, &c.id, c.cfg[0] as usize, m_of(&meta, "hasher"), &ops, flt);
                types::DROP_IS_USER_CALL.store(false, std::sync::atomic::Ordering::Relaxed);
                continue;
            }
            if c.kind >= 100 {
                // a fault case: operations written `97 <call index> <op...>` carry an injection
                types::DROP_IS_USER_CALL.store(true, std::sync::atomic::Ordering::Relaxed);
                let mut ops: Vec<Ints> = Vec::new();
                let mut faults: Vec<(usize, u64)> = Vec::new();
                for op in &c.ops {
                    if op.first() == Some(&97) && op.len() >= 3 {
                        if op[2] == 99 {
                            continue;
                        }
                        faults.push((ops.len(), op[1] as u64));
                        ops.push(op[2..].to_vec());
                    } else {
                        ops.push(op.clone());
                    }
                }
                if let Some(f) = c.drop_fault {
                    faults.push((ops.len(), f));
                }
                fault::run_fault_case(t, &c.id, c.kind - 100, &c.cfg, &c.meta, &|| mk_subject(c.kind - 100, &c.cfg, &meta), &ops, &faults);
                types::DROP_IS_USER_CALL.store(false, std::sync::atomic::Ordering::Relaxed);
                continue;
            }
            let ops = c.ops.clone();
            run_case(
                t,
                &c.id,
                c.kind,
                &c.cfg,
                &c.meta,
                &|| mk_subject(c.kind, &c.cfg, &meta),
                &mut scripted(ops),
                &tag,
            );
        }
    }
}

/// constructor grid (first case, shard 0) and random constructor calls
fn slice_ctor(a: &Args, t: &mut Trace) {
    if a.shard.0 == 0 {
        let g = ctor::grid();
        for (ci, chunk) in g.chunks(400).enumerate() {
            let ops = chunk.to_vec();
            let id = format!("ctor-grid-{}", ci);
            run_case(t, &id, 8, &[], "", &|| Box::new(ctor::CtorSubj::default()), &mut scripted(ops), &tag);
        }
    }
    for i in 0..a.n {
        if i % a.shard.1 != a.shard.0 {
            continue;
        }
        let mut r = rng_for(a.seed, i + 8_000_000);
        let len = a.len as usize;
        let id = format!("ctor-s{}-i{}", a.seed, i);
        run_case(t, &id, 8, &[], "", &|| Box::new(ctor::CtorSubj::default()), &mut |step, _| if step >= len { None } else { Some(ctor::random_op(&mut r)) }, &tag);
    }
}

fn slice_putres(a: &Args, t: &mut Trace) {
    for i in 0..a.n {
        if i % a.shard.1 != a.shard.0 {
            continue;
        }
        let mut r = rng_for(a.seed, i + 9_000_000);
        let len = a.len as usize;
        let id = format!("putres-s{}-i{}", a.seed, i);
        run_case(t, &id, 7, &[], "", &|| Box::new(putres::PutResSubj), &mut |step, _| if step >= len { None } else { Some(putres::gen_op(&mut r)) }, &tag);
    }
}

/// the five cache types over other key / value types (tys.rs); kind 16, judged on the implementation only
fn slice_types(a: &Args, t: &mut Trace) {
    for i in 0..a.n {
        let (mine, stream, _) = case_plan(a, i);
        if !mine {
            continue;
        }
        let mut r = rng_for(a.seed, stream + 16_000_000);
        let inst = i % tys::N_INST;
        let cache = (i / tys::N_INST) % 5;
        let size = *r.pick(&[1u64, 2, 3, 4, 8]) as usize;
        let len = r.range(a.len / 4 + 1, a.len) as usize;
        let mut kg = gen::KeyGen::new(2 * size as u64 + 5);
        let mut vg = gen::ValGen(1000);
        let id = format!("types-s{}-i{}", a.seed, i);
        let meta = format!("inst={} cache={}", inst, cache);
        let cfg = [inst as i128, cache as i128, size as i128];
        run_case(t, &id, 16, &cfg, &meta, &|| tys::mk_typed(inst, cache, size),
            &mut |step, _| {
                if step >= len {
                    return None;
                }
                Some(match r.below(100) {
                    0..=4 => vec![11, r.range(0, 2 * size as u64 + 2) as i128],
                    5..=9 => vec![25],
                    _ => gen::trait_op(&mut r, &mut kg, &mut vg, &[]),
                })
            },
            &tag);
    }
}

fn main() {
    // panics are expected outcomes for some slices: keep stderr quiet
    let a = parse_args();
    {
        // a panic that cannot unwind (a panic while unwinding, or inside a Drop that runs during
        // unwinding) aborts the process: the current case is saved first, in replay format, and the
        // process exits with status 78 so that the run reports the history instead of a crash
        let abort_path = format!("{}.abort", a.out);
        let _ = alloc::OOM_PATH.set(abort_path.clone());
        std::panic::set_hook(Box::new(move |info| {
            let _ = info;
            // a second panic before the first one was caught by the runner's catch_unwind cannot unwind
            if runner::PANIC_DEPTH.fetch_add(1, std::sync::atomic::Ordering::Relaxed) >= 1 {
                alloc::TRACK.store(false, std::sync::atomic::Ordering::Relaxed);
                let text = runner::CUR.try_lock().map(|c| c.clone()).unwrap_or_default();
                let _ = std::fs::write(&abort_path, text);
                std::process::exit(78);
            }
        }));
    }
    // watchdog: a call into the library that makes no progress for 20 s is a hang (a cyclic list, say);
    // the current case is written to <out>.hang in replay format and the process exits with status 77.
    // The thread neither allocates nor touches the ledger while the run is healthy.
    {
        let hang_path = format!("{}.hang", a.out);
        std::thread::spawn(move || {
            use std::sync::atomic::Ordering::Relaxed;
            let mut last = runner::BEAT.load(Relaxed);
            let mut idle = 0u32;
            loop {
                std::thread::sleep(std::time::Duration::from_secs(1));
                if runner::DONE.load(Relaxed) {
                    return;
                }
                let now = runner::BEAT.load(Relaxed);
                if now == last {
                    idle += 1;
                } else {
                    idle = 0;
                    last = now;
                }
                if idle >= 20 {
                    alloc::TRACK.store(false, Relaxed);
                    let text = runner::CUR.try_lock().map(|c| c.clone()).unwrap_or_default();
                    let _ = std::fs::write(&hang_path, text);
                    std::process::exit(77);
                }
            }
        });
    }
    let mut t = Trace::create(&a.out);
    match a.slice.as_str() {
        "lru" => slice_lru(&a, &mut t),
        "lruhuge" => slice_lruhuge(&a, &mut t),
        "lruliar" => slice_lruliar(&a, &mut t),
        "lruzst" => slice_lruzst(&a, &mut t),
        "compzst" => slice_compzst(&a, &mut t),
        "slru" => slice_comp(&a, &mut t, 1),
        "twoq" => slice_comp(&a, &mut t, 2),
        "arc" => slice_comp(&a, &mut t, 3),
        "wtiny" => slice_lfu(&a, &mut t, 4),
        "tiny" => slice_lfu(&a, &mut t, 5),
        "sampled" => slice_lfu(&a, &mut t, 6),
        "replay" => slice_replay(&a, &mut t),
        "putres" => slice_putres(&a, &mut t),
        "ctor" => slice_ctor(&a, &mut t),
        "lru_bfs" => slice_lru_bfs(&a, &mut t),
        "comp_bfs" => slice_comp_bfs(&a, &mut t),
        "hlru" => slice_hlru(&a, &mut t),
        "fault" => slice_fault(&a, &mut t),
        "types" => slice_types(&a, &mut t),
        "flru" => slice_flru(&a, &mut t),
        "hslru" => slice_hslru(&a, &mut t),
        "htwoq" => slice_hcomp(&a, &mut t, 12),
        "harc" => slice_hcomp(&a, &mut t, 13),
        "hwtiny" => slice_hcomp(&a, &mut t, 14),
        s => {
            eprintln!("unknown slice {}", s);
            std::process::exit(2);
        }
    }
    runner::DONE.store(true, std::sync::atomic::Ordering::Relaxed);
    let stats = format!("{}.stats", a.out);
    t.finish(&stats);
}
