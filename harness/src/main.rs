#![allow(dead_code)]
//! vharness: runs generated and enumerated histories on the real caches of /repo and writes
//! the trace that the extracted Coq model replays.
//!
//!   vharness <slice> --seed N --n CASES --len MAXLEN --out trace.txt [--shard i/m] [--bfs DEPTH]
mod alloc;
mod gen;
mod lru;
mod prng;
mod runner;
mod subj;
mod types;

use runner::*;
use subj::*;
use types::*;

#[global_allocator]
static GLOBAL: alloc::VAlloc = alloc::VAlloc;

pub struct Args {
    pub slice: String,
    pub seed: u64,
    pub n: u64,
    pub len: u64,
    pub out: String,
    pub shard: (u64, u64),
    pub bfs: u64,
    pub corpus: Option<String>,
}

fn parse_args() -> Args {
    let a: Vec<String> = std::env::args().collect();
    let mut r = Args {
        slice: a.get(1).cloned().unwrap_or_default(),
        seed: 1,
        n: 100,
        len: 100,
        out: "trace.txt".into(),
        shard: (0, 1),
        bfs: 0,
        corpus: None,
    };
    let mut i = 2;
    while i < a.len() {
        let v = a.get(i + 1).cloned().unwrap_or_default();
        match a[i].as_str() {
            "--seed" => r.seed = v.parse().unwrap(),
            "--n" => r.n = v.parse().unwrap(),
            "--len" => r.len = v.parse().unwrap(),
            "--out" => r.out = v,
            "--bfs" => r.bfs = v.parse().unwrap(),
            "--corpus" => r.corpus = Some(v),
            "--shard" => {
                let p: Vec<&str> = v.split('/').collect();
                r.shard = (p[0].parse().unwrap(), p[1].parse().unwrap());
            }
            x => panic!("unknown argument {}", x),
        }
        i += 2;
    }
    r
}

fn tag(op: &[i128]) -> String {
    format!("op{}", op[0])
}

/// the four constructors of RawLRU: `ctor` 0 = new, 1 = with_hasher, 2 = with_on_evict_cb,
/// 3 = with_on_evict_cb_and_hasher
pub fn mk_lru(cap: usize, ctor: u64, hmode: u64) -> Box<dyn Subject> {
    use caches::RawLRU;
    match ctor {
        0 => Box::new(lru::LruSubj { c: RawLRU::<TKey, TVal>::new(cap).unwrap() }),
        1 => Box::new(lru::LruSubj {
            c: RawLRU::<TKey, TVal, caches::DefaultEvictCallback, VHasher>::with_hasher(cap, VHasher::from_mode(hmode)).unwrap(),
        }),
        2 => Box::new(lru::LruSubj { c: RawLRU::<TKey, TVal, RecCb>::with_on_evict_cb(cap, RecCb).unwrap() }),
        _ => Box::new(lru::LruSubj {
            c: RawLRU::<TKey, TVal, RecCb, VHasher>::with_on_evict_cb_and_hasher(cap, RecCb, VHasher::from_mode(hmode)).unwrap(),
        }),
    }
}

fn slice_lru(a: &Args, t: &mut Trace) {
    let caps: [u64; 10] = [1, 1, 2, 2, 3, 3, 4, 5, 8, 16];
    for i in 0..a.n {
        if i % a.shard.1 != a.shard.0 {
            continue;
        }
        let mut r = rng_for(a.seed, i);
        let cap = if r.chance(1, 40) { 128 } else { *r.pick(&caps) };
        let ctor = r.below(4);
        let hmode = r.below(5);
        let len = r.range(a.len / 4 + 1, a.len) as usize;
        let mut kg = gen::KeyGen::new(cap + 3);
        let mut vg = gen::ValGen(1000);
        let cfg = [cap as i128, (ctor >= 2) as i128];
        let id = format!("lru-s{}-i{}", a.seed, i);
        let meta = format!("ctor={} hasher={}", ctor, hmode);
        run_case(
            t,
            &id,
            0,
            &cfg,
            &meta,
            &|| mk_lru(cap as usize, ctor, hmode),
            &mut |step, snap| {
                if step >= len {
                    None
                } else {
                    Some(gen::lru_op(&mut r, &mut kg, &mut vg, snap, cap))
                }
            },
            &tag,
        );
    }
}

fn main() {
    // panics are expected outcomes for some slices: keep stderr quiet
    std::panic::set_hook(Box::new(|_| {}));
    let a = parse_args();
    let mut t = Trace::create(&a.out);
    match a.slice.as_str() {
        "lru" => slice_lru(&a, &mut t),
        s => {
            eprintln!("unknown slice {}", s);
            std::process::exit(2);
        }
    }
    let stats = format!("{}.stats", a.out);
    t.finish(&stats);
}
