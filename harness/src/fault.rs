//! Panic injection (C18).  A history is run once to count the calls into user code each operation
//! makes; then, for a chosen operation `j` and every `i` below that count, the history is run again
//! on a fresh object with the i-th such call of operation `j` panicking.  After the panic the weak
//! invariant is audited, the rest of the history (and optionally a second injected panic) is run,
//! and the object is dropped; the drop ledger, the allocator poison and the audit are recorded on
//! every line.  These traces are examined by the monitor only (no model predicts them).
use crate::alloc;
use crate::runner::Trace;
use crate::subj::{Ints, Subject};
use crate::types::*;
use std::io::Write;
use std::panic::{catch_unwind, AssertUnwindSafe};

fn join(v: &[i128]) -> String {
    v.iter().map(|x| x.to_string()).collect::<Vec<_>>().join(" ")
}

/// number of calls into user code made by each operation of `ops` (and by the final drop, last entry);
/// None when the history itself panics
pub fn dry_run(mk: &dyn Fn() -> Box<dyn Subject>, ops: &[Ints]) -> Option<Vec<u64>> {
    ledger_reset();
    alloc::tab_reset();
    let mut counts = Vec::with_capacity(ops.len() + 1);
    let r = catch_unwind(AssertUnwindSafe(|| {
        let mut subj = mk();
        for op in ops {
            set_fuse(None);
            let _ = subj.apply(op);
            let _ = subj.take_op_rewrite();
            counts.push(user_calls());
        }
        set_fuse(None);
        drop(subj);
        counts.push(user_calls());
    }));
    crate::runner::PANIC_DEPTH.store(0, std::sync::atomic::Ordering::Relaxed);
    crate::subj::AUDIT_BAD.store(false, std::sync::atomic::Ordering::Relaxed);
    r.ok().map(|_| counts)
}

/// One faulted run.  `faults` = (operation index, call index) pairs in increasing operation order; an
/// operation index equal to `ops.len()` is the final drop.  Returns false when the run was cut short by a
/// failed audit (the trace line says why).
pub fn run_fault_case(
    t: &mut Trace,
    id: &str,
    kind: u32,
    cfg: &[i128],
    meta: &str,
    mk: &dyn Fn() -> Box<dyn Subject>,
    ops: &[Ints],
    faults: &[(usize, u64)],
) -> bool {
    ledger_reset();
    alloc::tab_reset();
    let qmark = alloc::q_mark();
    let limit = ops.len() + 8;
    let tracked = |f: &mut dyn FnMut()| {
        alloc::track(true);
        let r = catch_unwind(AssertUnwindSafe(|| f()));
        alloc::track(false);
        crate::runner::PANIC_DEPTH.store(0, std::sync::atomic::Ordering::Relaxed);
        r
    };
    let mut head = format!("C {} {} {}\n", id, 100 + kind, join(cfg));
    if !meta.is_empty() {
        head.push_str(&format!("X {}\n", meta));
    }
    crate::runner::beat_case(&head);
    let mut made: Option<Box<dyn Subject>> = None;
    if tracked(&mut || made = Some(mk())).is_err() {
        return true;
    }
    let mut subj = made.take().unwrap();
    t.cases += 1;
    write!(t.out, "{}", head).unwrap();
    let mut faulted = false;
    for (idx, op) in ops.iter().enumerate() {
        let inject = faults.iter().find(|f| f.0 == idx).map(|f| f.1);
        // after a fault resize is skipped: `while map.len() > cap { remove_lru() }` need not terminate once a
        // linked node has lost its index entry; that is a liveness matter, not the memory safety C18 is about
        if faulted && op[0] == 11 {
            continue;
        }
        t.steps += 1;
        let mut shown: Ints = op.clone();
        if let Some(i) = inject {
            shown = vec![97, i as i128];
            shown.extend(op.iter());
        }
        crate::runner::beat_op(&shown);
        set_fuse(inject);
        let mut res: Option<Ints> = None;
        let r = tracked(&mut || res = Some(subj.apply(op)));
        let _ = subj.take_op_rewrite();
        let fired = fired();
        set_fuse(None);
        let (dk, dv, dd, cb) = ledger_drain();
        let out: Ints = match (&r, fired) {
            (Err(_), Some((k, by))) => {
                faulted = true;
                let mut v = vec![-1000, k as i128];
                v.extend(by.iter().map(|x| *x as i128));
                v
            }
            (Err(_), None) => vec![-1000],
            (Ok(()), _) => res.take().unwrap(),
        };
        if r.is_err() && fired.is_none() && !faulted {
            // the history panics by itself before any injection: not a fault case
            writeln!(t.out, "O {} | -1000 | 0 | {} {} {} {} | ", join(&shown), dk, dv, dd, ledger_live()).unwrap();
            std::mem::forget(subj);
            return true;
        }
        let wa = subj.weak_audit(limit);
        writeln!(
            t.out,
            "O {} | {} | {} | {} {} {} {} | {}",
            join(&shown),
            join(&out),
            cb.len(),
            dk,
            dv,
            dd,
            ledger_live(),
            join(&wa)
        )
        .unwrap();
        if wa.chunks(3).any(|c| c[0] != 0) || dd != 0 {
            // the weak invariant is broken or something was dropped twice: going on would be undefined behaviour
            t.out.flush().unwrap();
            std::mem::forget(subj);
            return false;
        }
    }
    let inject = faults.iter().find(|f| f.0 == ops.len()).map(|f| f.1);
    let shown: Ints = match inject {
        Some(i) => vec![97, i as i128, 99],
        None => vec![99],
    };
    crate::runner::beat_op(&shown);
    set_fuse(inject);
    let mut slot = Some(subj);
    let r = tracked(&mut || drop(slot.take()));
    set_fuse(None);
    let (dk, dv, dd, _) = ledger_drain();
    let poison = alloc::scan_quarantine(qmark);
    writeln!(
        t.out,
        "O {} | {} {} {} {} {} {} | 0 | 0 0 0 0 | ",
        join(&shown),
        dk,
        dv,
        dd,
        ledger_live(),
        if r.is_ok() { 0 } else { -1000 },
        poison
    )
    .unwrap();
    true
}

// ---------------------------------------------------------------------------------------------
// kind 10: RawLRU under injection, compared with layer F of the model call by call

/// RawLRU with a callback, observed at the level of node names (as kind 9) through the liveness-checked
/// audit; the last number of the snapshot is the weak-audit code (0 = fine).
pub struct FLruSubj {
    pub inner: crate::lru::LruSubj<RecCb, VHasher>,
    names: std::cell::RefCell<(std::collections::HashMap<usize, i128>, i128)>,
    pub limit: usize,
}

impl FLruSubj {
    pub fn new(cap: usize, hmode: u64, limit: usize) -> Self {
        let c = caches::RawLRU::<TKey, TVal, RecCb, VHasher>::with_on_evict_cb_and_hasher(cap, RecCb, VHasher::from_mode(hmode)).unwrap();
        FLruSubj { inner: crate::lru::LruSubj { c }, names: std::cell::RefCell::new((std::collections::HashMap::new(), 2)), limit }
    }
}

impl Subject for FLruSubj {
    fn apply(&mut self, op: &[i128]) -> Ints {
        self.inner.apply(op)
    }
    fn snapshot(&self) -> Ints {
        let c = &self.inner.c;
        let mut wa = vec![];
        crate::subj::weak_audit_list(c, self.limit, &mut wa);
        let a = c.verif_audit_checked(self.limit, &|p| alloc::is_tracked_live(p));
        let mut st = self.names.borrow_mut();
        let (old, mut next) = (std::mem::take(&mut st.0), st.1);
        let mut now: std::collections::HashMap<usize, i128> = std::collections::HashMap::new();
        let mut out = vec![a.cap as i128, a.fwd.len() as i128];
        for (addr, _, k, v) in a.fwd.iter() {
            let name = match old.get(addr) {
                Some(n) => *n,
                None => {
                    let n = next;
                    next += 1;
                    n
                }
            };
            now.insert(*addr, name);
            out.push(k.id as i128);
            out.push(v.v as i128);
            out.push(name);
        }
        let mut idx: Vec<i128> = a.index.iter().map(|(_, n)| *now.get(n).unwrap_or(&-1)).collect();
        idx.sort_unstable();
        out.extend(idx);
        out.push(wa[0]);
        *st = (now, next);
        out
    }
    fn weak_audit(&self, limit: usize) -> Ints {
        self.inner.weak_audit(limit)
    }
}

/// One kind-10 case: the history with (optionally) one injected panic; every line is comparable with the
/// model.  The faulted operation is rewritten to carry what the model needs (see FaultStep.v).
pub fn run_flru_case(t: &mut Trace, id: &str, cap: usize, hmode: u64, ops: &[Ints], fault: Option<(usize, u64)>) {
    ledger_reset();
    alloc::tab_reset();
    let qmark = alloc::q_mark();
    let limit = ops.len() + 8;
    let tracked = |f: &mut dyn FnMut()| {
        alloc::track(true);
        let r = catch_unwind(AssertUnwindSafe(|| f()));
        alloc::track(false);
        crate::runner::PANIC_DEPTH.store(0, std::sync::atomic::Ordering::Relaxed);
        r
    };
    let head = format!("C {} 10 {}\nX hasher={}\n", id, cap, hmode);
    crate::runner::beat_case(&head);
    let mut made: Option<FLruSubj> = None;
    if tracked(&mut || made = Some(FLruSubj::new(cap, hmode, limit))).is_err() {
        return;
    }
    let mut subj = made.take().unwrap();
    t.cases += 1;
    write!(t.out, "{}", head).unwrap();
    let _ = subj.snapshot();
    let _ = ledger_drain();
    let mut faulted = false;
    for (idx, op) in ops.iter().enumerate() {
        if faulted && op[0] == 11 {
            continue;
        }
        let inject = fault.filter(|f| f.0 == idx).map(|f| f.1);
        t.steps += 1;
        crate::runner::beat_op(op);
        set_fuse(inject);
        let mut res: Option<Ints> = None;
        let r = tracked(&mut || res = Some(subj.apply(op)));
        let fired = fired();
        set_fuse(None);
        let (dk, dv, dd, cb) = ledger_drain();
        let snap = subj.snapshot();
        let (shown, out, cbs): (Ints, Ints, Ints) = match (&r, fired) {
            (Err(_), Some((k, by))) => {
                faulted = true;
                let n = snap[1] as usize;
                let idxs = &snap[2 + 3 * n..snap.len() - 1];
                let mut s: Ints = vec![97, k as i128];
                s.extend(by.iter().map(|x| *x as i128));
                s.push(idxs.len() as i128);
                s.extend(idxs.iter());
                s.extend(op.iter());
                (s, vec![-1000], vec![0])
            }
            (Err(_), None) => (op.clone(), vec![-1000], vec![0]),
            (Ok(()), _) => {
                let mut cbs: Ints = vec![cb.len() as i128];
                for (k, v) in cb {
                    cbs.push(k as i128);
                    cbs.push(v as i128);
                }
                (op.clone(), res.take().unwrap(), cbs)
            }
        };
        writeln!(t.out, "O {} | {} | {} | {} {} {} {} | {}", join(&shown), join(&out), join(&cbs), dk, dv, dd, ledger_live(), join(&snap)).unwrap();
        if *snap.last().unwrap() != 0 || dd != 0 {
            t.out.flush().unwrap();
            std::mem::forget(subj);
            return;
        }
    }
    crate::runner::beat_op(&[99]);
    let mut slot = Some(subj);
    let r = tracked(&mut || drop(slot.take()));
    let (dk, dv, dd, _) = ledger_drain();
    let live = ledger_live();
    let blocks = alloc::tracked_blocks();
    let poison = alloc::scan_quarantine(qmark);
    match r {
        Ok(()) => writeln!(t.out, "O 99 | {} {} {} {} {} {} | 0 | 0 0 0 0 | ", dk, dv, dd, live, blocks, poison).unwrap(),
        Err(_) => writeln!(t.out, "O 99 | -1000 | 0 | 0 0 0 0 | ").unwrap(),
    }
}
