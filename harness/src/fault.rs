//! Panic injection (C18).  A history is run once to count the calls into user code each operation
//! makes; then, for a chosen operation `j` and every `i` below that count, the history is run again
//! on a fresh object with the i-th such call of operation `j` panicking.  After the panic the weak
//! invariant is audited, the rest of the history (and optionally a second injected panic) is run,
//! and the object is dropped; the drop ledger, the allocator poison and the audit are recorded on
//! every line.  These traces are examined by the monitor only (no model predicts them).
use crate::alloc;
use crate::runner::Trace;
use crate::subj::{Ints, Subject};
use crate::types::*;
use std::io::Write;
use std::panic::{catch_unwind, AssertUnwindSafe};

fn join(v: &[i128]) -> String {
    v.iter().map(|x| x.to_string()).collect::<Vec<_>>().join(" ")
}

/// number of calls into user code made by each operation of `ops` (and by the final drop, last entry);
/// None when the history itself panics
pub fn dry_run(mk: &dyn Fn() -> Box<dyn Subject>, ops: &[Ints]) -> Option<Vec<u64>> {
    ledger_reset();
    alloc::tab_reset();
    let mut counts = Vec::with_capacity(ops.len() + 1);
    let r = catch_unwind(AssertUnwindSafe(|| {
        let mut subj = mk();
        for op in ops {
            set_fuse(None);
            let _ = subj.apply(op);
            let _ = subj.take_op_rewrite();
            counts.push(user_calls());
        }
        set_fuse(None);
        drop(subj);
        counts.push(user_calls());
    }));
    crate::runner::PANIC_DEPTH.store(0, std::sync::atomic::Ordering::Relaxed);
    crate::subj::AUDIT_BAD.store(false, std::sync::atomic::Ordering::Relaxed);
    r.ok().map(|_| counts)
}

/// One faulted run.  `faults` = (operation index, call index) pairs in increasing operation order; an
/// operation index equal to `ops.len()` is the final drop.  Returns false when the run was cut short by a
/// failed audit (the trace line says why).
pub fn run_fault_case(
    t: &mut Trace,
    id: &str,
    kind: u32,
    cfg: &[i128],
    meta: &str,
    mk: &dyn Fn() -> Box<dyn Subject>,
    ops: &[Ints],
    faults: &[(usize, u64)],
) -> bool {
    ledger_reset();
    alloc::tab_reset();
    let qmark = alloc::q_mark();
    let limit = ops.len() + 8;
    let tracked = |f: &mut dyn FnMut()| {
        alloc::track(true);
        let r = catch_unwind(AssertUnwindSafe(|| f()));
        alloc::track(false);
        crate::runner::PANIC_DEPTH.store(0, std::sync::atomic::Ordering::Relaxed);
        r
    };
    let mut head = format!("C {} {} {}\n", id, 100 + kind, join(cfg));
    if !meta.is_empty() {
        head.push_str(&format!("X {}\n", meta));
    }
    crate::runner::beat_case(&head);
    let mut made: Option<Box<dyn Subject>> = None;
    if tracked(&mut || made = Some(mk())).is_err() {
        return true;
    }
    let mut subj = made.take().unwrap();
    t.cases += 1;
    write!(t.out, "{}", head).unwrap();
    let mut faulted = false;
    for (idx, op) in ops.iter().enumerate() {
        let inject = faults.iter().find(|f| f.0 == idx).map(|f| f.1);
        // after a fault resize is skipped: `while map.len() > cap { remove_lru() }` need not terminate once a
        // linked node has lost its index entry; that is a liveness matter, not the memory safety C18 is about
        if faulted && op[0] == 11 {
            continue;
        }
        t.steps += 1;
        let mut shown: Ints = op.clone();
        if let Some(i) = inject {
            shown = vec![97, i as i128];
            shown.extend(op.iter());
        }
        crate::runner::beat_op(&shown);
        set_fuse(inject);
        let mut res: Option<Ints> = None;
        let r = tracked(&mut || res = Some(subj.apply(op)));
        let _ = subj.take_op_rewrite();
        let fired = fired();
        set_fuse(None);
        let (dk, dv, dd, cb) = ledger_drain();
        let out: Ints = match (&r, fired) {
            (Err(_), Some((k, by))) => {
                faulted = true;
                let mut v = vec![-1000, k as i128];
                v.extend(by.iter().map(|x| *x as i128));
                v
            }
            (Err(_), None) => vec![-1000],
            (Ok(()), _) => res.take().unwrap(),
        };
        if r.is_err() && fired.is_none() && !faulted {
            // the history panics by itself before any injection: not a fault case
            writeln!(t.out, "O {} | -1000 | 0 | {} {} {} {} | ", join(&shown), dk, dv, dd, ledger_live()).unwrap();
            std::mem::forget(subj);
            return true;
        }
        let wa = subj.weak_audit(limit);
        writeln!(
            t.out,
            "O {} | {} | {} | {} {} {} {} | {}",
            join(&shown),
            join(&out),
            cb.len(),
            dk,
            dv,
            dd,
            ledger_live(),
            join(&wa)
        )
        .unwrap();
        if wa.chunks(3).any(|c| c[0] != 0) || dd != 0 {
            // the weak invariant is broken or something was dropped twice: going on would be undefined behaviour
            t.out.flush().unwrap();
            std::mem::forget(subj);
            return false;
        }
    }
    let inject = faults.iter().find(|f| f.0 == ops.len()).map(|f| f.1);
    let shown: Ints = match inject {
        Some(i) => vec![97, i as i128, 99],
        None => vec![99],
    };
    crate::runner::beat_op(&shown);
    set_fuse(inject);
    let mut slot = Some(subj);
    let r = tracked(&mut || drop(slot.take()));
    set_fuse(None);
    let (dk, dv, dd, _) = ledger_drain();
    let poison = alloc::scan_quarantine(qmark);
    writeln!(
        t.out,
        "O {} | {} {} {} {} {} {} | 0 | 0 0 0 0 | ",
        join(&shown),
        dk,
        dv,
        dd,
        ledger_live(),
        if r.is_ok() { 0 } else { -1000 },
        poison
    )
    .unwrap();
    true
}
